#!/bin/bash
# For every repaired defect recorded in known_findings.txt ("fixed: property=<id> <commit> ...") the repair is reverted in a
# scratch worktree (git revert --no-commit; skipped when later commits touch the same lines) and the property's quick check
# is run against that tree through tools/seedtest_ns.sh (/repo itself untouched). A check that was extended to report the
# defect before it was repaired has to report it again. Writes seeded/REVERTS.md.
cd /verif
out=seeded/REVERTS.md
mkdir -p /tmp/revm
echo "| property | reverted repair | check exit | violations | first violation key |" > $out.tmp
echo "|---|---|---|---|---|" >> $out.tmp
grep -a "^fixed:" known_findings.txt | while read -r _ prop commit rest; do
  id=${prop#property=}
  [ -n "$ONLY" ] && ! echo " $ONLY " | grep -q " $commit " && continue
  wt=/tmp/revm/wt-$commit
  git -C /repo worktree add -q --detach $wt HEAD || continue
  if git -C $wt revert --no-commit $commit > /dev/null 2>&1; then
    mkdir -p /tmp/revm/$commit; git -C $wt diff HEAD > /tmp/revm/$commit/patch.diff
    subj=$(git -C /repo log --format=%s -1 $commit | cut -c1-90 | tr '|' '/')
    git -C /repo worktree remove --force $wt
    LINES_MAX=4 tools/seedtest_ns.sh $id /tmp/revm/$commit/patch.diff quick > /tmp/revm/$commit/log 2>&1
    rc=$(grep -a '^exit=' /tmp/revm/$commit/log | cut -d= -f2)
    nv=$(grep -a '^violations:' /tmp/revm/$commit/log | cut -d' ' -f2)
    key=$(grep -a "^  key=" /tmp/revm/$commit/log | head -1 | cut -c7-110 | tr '|' '/')
    echo "| $id | $commit $subj | $rc | $nv | $key |" >> $out.tmp
  else
    git -C $wt revert --abort > /dev/null 2>&1
    git -C /repo worktree remove --force $wt
    echo "| $id | $commit | - | - | revert conflicts with later commits |" >> $out.tmp
  fi
  rm -rf /tmp/revm/$commit
done
mv $out.tmp $out
rm -rf /tmp/revm
cat $out
