#!/bin/bash
# usage: tools/seedtest_ns.sh <check id> <patch file> [tier]
# Runs a check against a seeded change WITHOUT touching /repo: a scratch worktree of /repo HEAD gets the patch and is
# bind-mounted over /repo inside a private mount namespace (so may run while other checks use the real /repo).
# Evidence and replays of the run go to a scratch directory, not to /verif.
id=$1; patch=$(realpath "$2"); tier=${3:-quick}
name=$(basename $(dirname "$patch"))-$id-$$
wt=/tmp/seedns/$name
mkdir -p /tmp/seedns
git -C /repo worktree add -q --detach $wt/repo HEAD || exit 2
mkdir -p $wt/evidence $wt/replays
# the harness sources are snapshotted too, so that /verif/h may be edited while a run is in progress
cp -r /verif/h $wt/h; cp -r /verif/hhz $wt/hhz
if ! git -C $wt/repo apply "$patch"; then echo "PATCH DOES NOT APPLY"; git -C /repo worktree remove --force $wt/repo; rm -rf $wt; exit 3; fi
unshare -m bash -c "mount --bind $wt/repo /repo && mount --bind $wt/h /verif/h && mount --bind $wt/hhz /verif/hhz && mount --bind $wt/evidence /verif/evidence && mkdir -p /verif/replays && mount --bind $wt/replays /verif/replays && cd /verif && ./verif check $id --tier $tier" > $wt/log 2>&1
rc=$?
grep -ac "^VIOLATION" $wt/log | sed "s/^/violations: /"
grep -a -A2 "^VIOLATION\|HARNESS" $wt/log | cut -c1-400 | head -${LINES_MAX:-12}
tail -1 $wt/log | cut -c1-300
echo "exit=$rc"
cp $wt/log /tmp/seedns-last-$id.log; git -C /repo worktree remove --force $wt/repo; rm -rf $wt
