#!/bin/bash
# usage: tools/seedtest.sh <check id> <patch file> [tier]   -- applies a seeded change to /repo, runs the check, reverts.
id=$1; patch=$2; tier=${3:-quick}
cd /repo || exit 2
if [ -n "$(git status --porcelain)" ]; then echo "/repo not clean"; exit 2; fi
git apply "$patch" || { echo "PATCH DOES NOT APPLY"; exit 3; }
cd /verif && ./verif check $id --tier $tier > /tmp/seedtest.$$.log 2>&1
rc=$?
git -C /repo checkout -- . && git -C /repo clean -fdq
grep -c "^VIOLATION" /tmp/seedtest.$$.log | sed "s/^/violations: /"
grep -A2 "^VIOLATION\|HARNESS" /tmp/seedtest.$$.log | cut -c1-400 | head -${LINES_MAX:-12}
tail -1 /tmp/seedtest.$$.log | cut -c1-300
rm -f /tmp/seedtest.$$.log
echo "exit=$rc"
