#!/bin/bash
# The whole matrix in about 100 minutes: the seeds of the checks with an internal time budget (C10 C13 C06 C16) one after
# the other on the whole machine, then the others in two lanes of eight cores each. Writes seeded/RESULTS.md.
cd /verif
heavy=""; a=""; b=""; i=0
for d in seeded/C*-*/; do
  n=$(basename $d)
  case $n in C10-*|C13-*|C06-*|C16-*|C12-a|C02-b) heavy="$heavy $n";; *) i=$((i+1)); if [ $((i%2)) = 0 ]; then a="$a $n"; else b="$b $n"; fi;; esac
done
mkdir -p /tmp/sml
ONLY="$heavy" OUT=/tmp/sml/heavy.md tools/seed_matrix.sh > /dev/null 2>&1
VERIF_WORKERS=8 ONLY="$a" OUT=/tmp/sml/a.md tools/seed_matrix.sh > /dev/null 2>&1 &
VERIF_WORKERS=8 ONLY="$b" OUT=/tmp/sml/b.md tools/seed_matrix.sh > /dev/null 2>&1 &
wait
(head -2 /tmp/sml/heavy.md; (tail -n +3 /tmp/sml/heavy.md; tail -n +3 /tmp/sml/a.md; tail -n +3 /tmp/sml/b.md) | sort) > seeded/RESULTS.md
rm -rf /tmp/sml
echo "rows: $(grep -c '^| C' seeded/RESULTS.md)  undetected: $(grep '^| C' seeded/RESULTS.md | awk -F'|' '$4 ~ / 0 /' | wc -l)"
