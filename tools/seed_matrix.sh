#!/bin/bash
# Runs every kept seeded change (seeded/<ID>-<v>/patch.diff) against the quick check of its property (and listed extra checks)
# through tools/seedtest_ns.sh (scratch worktree bind-mounted over /repo in a private mount namespace: /repo itself is
# never modified, evidence and replays of these runs are discarded). Writes seeded/RESULTS.md.
cd /verif
out=${OUT:-seeded/RESULTS.md}   # OUT: write a part of the matrix elsewhere (parallel lanes; VERIF_WORKERS limits the cores of a lane)
echo "| seeded change | check | exit | violations | first violation key |" > $out.tmp
echo "|---|---|---|---|---|" >> $out.tmp
for d in seeded/C*-*/; do
  n=$(basename $d); id=${n%-*}
  [ -n "$ONLY" ] && ! echo " $ONLY " | grep -q " $n " && continue
  checks=$id
  case $n in C01-b|C01-h) checks="C01 C14";; C02-b) checks="C02 C13";; C12-a) checks="C12 C06";; C11-c) checks="C11 C14";; C18-c) checks="C18";; C19-e) checks="C19 C09S";; C01-j) checks="C01 C14";; C09-k) checks="C09 C14";; C10-j) checks="C10 C09";; esac
  for ck in $checks; do
    LINES_MAX=4 tools/seedtest_ns.sh $ck $d/patch.diff quick > /tmp/sm.$n.$ck.log 2>&1
    rc=$(grep -a '^exit=' /tmp/sm.$n.$ck.log | cut -d= -f2)
    nv=$(grep -a '^violations:' /tmp/sm.$n.$ck.log | cut -d' ' -f2)
    key=$(grep -a "^  key=" /tmp/sm.$n.$ck.log | head -1 | cut -c7-120 | tr '|' '/')
    echo "| $n | $ck | $rc | $nv | $key |" >> $out.tmp
    rm -f /tmp/sm.$n.$ck.log
  done
done
mv $out.tmp $out
cat $out
