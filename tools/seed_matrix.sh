#!/bin/bash
# Runs every kept seeded change (seeded/<ID>-<v>/patch.diff) against the quick check of its property (and listed extra checks),
# applying it to /repo and reverting it straight afterwards. Writes seeded/RESULTS.md.
cd /verif
out=seeded/RESULTS.md
echo "| seeded change | check | exit | violations | first violation key |" > $out.tmp
echo "|---|---|---|---|---|" >> $out.tmp
for d in seeded/C*-*/; do
  n=$(basename $d); id=${n%-*}
  checks=$id
  case $n in C01-b) checks="C01 C14";; C02-b) checks="C02 C13";; C12-a) checks="C12 C06";; C03-a) checks="C03";; esac
  for ck in $checks; do
    cd /repo; if [ -n "$(git status --porcelain)" ]; then echo "/repo dirty"; exit 2; fi
    if ! git apply /verif/$d/patch.diff 2>/dev/null; then echo "| $n | $ck | patch does not apply | | |" >> /verif/$out.tmp; cd /verif; continue; fi
    cd /verif; ./verif check $ck --tier quick > /tmp/sm.log 2>&1; rc=$?
    git -C /repo checkout -- . ; git -C /repo clean -fdq
    nv=$(grep -ac "^VIOLATION" /tmp/sm.log)
    key=$(grep -a "^  key=" /tmp/sm.log | head -1 | cut -c7-120 | tr '|' '/')
    echo "| $n | $ck | $rc | $nv | $key |" >> $out.tmp
  done
done
mv $out.tmp $out
cat $out
