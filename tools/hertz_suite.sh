#!/bin/bash
# usage: tools/hertz_suite.sh <tree> <log>  - runs hertz's own test suite (both modules, guard off) in <tree>;
# prints the failing tests. The 4 hz tests TestIdlGenerator_GenModel(+#00), TestPlugin_Handle, TestRun fail on the pinned tree too.
export GOFLAGS=-mod=mod GOPROXY=off GOSUMDB=off GOTOOLCHAIN=local
tree=$1; log=$2; : > $log
for m in . ./cmd/hz; do (cd $tree/$m && go test -mod=mod -vet=off -count=1 -timeout 25m ./... ) >> $log 2>&1; done
grep -a "^--- FAIL\|^FAIL\|panic:" $log | sort | uniq -c
echo "suite done"
