#!/bin/bash
# usage: tools/benign_matrix.sh <dir with <k>/patch.diff> <out file> <check id>...
# Runs the quick tier of the given checks against behaviour-preserving patches (private mount namespace, /repo untouched).
# Every line must end in "exit=0 violations: 0": anything else is a false alarm of the machinery.
dir=$1; out=$2; shift 2
for p in $dir/*/patch.diff; do
  k=$(basename $(dirname $p))
  for id in "$@"; do
    r=$($(dirname $0)/seedtest_ns.sh $id $p quick 2>&1 | tr '\n' ' ' | cut -c1-300)
    echo "$(basename $dir)/$k $id $r" >> $out
  done
done
echo DONE >> $out
