#!/bin/bash
# usage: tools/verify_seed.sh <cNN> <a|b>   (reads /tmp/seed/<cNN>/<v>/, writes /verif/seeded/<CNN>-<v>/)
# Confirms in a scratch worktree of /repo HEAD: patch applies, repo tests pass with it, demo fails with it and passes without it.
export GOFLAGS=-mod=mod GOPROXY=off GOSUMDB=off GOTOOLCHAIN=local MOCKEY_CHECK_GCFLAGS=false
p=$1; v=$2
src=${SEED_SRC:-/tmp/seed}/$p/$v
dv=${SEED_DST_V:-$v}
ID=$(echo $p | tr c C)
dst=/verif/seeded/$ID-$dv
sw=/tmp/sw-$p$dv
[ -f $src/patch.diff ] || { echo "$p $v: no patch"; exit 1; }
demo=$(ls $src/demo_test.go 2>/dev/null)
[ -n "$demo" ] || { echo "$p $v: no demo"; exit 1; }
dir=$(head -3 $demo | grep -oE '(pkg|cmd|internal)/[A-Za-z0-9_/]+' | head -1 | sed 's:/$::; s:/[A-Za-z0-9_]*_test$::')
tests=$(grep -oE '^func (Test[A-Za-z0-9_]+)' $demo | awk '{print $2}' | paste -sd'|')
git -C /repo worktree add -q --detach $sw HEAD || exit 2
cd $sw
res_apply=ok; git apply $src/patch.diff 2>/tmp/apply.$p$v.err || res_apply=FAIL
moddir=.
case $dir in cmd/hz/*) moddir=cmd/hz;; esac
rel=${dir#cmd/hz/}
[ $moddir = . ] && rel=$dir
run_demo() { (cd $sw/$moddir && go test -tags verif -vet=off -count=1 -run "^($tests)\$" ./$rel/ > /tmp/demo.$p$v.$1.log 2>&1; echo $?); }
if [ $res_apply = ok ]; then
  cp $demo $sw/$dir/zz_seed_demo_test.go
  with=$(run_demo with)
  rm $sw/$dir/zz_seed_demo_test.go
  (cd $sw/$moddir && go build ./... && go test -vet=off -count=1 -timeout 25m ./... > /tmp/suite.$p$v.log 2>&1)
  suite_fail=$(grep -E "^\s*--- FAIL|build failed|^panic:" /tmp/suite.$p$v.log | grep -v "TestIdlGenerator_GenModel\|TestPlugin_Handle\|TestRun\b" | head -5 | tr '\n' ';')
  git checkout -q -- . ; git clean -fdq
  cp $demo $sw/$dir/zz_seed_demo_test.go
  without=$(run_demo without)
else
  with=NA; without=NA; suite_fail="patch does not apply: $(head -2 /tmp/apply.$p$v.err | tr '\n' ' ')"
fi
cd /; git -C /repo worktree remove --force $sw
mkdir -p $dst
cp $src/patch.diff $dst/patch.diff; cp $demo $dst/demo_test.go.txt; [ -f $src/NOTES.md ] && cp $src/NOTES.md $dst/NOTES.md
python3 - "$ID" "$dv" "$dir" "$tests" "$res_apply" "$with" "$without" "$suite_fail" "$dst" <<'PY'
import json,sys
ID,v,d,tests,ap,w,wo,sf,dst=sys.argv[1:]
ok = ap=="ok" and w not in ("0","NA") and wo=="0" and sf==""
json.dump({"property":ID,"variant":v,"demo_dir":d,"demo_tests":tests,"base":"scratch worktree of /repo HEAD (with the fix: commits)",
 "patch_applies":ap=="ok","demo_exit_with_patch":w,"demo_exit_without_patch":wo,"repo_suite_failures_with_patch":sf,
 "confirmed":ok,
 "ran":["git apply patch.diff","go test -run demo (with patch)","go build ./... && go test -vet=off -count=1 ./... (with patch, demo removed)","go test -run demo (without patch)"]},
 open(dst+"/meta.json","w"),indent=1)
print(ID,v,"confirmed" if ok else "NOT CONFIRMED", "apply=",ap,"with=",w,"without=",wo,"suite_fail=",sf)
PY
