module verifh

go 1.19

require github.com/cloudwego/hertz v0.0.0

require github.com/bytedance/gopkg v0.1.0 // indirect

replace github.com/cloudwego/hertz => /repo
