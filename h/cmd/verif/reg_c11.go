package main

import "verifh/checks/c11"

func init() { registry["C11"] = c11.Check }
