package main

import "verifh/checks/c19"

func init() { registry["C19"] = c19.Check }
