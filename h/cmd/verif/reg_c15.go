package main

import "verifh/checks/c15"

func init() { registry["C15"] = c15.Check }
