package main

import "verifh/checks/c17"

func init() { registry["C17"] = c17.Check }
