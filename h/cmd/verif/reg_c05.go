package main

import "verifh/checks/c05"

func init() { registry["C05"] = c05.Check }
