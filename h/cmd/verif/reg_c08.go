package main

import "verifh/checks/c08"

func init() { registry["C08"] = c08.Check }
