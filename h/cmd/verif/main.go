// Command verif runs one property check: verif check <id> [--tier quick|thorough] | verif replay <file>
package main

import (
	"encoding/json"
	"fmt"
	"os"
	"runtime/pprof"
	"strings"

	"verifh/mc"
)

func usage() {
	fmt.Println("usage: verif check <id> [--tier quick|thorough] | verif replay <file> | verif list")
	os.Exit(2)
}

func main() {
	if len(os.Args) < 2 {
		usage()
	}
	switch os.Args[1] {
	case "list":
		for id := range registry {
			fmt.Println(id)
		}
	case "check":
		if len(os.Args) < 3 {
			usage()
		}
		id := strings.ToUpper(os.Args[2])
		tier := os.Getenv("VERIF_TIER")
		for i := 3; i < len(os.Args); i++ {
			if os.Args[i] == "--tier" && i+1 < len(os.Args) {
				tier = os.Args[i+1]
			}
		}
		if tier != "thorough" {
			tier = "quick"
		}
		ch := registry[id]
		if ch == nil {
			fmt.Println("unknown check", id)
			os.Exit(2)
		}
		if pf := os.Getenv("VERIF_CPUPROFILE"); pf != "" {
			// debugging aid: CPU profile of the run
			if f, err := os.Create(pf); err == nil {
				pprof.StartCPUProfile(f) //nolint:errcheck
				rc := mc.RunCheck(ch, tier)
				pprof.StopCPUProfile()
				f.Close()
				os.Exit(rc)
			}
		}
		os.Exit(mc.RunCheck(ch, tier))
	case "note":
		// note <id> <key> <json>: adds a side note to coverage of an evidence file (used for the race-detector side pass)
		if len(os.Args) < 5 {
			usage()
		}
		p := mc.Root + "/evidence/" + strings.ToUpper(os.Args[2]) + ".json"
		b, err := os.ReadFile(p)
		if err != nil {
			fmt.Println(err)
			os.Exit(2)
		}
		var ev map[string]interface{}
		var val interface{}
		if json.Unmarshal(b, &ev) != nil || json.Unmarshal([]byte(os.Args[4]), &val) != nil {
			fmt.Println("bad json")
			os.Exit(2)
		}
		if cov, ok := ev["coverage"].(map[string]interface{}); ok {
			cov[os.Args[3]] = val
		}
		out, _ := json.MarshalIndent(ev, "", " ")
		os.WriteFile(p, out, 0o644) //nolint:errcheck
	case "replay":
		if len(os.Args) < 3 {
			usage()
		}
		b, err := os.ReadFile(os.Args[2])
		if err != nil {
			fmt.Println(err)
			os.Exit(2)
		}
		var rf struct {
			Property string `json:"property"`
		}
		json.Unmarshal(b, &rf)
		ch := registry[rf.Property]
		if ch == nil || ch.Replay == nil {
			fmt.Println("no replay for property", rf.Property)
			os.Exit(2)
		}
		os.Exit(mc.RunReplay(ch, os.Args[2]))
	default:
		usage()
	}
}
