package main

import "verifh/checks/c20"

func init() { registry["C20"] = c20.Check }
