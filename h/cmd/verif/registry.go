package main

import (
	"verifh/checks/c01"
	"verifh/checks/c02"
	"verifh/checks/c03"
	"verifh/checks/c07"
	"verifh/checks/c14"
	"verifh/mc"
)

var registry = map[string]*mc.Check{
	"C01": c01.Check,
	"C02": c02.Check,
	"C03": c03.Check,
	"C07": c07.Check,
	"C14": c14.Check,
}
