package main

import (
	"verifh/checks/c07"
	"verifh/mc"
)

var registry = map[string]*mc.Check{
	"C07": c07.Check,
}
