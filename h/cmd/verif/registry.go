package main

import (
	"verifh/checks/c01"
	"verifh/checks/c07"
	"verifh/mc"
)

var registry = map[string]*mc.Check{
	"C01": c01.Check,
	"C07": c07.Check,
}
