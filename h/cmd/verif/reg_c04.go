package main

import "verifh/checks/c04"

func init() { registry["C04"] = c04.Check }
