package main

import "verifh/checks/c06"

func init() { registry["C06"] = c06.Check }
