package main

import "verifh/checks/c09"

func init() { registry["C09"] = c09.Check }
