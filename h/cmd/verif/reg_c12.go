package main

import "verifh/checks/c12"

func init() { registry["C12"] = c12.Check }
