package main

import "verifh/checks/c13"

func init() { registry["C13"] = c13.Check }
