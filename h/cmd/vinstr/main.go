// Command vinstr rewrites hertz source files so that every synchronisation, channel, goroutine
// and time operation goes through the controlled runtime verifrt, and writes a `go build -overlay`
// file that (1) replaces the originals by the rewritten copies, (2) mounts the verifrt package into
// the hertz module and (3) adds harness-side helper files. /repo is never touched.
//
//	vinstr -repo /repo -out <dir> -verifrt <dir of verifrt sources> [-extra pkgdir=file ...] file.go ...
//
// An unsupported construct is a hard error naming file:line.
package main

import (
	"bytes"
	"encoding/json"
	"flag"
	"fmt"
	"go/ast"
	"go/format"
	"go/parser"
	"go/token"
	"os"
	"path/filepath"
	"reflect"
	"strconv"
	"strings"
)

const rtPath = "github.com/cloudwego/hertz/verifrt"

type extras []string

func (e *extras) String() string     { return strings.Join(*e, ",") }
func (e *extras) Set(s string) error { *e = append(*e, s); return nil }

func main() {
	repo := flag.String("repo", "/repo", "hertz checkout")
	out := flag.String("out", "", "output directory")
	rt := flag.String("verifrt", "", "directory with the verifrt sources")
	var ex extras
	flag.Var(&ex, "extra", "relative-target-path=source-file to add to the overlay")
	flag.Parse()
	if *out == "" || *rt == "" {
		fmt.Fprintln(os.Stderr, "usage: vinstr -repo R -out O -verifrt V files...")
		os.Exit(2)
	}
	os.MkdirAll(*out, 0o755) //nolint:errcheck
	replace := map[string]string{}
	for i, rel := range flag.Args() {
		// "file.go:pool": sync.Pool of that file becomes the deterministic verifrt.Pool as well (not for files whose pools are
		// part of an exported signature, e.g. Engine.GetCtxPool)
		poolRewrite = strings.HasSuffix(rel, ":pool")
		rel = strings.TrimSuffix(rel, ":pool")
		src := filepath.Join(*repo, rel)
		dst := filepath.Join(*out, fmt.Sprintf("i%02d_%s", i, filepath.Base(rel)))
		if err := instrument(src, dst); err != nil {
			fmt.Fprintf(os.Stderr, "vinstr: %v\n", err)
			os.Exit(1)
		}
		replace[src] = dst
	}
	ents, _ := os.ReadDir(*rt)
	for _, e := range ents {
		n := e.Name()
		if strings.HasSuffix(n, ".go") && !strings.HasSuffix(n, "_test.go") {
			replace[filepath.Join(*repo, "verifrt", n)] = filepath.Join(*rt, n)
		}
	}
	for _, kv := range ex {
		i := strings.IndexByte(kv, '=')
		replace[filepath.Join(*repo, kv[:i])] = kv[i+1:]
	}
	b, _ := json.MarshalIndent(map[string]interface{}{"Replace": replace}, "", " ")
	if err := os.WriteFile(filepath.Join(*out, "overlay.json"), b, 0o644); err != nil {
		fmt.Fprintln(os.Stderr, err)
		os.Exit(1)
	}
}

var poolRewrite bool

type inst struct {
	fset  *token.FileSet
	file  string
	names map[string]string // import path -> local name
	err   error
	raw   map[ast.Node]bool // receive expressions that must stay raw (already guarded by Select)
	used  bool
	tmp   int
}

func (in *inst) fail(n ast.Node, msg string) {
	if in.err == nil {
		in.err = fmt.Errorf("%s: unsupported construct: %s", in.fset.Position(n.Pos()), msg)
	}
}

func rtSel(name string) ast.Expr {
	return &ast.SelectorExpr{X: ast.NewIdent("verifrt"), Sel: ast.NewIdent(name)}
}

func call(fn ast.Expr, args ...ast.Expr) *ast.CallExpr { return &ast.CallExpr{Fun: fn, Args: args} }

var atomicFns = map[string]bool{"AddInt32": true, "AddInt64": true, "AddUint32": true, "AddUint64": true, "LoadInt32": true, "LoadInt64": true, "LoadUint32": true, "LoadUint64": true,
	"StoreInt32": true, "StoreInt64": true, "StoreUint32": true, "StoreUint64": true, "CompareAndSwapInt32": true, "CompareAndSwapUint32": true, "CompareAndSwapInt64": true}
var syncTypes = map[string]bool{"Mutex": true, "RWMutex": true, "WaitGroup": true}
var timeFns = map[string]bool{"Now": true, "Since": true, "Until": true, "Sleep": true, "NewTimer": true, "NewTicker": true, "After": true, "AfterFunc": true, "Timer": true, "Ticker": true}
var timerFns = map[string]bool{"AcquireTimer": true, "ReleaseTimer": true}
var ctxFns = map[string]bool{"WithTimeout": true, "WithCancel": true}

func (in *inst) pkgOf(x ast.Expr) string {
	id, ok := x.(*ast.Ident)
	if !ok || id.Obj != nil { // a local object shadows the package name
		return ""
	}
	for path, name := range in.names {
		if name == id.Name {
			return path
		}
	}
	return ""
}

// expr rewrites one expression node (children already rewritten).
func (in *inst) expr(e ast.Expr) ast.Expr {
	switch x := e.(type) {
	case *ast.SelectorExpr:
		switch in.pkgOf(x.X) {
		case "sync":
			if syncTypes[x.Sel.Name] || (poolRewrite && x.Sel.Name == "Pool") {
				in.used = true
				return rtSel(x.Sel.Name)
			}
			if x.Sel.Name == "Cond" {
				in.fail(x, "sync.Cond")
			}
		case "sync/atomic":
			if atomicFns[x.Sel.Name] {
				in.used = true
				return rtSel(x.Sel.Name)
			}
			if x.Sel.Name != "Value" {
				in.fail(x, "atomic."+x.Sel.Name)
			}
		case "time":
			if timeFns[x.Sel.Name] {
				in.used = true
				return rtSel(x.Sel.Name)
			}
			if x.Sel.Name == "Tick" {
				in.fail(x, "time.Tick")
			}
		case "github.com/cloudwego/hertz/pkg/common/timer":
			if timerFns[x.Sel.Name] {
				in.used = true
				return rtSel(x.Sel.Name)
			}
		case "net":
			if x.Sel.Name == "Listen" {
				in.used = true
				return rtSel("Listen")
			}
		case "context":
			if ctxFns[x.Sel.Name] {
				in.used = true
				return rtSel(x.Sel.Name)
			}
			if x.Sel.Name == "WithDeadline" {
				in.fail(x, "context.WithDeadline")
			}
		}
	case *ast.UnaryExpr:
		if x.Op == token.ARROW && !in.raw[x] {
			in.used = true
			return call(rtSel("Recv"), x.X)
		}
	case *ast.CallExpr:
		if id, ok := x.Fun.(*ast.Ident); ok && id.Name == "close" && id.Obj == nil && len(x.Args) == 1 {
			in.used = true
			return call(rtSel("Close"), x.Args[0])
		}
	}
	return e
}

func funcName(e ast.Expr) string {
	switch x := e.(type) {
	case *ast.Ident:
		return x.Name
	case *ast.SelectorExpr:
		return x.Sel.Name
	case *ast.FuncLit:
		return "func"
	}
	return "go"
}

// stmt rewrites one statement; it may return a replacement (children are handled here, top-down, for
// select and go; everything else has its children rewritten by walk).
func (in *inst) stmt(s ast.Stmt) ast.Stmt {
	switch x := s.(type) {
	case *ast.GoStmt:
		in.used = true
		var pre []ast.Stmt
		c := x.Call
		args := make([]ast.Expr, len(c.Args))
		for i, a := range c.Args {
			in.tmp++
			id := ast.NewIdent(fmt.Sprintf("verifGoArg%d", in.tmp))
			pre = append(pre, &ast.AssignStmt{Lhs: []ast.Expr{id}, Tok: token.DEFINE, Rhs: []ast.Expr{in.walkExpr(a)}})
			args[i] = id
		}
		fn := c.Fun
		if fl, ok := fn.(*ast.FuncLit); ok {
			in.walk(fl.Body)
		} else {
			fn = in.walkExpr(fn)
		}
		inner := &ast.CallExpr{Fun: fn, Args: args, Ellipsis: c.Ellipsis}
		var body ast.Expr
		if fl, ok := fn.(*ast.FuncLit); ok && len(args) == 0 {
			body = fl
		} else {
			body = &ast.FuncLit{Type: &ast.FuncType{Params: &ast.FieldList{}}, Body: &ast.BlockStmt{List: []ast.Stmt{&ast.ExprStmt{X: inner}}}}
		}
		g := &ast.ExprStmt{X: call(rtSel("Go"), &ast.BasicLit{Kind: token.STRING, Value: strconv.Quote(funcName(c.Fun))}, body)}
		if len(pre) == 0 {
			return g
		}
		return &ast.BlockStmt{List: append(pre, g)}
	case *ast.DeferStmt:
		// the deferred call itself (its field is a *ast.CallExpr, which the generic walk only descends into):
		// `defer close(ch)` must become `defer verifrt.Close(ch)` like any other close
		in.walk(x.Call)
		if r, ok := in.expr(x.Call).(*ast.CallExpr); ok {
			x.Call = r
		}
		return x
	case *ast.SendStmt:
		in.used = true
		return &ast.ExprStmt{X: call(rtSel("Send"), in.walkExpr(x.Chan), in.walkExpr(x.Value))}
	case *ast.AssignStmt:
		// v, ok := <-ch
		if len(x.Lhs) == 2 && len(x.Rhs) == 1 {
			if u, ok := x.Rhs[0].(*ast.UnaryExpr); ok && u.Op == token.ARROW {
				in.used = true
				x.Rhs[0] = call(rtSel("Recv2"), in.walkExpr(u.X))
				for i := range x.Lhs {
					x.Lhs[i] = in.walkExpr(x.Lhs[i])
				}
				return x
			}
		}
	case *ast.SelectStmt:
		return in.selectStmt(x)
	case *ast.RangeStmt:
		if x.X != nil {
			// ranging over a channel would block outside the scheduler
			if u, ok := x.X.(*ast.UnaryExpr); ok && u.Op == token.ARROW {
				in.fail(x, "range over channel receive")
			}
		}
	}
	return nil
}

func (in *inst) selectStmt(x *ast.SelectStmt) ast.Stmt {
	in.used = true
	var cases []ast.Expr
	hasDefault := false
	sw := &ast.SwitchStmt{Body: &ast.BlockStmt{}}
	idx := 0
	for _, cl := range x.Body.List {
		cc := cl.(*ast.CommClause)
		var body []ast.Stmt
		var caseList []ast.Expr
		if cc.Comm == nil {
			hasDefault = true
			caseList = nil // "default:" (Select returns -1), keeps the statement terminating when the select was
		} else {
			caseList = []ast.Expr{&ast.BasicLit{Kind: token.INT, Value: strconv.Itoa(idx)}}
			idx++
			switch c := cc.Comm.(type) {
			case *ast.ExprStmt:
				u, ok := c.X.(*ast.UnaryExpr)
				if !ok || u.Op != token.ARROW {
					in.fail(c, "select case")
					continue
				}
				u.X = in.walkExpr(u.X)
				in.raw[u] = true
				cases = append(cases, call(rtSel("RecvCase"), u.X))
				body = append(body, c)
			case *ast.AssignStmt:
				u, ok := c.Rhs[0].(*ast.UnaryExpr)
				if !ok || u.Op != token.ARROW {
					in.fail(c, "select case")
					continue
				}
				u.X = in.walkExpr(u.X)
				in.raw[u] = true
				cases = append(cases, call(rtSel("RecvCase"), u.X))
				body = append(body, c)
				// avoid "declared and not used" for case v := <-ch with an unused v
				if c.Tok == token.DEFINE {
					for _, l := range c.Lhs {
						if id, ok := l.(*ast.Ident); ok && id.Name != "_" {
							body = append(body, &ast.AssignStmt{Lhs: []ast.Expr{ast.NewIdent("_")}, Tok: token.ASSIGN, Rhs: []ast.Expr{ast.NewIdent(id.Name)}})
						}
					}
				}
			case *ast.SendStmt:
				c.Chan = in.walkExpr(c.Chan)
				c.Value = in.walkExpr(c.Value)
				cases = append(cases, call(rtSel("SendCase"), c.Chan))
				body = append(body, c) // the raw send cannot block: Select found room
			default:
				in.fail(cc, "select case")
			}
		}
		for _, st := range cc.Body {
			body = append(body, in.walkStmt(st))
		}
		sw.Body.List = append(sw.Body.List, &ast.CaseClause{List: caseList, Body: body})
	}
	if !hasDefault {
		sw.Body.List = append(sw.Body.List, &ast.CaseClause{Body: []ast.Stmt{&ast.ExprStmt{X: call(ast.NewIdent("panic"), &ast.BasicLit{Kind: token.STRING, Value: strconv.Quote("verifrt.Select returned no case")})}}})
	}
	args := []ast.Expr{ast.NewIdent(strconv.FormatBool(hasDefault))}
	args = append(args, cases...)
	sw.Tag = call(rtSel("Select"), args...)
	return sw
}

var (
	exprT = reflect.TypeOf((*ast.Expr)(nil)).Elem()
	stmtT = reflect.TypeOf((*ast.Stmt)(nil)).Elem()
)

func (in *inst) walkExpr(e ast.Expr) ast.Expr {
	if e == nil {
		return nil
	}
	in.walk(e)
	return in.expr(e)
}

func (in *inst) walkStmt(s ast.Stmt) ast.Stmt {
	if s == nil {
		return nil
	}
	if r := in.stmt(s); r != nil {
		return r
	}
	in.walk(s)
	return s
}

// walk rewrites the children of n in place (generic over the ast node structs).
func (in *inst) walk(n ast.Node) {
	v := reflect.ValueOf(n)
	if v.Kind() != reflect.Ptr || v.IsNil() {
		return
	}
	v = v.Elem()
	if v.Kind() != reflect.Struct {
		return
	}
	for i := 0; i < v.NumField(); i++ {
		f := v.Field(i)
		if !f.CanSet() {
			continue
		}
		switch {
		case f.Type() == exprT:
			if !f.IsNil() {
				f.Set(reflect.ValueOf(in.walkExpr(f.Interface().(ast.Expr))))
			}
		case f.Type() == stmtT:
			if !f.IsNil() {
				f.Set(reflect.ValueOf(in.walkStmt(f.Interface().(ast.Stmt))))
			}
		case f.Kind() == reflect.Slice:
			for j := 0; j < f.Len(); j++ {
				el := f.Index(j)
				switch {
				case el.Type() == exprT:
					if !el.IsNil() {
						el.Set(reflect.ValueOf(in.walkExpr(el.Interface().(ast.Expr))))
					}
				case el.Type() == stmtT:
					if !el.IsNil() {
						el.Set(reflect.ValueOf(in.walkStmt(el.Interface().(ast.Stmt))))
					}
				default:
					if nn, ok := el.Interface().(ast.Node); ok {
						in.walk(nn)
					}
				}
			}
		case f.Kind() == reflect.Ptr:
			if nn, ok := f.Interface().(ast.Node); ok && !f.IsNil() {
				if _, isObj := f.Interface().(*ast.Object); !isObj {
					in.walk(nn)
				}
			}
		case f.Kind() == reflect.Interface:
			if !f.IsNil() {
				if nn, ok := f.Interface().(ast.Node); ok {
					if _, isScope := nn.(*ast.File); !isScope {
						in.walk(nn)
					}
				}
			}
		}
	}
}

func instrument(src, dst string) error {
	fset := token.NewFileSet()
	f, err := parser.ParseFile(fset, src, nil, parser.ParseComments)
	if err != nil {
		return err
	}
	in := &inst{fset: fset, file: src, names: map[string]string{}, raw: map[ast.Node]bool{}}
	for _, im := range f.Imports {
		p, _ := strconv.Unquote(im.Path.Value)
		name := filepath.Base(p)
		if im.Name != nil {
			name = im.Name.Name
		}
		in.names[p] = name
	}
	for _, d := range f.Decls {
		in.walk(d)
	}
	if in.err != nil {
		return in.err
	}
	// imports: add verifrt, drop the ones that became unused
	usedPkg := map[string]bool{}
	ast.Inspect(f, func(n ast.Node) bool {
		if se, ok := n.(*ast.SelectorExpr); ok {
			if id, ok := se.X.(*ast.Ident); ok && id.Obj == nil {
				usedPkg[id.Name] = true
			}
		}
		return true
	})
	for _, d := range f.Decls {
		gd, ok := d.(*ast.GenDecl)
		if !ok || gd.Tok != token.IMPORT {
			continue
		}
		var specs []ast.Spec
		for _, sp := range gd.Specs {
			is := sp.(*ast.ImportSpec)
			p, _ := strconv.Unquote(is.Path.Value)
			name := in.names[p]
			if name == "_" || name == "." || usedPkg[name] {
				specs = append(specs, sp)
			}
		}
		if in.used {
			specs = append(specs, &ast.ImportSpec{Name: ast.NewIdent("verifrt"), Path: &ast.BasicLit{Kind: token.STRING, Value: strconv.Quote(rtPath)}})
			in.used = false
		}
		gd.Specs = specs
		if gd.Lparen == token.NoPos && len(specs) > 1 {
			gd.Lparen = gd.Pos()
			gd.Rparen = gd.End()
		}
	}
	var buf bytes.Buffer
	fmt.Fprintf(&buf, "// Code generated by vinstr from %s; DO NOT EDIT.\n\n", src)
	// comments are dropped (positions no longer match after rewriting); build tags of the original are kept
	for _, cg := range f.Comments {
		for _, c := range cg.List {
			if strings.HasPrefix(c.Text, "//go:build") && c.Pos() < f.Package {
				buf.WriteString(c.Text + "\n\n")
			}
		}
	}
	f.Comments = nil
	if err := format.Node(&buf, fset, f); err != nil {
		return fmt.Errorf("%s: printing: %v", src, err)
	}
	return os.WriteFile(dst, buf.Bytes(), 0o644)
}
