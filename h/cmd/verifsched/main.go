//go:build verifsched

// Command verifsched runs the schedule-exploring checks (C10, C18). It is built with
// `go build -overlay` so that the hertz files rewritten by vinstr and the verifrt runtime are in place.
//
//	verifsched check <id> [--tier quick|thorough]   parent: enumerates jobs, runs them in worker processes
//	verifsched worker <id>                          worker: reads jobs (JSON lines) on stdin, writes results on stdout
//	verifsched replay <file>
package main

import (
	"bufio"
	"encoding/json"
	"fmt"
	"os"
	"os/exec"
	"regexp"
	"runtime"
	"strings"
	"sync"
	"time"

	"github.com/cloudwego/hertz/verifrt"

	"verifh/mc"
	"verifh/sched/c09s"
	"verifh/sched/c10"
	"verifh/sched/c18"
)

type jobResult struct {
	Job        json.RawMessage `json:"job"`
	Executions int64           `json:"executions"`
	Points     int64           `json:"points"`
	Preemptive int64           `json:"preemptive"`
	Horizons   int64           `json:"horizons"`
	MaxDepth   int             `json:"max_depth"`
	Completed  bool            `json:"completed"`
	ByDev      map[int]int64   `json:"by_dev"`
	Violations []violation     `json:"violations"`
	Harness    string          `json:"harness,omitempty"`
	Outcomes   []string        `json:"outcomes,omitempty"`
}

type violation struct {
	Key      string   `json:"key"`
	Msg      string   `json:"msg"`
	Schedule []int    `json:"schedule"`
	Log      []string `json:"log,omitempty"`
}

// family is what a schedule check provides.
type family struct {
	check   *mc.Check
	jobs    func(thorough bool) []json.RawMessage
	explore func(raw json.RawMessage, deadline time.Time) jobResult
	replay  func(raw json.RawMessage) (violations []string, log []string)
}

var reDigits = regexp.MustCompile(`[0-9]+`)

func slug(msg string) string {
	s := reDigits.ReplaceAllString(msg, "N")
	if i := strings.IndexByte(s, '\n'); i >= 0 {
		s = s[:i]
	}
	if len(s) > 90 {
		s = s[:90]
	}
	return s
}

// ---- C10 ------------------------------------------------------------------------------------------

func c10Jobs(thorough bool) []json.RawMessage {
	scs := []c10.Scenario{
		{Name: "2x1-max2-nowait-closer", N: 2, M: 1, MaxConns: 2, Closer: true},
		{Name: "2x1-max1-nowait", N: 2, M: 1, MaxConns: 1},
		{Name: "2x1-max1-wait", N: 2, M: 1, MaxConns: 1, Wait: true},
		{Name: "2x2-max1-wait", N: 2, M: 2, MaxConns: 1, Wait: true},
		{Name: "3x1-max1-wait", N: 3, M: 1, MaxConns: 1, Wait: true},
		{Name: "3x1-max2-wait", N: 3, M: 1, MaxConns: 2, Wait: true},
		{Name: "2x2-max2-nowait", N: 2, M: 2, MaxConns: 2},
		{Name: "2x1-max1-wait-reqtimeout", N: 2, M: 1, MaxConns: 1, Wait: true, ReqTO: true},
		{Name: "2x1-max1-wait-shortreqtimeout", N: 2, M: 1, MaxConns: 1, Wait: true, ReqTO: true, ShortReqTO: true},
		{Name: "2x1-max1-wait-reqtimeout-shortreadtimeout", N: 2, M: 1, MaxConns: 1, Wait: true, ReqTO: true, ShortReadTO: true},
		{Name: "1x3-max1-reuse-head", N: 1, M: 3, MaxConns: 1, ReuseHead: true},
		{Name: "1x3-max1-maxconnduration", N: 1, M: 3, MaxConns: 1, MaxConnDur: true},
	}
	if thorough {
		scs = append(scs, c10.Scenario{Name: "3x2-max2-wait", N: 3, M: 2, MaxConns: 2, Wait: true})
	}
	var out []json.RawMessage
	only := os.Getenv("VERIF_C10_SCENARIO") // debugging aid: explore the scenarios whose name contains this text only
	add := func(j c10.Job) {
		if only != "" && !strings.Contains(j.Sc.Name, only) {
			return
		}
		b, _ := json.Marshal(j)
		out = append(out, b)
	}
	// the GetURL helper: one caller, three (thorough: two callers, two) calls in a row; every plan over {ok, ok+close, stall, slow}
	{
		sc := c10.Scenario{Name: "1x3-max2-geturl", N: 1, M: 3, MaxConns: 2, GetURL: true}
		gb := 1
		if thorough {
			gb = 2
		}
		ans := []int{c10.AOk, c10.AOkClose, c10.AStall, c10.ASlow}
		for _, a := range ans {
			for _, b := range ans {
				for _, c := range ans {
					add(c10.Job{Sc: sc, Plan: c10.Plan{Answers: []int{a, b, c, 0}}, Bound: gb})
				}
			}
		}
		if thorough {
			sc2 := c10.Scenario{Name: "2x2-max2-geturl", N: 2, M: 2, MaxConns: 2, GetURL: true}
			for _, a := range ans {
				for _, b := range ans {
					add(c10.Job{Sc: sc2, Plan: c10.Plan{Answers: []int{a, b, 0, 0, 0}}, Bound: 1})
				}
			}
		}
	}
	for _, sc := range scs {
		k := sc.N*sc.M + 1
		// deviation bounds: b1 for plans with at most one fault, b2 for two-fault / combined plans
		bound, b2 := 2, 1
		if sc.N*sc.M >= 3 {
			bound, b2 = 1, 0
		}
		if sc.N*sc.M >= 4 {
			bound, b2 = 1, 0
		}
		if thorough {
			bound, b2 = 2, 2
			if sc.N*sc.M <= 2 {
				bound, b2 = 3, 2
			}
			if sc.N*sc.M >= 6 {
				bound, b2 = 2, 1
			}
		}
		ok := make([]int, k)
		add(c10.Job{Sc: sc, Plan: c10.Plan{Answers: ok}, Bound: bound})
		if sc.Closer {
			// the closer thread multiplies the schedules: only the fault-free plan and "ok + close" on either exchange
			for i := 0; i < sc.N*sc.M; i++ {
				p := append([]int{}, ok...)
				p[i] = c10.AOkClose
				add(c10.Job{Sc: sc, Plan: c10.Plan{Answers: p}, Bound: bound})
			}
			continue
		}
		if sc.ShortReadTO {
			// the subject is the deadline arithmetic: plans with peers that stall or answer late only
			for _, a := range []int{c10.AStall, c10.ASlow} {
				for i := 0; i < k; i++ {
					p := append([]int{}, ok...)
					p[i] = a
					add(c10.Job{Sc: sc, Plan: c10.Plan{Answers: p}, Bound: bound})
				}
				for _, b := range []int{c10.AStall, c10.ASlow} {
					p := append([]int{}, ok...)
					p[0], p[1] = a, b
					add(c10.Job{Sc: sc, Plan: c10.Plan{Answers: p}, Bound: bound})
				}
			}
			continue
		}
		// one fault anywhere
		for i := 0; i < k; i++ {
			kinds := []int{1, 2, 3, 4, 5, 6}
			if thorough || sc.N*sc.M <= 2 {
				kinds = append(kinds, c10.AOkCloseCap, c10.AChunkedCut) // spelling / framing variants: on the two-call scenarios in the quick tier
			}
			if thorough || (sc.N*sc.M <= 2 && !sc.Wait) {
				kinds = append(kinds, c10.AOkCloseSplit, c10.AEarlyHints) // quick tier: on the plain two-call scenario
			}
			for _, a := range kinds {
				p := append([]int{}, ok...)
				p[i] = a
				add(c10.Job{Sc: sc, Plan: c10.Plan{Answers: p}, Bound: bound})
			}
		}
		// two faults
		for i := 0; i < k; i++ {
			for j := i + 1; j < k; j++ {
				for a := 1; a < 7; a++ {
					for b := 1; b < 7; b++ {
						p := append([]int{}, ok...)
						p[i], p[j] = a, b
						add(c10.Job{Sc: sc, Plan: c10.Plan{Answers: p}, Bound: b2})
					}
				}
			}
		}
		// dial errors and cancelled contexts, alone and combined with one fault on the first arrival
		for d := 0; d < sc.N*sc.M; d++ {
			add(c10.Job{Sc: sc, Plan: c10.Plan{Answers: ok, DialErr: []int{d}}, Bound: bound})
			for a := 1; a < 7; a++ {
				p := append([]int{}, ok...)
				p[0] = a
				add(c10.Job{Sc: sc, Plan: c10.Plan{Answers: p, DialErr: []int{d}}, Bound: b2})
			}
		}
		for cidx := 0; cidx < sc.N*sc.M; cidx++ {
			add(c10.Job{Sc: sc, Plan: c10.Plan{Answers: ok, Cancel: []int{cidx}}, Bound: bound})
		}
	}
	return out
}

func c10Explore(raw json.RawMessage, deadline time.Time) jobResult {
	var job c10.Job
	json.Unmarshal(raw, &job) //nolint:errcheck
	res := jobResult{Job: raw}
	seen := map[string]bool{}
	var cur *c10World
	// the closer scenario is about a thread that works on the idle list after releasing the pool lock: there the
	// release of the lock is a scheduling point too
	st := verifrt.Explore(job.Bound, verifrt.Options{MaxTimeAdvances: 12, UnlockPoints: job.Sc.Closer}, func() (func(), func()) {
		cur = c10.NewWorld(job)
		return cur.Body(), cur.OnPoint
	}, func(r *verifrt.Result, dev int) bool {
		viol := cur.Violations(r)
		if r.Diverged != "" {
			res.Harness = "nondeterministic replay: " + r.Diverged
			return false
		}
		if r.Hung {
			res.Harness = "execution hung outside the scheduler: " + strings.Join(r.Log, "\n")
			return false
		}
		for _, v := range viol {
			k := job.Sc.Name + "|" + slug(v)
			if !seen[k] && len(res.Violations) < 6 {
				seen[k] = true
				res.Violations = append(res.Violations, violation{Key: k, Msg: v, Schedule: r.Choices()})
			}
		}
		return true
	}, func() bool { return time.Now().After(deadline) })
	res.Executions, res.Points, res.Preemptive, res.Horizons, res.MaxDepth, res.Completed, res.ByDev = st.Executions, st.Points, st.Preemptive, st.Horizons, st.MaxDepth, st.Completed, st.ByDeviations
	return res
}

type c10World = c10.World

func c10Replay(raw json.RawMessage) ([]string, []string) {
	var job c10.Job
	json.Unmarshal(raw, &job) //nolint:errcheck
	r, viol := c10.RunOne(job, job.Schedule, true)
	return viol, append(verifrt.Describe(r), r.Log...)
}

// ---- C18 ------------------------------------------------------------------------------------------

func c18Jobs(thorough bool) []json.RawMessage {
	ms, sec := time.Millisecond, time.Second
	long, short := 10*sec, 1*sec
	cl := func(shape string, hd, gap time.Duration) c18.Client {
		return c18.Client{Shape: shape, HandlerDelay: hd, Gap: gap}
	}
	scs := []c18.Scenario{
		{Name: "busy-fast-handler", Clients: []c18.Client{cl(c18.Busy, 0, 0)}, ExitWait: long, Hooks: []time.Duration{0}},
		{Name: "busy-500ms-handler", Clients: []c18.Client{cl(c18.Busy, 500*ms, 0)}, ExitWait: long, Hooks: []time.Duration{0}},
		{Name: "busy-handler-outlasts-exitwait", Clients: []c18.Client{cl(c18.Busy, 2*sec, 0)}, ExitWait: short, Hooks: nil, ShutdownDelay: 100 * ms},
		{Name: "busy-handler-35s-exitwait-40s", Clients: []c18.Client{cl(c18.Busy, 35*sec, 0)}, ExitWait: 40 * sec, Hooks: nil, ShutdownDelay: 100 * ms, Poll: 2300 * ms},
		{Name: "idle-keepalive-second-request-streamed", Clients: []c18.Client{cl(c18.Idle, 0, 300*ms)}, ExitWait: long, ShutdownDelay: 100 * ms, Stream: true},
		{Name: "idle-keepalive-second-request", Clients: []c18.Client{cl(c18.Idle, 0, 300*ms)}, ExitWait: long, ShutdownDelay: 100 * ms},
		{Name: "idle-keepalive-until-close", Clients: []c18.Client{cl(c18.IdleEnd, 0, 3*sec)}, ExitWait: short, ShutdownDelay: 100 * ms},
		{Name: "mid-request", Clients: []c18.Client{cl(c18.MidReq, 0, 300*ms)}, ExitWait: long, ShutdownDelay: 100 * ms},
		{Name: "busy+idle", Clients: []c18.Client{cl(c18.Busy, 500*ms, 0), cl(c18.Idle, 0, 300*ms)}, ExitWait: long, Hooks: []time.Duration{0}},
		{Name: "two-shutdown-callers", Clients: []c18.Client{cl(c18.Busy, 500*ms, 0)}, ExitWait: long, Shutdowns: 2},
		{Name: "shutdown-twice", Clients: []c18.Client{cl(c18.Busy, 0, 0)}, ExitWait: short, Again: true},
		{Name: "shutdown-before-run", BeforeRun: true, ExitWait: short},
		{Name: "second-run-while-serving", Clients: []c18.Client{cl(c18.Busy, 500*ms, 0)}, ExitWait: long, Hooks: []time.Duration{0}, ShutdownDelay: 100 * ms, SecondRun: true},
		{Name: "hooks-fast-slow-beyond", Clients: []c18.Client{cl(c18.Busy, 0, 0)}, ExitWait: short, Hooks: []time.Duration{0, 500 * ms, 20 * sec}},
		{Name: "late-connector", Clients: []c18.Client{cl(c18.Busy, 0, 0), cl(c18.Late, 0, 2*sec)}, ExitWait: short},
		{Name: "no-clients", ExitWait: long, Hooks: []time.Duration{0, 0}},
		{Name: "shutdown-while-starting", Clients: []c18.Client{cl(c18.Late, 0, 2*sec)}, ExitWait: short, ShutdownEarly: true},
		{Name: "slow-connect-hooks", Clients: []c18.Client{cl(c18.Busy, 0, 0)}, ExitWait: long, ShutdownDelay: 100 * ms, ConnectHook: 400 * ms},
		{Name: "slow-connect-hooks+idle", Clients: []c18.Client{cl(c18.Busy, 0, 0), cl(c18.Idle, 0, 300*ms)}, ExitWait: long, ShutdownDelay: 150 * ms, ConnectHook: 200 * ms},
	}
	var out []json.RawMessage
	for _, sc := range scs {
		bound := 2
		if thorough {
			bound = 3
		}
		b, _ := json.Marshal(c18.Job{Sc: sc, Bound: bound})
		out = append(out, b)
	}
	return out
}

func c18Explore(raw json.RawMessage, deadline time.Time) jobResult {
	var job c18.Job
	json.Unmarshal(raw, &job) //nolint:errcheck
	res := jobResult{Job: raw}
	seen := map[string]bool{}
	var cur *c18.World
	st := verifrt.Explore(job.Bound, c18.Opts, func() (func(), func()) {
		cur = c18.NewWorld(job)
		return cur.Body(), cur.OnPoint
	}, func(r *verifrt.Result, dev int) bool {
		viol := cur.Violations(r)
		if r.Diverged != "" {
			res.Harness = "nondeterministic replay: " + r.Diverged
			return false
		}
		if r.Hung {
			res.Harness = "execution hung outside the scheduler: " + strings.Join(r.Log, "\n")
			return false
		}
		for _, v := range viol {
			k := job.Sc.Name + "|" + slug(v)
			if !seen[k] && len(res.Violations) < 6 {
				seen[k] = true
				res.Violations = append(res.Violations, violation{Key: k, Msg: v, Schedule: r.Choices()})
			}
		}
		return true
	}, func() bool { return time.Now().After(deadline) })
	res.Executions, res.Points, res.Preemptive, res.Horizons, res.MaxDepth, res.Completed, res.ByDev = st.Executions, st.Points, st.Preemptive, st.Horizons, st.MaxDepth, st.Completed, st.ByDeviations
	return res
}

func c18Replay(raw json.RawMessage) ([]string, []string) {
	var job c18.Job
	json.Unmarshal(raw, &job) //nolint:errcheck
	r, viol := c18.RunOne(job, job.Schedule, true)
	return viol, append(verifrt.Describe(r), r.Log...)
}

// ---- C09 schedule part ---------------------------------------------------------------------------------

func c09sJobs(thorough bool) []json.RawMessage {
	var out []json.RawMessage
	for _, sc := range c09s.Scenarios(thorough) {
		bound := 2
		if len(sc.Conns) >= 3 && !thorough {
			bound = 1
		}
		b, _ := json.Marshal(c09s.Job{Sc: sc, Bound: bound})
		out = append(out, b)
	}
	return out
}

func c09sExplore(raw json.RawMessage, deadline time.Time) jobResult {
	var job c09s.Job
	json.Unmarshal(raw, &job) //nolint:errcheck
	res := jobResult{Job: raw}
	seen := map[string]bool{}
	var cur *c09s.World
	st := verifrt.Explore(job.Bound, c09s.Opts, func() (func(), func()) {
		cur = c09s.NewWorld(job)
		return cur.Body(), cur.OnPoint
	}, func(r *verifrt.Result, dev int) bool {
		viol := cur.Violations(r)
		if r.Diverged != "" {
			res.Harness = "nondeterministic replay: " + r.Diverged
			return false
		}
		if r.Hung {
			res.Harness = "execution hung outside the scheduler: " + strings.Join(r.Log, "\n")
			return false
		}
		for _, v := range viol {
			k := "schedule|" + strings.SplitN(job.Sc.Name, "|", 2)[0] + "|" + slug(v)
			if !seen[k] && len(res.Violations) < 6 {
				seen[k] = true
				res.Violations = append(res.Violations, violation{Key: k, Msg: v, Schedule: r.Choices()})
			}
		}
		return true
	}, func() bool { return time.Now().After(deadline) })
	res.Executions, res.Points, res.Preemptive, res.Horizons, res.MaxDepth, res.Completed, res.ByDev = st.Executions, st.Points, st.Preemptive, st.Horizons, st.MaxDepth, st.Completed, st.ByDeviations
	return res
}

func c09sReplay(raw json.RawMessage) ([]string, []string) {
	var job c09s.Job
	json.Unmarshal(raw, &job) //nolint:errcheck
	r, viol := c09s.RunOne(job, job.Schedule, true)
	return viol, append(verifrt.Describe(r), r.Log...)
}

var families = map[string]*family{}

func init() {
	families["C10"] = &family{
		check: &mc.Check{ID: "C10", Level: "model_checking",
			Rule:        "scenarios (N caller threads x M calls, MaxConns, wait-for-free-connection on/off, request timeout) x fault plans (peer answer per request in arrival order from {ok, ok+close, silent close while idle, close before first byte, close mid-header, close mid-body, stall}: every placement of <=2 non-ok answers; every single dial error; every single pre-cancelled call) x every schedule of the instrumented HostClient with <= bound deviations (preemption at a lock/atomic/channel/I-O operation, early timer fire, non-default select case); non-trivial = executions with at least one deviation",
			Assumptions: []string{"scheduling points are the synchronisation, channel, timer and connection I/O operations of client.go (rewritten mechanically by vinstr); unsynchronised data accesses between them are not interleaved", "time is virtual: timeliness is judged on the logical clock with zero slack", "finalizer-driven connection release (ResponseBodyStream) is not explored"},
		},
		jobs: c10Jobs, explore: c10Explore, replay: c10Replay,
	}
	families["C09S"] = &family{
		check: &mc.Check{ID: "C09", ReplayID: "C09S", MergeInto: "schedule_part", Level: "model_checking",
			Rule:        "schedule part: 2-3 connections (dirty request applying one mutator of the reduced alphabet, with keep-alive or close, and probe requests) served concurrently by one engine; every schedule with <= bound preemptions at connection reads/writes and inside handlers",
			Assumptions: []string{"sync.Pool itself is not instrumented: contexts migrate between connection threads because the threads interleave at I/O points"},
		},
		jobs: c09sJobs, explore: c09sExplore, replay: c09sReplay,
	}
	families["C18"] = &family{
		check: &mc.Check{ID: "C18", Level: "model_checking",
			Rule:        "scenarios (client shapes {busy with a 0/500ms/2s handler, idle keep-alive with a later second request, idle until close, mid-request with the body completed later, late connector} x ExitWaitTimeout short/long x shutdown hooks {fast, slow, beyond the deadline} x one / two concurrent / repeated Shutdown callers / Shutdown before Run) x every schedule of the instrumented Engine.Run, Engine.Shutdown and standard transport with <= bound deviations (preemptions, early timer fires, select alternatives) in virtual time; non-trivial = executions with at least one deviation",
			Assumptions: []string{"standard transport only (netpoll runs on OS threads the scheduler cannot own)", "scheduling points are the synchronisation, channel, timer, listener and connection I/O operations of engine.go / transport.go (rewritten mechanically by vinstr)", "timeliness is judged on the virtual clock, only while it has not been advanced past a runnable thread"},
		},
		jobs: c18Jobs, explore: c18Explore, replay: c18Replay,
	}
}

// ---- parent / worker plumbing ---------------------------------------------------------------------------

func worker(f *family) {
	sc := bufio.NewScanner(os.Stdin)
	sc.Buffer(make([]byte, 1<<20), 1<<24)
	w := bufio.NewWriter(os.Stdout)
	for sc.Scan() {
		var in struct {
			Job      json.RawMessage `json:"job"`
			Deadline int64           `json:"deadline"`
		}
		if json.Unmarshal(sc.Bytes(), &in) != nil {
			continue
		}
		res := f.explore(in.Job, time.Unix(in.Deadline, 0))
		b, _ := json.Marshal(res)
		w.Write(b)        //nolint:errcheck
		w.WriteByte('\n') //nolint:errcheck
		w.Flush()         //nolint:errcheck
	}
}

func parent(f *family, famKey, tier string) int {
	ch := f.check
	ch.Run = func(c *mc.Ctx) {
		jobs := f.jobs(c.Thorough())
		c.Extra("jobs", len(jobs))
		if len(jobs) > 0 {
			var v interface{}
			json.Unmarshal(jobs[len(jobs)/3], &v) //nolint:errcheck
			c.Sample(v)
		}
		nw := runtime.NumCPU()
		var mu sync.Mutex
		next := 0
		var wg sync.WaitGroup
		completed, capped := 0, 0
		byDev := map[int]int64{}
		maxDepth := 0
		for i := 0; i < nw; i++ {
			wg.Add(1)
			go func() {
				defer wg.Done()
				cmd := exec.Command(os.Args[0], "worker", famKey)
				cmd.Env = append(os.Environ(), "GOMAXPROCS=2")
				stdin, _ := cmd.StdinPipe()
				stdout, _ := cmd.StdoutPipe()
				cmd.Stderr = os.Stderr
				if err := cmd.Start(); err != nil {
					c.Cap("cannot start worker: " + err.Error())
					return
				}
				rd := bufio.NewReader(stdout)
				for {
					mu.Lock()
					if next >= len(jobs) || c.Expired() {
						mu.Unlock()
						break
					}
					j := jobs[next]
					next++
					mu.Unlock()
					line, _ := json.Marshal(map[string]interface{}{"job": j, "deadline": c.Deadline.Unix()})
					if _, err := stdin.Write(append(line, '\n')); err != nil {
						c.Cap("worker died")
						break
					}
					out, err := rd.ReadBytes('\n')
					if err != nil {
						c.Cap("worker died while exploring " + string(j))
						fmt.Printf("HARNESS-ERROR property=%s a worker process died while exploring %s\n", ch.ID, j)
						break
					}
					var r jobResult
					if json.Unmarshal(out, &r) != nil {
						continue
					}
					c.Add("executions", r.Executions)
					c.Add("transitions", r.Points)
					c.Add("nontrivial", r.Preemptive)
					c.Add("horizon_reached", r.Horizons)
					mu.Lock()
					if r.Completed {
						completed++
					} else {
						capped++
					}
					for d, n := range r.ByDev {
						byDev[d] += n
					}
					if r.MaxDepth > maxDepth {
						maxDepth = r.MaxDepth
					}
					mu.Unlock()
					if r.Harness != "" {
						fmt.Printf("HARNESS-ERROR property=%s %s\n", ch.ID, r.Harness)
						c.Cap("harness error: " + slug(r.Harness))
						harnessErr = true
					}
					for _, o := range r.Outcomes {
						c.Distinct("outcomes", o)
					}
					for _, v := range r.Violations {
						var job map[string]interface{}
						json.Unmarshal(r.Job, &job) //nolint:errcheck
						job["schedule"] = v.Schedule
						c.Violate(v.Key, v.Msg, job)
					}
				}
				stdin.Close()
				cmd.Wait() //nolint:errcheck
			}()
		}
		wg.Wait()
		if next < len(jobs) {
			c.Cap(fmt.Sprintf("deadline: %d of %d jobs started", next, len(jobs)))
		}
		if capped > 0 {
			c.Cap(fmt.Sprintf("%d of %d jobs were stopped by the deadline before their schedule tree was complete", capped, len(jobs)))
		}
		c.Extra("jobs_completed", completed)
		c.Extra("jobs_capped", capped)
		c.Extra("executions_by_deviations", byDev)
		c.Extra("max_choice_points_in_an_execution", maxDepth)
	}
	ch.Replay = func(c *mc.Ctx, raw json.RawMessage) {
		viol, _ := f.replay(raw)
		for _, v := range viol {
			c.Violate("replay", v, nil)
		}
	}
	code := mc.RunCheck(ch, tier)
	if harnessErr && code == 0 {
		return 2
	}
	return code
}

var harnessErr bool

func main() {
	if len(os.Args) < 3 {
		fmt.Println("usage: verifsched check|worker|replay ...")
		os.Exit(2)
	}
	switch os.Args[1] {
	case "worker":
		worker(families[os.Args[2]])
	case "check":
		f := families[strings.ToUpper(os.Args[2])]
		if f == nil {
			fmt.Println("unknown check", os.Args[2])
			os.Exit(2)
		}
		tier := os.Getenv("VERIF_TIER")
		for i := 3; i < len(os.Args); i++ {
			if os.Args[i] == "--tier" && i+1 < len(os.Args) {
				tier = os.Args[i+1]
			}
		}
		if tier != "thorough" {
			tier = "quick"
		}
		os.Exit(parent(f, strings.ToUpper(os.Args[2]), tier))
	case "replay":
		b, err := os.ReadFile(os.Args[2])
		if err != nil {
			fmt.Println(err)
			os.Exit(2)
		}
		var rf struct {
			Property string          `json:"property"`
			Case     json.RawMessage `json:"case"`
		}
		json.Unmarshal(b, &rf) //nolint:errcheck
		f := families[rf.Property]
		if f == nil {
			fmt.Println("unknown property", rf.Property)
			os.Exit(2)
		}
		viol, log := f.replay(rf.Case)
		for _, l := range log {
			fmt.Println(l)
		}
		if len(viol) > 0 {
			for _, v := range viol {
				fmt.Printf("VIOLATION property=%s replay=%s\n  %s\n", rf.Property, os.Args[2], v)
			}
			os.Exit(1)
		}
		fmt.Printf("replay %s: property %s held\n", os.Args[2], rf.Property)
	}
}
