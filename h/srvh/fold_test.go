package srvh

import (
	"fmt"
	"testing"

	"verifh/netsim"
)

func TestFold(t *testing.T) {
	s := New(Opts{})
	s.EchoAll()
	s.Start()
	in := "POST /a HTTP/1.1\r\nHost: h\r\nX-Fold: part1\r\n part2\r\nContent-Length: 3\r\n\r\nabc"
	r := s.Run([][]byte{[]byte(in)}, netsim.EndEOF, nil)
	fmt.Printf("err=%v panic=%v closed=%v seen=%d out=%q\n", r.Err, r.Panic, r.Closed, len(r.Seen), r.Out)
	for _, sn := range r.Seen {
		fmt.Printf("%+v body=%q\n", *sn, sn.Body)
	}
}
