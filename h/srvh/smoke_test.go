package srvh

import (
	"fmt"
	"testing"

	"verifh/httpref"
	"verifh/netsim"
)

func TestSmoke(t *testing.T) {
	for _, streaming := range []bool{false, true} {
		s := New(Opts{Streaming: streaming})
		s.EchoAll()
		s.Start()
		in := "POST /a HTTP/1.1\r\nHost: h\r\nX-Id: 1\r\nContent-Length: 3\r\n\r\nabcGET /b HTTP/1.1\r\nHost: h\r\nX-Id: 2\r\n\r\n"
		r := s.Run([][]byte{[]byte(in)}, netsim.EndEOF, nil)
		fmt.Printf("err=%v panic=%v closed=%v seen=%d out=%q\n", r.Err, r.Panic, r.Closed, len(r.Seen), r.Out)
		ms, err := httpref.ParseResponses(r.Out, []string{"POST", "GET"}, true)
		fmt.Println(len(ms), err)
		for _, m := range ms {
			fmt.Printf("%d %q %v\n", m.Status, m.Body, m.Headers)
		}
		for _, sn := range r.Seen {
			fmt.Printf("%+v\n", *sn)
		}
	}
}
