// Package srvh drives the real route.Engine over a scripted connection.
package srvh

import (
	"context"
	"fmt"
	"io"
	"runtime"
	"strings"
	"time"

	"github.com/cloudwego/hertz/pkg/app"
	"github.com/cloudwego/hertz/pkg/common/config"
	"github.com/cloudwego/hertz/pkg/common/hlog"
	"github.com/cloudwego/hertz/pkg/network"
	"github.com/cloudwego/hertz/pkg/route"

	"verifh/httpref"
	"verifh/netsim"
)

func init() {
	hlog.SetOutput(io.Discard)
	hlog.SetLevel(hlog.LevelFatal)
}

type Opts struct {
	Streaming   bool
	MaxBody     int // 0 = default (4 MiB)
	IdleTimeout time.Duration
	NoIdle      bool // IdleTimeout == 0 ("return to poller" mode)
	ReadBuf     int
	Mods        []func(o *config.Options)
}

// Seen is what a handler observed for one request.
type Seen struct {
	Method   string            `json:"method"`
	URI      string            `json:"uri"`
	Path     string            `json:"path"`
	Host     string            `json:"host"`
	Headers  []httpref.Header  `json:"headers"`
	Body     []byte            `json:"body"`
	BodyErr  string            `json:"body_err,omitempty"`
	Trailers []httpref.Header  `json:"trailers,omitempty"`
	CL       int               `json:"cl"`
	Extra    map[string]string `json:"extra,omitempty"`
}

type Server struct {
	E    *route.Engine
	O    Opts
	Log  []*Seen
	Conn *netsim.ScriptConn // current scripted conn (handlers may mark it)
	// BodyReader customises how the echo handler consumes a streamed body; nil = read to EOF with 4 KiB reads.
	BodyReader func(ctx *app.RequestContext, r io.Reader, s *Seen)
	// Respond customises the response; nil = default echo response.
	Respond func(ctx *app.RequestContext, s *Seen)
}

func New(o Opts) *Server {
	opt := config.NewOptions(nil)
	opt.TransporterNewer = func(*config.Options) network.Transporter { return netsim.Transport{} }
	opt.StreamRequestBody = o.Streaming
	if o.MaxBody != 0 {
		opt.MaxRequestBodySize = o.MaxBody
	}
	if o.IdleTimeout != 0 {
		opt.IdleTimeout = o.IdleTimeout
	}
	if o.NoIdle {
		opt.IdleTimeout = 0
	}
	opt.DisablePrintRoute = true
	opt.NoDefaultDate = true // observations must not depend on wall-clock time
	for _, m := range o.Mods {
		m(opt)
	}
	e := route.NewEngine(opt)
	s := &Server{E: e, O: o}
	return s
}

// Start finishes engine initialisation (after routes were registered).
func (s *Server) Start() {
	if err := s.E.Init(); err != nil {
		panic(err)
	}
	if err := s.E.MarkAsRunning(); err != nil {
		panic(err)
	}
}

// Observe fills a Seen from the request context (used by the echo handler and by custom handlers).
func (s *Server) Observe(ctx *app.RequestContext) *Seen {
	sn := &Seen{}
	sn.Method = string(ctx.Request.Header.Method())
	sn.URI = string(ctx.Request.Header.RequestURI())
	sn.Path = string(ctx.Request.URI().Path())
	sn.Host = string(ctx.Request.Header.Host())
	sn.CL = ctx.Request.Header.ContentLength()
	ctx.Request.Header.VisitAll(func(k, v []byte) {
		sn.Headers = append(sn.Headers, httpref.Header{Name: string(k), Value: string(v)})
	})
	if strings.HasPrefix(sn.Path, "/noread") {
		// a handler that answers without looking at the body (in streaming mode the framework has to skip it)
		sn.BodyErr = "harness: body not read"
	} else if ctx.Request.IsBodyStream() {
		r := ctx.RequestBodyStream()
		if s.BodyReader != nil {
			s.BodyReader(ctx, r, sn)
		} else {
			buf := make([]byte, 4096)
			for {
				n, err := r.Read(buf)
				sn.Body = append(sn.Body, buf[:n]...)
				if err != nil {
					if err != io.EOF {
						sn.BodyErr = err.Error()
					}
					break
				}
				if len(sn.Body) > 1<<24 {
					sn.BodyErr = "harness: body over 16 MiB, giving up"
					break
				}
			}
		}
	} else {
		sn.Body = append([]byte(nil), ctx.Request.Body()...)
	}
	ctx.Request.Header.Trailer().VisitAll(func(k, v []byte) {
		sn.Trailers = append(sn.Trailers, httpref.Header{Name: string(k), Value: string(v)})
	})
	return sn
}

// Echo is the default handler: records what it saw and answers with a short body naming the request.
func (s *Server) Echo(c context.Context, ctx *app.RequestContext) {
	if s.Conn != nil {
		s.Conn.Mark = 1
	}
	sn := s.Observe(ctx)
	if s.Conn != nil {
		s.Conn.Mark = 0
	}
	s.Log = append(s.Log, sn)
	if s.Respond != nil {
		s.Respond(ctx, sn)
		return
	}
	id := ""
	for _, h := range sn.Headers {
		if strings.EqualFold(h.Name, "X-Id") {
			id = h.Value
		}
	}
	ctx.SetStatusCode(200)
	ctx.Response.SetBodyString(fmt.Sprintf("id=%s;uri=%s;n=%d;", id, sn.URI, len(sn.Body)))
}

// EchoAll registers the echo handler for every method and path.
func (s *Server) EchoAll() {
	s.E.NoRoute(s.Echo)
	s.E.NoMethod(s.Echo)
}

type Result struct {
	Err      error
	Panic    interface{}
	Stack    string
	Out      []byte
	Closed   bool
	SC       *netsim.ScriptConn
	Seen     []*Seen
	ServeRet int // how many times Serve was (re-)entered
}

// Run serves one scripted connection to completion on the calling goroutine.
// With NoIdle (IdleTimeout==0) Serve returns after every request, and the harness re-enters it
// while unread input remains, as a poller-driven transport would.
func (s *Server) Run(segs [][]byte, end int, mod func(sc *netsim.ScriptConn)) *Result {
	sc := netsim.NewScriptConn(segs, end)
	if mod != nil {
		mod(sc)
	}
	s.Conn = sc
	s.Log = s.Log[:0]
	conn := netsim.Wrap(sc, s.O.ReadBuf)
	res := &Result{SC: sc}
	func() {
		defer func() {
			if r := recover(); r != nil {
				res.Panic = r
				buf := make([]byte, 8192)
				res.Stack = string(buf[:runtime.Stack(buf, false)])
			}
		}()
		for {
			res.ServeRet++
			res.Err = s.E.Serve(context.Background(), conn)
			if !s.O.NoIdle || res.Err != nil || sc.Closed || res.ServeRet > 64 {
				break
			}
			// poller semantics: call again only if there is more input (buffered or on the wire)
			if conn.Len() == 0 && sc.Remaining() == 0 {
				break
			}
		}
	}()
	// Engine.Serve closes the connection itself (errProcess) whenever it returns a non-nil error
	netsim.Release(conn) // Serve has returned: nothing refers to the connection any more
	res.Closed = sc.Closed
	res.Out = sc.Out
	res.Seen = append([]*Seen(nil), s.Log...)
	s.Conn = nil
	return res
}
