// Package verifrt is the controlled runtime used by the schedule-exploring checks. It is mounted
// into the hertz module as github.com/cloudwego/hertz/verifrt through `go build -overlay`; hertz
// files rewritten by cmd/vinstr call it instead of sync / sync/atomic / time / channel operations.
//
// Exactly one registered thread (goroutine) runs at a time. Every synchronisation operation is a
// scheduling point where the scheduler may switch threads; blocking operations disable the
// thread until their condition holds; time is virtual. The explorer (explore.go) enumerates all
// schedules up to a deviation bound by stateless re-execution.
package verifrt

import (
	"fmt"
	"runtime"
	"sort"
	"sync"
	"time"
)

type thread struct {
	id     int
	name   string
	wake   chan struct{}
	canRun func() bool // nil = runnable
	done   bool
	waitOn string
}

// ChoicePoint describes one choice point of an execution.
type ChoicePoint struct {
	Kind   string   `json:"kind"` // sched | select | env
	Costs  []int    `json:"costs"`
	Chosen int      `json:"chosen"`
	Labels []string `json:"labels,omitempty"`
	At     string   `json:"at,omitempty"`
}

type abortExec struct{ why string }

type Sched struct {
	mu       sync.Mutex
	threads  []*thread
	cur      *thread
	now      time.Duration // virtual clock (offset from Base)
	timers   []*vtimer
	prefix   []int
	Points   []ChoicePoint
	aborting bool
	// results
	Deadlock string // non-empty: no thread could run and no timer was pending (or a thread panicked)
	Diverged string // non-empty: a replayed prefix did not fit (nondeterminism)
	Horizon  bool   // the time horizon was reached (remaining threads only wait for time)
	// EarlyFires counts timers fired while some thread was runnable: from then on virtual durations include
	// scheduling slack, so timeliness may only be judged while it is zero.
	EarlyFires int
	Livelock   bool
	Log        []string

	finished     chan struct{}
	wg           sync.WaitGroup
	maxAdv       int
	advances     int
	steps        int
	maxSteps     int
	logOn        bool
	closed       map[uintptr]bool
	switchCost   int    // deviation cost of a non-default choice at a point where the running thread cannot continue
	unlockPoints bool   // Mutex.Unlock yields to the scheduler
	OnPoint      func() // invariant hook: called at every scheduling point, while every other thread is parked
	seq          int
}

// S is the scheduler of the execution in progress (one execution at a time per process).
var S *Sched

// Base is the wall-clock value of virtual time 0.
var Base = time.Date(2030, 1, 1, 0, 0, 0, 0, time.UTC)

type vtimer struct {
	quiet   bool // never fired early (harness-side timers)
	when    time.Duration
	fire    func()
	stopped bool
	fired   bool
	seq     int
	label   string
}

func (s *Sched) logf(format string, a ...interface{}) {
	if s.logOn {
		n := "-"
		if s.cur != nil {
			n = s.cur.name
		}
		s.Log = append(s.Log, fmt.Sprintf("[t=%v %s] ", s.now, n)+fmt.Sprintf(format, a...))
	}
}

func runnable(t *thread) bool { return !t.done && (t.canRun == nil || t.canRun()) }

// enabled threads in canonical order: the running thread first if still enabled, then ascending ids.
func (s *Sched) enabled() []*thread {
	var out []*thread
	if s.cur != nil && runnable(s.cur) {
		out = append(out, s.cur)
	}
	for _, t := range s.threads {
		if t != s.cur && runnable(t) {
			out = append(out, t)
		}
	}
	return out
}

func (s *Sched) pendingTimers() []*vtimer {
	var out []*vtimer
	for _, t := range s.timers {
		if !t.stopped && !t.fired {
			out = append(out, t)
		}
	}
	sort.SliceStable(out, func(i, j int) bool {
		if out[i].when != out[j].when {
			return out[i].when < out[j].when
		}
		return out[i].seq < out[j].seq
	})
	return out
}

func (s *Sched) addTimer(d time.Duration, label string, fire func()) *vtimer {
	if d < 0 {
		d = 0
	}
	s.seq++
	t := &vtimer{when: s.now + d, fire: fire, seq: s.seq, label: label}
	s.timers = append(s.timers, t)
	// drop timers that can no longer fire, to keep the list short
	if len(s.timers) > 64 {
		live := s.timers[:0]
		for _, x := range s.timers {
			if !x.stopped && !x.fired {
				live = append(live, x)
			}
		}
		s.timers = live
	}
	return t
}

// advanceTime fires the earliest pending timer (moving the clock forward if needed).
func (s *Sched) advanceTime() bool {
	p := s.pendingTimers()
	if len(p) == 0 {
		return false
	}
	t := p[0]
	if t.when > s.now {
		s.now = t.when
	}
	t.fired = true
	s.advances++
	s.logf("time -> %v, fire %s", s.now, t.label)
	if t.fire != nil {
		t.fire()
	}
	return true
}

// choose records (or replays) one choice among alternatives with the given deviation costs.
func (s *Sched) choose(kind string, costs []int, labels []string, at string) int {
	i := len(s.Points)
	c := 0
	if i < len(s.prefix) {
		c = s.prefix[i]
		if c >= len(costs) {
			if s.Diverged == "" {
				s.Diverged = fmt.Sprintf("choice %d: the recorded schedule asks for alternative %d of %d (%s at %s)", i, c, len(costs), kind, at)
			}
			c = 0
		}
	}
	s.Points = append(s.Points, ChoicePoint{Kind: kind, Costs: costs, Chosen: c, Labels: labels, At: at})
	return c
}

func (s *Sched) blockedNames() []string {
	var names []string
	for _, t := range s.threads {
		if !t.done {
			names = append(names, t.name+" waiting for "+t.waitOn)
		}
	}
	return names
}

// pick decides who runs next. It is called with s.mu held by the thread `me` that is at a scheduling
// point (meAlive) or has just ended (!meAlive). It returns the chosen thread, or nil if the execution is over.
func (s *Sched) pick(me *thread, meAlive bool, at string) *thread {
	for {
		s.steps++
		if s.steps > s.maxSteps {
			s.Livelock = true
			return nil
		}
		if s.OnPoint != nil {
			s.OnPoint()
		}
		en := s.enabled()
		timers := s.pendingTimers()
		if len(en) == 0 {
			alive := false
			for _, t := range s.threads {
				if !t.done {
					alive = true
				}
			}
			if !alive {
				return nil // everything finished
			}
			if len(timers) == 0 {
				s.Deadlock = fmt.Sprintf("no thread can run and no timer is pending: %v", s.blockedNames())
				return nil
			}
			if s.advances >= s.maxAdv {
				s.Horizon = true
				return nil
			}
			s.advanceTime()
			continue
		}
		curEnabled := meAlive && en[0] == me
		costs := make([]int, 0, len(en)+1)
		labels := make([]string, 0, len(en)+1)
		for i, t := range en {
			c := 0
			if curEnabled && i > 0 {
				c = 1 // switching away from a runnable thread is a preemption
			} else if i > 0 {
				c = s.switchCost // the running thread blocked or ended: taking another than the lowest-numbered thread
			}
			costs = append(costs, c)
			labels = append(labels, t.name)
		}
		if len(timers) > 0 && !timers[0].quiet && s.advances < s.maxAdv {
			costs = append(costs, 1) // a timer fires although threads are still runnable ("the others were slow")
			labels = append(labels, "fire:"+timers[0].label)
		}
		k := 0
		if len(costs) > 1 {
			k = s.choose("sched", costs, labels, at)
		}
		if k >= len(en) {
			s.EarlyFires++
			s.advanceTime()
			continue
		}
		return en[k]
	}
}

func (s *Sched) finishLocked() {
	s.aborting = true
	for _, t := range s.threads {
		if !t.done && t != s.cur {
			select {
			case t.wake <- struct{}{}:
			default:
			}
		}
	}
	select {
	case <-s.finished:
	default:
		close(s.finished)
	}
}

// yield is called with s.mu held by the running thread; returns (with s.mu held) when it may continue.
func (s *Sched) yield(at string) {
	me := s.cur
	if s.aborting {
		s.mu.Unlock()
		panic(abortExec{"abort"})
	}
	next := s.pick(me, true, me.name+": "+at)
	if next == nil {
		s.finishLocked()
		s.mu.Unlock()
		panic(abortExec{"end"})
	}
	if next == me {
		return
	}
	s.cur = next
	s.logf("switch to %s", next.name)
	next.wake <- struct{}{}
	s.mu.Unlock()
	<-me.wake
	s.mu.Lock()
	if s.aborting {
		s.mu.Unlock()
		panic(abortExec{"abort"})
	}
}

// Point is a scheduling point before a non-blocking synchronisation operation.
func Point(at string) {
	s := S
	if s == nil {
		return
	}
	s.mu.Lock()
	s.logf("%s", at)
	s.yield(at)
	s.mu.Unlock()
}

// BlockUntil disables the calling thread until cond holds. cond is evaluated only while all threads are parked.
func BlockUntil(at string, cond func() bool) {
	s := S
	if s == nil {
		for !cond() {
			runtime.Gosched()
		}
		return
	}
	s.mu.Lock()
	if s.aborting {
		s.mu.Unlock()
		panic(abortExec{"abort"})
	}
	if !cond() {
		me := s.cur
		me.canRun = cond
		me.waitOn = at
		s.logf("blocks on %s", at)
		s.yield(at)
		me.canRun = nil
		me.waitOn = ""
	}
	s.mu.Unlock()
}

func (s *Sched) startThread(name string, f func()) *thread {
	t := &thread{id: len(s.threads), name: fmt.Sprintf("%s#%d", name, len(s.threads)), wake: make(chan struct{}, 1)}
	s.threads = append(s.threads, t)
	s.wg.Add(1)
	go func() {
		defer s.wg.Done()
		<-t.wake
		defer func() {
			r := recover()
			s.mu.Lock()
			t.done = true
			if r != nil {
				if _, ok := r.(abortExec); !ok && !s.aborting {
					buf := make([]byte, 6000)
					buf = buf[:runtime.Stack(buf, false)]
					s.Deadlock = fmt.Sprintf("thread %s panicked: %v\n%s", t.name, r, buf)
					s.finishLocked()
				}
				s.mu.Unlock()
				return
			}
			if s.aborting {
				s.mu.Unlock()
				return
			}
			next := s.pick(t, false, t.name+": exit")
			if next == nil {
				s.finishLocked()
				s.mu.Unlock()
				return
			}
			s.cur = next
			s.logf("exit, switch to %s", next.name)
			next.wake <- struct{}{}
			s.mu.Unlock()
		}()
		s.mu.Lock()
		ab := s.aborting
		s.mu.Unlock()
		if ab {
			panic(abortExec{"abort"})
		}
		f()
	}()
	return t
}

// Go starts a new thread (replacement of the go statement).
func Go(name string, f func()) {
	s := S
	if s == nil {
		go f()
		return
	}
	s.mu.Lock()
	if s.aborting {
		s.mu.Unlock()
		panic(abortExec{"abort"})
	}
	t := s.startThread(name, f)
	s.logf("go %s", t.name)
	// spawning is a scheduling point: the child may run first
	s.yield("go " + name)
	s.mu.Unlock()
}

// Choose is an explicit environment choice made by the harness (fault placement etc.).
// Alternative 0 is the default; every other alternative costs `cost` deviations.
func Choose(label string, n, cost int) int {
	s := S
	if s == nil || n <= 1 {
		return 0
	}
	s.mu.Lock()
	defer s.mu.Unlock()
	costs := make([]int, n)
	labels := make([]string, n)
	for i := range costs {
		if i > 0 {
			costs[i] = cost
		}
		labels[i] = fmt.Sprintf("%s=%d", label, i)
	}
	return s.choose("env", costs, labels, label)
}

// Logf adds a line to the execution log (kept only while logging is on).
func Logf(format string, a ...interface{}) {
	if s := S; s != nil {
		s.mu.Lock()
		s.logf(format, a...)
		s.mu.Unlock()
	}
}

// VNow returns the virtual clock (offset from Base).
func VNow() time.Duration {
	if s := S; s != nil {
		s.mu.Lock()
		defer s.mu.Unlock()
		return s.now
	}
	return 0
}

// CurrentThread returns the name of the running thread.
func CurrentThread() string {
	if s := S; s != nil {
		s.mu.Lock()
		defer s.mu.Unlock()
		if s.cur != nil {
			return s.cur.name
		}
	}
	return ""
}

// NowLocked returns the virtual clock; for use inside BlockUntil conditions and OnPoint hooks only
// (they run inside the scheduler).
func (s *Sched) NowLocked() time.Duration { return s.now }

// TimerAt registers a no-op time event at the absolute virtual instant `at`, so that the clock can advance to it.
func TimerAt(at time.Duration, label string) {
	if s := S; s != nil {
		s.mu.Lock()
		s.addTimer(at-s.now, label, nil)
		s.mu.Unlock()
	}
}

// NoSlack reports whether the virtual clock has so far only advanced while no thread could run.
func NoSlack() bool {
	if s := S; s != nil {
		s.mu.Lock()
		defer s.mu.Unlock()
		return s.EarlyFires == 0
	}
	return true
}

// Settle blocks the calling thread until every other thread has finished or is waiting for time to pass
// (background work started by the calls under test has run to completion).
func Settle() {
	s := S
	if s == nil {
		return
	}
	Point("settle")
	s.mu.Lock()
	me := s.cur
	s.mu.Unlock()
	BlockUntil("settle", func() bool {
		for _, t := range s.threads {
			if t == me || t.done {
				continue
			}
			if t.canRun != nil && t.waitOn == "sleep" && !t.canRun() {
				continue
			}
			return false
		}
		return true
	})
}

// TimerAtQuiet is TimerAt for harness-side time-outs: the timer only fires when no thread can run.
func TimerAtQuiet(at time.Duration, label string) {
	if s := S; s != nil {
		s.mu.Lock()
		s.addTimer(at-s.now, label, nil).quiet = true
		s.mu.Unlock()
	}
}

// SettleAll blocks the calling thread until every other thread has finished.
func SettleAll() {
	s := S
	if s == nil {
		return
	}
	Point("settle")
	s.mu.Lock()
	me := s.cur
	s.mu.Unlock()
	BlockUntil("settle-all", func() bool {
		for _, t := range s.threads {
			if t != me && !t.done {
				return false
			}
		}
		return true
	})
}
