package verifrt

import (
	"errors"
	"net"
)

// VListener replaces the listener returned by net.Listen: Accept is a blocking operation of the scheduler and
// connections are injected by the harness.
type VListener struct {
	addr    string
	queue   []net.Conn
	closed  bool
	Accepts int
}

type vaddr string

func (a vaddr) Network() string { return "tcp" }
func (a vaddr) String() string  { return string(a) }

var listeners = map[string]*VListener{}

// Listen replaces net.Listen in instrumented files.
func Listen(network, addr string) (net.Listener, error) {
	Point("net.Listen")
	l := &VListener{addr: addr}
	if s := S; s != nil {
		s.mu.Lock()
		listeners[addr] = l
		s.mu.Unlock()
	}
	return l, nil
}

// ListenerFor returns the listener opened for addr in this execution, or nil.
func ListenerFor(addr string) *VListener {
	if s := S; s != nil {
		s.mu.Lock()
		defer s.mu.Unlock()
	}
	return listeners[addr]
}

// ResetListeners forgets the listeners of the previous execution.
func ResetListeners() { listeners = map[string]*VListener{} }

// HasListener is for BlockUntil conditions (no locking).
func HasListener(addr string) bool { return listeners[addr] != nil }

func (l *VListener) Accept() (net.Conn, error) {
	Point("Accept")
	BlockUntil("accept", func() bool { return l.closed || len(l.queue) > 0 })
	if l.closed {
		return nil, errors.New("use of closed network connection")
	}
	c := l.queue[0]
	l.queue = l.queue[1:]
	l.Accepts++
	return c, nil
}

func (l *VListener) Close() error {
	Point("Listener.Close")
	l.closed = true
	return nil
}

func (l *VListener) Addr() net.Addr { return vaddr(l.addr) }

// Inject offers a connection to the listener (a client connecting). It fails once the listener is closed.
func (l *VListener) Inject(c net.Conn) error {
	Point("connect")
	if l.closed {
		return errors.New("connection refused")
	}
	l.queue = append(l.queue, c)
	return nil
}

// Closed reports whether the listener has been closed (no locking: for conditions and oracles).
func (l *VListener) Closed() bool { return l.closed }
