package verifrt

import (
	"context"
	"reflect"
	"sync/atomic"
	"time"
)

// ---- sync ------------------------------------------------------------------------------------

type Mutex struct {
	locked bool
}

func (m *Mutex) Lock() {
	if S == nil {
		m.locked = true // outside a controlled execution the harness is single-threaded
		return
	}
	Point("Mutex.Lock")
	BlockUntil("mutex", func() bool { return !m.locked })
	m.locked = true
}

func (m *Mutex) TryLock() bool {
	Point("Mutex.TryLock")
	if m.locked {
		return false
	}
	m.locked = true
	return true
}

// Unlock never blocks and makes no scheduling point of its own: a switch right after it is the same
// as a switch at the next synchronisation operation of this thread.
func (m *Mutex) Unlock() {
	if !m.locked {
		panic("verifrt: unlock of unlocked mutex")
	}
	m.locked = false
	if S != nil && S.unlockPoints {
		Point("Mutex.Unlock")
	}
}

type RWMutex struct {
	w       bool
	readers int
}

func (m *RWMutex) Lock() {
	Point("RWMutex.Lock")
	BlockUntil("rwmutex(w)", func() bool { return !m.w && m.readers == 0 })
	m.w = true
}
func (m *RWMutex) Unlock() { m.w = false }
func (m *RWMutex) RLock() {
	Point("RWMutex.RLock")
	BlockUntil("rwmutex(r)", func() bool { return !m.w })
	m.readers++
}
func (m *RWMutex) RUnlock() { m.readers-- }

type WaitGroup struct {
	n int
}

func (w *WaitGroup) Add(d int) {
	Point("WaitGroup.Add")
	w.n += d
	if w.n < 0 {
		panic("verifrt: negative WaitGroup counter")
	}
}
func (w *WaitGroup) Done() { w.Add(-1) }
func (w *WaitGroup) Wait() {
	Point("WaitGroup.Wait")
	BlockUntil("waitgroup", func() bool { return w.n == 0 })
}

// ---- atomics (scheduling points; the operation itself is the real one) ---------------------------

func AddInt32(p *int32, d int32) int32     { Point("atomic.AddInt32"); return atomic.AddInt32(p, d) }
func AddInt64(p *int64, d int64) int64     { Point("atomic.AddInt64"); return atomic.AddInt64(p, d) }
func AddUint32(p *uint32, d uint32) uint32 { Point("atomic.AddUint32"); return atomic.AddUint32(p, d) }
func AddUint64(p *uint64, d uint64) uint64 { Point("atomic.AddUint64"); return atomic.AddUint64(p, d) }
func LoadInt32(p *int32) int32             { Point("atomic.LoadInt32"); return atomic.LoadInt32(p) }
func LoadInt64(p *int64) int64             { Point("atomic.LoadInt64"); return atomic.LoadInt64(p) }
func LoadUint32(p *uint32) uint32          { Point("atomic.LoadUint32"); return atomic.LoadUint32(p) }
func LoadUint64(p *uint64) uint64          { Point("atomic.LoadUint64"); return atomic.LoadUint64(p) }
func StoreInt32(p *int32, v int32)         { Point("atomic.StoreInt32"); atomic.StoreInt32(p, v) }
func StoreInt64(p *int64, v int64)         { Point("atomic.StoreInt64"); atomic.StoreInt64(p, v) }
func StoreUint32(p *uint32, v uint32)      { Point("atomic.StoreUint32"); atomic.StoreUint32(p, v) }
func StoreUint64(p *uint64, v uint64)      { Point("atomic.StoreUint64"); atomic.StoreUint64(p, v) }
func CompareAndSwapInt32(p *int32, o, n int32) bool {
	Point("atomic.CompareAndSwapInt32")
	return atomic.CompareAndSwapInt32(p, o, n)
}
func CompareAndSwapUint32(p *uint32, o, n uint32) bool {
	Point("atomic.CompareAndSwapUint32")
	return atomic.CompareAndSwapUint32(p, o, n)
}
func CompareAndSwapInt64(p *int64, o, n int64) bool {
	Point("atomic.CompareAndSwapInt64")
	return atomic.CompareAndSwapInt64(p, o, n)
}

// ---- channels ------------------------------------------------------------------------------------
// Real Go channels are kept; the scheduler only needs to know when an operation can proceed.
// A receive can proceed when the channel holds a value or has been closed (closes go through Close,
// which records them); a send on a buffered channel when there is room. Unbuffered rendezvous is
// not supported (vinstr refuses files that need it).

func chanPtr(ch interface{}) uintptr {
	v := reflect.ValueOf(ch)
	if !v.IsValid() || v.Kind() != reflect.Chan || v.IsNil() {
		return 0
	}
	return v.Pointer()
}

func (s *Sched) recvReady(ch interface{}) bool {
	v := reflect.ValueOf(ch)
	if !v.IsValid() || v.Kind() != reflect.Chan || v.IsNil() {
		return false
	}
	return v.Len() > 0 || s.closed[v.Pointer()]
}

func (s *Sched) sendReady(ch interface{}) bool {
	v := reflect.ValueOf(ch)
	if !v.IsValid() || v.Kind() != reflect.Chan || v.IsNil() {
		return false
	}
	if s.closed[v.Pointer()] {
		return true // will panic, as in Go
	}
	return v.Len() < v.Cap()
}

// MarkClosed records that ch has been closed by code that is not instrumented (e.g. a context's Done channel).
func MarkClosed(ch interface{}) {
	if s := S; s != nil {
		if p := chanPtr(ch); p != 0 {
			s.mu.Lock()
			s.closed[p] = true
			s.mu.Unlock()
		}
	}
}

func Close[T any](ch chan T) {
	Point("close(chan)")
	MarkClosed(ch)
	close(ch)
}

func Recv[T any](ch <-chan T) T {
	s := S
	if s == nil {
		return <-ch
	}
	Point("chan recv")
	BlockUntil("chan recv", func() bool { return s.recvReady(ch) })
	return <-ch
}

func Recv2[T any](ch <-chan T) (T, bool) {
	s := S
	if s == nil {
		v, ok := <-ch
		return v, ok
	}
	Point("chan recv")
	BlockUntil("chan recv", func() bool { return s.recvReady(ch) })
	v, ok := <-ch
	return v, ok
}

func Send[T any](ch chan<- T, v T) {
	s := S
	if s == nil {
		ch <- v
		return
	}
	Point("chan send")
	if reflect.ValueOf(ch).Cap() == 0 {
		panic("verifrt: send on an unbuffered channel is not supported by the controlled scheduler")
	}
	BlockUntil("chan send", func() bool { return s.sendReady(ch) })
	ch <- v
}

// SelCase describes one case of a select statement.
type SelCase struct {
	Ch   interface{}
	Send bool
}

func RecvCase(ch interface{}) SelCase { return SelCase{Ch: ch} }
func SendCase(ch interface{}) SelCase { return SelCase{Ch: ch, Send: true} }

// Select blocks until one of the cases can proceed and returns its index; with hasDefault it returns -1
// instead of blocking. When several cases are ready the lowest index is the default choice and every other
// ready case is an alternative costing one deviation.
func Select(hasDefault bool, cases ...SelCase) int {
	s := S
	if s == nil {
		panic("verifrt.Select outside a controlled execution")
	}
	Point("select")
	ready := func() []int {
		var r []int
		for i, c := range cases {
			if (c.Send && s.sendReady(c.Ch)) || (!c.Send && s.recvReady(c.Ch)) {
				r = append(r, i)
			}
		}
		return r
	}
	if hasDefault {
		s.mu.Lock()
		r := ready()
		s.mu.Unlock()
		if len(r) == 0 {
			return -1
		}
	} else {
		BlockUntil("select", func() bool { return len(ready()) > 0 })
	}
	s.mu.Lock()
	defer s.mu.Unlock()
	r := ready()
	if len(r) == 1 {
		return r[0]
	}
	costs := make([]int, len(r))
	labels := make([]string, len(r))
	for i := range r {
		if i > 0 {
			costs[i] = 1
		}
		labels[i] = "case"
	}
	return r[s.choose("select", costs, labels, "select")]
}

// ---- time ----------------------------------------------------------------------------------------

func Now() time.Time {
	s := S
	if s == nil {
		return time.Now()
	}
	s.mu.Lock()
	defer s.mu.Unlock()
	return Base.Add(s.now)
}

func Since(t time.Time) time.Duration { return Now().Sub(t) }
func Until(t time.Time) time.Duration { return t.Sub(Now()) }

func Sleep(d time.Duration) {
	s := S
	if s == nil {
		time.Sleep(d)
		return
	}
	Point("Sleep")
	s.mu.Lock()
	wake := s.now + d
	s.addTimer(d, "sleep", nil)
	s.mu.Unlock()
	BlockUntil("sleep", func() bool { return s.now >= wake })
}

// Timer replaces time.Timer (field C, Stop, Reset).
type Timer struct {
	C  chan time.Time
	vt *vtimer
	f  func()
}

func newTimer(d time.Duration, f func()) *Timer {
	s := S
	t := &Timer{C: make(chan time.Time, 1), f: f}
	s.mu.Lock()
	t.arm(s, d)
	s.mu.Unlock()
	return t
}

func (t *Timer) arm(s *Sched, d time.Duration) {
	t.vt = s.addTimer(d, "timer", func() {
		if t.f != nil {
			s.startThread("AfterFunc", t.f) // runs as a thread of its own, like the runtime's timer goroutine
			return
		}
		select {
		case t.C <- Base.Add(s.now):
		default:
		}
	})
}

func NewTimer(d time.Duration) *Timer { Point("NewTimer"); return newTimer(d, nil) }
func AfterFunc(d time.Duration, f func()) *Timer {
	Point("AfterFunc")
	return newTimer(d, f)
}
func After(d time.Duration) <-chan time.Time { return NewTimer(d).C }

func (t *Timer) Stop() bool {
	s := S
	s.mu.Lock()
	defer s.mu.Unlock()
	was := !t.vt.fired && !t.vt.stopped
	t.vt.stopped = true
	return was
}

func (t *Timer) Reset(d time.Duration) bool {
	s := S
	s.mu.Lock()
	defer s.mu.Unlock()
	was := !t.vt.fired && !t.vt.stopped
	t.vt.stopped = true
	t.arm(s, d)
	return was
}

// AcquireTimer / ReleaseTimer replace hertz's pkg/common/timer pool.
func AcquireTimer(d time.Duration) *Timer { return NewTimer(d) }
func ReleaseTimer(t *Timer)               { t.Stop() }

// Ticker replaces time.Ticker.
type Ticker struct {
	C       chan time.Time
	d       time.Duration
	stopped bool
}

func NewTicker(d time.Duration) *Ticker {
	Point("NewTicker")
	s := S
	tk := &Ticker{C: make(chan time.Time, 1), d: d}
	s.mu.Lock()
	tk.arm(s)
	s.mu.Unlock()
	return tk
}

func (tk *Ticker) arm(s *Sched) {
	s.addTimer(tk.d, "ticker", func() {
		if tk.stopped {
			return
		}
		select {
		case tk.C <- Base.Add(s.now):
		default:
		}
		tk.arm(s)
	})
}

func (tk *Ticker) Stop() {
	s := S
	s.mu.Lock()
	tk.stopped = true
	s.mu.Unlock()
}

// ---- context ---------------------------------------------------------------------------------------

type vctx struct {
	parent   context.Context
	done     chan struct{}
	err      error
	deadline time.Time
	hasDL    bool
	children []*vctx
}

func (c *vctx) Deadline() (time.Time, bool) {
	if c.hasDL {
		return c.deadline, true
	}
	return c.parent.Deadline()
}
func (c *vctx) Done() <-chan struct{} { return c.done }
func (c *vctx) Err() error {
	s := S
	if s != nil {
		s.mu.Lock()
		defer s.mu.Unlock()
	}
	return c.err
}
func (c *vctx) Value(k interface{}) interface{} { return c.parent.Value(k) }

func (c *vctx) cancelLocked(s *Sched, err error) {
	if c.err != nil {
		return
	}
	c.err = err
	s.closed[chanPtr(c.done)] = true
	close(c.done)
	for _, ch := range c.children {
		ch.cancelLocked(s, err)
	}
}

// WithCancel / WithTimeout return contexts whose cancellation is visible to the scheduler
// (parent cancellation is propagated only for parents created here).
func WithCancel(parent context.Context) (context.Context, context.CancelFunc) {
	s := S
	if s == nil {
		return context.WithCancel(parent)
	}
	c := &vctx{parent: parent, done: make(chan struct{})}
	link(s, parent, c)
	return c, func() {
		Point("cancel")
		s.mu.Lock()
		c.cancelLocked(s, context.Canceled)
		s.mu.Unlock()
	}
}

func WithTimeout(parent context.Context, d time.Duration) (context.Context, context.CancelFunc) {
	s := S
	if s == nil {
		return context.WithTimeout(parent, d)
	}
	Point("WithTimeout")
	c := &vctx{parent: parent, done: make(chan struct{}), hasDL: true}
	s.mu.Lock()
	c.deadline = Base.Add(s.now + d)
	vt := s.addTimer(d, "ctx-deadline", func() { c.cancelLocked(s, context.DeadlineExceeded) })
	s.mu.Unlock()
	link(s, parent, c)
	return c, func() {
		Point("cancel")
		s.mu.Lock()
		vt.stopped = true
		c.cancelLocked(s, context.Canceled)
		s.mu.Unlock()
	}
}

func link(s *Sched, parent context.Context, child *vctx) {
	if p, ok := parent.(*vctx); ok {
		s.mu.Lock()
		p.children = append(p.children, child)
		if p.err != nil {
			child.cancelLocked(s, p.err)
		}
		s.mu.Unlock()
	}
}

// Pool replaces sync.Pool in files instrumented with ":pool": a plain LIFO stack that is emptied when a new execution
// starts. sync.Pool's contents depend on the P a goroutine happens to run on, on the garbage collector and on earlier
// executions in the same process, none of which a recorded schedule fixes; with this Pool an object put back is always
// the next one handed out (the reuse every schedule has to tolerate), and a replay sees the same objects.
// Only one thread runs at a time under the scheduler, so no locking is needed.
type Pool struct {
	New   func() interface{}
	items []interface{}
	owner *Sched
}

func (p *Pool) sync() {
	if p.owner != S {
		p.owner, p.items = S, nil
	}
}

func (p *Pool) Get() interface{} {
	p.sync()
	if n := len(p.items); n > 0 {
		x := p.items[n-1]
		p.items[n-1] = nil
		p.items = p.items[:n-1]
		return x
	}
	if p.New != nil {
		return p.New()
	}
	return nil
}

func (p *Pool) Put(x interface{}) {
	p.sync()
	p.items = append(p.items, x)
}
