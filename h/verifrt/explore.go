package verifrt

import (
	"fmt"
	"runtime"
	"runtime/debug"
	"time"
)

// Options of one controlled execution.
type Options struct {
	MaxTimeAdvances int  // horizon: how many times the virtual clock may be advanced (timer fires)
	MaxSteps        int  // scheduling steps before the execution is declared a livelock
	Log             bool // keep a human-readable log of the execution
	// SwitchCost is the deviation cost of choosing another than the lowest-numbered enabled thread when the running
	// thread blocks or ends. 0 = free (classic preemption bounding); 1 = every departure from the canonical schedule counts.
	SwitchCost int
	// UnlockPoints: Mutex.Unlock is a scheduling point too. Not needed for code whose shared accesses all happen under a
	// lock; with it a thread can be preempted between releasing a lock and its next (possibly unsynchronised) access.
	UnlockPoints bool
}

// Result of one controlled execution.
type Result struct {
	Points   []ChoicePoint
	Deadlock string
	Diverged string
	Horizon  bool
	Livelock bool
	Log      []string
	Hung     bool // the execution did not finish in real time: something blocked outside the scheduler
	End      time.Duration
}

// Choices returns the alternative taken at every choice point.
func (r *Result) Choices() []int {
	out := make([]int, len(r.Points))
	for i, p := range r.Points {
		out[i] = p.Chosen
	}
	return out
}

// Run executes body once as thread "main" under the schedule given by prefix (then defaults).
func Run(prefix []int, o Options, body func()) *Result { return RunWith(prefix, o, body, nil) }

// RunWith is Run with an invariant hook evaluated at every scheduling point.
func RunWith(prefix []int, o Options, body func(), onPoint func()) *Result {
	if o.MaxTimeAdvances == 0 {
		o.MaxTimeAdvances = 16
	}
	if o.MaxSteps == 0 {
		o.MaxSteps = 200000
	}
	s := &Sched{prefix: prefix, finished: make(chan struct{}), maxAdv: o.MaxTimeAdvances, maxSteps: o.MaxSteps, logOn: o.Log, closed: map[uintptr]bool{}, OnPoint: onPoint, switchCost: o.SwitchCost, unlockPoints: o.UnlockPoints}
	S = s
	s.mu.Lock()
	t := s.startThread("main", body)
	s.cur = t
	s.mu.Unlock()
	t.wake <- struct{}{}
	res := &Result{}
	select {
	case <-s.finished:
	case <-time.After(20 * time.Second):
		res.Hung = true
		buf := make([]byte, 1<<16)
		buf = buf[:runtime.Stack(buf, true)]
		res.Log = append(res.Log, "HUNG; goroutines:\n"+string(buf))
	}
	if !res.Hung {
		done := make(chan struct{})
		go func() { s.wg.Wait(); close(done) }()
		select {
		case <-done:
		case <-time.After(20 * time.Second):
			res.Hung = true
			buf := make([]byte, 1<<16)
			buf = buf[:runtime.Stack(buf, true)]
			res.Log = append(res.Log, "threads did not exit after the end of the execution; goroutines:\n"+string(buf))
		}
	}
	s.mu.Lock()
	res.Points, res.Deadlock, res.Diverged, res.Horizon, res.Livelock, res.End = s.Points, s.Deadlock, s.Diverged, s.Horizon, s.Livelock, s.now
	res.Log = append(s.Log, res.Log...)
	s.mu.Unlock()
	S = nil
	return res
}

// Stats of an exploration.
type Stats struct {
	Executions   int64
	Points       int64 // scheduling/choice points visited (transitions)
	MaxDepth     int
	Bound        int
	Completed    bool  // the whole tree within the bound was explored
	Preemptive   int64 // executions containing at least one deviation
	Horizons     int64
	ByDeviations map[int]int64
}

// Explore enumerates every execution of body whose total deviation cost is <= bound (iterative deviation
// bounding: the default schedule first, then every single deviation, ...), calling check after each one.
// check returns false to stop the exploration (e.g. after a violation was recorded). stop() is polled
// between executions (deadline).
func Explore(bound int, o Options, mk func() (body func(), onPoint func()), check func(r *Result, dev int) bool, stop func() bool) *Stats {
	st := &Stats{Bound: bound, ByDeviations: map[int]int64{}, Completed: true}
	old := debug.SetGCPercent(-1) // no GC inside an execution: channel identities and pools stay put
	defer debug.SetGCPercent(old)
	type item struct {
		prefix []int
		cost   int
	}
	stack := []item{{nil, 0}}
	n := 0
	for len(stack) > 0 {
		it := stack[len(stack)-1]
		stack = stack[:len(stack)-1]
		if stop != nil && stop() {
			st.Completed = false
			break
		}
		b, op := mk()
		r := RunWith(it.prefix, o, b, op)
		n++
		if n%64 == 0 {
			runtime.GC()
		}
		st.Executions++
		st.Points += int64(len(r.Points))
		if len(r.Points) > st.MaxDepth {
			st.MaxDepth = len(r.Points)
		}
		if r.Horizon {
			st.Horizons++
		}
		dev := 0
		for _, p := range r.Points {
			dev += p.Costs[p.Chosen]
		}
		st.ByDeviations[dev]++
		if dev > 0 {
			st.Preemptive++
		}
		if !check(r, dev) {
			st.Completed = false
			break
		}
		if r.Diverged != "" || r.Hung {
			st.Completed = false
			break
		}
		// branch on every alternative at every point after the prefix
		cost := 0
		for i, p := range r.Points {
			if i >= len(it.prefix) {
				for alt := len(p.Costs) - 1; alt >= 1; alt-- {
					if cost+p.Costs[alt] <= bound {
						np := make([]int, i+1)
						for j := 0; j < i; j++ {
							np[j] = r.Points[j].Chosen
						}
						np[i] = alt
						stack = append(stack, item{np, cost + p.Costs[alt]})
					}
				}
			}
			cost += p.Costs[p.Chosen]
		}
	}
	return st
}

// Describe renders the choices of an execution for humans.
func Describe(r *Result) []string {
	var out []string
	for i, p := range r.Points {
		if p.Chosen != 0 {
			out = append(out, fmt.Sprintf("#%d %s at %q: took %s (cost %d) instead of %s", i, p.Kind, p.At, p.Labels[p.Chosen], p.Costs[p.Chosen], p.Labels[0]))
		}
	}
	return out
}
