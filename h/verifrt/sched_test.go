package verifrt

import (
	"testing"
	"time"
)

func TestLostUpdate(t *testing.T) {
	found := 0
	var outcomes = map[int32]int{}
	st := Explore(2, Options{}, func() (func(), func()) {
		var x int32
		return func() {
			var wg WaitGroup
			wg.Add(2)
			for i := 0; i < 2; i++ {
				Go("w", func() {
					v := LoadInt32(&x)
					StoreInt32(&x, v+1)
					wg.Done()
				})
			}
			wg.Wait()
			outcomes[x]++
			if x != 2 {
				found++
			}
		}, nil
	}, func(r *Result, dev int) bool {
		if r.Deadlock != "" || r.Diverged != "" || r.Hung {
			t.Fatalf("dl=%q div=%q hung=%v log=%v", r.Deadlock, r.Diverged, r.Hung, r.Log)
		}
		return true
	}, nil)
	t.Logf("executions=%d points=%d outcomes=%v completed=%v byDev=%v", st.Executions, st.Points, outcomes, st.Completed, st.ByDeviations)
	if found == 0 {
		t.Fatal("lost update not found")
	}
}

func TestDeadlockAndTimers(t *testing.T) {
	r := Run(nil, Options{Log: true}, func() {
		var a, b Mutex
		var wg WaitGroup
		wg.Add(2)
		Go("t1", func() {
			a.Lock()
			Sleep(time.Second)
			b.Lock()
			b.Unlock()
			a.Unlock()
			wg.Done()
		})
		Go("t2", func() {
			b.Lock()
			Sleep(time.Second)
			a.Lock()
			a.Unlock()
			b.Unlock()
			wg.Done()
		})
		wg.Wait()
	})
	if r.Deadlock == "" {
		t.Fatalf("deadlock not detected: %v", r.Log)
	}
	t.Log(r.Deadlock)
	// select with timer vs channel
	got := ""
	r = Run(nil, Options{}, func() {
		ch := make(chan struct{}, 1)
		tm := NewTimer(5 * time.Second)
		Go("closer", func() { Sleep(10 * time.Second); Close(ch) })
		switch Select(false, RecvCase(ch), RecvCase(tm.C)) {
		case 0:
			got = "chan"
		case 1:
			got = "timer"
		}
	})
	if got != "timer" || r.Deadlock != "" {
		t.Fatalf("got %q deadlock=%q", got, r.Deadlock)
	}
	// determinism: same prefix twice gives identical traces
	mk := func() func() {
		var x int32
		return func() {
			var wg WaitGroup
			wg.Add(2)
			Go("a", func() { AddInt32(&x, 1); AddInt32(&x, 1); wg.Done() })
			Go("b", func() { AddInt32(&x, 2); wg.Done() })
			wg.Wait()
		}
	}
	r1 := Run([]int{0, 1, 1}, Options{}, mk())
	r2 := Run([]int{0, 1, 1}, Options{}, mk())
	if len(r1.Points) != len(r2.Points) {
		t.Fatalf("nondeterministic: %d vs %d points", len(r1.Points), len(r2.Points))
	}
	for i := range r1.Points {
		if r1.Points[i].Chosen != r2.Points[i].Chosen || len(r1.Points[i].Costs) != len(r2.Points[i].Costs) {
			t.Fatalf("nondeterministic at %d", i)
		}
	}
}
