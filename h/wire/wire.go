// Package wire builds request byte streams from structured descriptions and states what an
// RFC 7230 reader must see for them (the expectation comes from the description, not from hertz).
package wire

import (
	"bytes"
	"fmt"
	"strings"

	"verifh/httpref"
)

// Framing kinds.
const (
	FNone = iota
	FCL
	FChunked
	FChunkedTrailer
	FCLExpect
	FChunkedExpect
)

// Chunk partitions.
const (
	POne = iota
	PBytes1
	PSplit4096
	PHexUpper
	PLeadZero
	PThree
)

// Content-Length name spellings.
const (
	NCanon = iota
	NLower
	NMixed
	NRepeat
)

// Extra header shapes.
const (
	XNone = iota
	XPlain
	XFoldSP
	XFoldTab
	XFold2
	XEmpty
	XMany
	XMany2     // 100 long headers (about 11 KiB: three buffer nodes)
	XTabOWS    // HTAB as optional whitespace around a field value (RFC 7230 3.2.3: OWS = *( SP / HTAB ))
	XFoldColon // an obs-folded value whose continuation line contains a colon
)

// FoldIndents are the indentations of a continuation line (RFC 7230 3.2.4: obs-fold = CRLF 1*( SP / HTAB )).
var FoldIndents = []string{"", " ", "\t", " \t", "\t ", "  ", "\t\t", " \t "}

var NearMissNames = []string{"", "Content-Lengthx", "Xontent-Length", "Content_Length", "Transfer-Encodin", "Ransfer-Encoding", "Content\rLength", "Transfer\rEncoding", "Content-Length-", "Transfer_Encoding",
	// equal to the framing name only under Unicode case folding (U+017F LATIN SMALL LETTER LONG S folds to s): not a token, not a framing field
	"Tran\u017ffer-Encoding"}

type Spec struct {
	Method      string `json:"m"`
	V10         bool   `json:"v10,omitempty"`
	KeepAl10    bool   `json:"ka10,omitempty"` // HTTP/1.0 with Connection: keep-alive
	Target      string `json:"t"`
	Framing     int    `json:"f"`
	BodyLen     int    `json:"n"`
	Part        int    `json:"p,omitempty"`
	CLName      int    `json:"cn,omitempty"`
	NearMiss    int    `json:"nm,omitempty"`
	Extra       int    `json:"x,omitempty"`
	Close       bool   `json:"close,omitempty"`
	ID          string `json:"id"`
	TENameMixed bool   `json:"temix,omitempty"`
	TrName      string `json:"trname,omitempty"`    // trailer field name (default X-Tr)
	Multipart   bool   `json:"multipart,omitempty"` // FCL only: a multipart/form-data body whose bytes after the closing boundary (epilogue, RFC 2046) fill it up to BodyLen
	// FoldFraming k>0: the framing field's value starts on a continuation line (obs-fold right after the colon) indented with FoldIndents[k]
	FoldFraming   int  `json:"fold_framing,omitempty"`
	TabFraming    bool `json:"tab_framing,omitempty"`     // the framing field's value is set off with HTAB instead of SP ("Content-Length:\t5", "Transfer-Encoding:\tchunked")
	LongChunkSize bool `json:"long_chunk_size,omitempty"` // chunk sizes are written with 16 hex digits (zero padded)
	ChunkExt      bool `json:"chunk_ext,omitempty"`       // chunked framings: every chunk-size line carries a chunk extension (RFC 7230 4.1.1: recipients ignore unknown ones)
	Decline       bool `json:"decline,omitempty"`         // Expect framings: carries X-Decline, which the harness engine's ContinueHandler refuses (417); the client sends the body anyway
	TrListTab     bool `json:"tr_list_tab,omitempty"`     // the trailer is announced in a list whose elements are set off with HTAB ("Trailer: X-Pad,<HTAB>X-Tr")
	TrUnannounced bool `json:"tr_unannounced,omitempty"`  // FChunkedTrailer without a Trailer header field: the section must be consumed, its delivery is not demanded
}

type Expect struct {
	Method      string
	Target      string
	Body        []byte
	BodyOpaque  bool             // the framework replaces the body by its parsed form (multipart): only framing is judged, not the bytes handed to the handler
	Custom      []httpref.Header // header fields that must be visible to the handler (multiset)
	Trailers    []httpref.Header
	Expect100   bool
	Close       bool // the connection must not serve anything after this request
	Declined    bool // the server declines this request's Expect: 100-continue: no handler, a 4xx, and nothing served afterwards (the body the client sent anyway must not be read as a request)
	InvalidName bool // the message contains a syntactically invalid field name: rejection (4xx+close) is an acceptable outcome
}

// evil is what bodies are filled with: it looks like a chunk terminator followed by a request.
var evil = []byte("0\r\n\r\nGET /evil HTTP/1.1\r\nHost: e\r\nX-Id: evil\r\n\r\n")

func Body(n int) []byte {
	b := make([]byte, 0, n+len(evil))
	for len(b) < n {
		b = append(b, evil...)
	}
	return b[:n]
}

func clName(k int) string {
	switch k {
	case NLower:
		return "content-length"
	case NMixed:
		return "cOnTeNt-lEnGtH"
	}
	return "Content-Length"
}

func chunks(body []byte, part int) [][]byte {
	if len(body) == 0 {
		return nil
	}
	switch part {
	case PBytes1:
		if len(body) > 600 { // keep 1-byte chunking affordable: first 300 singly, then the rest
			out := make([][]byte, 0, 301)
			for i := 0; i < 300; i++ {
				out = append(out, body[i:i+1])
			}
			return append(out, body[300:])
		}
		out := make([][]byte, len(body))
		for i := range body {
			out[i] = body[i : i+1]
		}
		return out
	case PSplit4096:
		var out [][]byte
		for len(body) > 4096 {
			out = append(out, body[:4096])
			body = body[4096:]
		}
		return append(out, body)
	case PThree:
		if len(body) < 3 {
			return [][]byte{body}
		}
		a, b := len(body)/3, 2*len(body)/3
		return [][]byte{body[:a], body[a:b], body[b:]}
	}
	return [][]byte{body}
}

// Build returns the wire bytes of the request and what a correct reader must observe.
func Build(s Spec) ([]byte, Expect) {
	var w bytes.Buffer
	ex := Expect{Method: s.Method, Target: s.Target}
	ver := "HTTP/1.1"
	if s.V10 {
		ver = "HTTP/1.0"
	}
	fmt.Fprintf(&w, "%s %s %s\r\n", s.Method, s.Target, ver)
	w.WriteString("Host: h\r\n")
	fmt.Fprintf(&w, "X-Id: %s\r\n", s.ID)
	ex.Custom = append(ex.Custom, httpref.Header{Name: "X-Id", Value: s.ID})
	body := Body(s.BodyLen)
	if s.Framing == FNone {
		body = nil
	}
	if s.Multipart && s.Framing == FCL {
		form := "--xx\r\nContent-Disposition: form-data; name=\"a\"\r\n\r\nv\r\n--xx--\r\n"
		if len(body) > len(form)+8 {
			copy(body, form)
			copy(body[len(form):], "\r\n\r\n\r\n") // then the usual filler: a terminator-and-request look-alike
			w.WriteString("Content-Type: multipart/form-data; boundary=xx\r\n")
			ex.BodyOpaque = true
		}
	}
	if s.Decline && (s.Framing == FCLExpect || s.Framing == FChunkedExpect) {
		w.WriteString("X-Decline: 1\r\n")
		ex.Custom = append(ex.Custom, httpref.Header{Name: "X-Decline", Value: "1"})
		ex.Declined = true
	}
	ex.Body = body
	// near-miss framing name placed BEFORE the real framing header
	if s.NearMiss > 0 {
		nm := NearMissNames[s.NearMiss]
		val := "7"
		if strings.Contains(strings.ToLower(nm), "ransfer") || strings.Contains(nm, "\u017f") {
			val = "chunked"
		}
		fmt.Fprintf(&w, "%s: %s\r\n", nm, val)
		ex.Custom = append(ex.Custom, httpref.Header{Name: nm, Value: val})
		if strings.ContainsAny(nm, "\r\n") || strings.IndexFunc(nm, func(r rune) bool { return r >= 0x80 }) >= 0 {
			ex.InvalidName = true
		}
	}
	switch s.Extra {
	case XPlain:
		w.WriteString("X-Extra: some value\r\n")
		ex.Custom = append(ex.Custom, httpref.Header{Name: "X-Extra", Value: "some value"})
	case XFoldSP:
		w.WriteString("X-Fold: part1\r\n part2\r\n")
		ex.Custom = append(ex.Custom, httpref.Header{Name: "X-Fold", Value: "part1 part2"})
	case XFoldTab:
		w.WriteString("X-Fold: part1\r\n\tpart2\r\n")
		ex.Custom = append(ex.Custom, httpref.Header{Name: "X-Fold", Value: "part1 part2"})
	case XFold2:
		w.WriteString("X-Fold: p1\r\n p2\r\n\tp3\r\nX-After: a\r\n")
		ex.Custom = append(ex.Custom, httpref.Header{Name: "X-Fold", Value: "p1 p2 p3"}, httpref.Header{Name: "X-After", Value: "a"})
	case XTabOWS:
		w.WriteString("X-Tab:\tv w \t\r\n")
		ex.Custom = append(ex.Custom, httpref.Header{Name: "X-Tab", Value: "v w"})
	case XFoldColon:
		w.WriteString("X-Ref: see\r\n http://example.com/doc at 10:30\r\n")
		ex.Custom = append(ex.Custom, httpref.Header{Name: "X-Ref", Value: "see http://example.com/doc at 10:30"})
	case XEmpty:
		w.WriteString("X-Empty:\r\n")
		ex.Custom = append(ex.Custom, httpref.Header{Name: "X-Empty", Value: ""})
	case XMany, XMany2:
		cnt := 40
		if s.Extra == XMany2 {
			cnt = 100
		}
		for i := 0; i < cnt; i++ {
			v := strings.Repeat(fmt.Sprintf("v%02d.", i), 24)
			fmt.Fprintf(&w, "X-M%02d: %s\r\n", i, v)
			ex.Custom = append(ex.Custom, httpref.Header{Name: fmt.Sprintf("X-M%02d", i), Value: v})
		}
	}
	if s.V10 && s.KeepAl10 && !s.Close {
		w.WriteString("Connection: keep-alive\r\n")
	}
	if s.Close {
		w.WriteString("Connection: close\r\n")
	}
	ex.Close = s.Close || (s.V10 && !s.KeepAl10)
	switch s.Framing {
	case FCL, FCLExpect:
		if s.Framing == FCLExpect {
			w.WriteString("Expect: 100-continue\r\n")
			ex.Expect100 = true
		}
		if s.FoldFraming > 0 {
			fmt.Fprintf(&w, "%s:\r\n%s%d\r\n", clName(s.CLName), FoldIndents[s.FoldFraming], len(body))
		} else if s.TabFraming {
			fmt.Fprintf(&w, "%s:\t%d\t\r\n", clName(s.CLName), len(body))
		} else {
			fmt.Fprintf(&w, "%s: %d\r\n", clName(s.CLName), len(body))
		}
		if s.CLName == NRepeat {
			fmt.Fprintf(&w, "%s: %d\r\n", clName(NCanon), len(body))
		}
		w.WriteString("\r\n")
		w.Write(body)
	case FChunked, FChunkedTrailer, FChunkedExpect:
		if s.Framing == FChunkedExpect {
			w.WriteString("Expect: 100-continue\r\n")
			ex.Expect100 = true
		}
		trName := s.TrName
		if trName == "" {
			trName = "X-Tr"
		}
		if s.Framing == FChunkedTrailer && !s.TrUnannounced {
			if s.TrListTab {
				w.WriteString("Trailer: X-Pad,\t" + trName + "\t\r\n")
			} else {
				w.WriteString("Trailer: " + trName + "\r\n")
			}
		}
		if s.FoldFraming > 0 {
			w.WriteString("Transfer-Encoding:\r\n" + FoldIndents[s.FoldFraming] + "chunked\r\n\r\n")
		} else if s.TabFraming {
			w.WriteString("Transfer-Encoding:\tchunked\r\n\r\n")
		} else if s.TENameMixed {
			w.WriteString("tRaNsFeR-eNcOdInG: chunked\r\n\r\n")
		} else {
			w.WriteString("Transfer-Encoding: chunked\r\n\r\n")
		}
		continue2 := false
		for _, c := range chunks(body, s.Part) {
			ext := ""
			if s.ChunkExt {
				ext = ";name=value"
			}
			switch {
			case s.LongChunkSize:
				fmt.Fprintf(&w, "%016x%s\r\n", len(c), ext)
				continue2 = true
			}
			if continue2 {
				continue2 = false
				w.Write(c)
				w.WriteString("\r\n")
				continue
			}
			switch s.Part {
			case PHexUpper:
				fmt.Fprintf(&w, "%X%s\r\n", len(c), ext)
			case PLeadZero:
				fmt.Fprintf(&w, "00%x%s\r\n", len(c), ext)
			default:
				fmt.Fprintf(&w, "%x%s\r\n", len(c), ext)
			}
			w.Write(c)
			w.WriteString("\r\n")
		}
		if s.ChunkExt {
			w.WriteString("0;last\r\n")
		} else {
			w.WriteString("0\r\n")
		}
		if s.Framing == FChunkedTrailer {
			w.WriteString(trName + ": tv\r\n")
			if !s.TrUnannounced {
				ex.Trailers = append(ex.Trailers, httpref.Header{Name: trName, Value: "tv"})
			}
		}
		w.WriteString("\r\n")
	default:
		w.WriteString("\r\n")
	}
	return w.Bytes(), ex
}

// NormVal collapses runs of blanks (obs-fold may be replaced by one or more SP).
func NormVal(v string) string {
	v = strings.ReplaceAll(v, "\t", " ")
	for strings.Contains(v, "  ") {
		v = strings.ReplaceAll(v, "  ", " ")
	}
	return strings.TrimSpace(v)
}
