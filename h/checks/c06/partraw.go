package c06

import (
	"context"
	"fmt"
	"net/url"
	"strings"
	"sync/atomic"

	"github.com/cloudwego/hertz/pkg/app"
	"github.com/cloudwego/hertz/pkg/common/config"
	"github.com/cloudwego/hertz/pkg/route"

	"verifh/mc"
)

// Part R: the UseRawPath option. The router then matches the raw (still percent-encoded) request path and unescapes the
// captured values afterwards (UnescapePathValues, default on). Same reference matcher, run on the raw path; a captured
// value is the unescaped form of the raw substring the pattern matched. Route sets: all pairs and triples over a
// pattern universe with parameters in every position; targets: up to 3 segments that contain escapes of different lengths.

type RawCase struct {
	Set    []string `json:"set"`
	Target string   `json:"target"`
}

var rawSegs = []string{"a", "b", "c", "%41%41", "a%2Fb", "%61"}

func rawTargets() []string {
	var out []string
	var rec func(p string, d int)
	rec = func(p string, d int) {
		if d > 0 {
			out = append(out, p, p+"/")
		}
		if d == 3 {
			return
		}
		for _, s := range rawSegs {
			rec(p+"/"+s, d+1)
		}
	}
	rec("", 0)
	return out
}

var rawPatterns = []string{"/a/:x/b", "/a/*y", "/:z/:w/c", "/:z/*y", "/p/:x/b", "/a/:x", "/:z/b", "/a/b", "/:z", "/a/:x/:w", "/*y", "/a/:x/c", "/b/:x/", "/:z/:w/"}

func rawOne(c *mc.Ctx, set []string, target string, report bool) bool {
	pats := compileAll(set)
	for i := range pats {
		for j := i + 1; j < len(pats); j++ {
			if pats[i].anon == pats[j].anon {
				return true // conflicting set: not registrable
			}
		}
	}
	opt := config.NewOptions(nil)
	opt.DisablePrintRoute = true
	opt.UseRawPath = true
	opt.RedirectTrailingSlash = false
	e := route.NewEngine(opt)
	ran, vals := -1, ""
	var pv interface{}
	func() {
		defer func() { pv = recover() }()
		for i, p := range pats {
			i := i
			e.GET(p.s, func(_ context.Context, ctx *app.RequestContext) {
				ran = i
				var sb strings.Builder
				for _, pr := range ctx.Params {
					fmt.Fprintf(&sb, "%s=%q ", pr.Key, pr.Value)
				}
				vals = sb.String()
			})
		}
	}()
	if pv != nil {
		return true // registration refused (wildcard conflicts): not part of this check
	}
	ctx := e.NewContext()
	ctx.Request.Header.SetMethod("GET")
	ctx.Request.SetRequestURI(target)
	ctx.Request.Header.SetHost("h")
	if pv := serve(context.Background(), e, ctx); pv != nil {
		if report {
			c.Violate("raw-path|panic", fmt.Sprintf("UseRawPath: routes %q, GET %s: panic %v", set, target, pv), RawCase{set, target})
		}
		return false
	}
	ref := refMatch(pats, target)
	if ref.ambiguous {
		return true
	}
	want := ""
	if ref.pat >= 0 {
		var sb strings.Builder
		for i := 0; i < ref.nvals; i++ {
			v, err := url.QueryUnescape(ref.vals[i])
			if err != nil {
				v = ref.vals[i]
			}
			fmt.Fprintf(&sb, "%s=%q ", pats[ref.pat].names[i], v)
		}
		want = sb.String()
	}
	if ran != ref.pat || (ran >= 0 && vals != want) {
		if report {
			g, w := "no route", "no route"
			if ran >= 0 {
				g = fmt.Sprintf("route %q with %s", set[ran], vals)
			}
			if ref.pat >= 0 {
				w = fmt.Sprintf("route %q with %s", set[ref.pat], want)
			}
			cl := "none"
			if ref.pat >= 0 {
				cl = pats[ref.pat].class
			}
			c.Violate("raw-path|wrong-dispatch|want="+cl, fmt.Sprintf("UseRawPath: routes %q, GET %s dispatched to %s; the priority rule on the raw path selects %s", set, target, g, w), RawCase{set, target})
		}
		return false
	}
	return true
}

// rawAbsolute: absolute-form targets on a raw-path engine. The path of "http://h?x=1" is empty, i.e. "/".
func rawAbsolute(c *mc.Ctx) {
	type tc struct {
		target string
		want   int // index into routes, -1 none
	}
	routes := []string{"/", "/a/b", "/a/:x"}
	cases := []tc{{"http://h", 0}, {"http://h/", 0}, {"http://h?x=1", 0}, {"http://h#f", 0}, {"http://h?x=/a/b", 0}, {"http://h/a/b", 1}, {"http://h/a/b?x=1", 1}, {"http://h/a/%41?x=1", 2}, {"http://h/zz", -1}}
	for _, t := range cases {
		opt := config.NewOptions(nil)
		opt.DisablePrintRoute = true
		opt.UseRawPath = true
		opt.RedirectTrailingSlash = false
		e := route.NewEngine(opt)
		ran := -1
		for i, r := range routes {
			i := i
			e.GET(r, func(_ context.Context, ctx *app.RequestContext) { ran = i })
		}
		ctx := e.NewContext()
		ctx.Request.Header.SetMethod("GET")
		ctx.Request.SetRequestURI(t.target)
		ctx.Request.Header.SetHost("h")
		pv := serve(context.Background(), e, ctx)
		c.Add("executions", 1)
		if pv != nil || ran != t.want {
			c.Violate("raw-path|absolute-form", fmt.Sprintf("UseRawPath: routes %q, GET %s: route index %d ran (panic %v, status %d), expected %d", routes, t.target, ran, pv, ctx.Response.StatusCode(), t.want), RawCase{routes, t.target})
		}
	}
}

func runRaw(c *mc.Ctx) {
	rawAbsolute(c)
	ts := rawTargets()
	var sets [][]string
	n := len(rawPatterns)
	for i := 0; i < n; i++ {
		sets = append(sets, []string{rawPatterns[i]})
		for j := i + 1; j < n; j++ {
			sets = append(sets, []string{rawPatterns[i], rawPatterns[j]}, []string{rawPatterns[j], rawPatterns[i]})
			for k := j + 1; k < n; k++ {
				sets = append(sets, []string{rawPatterns[i], rawPatterns[j], rawPatterns[k]}, []string{rawPatterns[k], rawPatterns[i], rawPatterns[j]})
			}
		}
	}
	c.Extra("raw_path_route_sets", len(sets))
	c.Extra("raw_path_targets", len(ts))
	var cnt int64
	c.ParallelFor(len(sets), func(i int) {
		for _, t := range ts {
			rawOne(c, sets[i], t, true)
		}
		atomic.AddInt64(&cnt, int64(len(ts)))
	})
	c.Add("executions", cnt)
	c.Add("nontrivial", cnt)
}
