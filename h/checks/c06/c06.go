// Package c06: the router dispatches to the route the documented priority selects.
//
// Bounded-exhaustive enumeration of route sets x registration orders x request paths,
// dispatched through the real Engine.ServeHTTP and judged by an independent,
// uncompressed per-character depth-first matcher over the plain list of patterns
// (static > :param > *catch-all at the first point where candidates differ, with
// backtracking). Order independence is checked differentially over all permutations.
package c06

import (
	"context"
	"encoding/json"
	"fmt"
	"io"
	"sort"
	"strings"
	"sync"
	"sync/atomic"
	"time"

	"github.com/cloudwego/hertz/pkg/app"
	"github.com/cloudwego/hertz/pkg/common/config"
	"github.com/cloudwego/hertz/pkg/common/hlog"
	"github.com/cloudwego/hertz/pkg/protocol"
	"github.com/cloudwego/hertz/pkg/route"

	"verifh/mc"
)

func init() {
	hlog.SetOutput(io.Discard)
	hlog.SetLevel(hlog.LevelFatal)
}

var Check = &mc.Check{
	ID:    "C06",
	Level: "model_checking",
	Rule: "route patterns of 1..3 segments over {a,b,ab,:x,:y,a:x,*z(last)} with/without trailing slash plus '/'; " +
		"quick: all singles over U2+U3 (560 patterns), all pairs over U2 (92 patterns), all sets of size 3 over every second pattern of sorted U2 (46) and over a 40-pattern stride sample of sorted U2+U3; " +
		"thorough: additionally all sets of size 3 over U2, all pairs over U2+U3 and all sets of size 4 over every fourth pattern of U2 (23) and over a 30-pattern stride sample of U2+U3; " +
		"every set is registered in every order, twice (directly with a 2-handler chain / through router groups with global and group middleware and a POST tree), " +
		"and every request path of <=3 segments over {a,b,ab,c,abc} with/without trailing slash (311) is dispatched as GET to both registrations and, for paths of <=2 segments (61), as POST, through Engine.ServeHTTP on a recycled context; " +
		"non-trivial = dispatches whose path is matched by at least two patterns of the set (the priority rule decides) or for which the reference matcher had to backtrack out of a higher-priority branch",
	Run:    run,
	Replay: replay,
	Assumptions: []string{
		"the reference is fed URI.Path() of the target (path normalisation is C07's business); all enumerated targets are already normal",
		"a :param consumes up to the next '/' and is tried only when the remaining path is non-empty (its value may be empty only for a mid-segment parameter directly followed by '/'); a *catch-all takes the rest, possibly empty",
		"route sets containing two patterns equal up to parameter names are expected to be rejected by registration and are skipped (counted); any other registration panic is reported",
		"UseRawPath, RemoveExtraSlash and RedirectFixedPath stay at their defaults (off)",
		"redirect/404/405 outcomes are not prescribed; they are only required to be the same for every registration order",
	},
}

// ---------------------------------------------------------------------------
// patterns

const (
	tLit = iota
	tParam
	tAny
)

type tok struct {
	kind byte
	lit  byte
	name string
}

type pattern struct {
	s     string
	toks  []tok
	names []string
	anon  string // pattern with parameter names removed: registration identity
	class string // static | param | midparam | catchall
}

func compile(s string) *pattern {
	p := &pattern{s: s, class: "static"}
	var anon strings.Builder
	for i := 0; i < len(s); {
		ch := s[i]
		if ch == ':' || ch == '*' {
			j := i + 1
			for j < len(s) && s[j] != '/' {
				j++
			}
			k := byte(tParam)
			if ch == '*' {
				k = tAny
				p.class = "catchall"
			} else if p.class != "catchall" {
				if i > 0 && s[i-1] != '/' {
					p.class = "midparam"
				} else if p.class == "static" {
					p.class = "param"
				}
			}
			p.toks = append(p.toks, tok{kind: k, name: s[i+1 : j]})
			p.names = append(p.names, s[i+1:j])
			anon.WriteByte(ch)
			i = j
			continue
		}
		p.toks = append(p.toks, tok{kind: tLit, lit: ch})
		anon.WriteByte(ch)
		i++
	}
	p.anon = anon.String()
	return p
}

var segAlpha = []string{"a", "b", "ab", ":x", ":y", "a:x"}

const anySeg = "*z"

// genPatterns returns every pattern of exactly n segments: the first n-1 from segAlpha, the
// last from segAlpha (with and without trailing slash) or the catch-all.
func genPatterns(n int) []string { return genPatternsOver(segAlpha, n) }

// segAlphaCase: static segments that differ only in the case of a letter, next to a parameter
var segAlphaCase = []string{"a", "A", "Ab", "aB", ":x"}

// universeCase: "/" and every pattern of one or two segments over segAlphaCase
func universeCase() []string {
	out := []string{"/"}
	for n := 1; n <= 2; n++ {
		out = append(out, genPatternsOver(segAlphaCase, n)...)
	}
	sort.Strings(out)
	return out
}

func genPatternsOver(segAlpha []string, n int) []string {
	var out []string
	var rec func(prefix string, d int)
	rec = func(prefix string, d int) {
		if d == n-1 {
			for _, s := range segAlpha {
				out = append(out, prefix+"/"+s, prefix+"/"+s+"/")
			}
			out = append(out, prefix+"/"+anySeg)
			return
		}
		for _, s := range segAlpha {
			rec(prefix+"/"+s, d+1)
		}
	}
	rec("", 0)
	return out
}

func universe(maxSeg int) []string {
	out := []string{"/"}
	for n := 1; n <= maxSeg; n++ {
		out = append(out, genPatterns(n)...)
	}
	sort.Strings(out)
	return out
}

// stride returns about n members of all (sorted), taking every ceil(len/n)-th one.
func stride(all []string, n int) []string {
	k := (len(all) + n - 1) / n
	var out []string
	for i := 0; i < len(all); i += k {
		out = append(out, all[i])
	}
	return out
}

// ---------------------------------------------------------------------------
// request targets

var targetSegs = []string{"a", "b", "ab", "c", "abc"}

func genTargets() []string {
	out := []string{"/"}
	var rec func(prefix string, d int)
	rec = func(prefix string, d int) {
		if d > 0 {
			out = append(out, prefix, prefix+"/")
		}
		if d == 3 {
			return
		}
		for _, s := range targetSegs {
			rec(prefix+"/"+s, d+1)
		}
	}
	rec("", 0)
	// parameter values that a second decoding would change: a literal '+' and an escaped '%' (the routed path is the
	// path decoded once, "/%41" for "/%2541"; a captured value is a substring of it)
	for _, sp := range []string{"a+b", "%2541"} {
		out = append(out, "/"+sp, "/"+sp+"/", "/a/"+sp, "/"+sp+"/a", "/"+sp+"/b", "/a/"+sp+"/b", "/a/"+sp+"/", "/a/b/"+sp, "/"+sp+"/a/b", "/ab/"+sp+"/c")
	}
	// segments that differ from a registered static segment only in the case of a letter
	for _, sp := range []string{"A", "Ab", "aB", "AB"} {
		out = append(out, "/"+sp, "/"+sp+"/", "/a/"+sp, "/"+sp+"/a", "/A/"+sp, "/"+sp+"/A", "/ab/"+sp, "/"+sp+"/ab", "/Ab/"+sp, "/"+sp+"/aB/")
	}
	return out
}

var (
	// tpaths[i] is the routed path of targets[i] (decoded once); they are equal for targets without an escape
	tpaths      []string
	targets     []string
	targetsOnce sync.Once
	postPats    []*pattern // the fixed POST tree
	postRef     []refRes
	postNT      int64
	// POST requests (wrong-method path and isolation of the second tree) are sent for the
	// targets of at most two segments only
	postTarget   []bool
	nPostTargets int
)

var postRoutes = []string{"/:y/*z", "/b", "/a/:x/"}

func setup() {
	targetsOnce.Do(func() {
		targets = genTargets()
		var u protocol.URI
		for _, t := range targets {
			u.Parse([]byte("h"), []byte(t))
			if string(u.Path()) != t && !strings.Contains(t, "%") {
				panic(fmt.Sprintf("c06: target %q is not in normal form (URI.Path()=%q)", t, u.Path()))
			}
			tpaths = append(tpaths, strings.ReplaceAll(t, "%25", "%"))
			if string(u.Path()) != tpaths[len(tpaths)-1] {
				panic(fmt.Sprintf("c06: target %q: routed path %q, expected %q", t, u.Path(), tpaths[len(tpaths)-1]))
			}
		}
		for _, s := range postRoutes {
			postPats = append(postPats, compile(s))
		}
		postRef = make([]refRes, len(targets))
		postTarget = make([]bool, len(targets))
		for i, t := range targets {
			postRef[i] = refMatch(postPats, tpaths[i])
			postTarget[i] = strings.Count(strings.TrimSuffix(t, "/"), "/") <= 2
			if !postTarget[i] {
				continue
			}
			nPostTargets++
			if postRef[i].nontrivial() {
				postNT++
			}
		}
	})
}

// ---------------------------------------------------------------------------
// the reference: uncompressed per-character depth-first matcher over the list of patterns

type cand struct {
	p int // index into the pattern list
	t int // next token
}

type refRes struct {
	pat       int // -1: no pattern matches
	nvals     int
	vals      [4]string
	choice    bool // more than one kind of continuation was available at some point
	backtrack bool // a continuation was tried and abandoned for a lower-priority one
	ambiguous bool // two patterns end at the same point (cannot happen for accepted sets)
	multi     bool // at least two patterns of the list match the path on their own: priority decided
}

// nontrivial: the priority rule or backtracking decided the outcome (see refMatch).
func (r *refRes) nontrivial() bool { return r.multi || r.backtrack }

type matcher struct {
	pats []*pattern
	path string
	res  refRes
}

func refMatch(pats []*pattern, path string) refRes {
	m := matcher{pats: pats, path: path}
	m.res.pat = -1
	start := make([]cand, len(pats))
	for i := range pats {
		start[i] = cand{i, 0}
	}
	m.res.pat = m.rec(start, 0)
	if m.res.pat < 0 {
		m.res.nvals = 0
	}
	if m.res.pat >= 0 && m.res.choice && len(pats) > 1 {
		alone := 0
		for i := range pats {
			one := matcher{pats: pats[i : i+1], path: path}
			if one.rec([]cand{{0, 0}}, 0) >= 0 {
				alone++
			}
		}
		m.res.multi = alone > 1
	}
	return m.res
}

func (m *matcher) rec(cands []cand, pos int) int {
	var bufS, bufP [8]cand
	stat, par := bufS[:0], bufP[:0]
	end, anyc := -1, -1
	rest := len(m.path) - pos
	for _, c := range cands {
		toks := m.pats[c.p].toks
		if c.t == len(toks) {
			if rest == 0 {
				if end >= 0 {
					m.res.ambiguous = true
				}
				end = c.p
			}
			continue
		}
		switch tk := toks[c.t]; tk.kind {
		case tLit:
			if rest > 0 && tk.lit == m.path[pos] {
				stat = append(stat, cand{c.p, c.t + 1})
			}
		case tParam:
			// a named parameter stands for a non-empty piece of a segment ("/user/:name" does not match "/user/",
			// and "/v:ver" does not match "/v"): the same holds in the middle of a path
			if rest > 0 && m.path[pos] != '/' {
				par = append(par, cand{c.p, c.t + 1})
			}
		case tAny:
			if anyc >= 0 {
				m.res.ambiguous = true
			}
			anyc = c.p
		}
	}
	kinds := 0
	if end >= 0 {
		kinds++
	}
	if len(stat) > 0 {
		kinds++
	}
	if len(par) > 0 {
		kinds++
	}
	if anyc >= 0 {
		kinds++
	}
	if kinds > 1 {
		m.res.choice = true
	}
	// 1. the path is used up and a pattern ends here
	if end >= 0 {
		return end
	}
	// 2. static text
	if len(stat) > 0 {
		if r := m.rec(stat, pos+1); r >= 0 {
			return r
		}
		if len(par) > 0 || anyc >= 0 {
			m.res.backtrack = true
		}
	}
	// 3. named parameter: up to the next '/'
	if len(par) > 0 {
		e := strings.IndexByte(m.path[pos:], '/')
		if e < 0 {
			e = len(m.path)
		} else {
			e += pos
		}
		n := m.res.nvals
		m.res.vals[n] = m.path[pos:e]
		m.res.nvals = n + 1
		if r := m.rec(par, e); r >= 0 {
			return r
		}
		m.res.nvals = n
		if anyc >= 0 {
			m.res.backtrack = true
		}
	}
	// 4. catch-all: the rest, possibly empty
	if anyc >= 0 {
		m.res.vals[m.res.nvals] = m.path[pos:]
		m.res.nvals++
		return anyc
	}
	return -1
}

// ---------------------------------------------------------------------------
// recording handlers

const (
	evPre = 1 + iota
	evMain
	evGrp
	evGlobal
	evPost
)

var evName = []string{"?", "pre", "main", "groupmw", "globalmw", "postmain"}

type record struct {
	n       int
	ev      [16]uint8 // kind<<4 | id
	nparam  int
	pk      [8]string
	pv      [8]string
	full    string
	byName  [4]string // ctx.Param(name) of the names the harness asked for
	byOther [4]string // ctx.Param of the same names in the other letter case (no pattern of the alphabet has such a parameter)
	want    []string  // names to query at handler time
}

func (r *record) reset(want []string) {
	r.n, r.nparam, r.full, r.want = 0, -1, "", want
}

func (r *record) add(kind, id int) {
	if r.n < len(r.ev) {
		r.ev[r.n] = uint8(kind<<4 | id)
	}
	r.n++
}

func (r *record) capture(ctx *app.RequestContext) {
	r.nparam = len(ctx.Params)
	for i, p := range ctx.Params {
		if i < len(r.pk) {
			r.pk[i], r.pv[i] = p.Key, p.Value
		}
	}
	r.full = ctx.FullPath()
	for i, nm := range r.want {
		if i < len(r.byName) {
			r.byName[i] = ctx.Param(nm)
			r.byOther[i] = ctx.Param(swapCase(nm))
		}
	}
}

func swapCase(s string) string {
	b := []byte(s)
	for i, c := range b {
		switch {
		case c >= 'a' && c <= 'z':
			b[i] = c - 32
		case c >= 'A' && c <= 'Z':
			b[i] = c + 32
		}
	}
	return string(b)
}

func (r *record) events() string {
	var b strings.Builder
	b.WriteByte('[')
	for i := 0; i < r.n && i < len(r.ev); i++ {
		if i > 0 {
			b.WriteByte(' ')
		}
		fmt.Fprintf(&b, "%s#%d", evName[r.ev[i]>>4], r.ev[i]&15)
	}
	b.WriteByte(']')
	return b.String()
}

const maxRoutes = 4

type worker struct {
	c      *mc.Ctx
	rec    record
	hPre   [maxRoutes]app.HandlerFunc
	hMain  [maxRoutes]app.HandlerFunc
	hGrp   [maxRoutes]app.HandlerFunc
	hPost  [3]app.HandlerFunc
	hGlob  app.HandlerFunc
	ref    []refRes
	refNT  int64 // non-trivial targets of the current set
	base   [3][]uint64
	cur    [3][]uint64
	exec   int64
	nt     int64
	outc   map[uint32]struct{}
	replay bool
}

func newWorker(c *mc.Ctx) *worker {
	setup()
	w := &worker{c: c, outc: map[uint32]struct{}{}}
	mk := func(kind, id int, capture bool) app.HandlerFunc {
		return func(_ context.Context, ctx *app.RequestContext) {
			w.rec.add(kind, id)
			if capture {
				w.rec.capture(ctx)
			}
		}
	}
	for i := 0; i < maxRoutes; i++ {
		w.hPre[i] = mk(evPre, i, false)
		w.hMain[i] = mk(evMain, i, true)
		w.hGrp[i] = mk(evGrp, i, false)
	}
	for i := range w.hPost {
		w.hPost[i] = mk(evPost, i, true)
	}
	w.hGlob = mk(evGlobal, 0, false)
	w.ref = make([]refRes, len(targets))
	for i := range w.base {
		w.base[i] = make([]uint64, len(targets))
		w.cur[i] = make([]uint64, len(targets))
	}
	return w
}

func (w *worker) flush() {
	atomic.AddInt64(w.c.Counter("executions"), w.exec)
	atomic.AddInt64(w.c.Counter("nontrivial"), w.nt)
	w.exec, w.nt = 0, 0
	for k := range w.outc {
		w.c.Distinct("outcomes", fmt.Sprintf("class%d/params%d/status%d", k>>24, (k>>16)&0xff, k&0xffff))
	}
}

// ---------------------------------------------------------------------------
// engines

const (
	engDirect  = 0 // e.GET(pattern, pre, main); no POST tree; RedirectTrailingSlash off
	engGrouped = 1 // e.Use(global); e.Group(seg1, groupmw).GET(rest, main); POST tree; RedirectTrailingSlash + HandleMethodNotAllowed on
)

var engName = []string{"direct/redirect-off", "grouped/redirect-on/405-on"}

func splitGroup(p string) (base, rel string) {
	i := strings.IndexByte(p[1:], '/')
	if i < 0 {
		return p, ""
	}
	return p[:i+1], p[i+1:]
}

func (w *worker) build(kind int, order []*pattern) (e *route.Engine, panicMsg string) {
	defer func() {
		if r := recover(); r != nil {
			e, panicMsg = nil, fmt.Sprint(r)
			if panicMsg == "" {
				panicMsg = "panic"
			}
		}
	}()
	opt := config.NewOptions(nil)
	opt.DisablePrintRoute = true
	opt.NoDefaultDate = true
	if kind == engDirect {
		opt.RedirectTrailingSlash = false
	} else {
		opt.RedirectTrailingSlash = true
		opt.HandleMethodNotAllowed = true
	}
	e = route.NewEngine(opt)
	if kind == engDirect {
		for k, p := range order {
			spelled := p.s
			if k%2 == 1 {
				spelled = "/." + p.s // the same pattern written with a dot segment: registration joins and cleans paths
			}
			e.GET(spelled, w.hPre[k], w.hMain[k])
		}
		return e, ""
	}
	// three separate Use calls leave the engine's handler slice with spare capacity (len 3, cap 4), the shape in which
	// chains built by appending to a shared backing array would overwrite each other; the two extra middlewares are silent
	e.Use(w.hGlob)
	e.Use(func(context.Context, *app.RequestContext) {})
	e.Use(func(context.Context, *app.RequestContext) {})
	e.POST(postRoutes[0], w.hPost[0])
	// groups with an even index are created first and without handlers, get their middleware through Use afterwards and
	// their routes last: sibling groups made from one parent must not share the parent's chain
	late := map[int]*route.RouterGroup{}
	for k, p := range order {
		if k%2 == 0 {
			base, _ := splitGroup(p.s)
			late[k] = e.Group(base)
		}
	}
	for k := range order {
		if g := late[k]; g != nil {
			g.Use(w.hGrp[k])
		}
	}
	for k, p := range order {
		base, rel := splitGroup(p.s)
		if g := late[k]; g != nil {
			g.GET(rel, w.hMain[k])
		} else {
			if len(p.s) > 1 && strings.HasSuffix(p.s, "/") {
				base, rel = p.s, "" // a group whose base path carries the trailing slash, route registered with an empty relative path
			}
			e.Group(base, w.hGrp[k]).GET(rel, w.hMain[k])
		}
		if k == 0 {
			e.POST(postRoutes[1], w.hPost[1])
		}
	}
	e.POST(postRoutes[2], w.hPost[2])
	return e, ""
}

// ---------------------------------------------------------------------------
// one case = one route set: all orders x both engines x all targets

type Case struct {
	Routes []string `json:"routes"`           // the set (sorted)
	Order  []string `json:"order,omitempty"`  // registration order of the failing engine
	Engine string   `json:"engine,omitempty"` // which of the two registrations
	Method string   `json:"method,omitempty"`
	Target string   `json:"target,omitempty"`
	Got    string   `json:"got,omitempty"`
	Want   string   `json:"want,omitempty"`
}

var permTable = func() [][][]int {
	t := make([][][]int, maxRoutes+1)
	for n := 0; n <= maxRoutes; n++ {
		idx := make([]int, n)
		for i := range idx {
			idx[i] = i
		}
		var rec func(k int)
		rec = func(k int) {
			if k == n {
				t[n] = append(t[n], append([]int(nil), idx...))
				return
			}
			for i := k; i < n; i++ {
				idx[k], idx[i] = idx[i], idx[k]
				rec(k + 1)
				idx[k], idx[i] = idx[i], idx[k]
			}
		}
		rec(0)
		sort.Slice(t[n], func(a, b int) bool {
			for i := range t[n][a] {
				if t[n][a][i] != t[n][b][i] {
					return t[n][a][i] < t[n][b][i]
				}
			}
			return false
		})
	}
	return t
}()

func names(ps []*pattern) []string {
	out := make([]string, len(ps))
	for i, p := range ps {
		out[i] = p.s
	}
	return out
}

func (w *worker) violate(key string, set, order []*pattern, eng int, method, target, got, want string) {
	cs := Case{Routes: names(set), Method: method, Target: target, Got: got, Want: want}
	if order != nil {
		cs.Order = names(order)
		cs.Engine = engName[eng]
	}
	msg := fmt.Sprintf("routes %q registered in order %q (%s): %s %s -> got %s, want %s", cs.Routes, cs.Order, cs.Engine, method, target, got, want)
	w.c.Violate(key, msg, cs)
}

// runSet executes one route set completely. It returns false when the set was skipped.
func (w *worker) runSet(set []*pattern) bool {
	c := w.c
	n := len(set)
	conflict := false
	for i := 0; i < n; i++ {
		for j := i + 1; j < n; j++ {
			if set[i].anon == set[j].anon {
				conflict = true
			}
		}
	}
	if !conflict {
		w.refNT = 0
		for i := range targets {
			w.ref[i] = refMatch(set, tpaths[i])
			if w.ref[i].ambiguous {
				panic("c06: reference ambiguous for a conflict-free set " + fmt.Sprint(names(set)))
			}
			if w.ref[i].nontrivial() {
				w.refNT++
			}
		}
	}
	order := make([]*pattern, n)
	inv := make([]int, n) // set index -> registration position
	ran := false
	for pi, perm := range permTable[n] {
		for k, si := range perm {
			order[k] = set[si]
			inv[si] = k
		}
		var eng [2]*route.Engine
		skip := false
		for kind := 0; kind < 2; kind++ {
			e, pmsg := w.build(kind, order)
			switch {
			case e == nil && !conflict:
				w.violate("registration-panic-without-conflict", set, order, kind, "-", "-", "panic: "+pmsg, "registration accepted (no two patterns are equal up to parameter names)")
				skip = true
			case e == nil && conflict:
				if !strings.Contains(pmsg, "already registered") {
					w.violate("registration-panic-other-than-conflict", set, order, kind, "-", "-", "panic: "+pmsg, "the documented conflict panic")
				}
				skip = true
			case e != nil && conflict:
				c.Add("sets_accepted_despite_equal_patterns", 1)
				skip = true
			}
			eng[kind] = e
		}
		if skip {
			continue
		}
		ran = true
		w.dispatchAll(set, order, perm, inv, eng, pi)
	}
	if conflict {
		c.Add("sets_rejected_conflict", 1)
	}
	return ran
}

func imin(a, b int) int {
	if a < 0 {
		a = 0
	}
	if a < b {
		return a
	}
	return b
}

func fnv(h uint64, s []byte) uint64 {
	for _, b := range s {
		h ^= uint64(b)
		h *= 1099511628211
	}
	return h
}

var (
	strGET  = "GET"
	strPOST = "POST"
)

func classID(cl string) uint32 {
	switch cl {
	case "static":
		return 1
	case "param":
		return 2
	case "midparam":
		return 3
	case "catchall":
		return 4
	}
	return 0
}

func (w *worker) dispatchAll(set, order []*pattern, perm, inv []int, eng [2]*route.Engine, pi int) {
	nT := len(targets)
	bg := context.Background()
	// pass 0: direct engine, GET, targets ascending
	ctxA := eng[engDirect].NewContext()
	for ti := 0; ti < nT; ti++ {
		w.cur[0][ti] = w.one(bg, eng[engDirect], ctxA, engDirect, strGET, ti, set, order, perm, inv)
	}
	// pass 1+2: grouped engine, targets descending, GET then POST on the same recycled context
	ctxB := eng[engGrouped].NewContext()
	for ti := nT - 1; ti >= 0; ti-- {
		w.cur[1][ti] = w.one(bg, eng[engGrouped], ctxB, engGrouped, strGET, ti, set, order, perm, inv)
		if postTarget[ti] {
			w.cur[2][ti] = w.one(bg, eng[engGrouped], ctxB, engGrouped, strPOST, ti, set, order, perm, inv)
		}
	}
	w.exec += int64(2*nT + nPostTargets)
	w.nt += 2*w.refNT + postNT
	if pi == 0 {
		for i := range w.base {
			copy(w.base[i], w.cur[i])
		}
		return
	}
	// order independence: the outcome vector must equal that of the first permutation
	for i := range w.base {
		for ti := 0; ti < nT; ti++ {
			if w.base[i][ti] != w.cur[i][ti] {
				first := make([]*pattern, len(set))
				copy(first, set)
				method := strGET
				if i == 2 {
					method = strPOST
				}
				e := engDirect
				if i > 0 {
					e = engGrouped
				}
				b, g := w.base[i][ti], w.cur[i][ti]
				what := "status-or-location"
				if b&0xff != g&0xff {
					what = "handler"
				}
				w.violate("order-dependence:"+what, set, order, e, method, targets[ti],
					fmt.Sprintf("route#%d status %d (location hash %x)", int(g&0xff)-1, (g>>8)&0xffff, g>>24),
					fmt.Sprintf("the outcome of registration order %q: route#%d status %d (location hash %x)", names(first), int(b&0xff)-1, (b>>8)&0xffff, b>>24))
				return
			}
		}
	}
}

func serve(bg context.Context, e *route.Engine, ctx *app.RequestContext) (pv interface{}) {
	defer func() { pv = recover() }()
	e.ServeHTTP(bg, ctx)
	return nil
}

// one dispatches one request and judges it; it returns the outcome code used for the
// order-independence comparison: (set index of the route that ran + 1) | status<<8 | hash(Location)<<24.
func (w *worker) one(bg context.Context, e *route.Engine, ctx *app.RequestContext, kind int, method string, ti int, set, order []*pattern, perm, inv []int) uint64 {
	target := targets[ti]
	var ref *refRes
	var pats []*pattern
	if method == strPOST {
		ref, pats = &postRef[ti], postPats
	} else {
		ref, pats = &w.ref[ti], set
	}
	var wantNames []string
	if ref.pat >= 0 {
		wantNames = pats[ref.pat].names
	}
	w.rec.reset(wantNames)

	ctx.ResetWithoutConn()
	ctx.Request.Header.SetMethod(method)
	ctx.Request.SetRequestURI(target)
	ctx.Request.Header.SetHost("h")
	if pv := serve(bg, e, ctx); pv != nil {
		w.violate("panic-in-dispatch", set, order, kind, method, target, fmt.Sprintf("panic: %v", pv), "a dispatch without panic")
		return 0xff
	}

	if string(ctx.Request.URI().Path()) != tpaths[ti] && ctx.Response.StatusCode()/100 != 3 {
		panic(fmt.Sprintf("c06: engine routed %q on path %q", target, ctx.Request.URI().Path()))
	}
	r := &w.rec
	status := ctx.Response.StatusCode()

	// which route handler ran
	ranSet := -1 // index into pats of the route whose main handler ran
	nMain := 0
	for i := 0; i < r.n && i < len(r.ev); i++ {
		k, id := int(r.ev[i]>>4), int(r.ev[i]&15)
		switch k {
		case evMain:
			nMain++
			if method == strGET && id < len(perm) {
				ranSet = perm[id]
			} else {
				ranSet = -2
			}
		case evPost:
			nMain++
			if method == strPOST {
				ranSet = id
			} else {
				ranSet = -2
			}
		}
	}

	bad := func(key, got, want string) {
		w.violate(key, set, order, kind, method, target, got+" (handlers run: "+r.events()+fmt.Sprintf(", status %d)", status), want)
	}
	describe := func(pi int) string {
		if pi < 0 {
			return "no route"
		}
		return fmt.Sprintf("route %q", pats[pi].s)
	}

	switch {
	case ranSet == -2:
		bad("handler-of-other-method-ran", "a handler registered for another method ran", describe(ref.pat))
	case ref.pat < 0:
		// no pattern matches: no route handler (pre, group middleware, main) may run
		for i := 0; i < r.n && i < len(r.ev); i++ {
			if k := int(r.ev[i] >> 4); k != evGlobal {
				cl := "?"
				if ranSet >= 0 {
					cl = pats[ranSet].class
				}
				bad("handler-ran-but-no-pattern-matches:got="+cl, describe(ranSet), "no route handler (no registered pattern matches this path)")
				break
			}
		}
	case ranSet < 0:
		bad("no-handler-for-matching-route:want="+pats[ref.pat].class, "no route handler ran", describe(ref.pat))
	case ranSet != ref.pat:
		bad("wrong-route:want="+pats[ref.pat].class+",got="+pats[ranSet].class, describe(ranSet), describe(ref.pat)+" (static > :param > *catch-all at the first difference, with backtracking)")
	default:
		// the right route: chain, params, full path
		p := pats[ref.pat]
		var wantEv [3]uint8
		nw := 0
		switch {
		case method == strPOST:
			wantEv[0], wantEv[1], nw = evGlobal<<4, uint8(evPost<<4|ref.pat), 2
		case kind == engDirect:
			k := inv[ref.pat]
			wantEv[0], wantEv[1], nw = uint8(evPre<<4|k), uint8(evMain<<4|k), 2
		default:
			k := inv[ref.pat]
			wantEv[0], wantEv[1], wantEv[2], nw = evGlobal<<4, uint8(evGrp<<4|k), uint8(evMain<<4|k), 3
		}
		okChain := r.n == nw
		for i := 0; okChain && i < nw; i++ {
			okChain = r.ev[i] == wantEv[i]
		}
		if !okChain {
			bad("handler-chain", "chain "+r.events(), fmt.Sprintf("exactly the %d handlers of %s, once each, in order", nw, describe(ref.pat)))
			break
		}
		if r.nparam != ref.nvals {
			bad("param-count:"+p.class, fmt.Sprintf("%d params %v=%v", r.nparam, r.pk[:imin(r.nparam, len(r.pk))], r.pv[:imin(r.nparam, len(r.pv))]), fmt.Sprintf("%d params %v=%v", ref.nvals, p.names, ref.vals[:ref.nvals]))
			break
		}
		for i := 0; i < ref.nvals; i++ {
			if r.pk[i] != p.names[i] {
				bad("param-name:"+p.class, fmt.Sprintf("param %d named %q", i, r.pk[i]), fmt.Sprintf("%q (pattern %q)", p.names[i], p.s))
				break
			}
			if r.pv[i] != ref.vals[i] {
				bad("param-value:"+p.class, fmt.Sprintf("param %q=%q", r.pk[i], r.pv[i]), fmt.Sprintf("%q=%q (the substring matched by pattern %q)", p.names[i], ref.vals[i], p.s))
				break
			}
			// ctx.Param(name): the first parameter of that name
			first := i
			for j := 0; j < i; j++ {
				if p.names[j] == p.names[i] {
					first = j
					break
				}
			}
			if r.byName[i] != ref.vals[first] {
				bad("param-by-name:"+p.class, fmt.Sprintf("ctx.Param(%q)=%q", p.names[i], r.byName[i]), fmt.Sprintf("%q", ref.vals[first]))
				break
			}
			// parameter names are case-sensitive: the pattern has no parameter of the other-case name
			if i < len(r.byOther) && r.byOther[i] != "" {
				bad("param-by-name-other-case:"+p.class, fmt.Sprintf("ctx.Param(%q)=%q", swapCase(p.names[i]), r.byOther[i]), "\"\" (the pattern has no such parameter)")
				break
			}
		}
		if r.full != p.s {
			bad("fullpath:"+p.class, fmt.Sprintf("FullPath()=%q", r.full), fmt.Sprintf("%q", p.s))
		}
	}
	if nMain > 1 {
		bad("two-route-handlers-ran", fmt.Sprintf("%d main handlers ran", nMain), "at most one")
	}

	var cl uint32
	np := 0
	if ranSet >= 0 {
		cl = classID(pats[ranSet].class)
		np = r.nparam
	}
	w.outc[cl<<24|uint32(np&0xff)<<16|uint32(status&0xffff)] = struct{}{}

	out := uint64(ranSet+1)&0xff | uint64(status&0xffff)<<8
	if loc := ctx.Response.Header.Peek("Location"); len(loc) > 0 {
		out |= (fnv(14695981039346656037, loc) & 0xffffffffff) << 24
	}
	return out
}

// ---------------------------------------------------------------------------
// enumeration

type job struct {
	idx []int32
	uni []*pattern
}

func compileAll(ss []string) []*pattern {
	out := make([]*pattern, len(ss))
	for i, s := range ss {
		out[i] = compile(s)
	}
	return out
}

func combos(jobs []job, uni []*pattern, k int) []job {
	n := len(uni)
	idx := make([]int32, k)
	var rec func(d, from int)
	rec = func(d, from int) {
		if d == k {
			jobs = append(jobs, job{append([]int32(nil), idx...), uni})
			return
		}
		for i := from; i < n; i++ {
			idx[d] = int32(i)
			rec(d+1, i+1)
		}
	}
	rec(0, 0)
	return jobs
}

func run(c *mc.Ctx) {
	defer runRaw(c)
	setup()
	// internal cap well below the 15 minutes allowed for the thorough tier
	if d := c.Start.Add(13 * time.Minute); c.Deadline.After(d) {
		c.Deadline = d
	}
	u2 := universe(2)
	u23 := universe(3)
	s40 := stride(u23, 40)
	s30 := stride(u23, 30)
	h46 := stride(u2, 46)
	q23 := stride(u2, 23)
	pU2, pU23, pS40, pS30, pH46, pQ23 := compileAll(u2), compileAll(u23), compileAll(s40), compileAll(s30), compileAll(h46), compileAll(q23)
	uc := universeCase()
	pUC, pUC23 := compileAll(uc), compileAll(stride(uc, 23))
	c.Extra("patterns_UC_case_variants", len(uc))

	c.Extra("patterns_U2", len(u2))
	c.Extra("patterns_U2+U3", len(u23))
	c.Extra("sub_universe_S40", s40)
	c.Extra("sub_universe_U2half", h46)
	c.Extra("targets", len(targets))
	c.Extra("targets_post", nPostTargets)
	c.Extra("post_tree", postRoutes)

	type stage struct {
		name string
		uni  []*pattern
		k    int
	}
	stages := []stage{
		{"size1_U2+U3", pU23, 1},
		{"size2_U2", pU2, 2},
		{"size3_U2half", pH46, 3},
		{"size3_S40", pS40, 3},
		{"size2_UC", pUC, 2},
		{"size3_UCthird", pUC23, 3},
	}
	if c.Thorough() {
		c.Extra("sub_universe_S30", s30)
		c.Extra("sub_universe_U2quarter", q23)
		stages = append(stages,
			stage{"size3_U2", pU2, 3},
			stage{"size4_U2quarter", pQ23, 4},
			stage{"size4_S30", pS30, 4},
			stage{"size2_U2+U3", pU23, 2},
		)
	}
	c.Sample(Case{Routes: []string{"/a/:x", "/a/b", "/:y/*z"}, Method: "GET", Target: "/a/b/", Want: "route /:y/*z with y=a z=b/ (static /a/b and /a/:x cannot complete, backtrack to the catch-all)"})
	c.Sample(Case{Routes: []string{"/a:x/b", "/ab/:y"}, Method: "GET", Target: "/abc/b", Want: "route /a:x/b with x=bc (static 'ab' fails at 'c', backtrack into the mid-segment parameter)"})

	var (
		mu         sync.Mutex
		free       []*worker
		allWorkers []*worker
	)
	getW := func() *worker {
		mu.Lock()
		if n := len(free); n > 0 {
			w := free[n-1]
			free = free[:n-1]
			mu.Unlock()
			return w
		}
		mu.Unlock()
		w := newWorker(c)
		mu.Lock()
		allWorkers = append(allWorkers, w)
		mu.Unlock()
		return w
	}
	putW := func(w *worker) {
		mu.Lock()
		free = append(free, w)
		mu.Unlock()
	}
	for _, st := range stages {
		if c.Expired() {
			c.Extra("stage_"+st.name, "not started (deadline)")
			continue
		}
		jobs := combos(nil, st.uni, st.k)
		var done, ran int64
		c.ParallelFor(len(jobs), func(i int) {
			w := getW()
			j := jobs[i]
			set := make([]*pattern, len(j.idx))
			for k, x := range j.idx {
				set[k] = j.uni[x]
			}
			if w.runSet(set) {
				atomic.AddInt64(&ran, 1)
			}
			atomic.AddInt64(&done, 1)
			if w.exec > 1<<20 {
				atomic.AddInt64(c.Counter("executions"), w.exec)
				atomic.AddInt64(c.Counter("nontrivial"), w.nt)
				w.exec, w.nt = 0, 0
			}
			putW(w)
		})
		c.Extra("stage_"+st.name, map[string]int64{"sets": int64(len(jobs)), "sets_done": done, "sets_dispatched": ran, "orders_per_set": int64(len(permTable[st.k]))})
		c.Add("route_sets", done)
		c.Add("ordered_route_sets", ran*int64(len(permTable[st.k])))
	}
	for _, w := range allWorkers {
		w.flush()
	}
	c.Add("transitions", c.Get("executions"))
}

func replay(c *mc.Ctx, raw json.RawMessage) {
	var rc RawCase
	if json.Unmarshal(raw, &rc) == nil && rc.Target != "" && len(rc.Set) > 0 {
		if strings.Contains(rc.Target, "://") {
			rawAbsolute(c) // the fixed table of absolute-form targets
			return
		}
		rawOne(c, rc.Set, rc.Target, true)
		return
	}
	var cs Case
	if json.Unmarshal(raw, &cs) != nil || len(cs.Routes) == 0 || len(cs.Routes) > maxRoutes {
		return
	}
	w := newWorker(c)
	w.runSet(compileAll(cs.Routes))
}
