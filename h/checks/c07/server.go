package c07

import (
	"context"
	"fmt"
	"strings"
	"sync"

	"verifh/httpref"
	"verifh/mc"
	"verifh/netsim"
	"verifh/srvh"

	"github.com/cloudwego/hertz/pkg/app"
	"github.com/cloudwego/hertz/pkg/common/config"
)

// Part S: the same reference through the real HTTP/1 server and router. The engine has the routes "/" and
// "/pub/*x" and a NoRoute handler; each records which of them ran and the path it saw. For every target the
// handler that runs must be the one the reference path selects, and it must see exactly the reference path; a target
// the server does not want is answered 3xx/4xx with no handler at all - what may never happen is that a request is
// routed on a path other than its own (e.g. on "/" because the parser gave up on the target).

type SCase struct {
	Target  string `json:"target"`
	Version string `json:"version"` // " HTTP/1.1" | " HTTP/1.0" | ""
	NoHost  bool   `json:"no_host,omitempty"`
	Server  bool   `json:"server"`
	// Raw: the engine routes on the raw path (UseRawPath); dot segments must still not reach a route as parameter text
	Raw bool `json:"raw,omitempty"`
}

type srvWorker struct {
	s   *srvh.Server
	ran []string
}

func newSrvWorker(raw bool) *srvWorker {
	w := &srvWorker{s: srvh.New(srvh.Opts{Mods: []func(o *config.Options){func(o *config.Options) { o.UseRawPath = raw }}})}
	rec := func(kind string) app.HandlerFunc {
		return func(c context.Context, ctx *app.RequestContext) {
			w.ran = append(w.ran, kind+"|"+string(ctx.Path()))
			ctx.SetStatusCode(200)
		}
	}
	w.s.E.GET("/", rec("root"))
	w.s.E.GET("/pub/*x", rec("pub"))
	w.s.E.GET("/dir/:n/", rec("dir")) // registered with the trailing slash: /dir/<n> is redirected to it
	w.s.E.NoRoute(rec("noroute"))
	w.s.Start()
	return w
}

func (w *srvWorker) one(c *mc.Ctx, cs SCase) {
	in := "GET " + cs.Target + cs.Version + "\r\n"
	if !cs.NoHost {
		in += "Host: h\r\n"
	}
	in += "\r\n"
	w.ran = w.ran[:0]
	res := w.s.Run([][]byte{[]byte(in)}, netsim.EndEOF, nil)
	if res.Panic != nil {
		c.Violate("server-panic", fmt.Sprintf("input %q: panic %v\n%s", in, res.Panic, res.Stack), cs)
		return
	}
	ms, err := httpref.ParseResponses(res.Out, []string{"GET"}, true)
	if err != nil || len(ms) != 1 {
		c.Violate("server-output", fmt.Sprintf("input %q: output %q is not one well-formed response (%v)", in, res.Out, err), cs)
		return
	}
	c.Distinct("outcomes", fmt.Sprintf("srv|%d|%d", ms[0].Status, len(w.ran)))
	want := RefPath(cs.Target)
	if len(w.ran) == 0 {
		if ms[0].Status < 300 {
			c.Violate("server-2xx-without-handler", fmt.Sprintf("input %q: status %d although no handler ran", in, ms[0].Status), cs)
		}
		if loc, ok := ms[0].Get("Location"); ok && (ms[0].Status == 301 || ms[0].Status == 308) {
			// a redirect that adds or removes the trailing slash names the path of the request, decoded once - not a path
			// that a second decoding and resolution has moved somewhere else
			if i := strings.Index(loc, "://"); i >= 0 {
				if j := strings.IndexByte(loc[i+3:], '/'); j >= 0 {
					loc = loc[i+3+j:]
				}
			}
			// (compared after the normalisation a client's next request undergoes: "/dir/./" is "/dir/")
			q := strings.ReplaceAll(want, "%", "%25")
			if got := RefPath(loc); got != RefPath(q+"/") && got != RefPath(strings.TrimSuffix(q, "/")) {
				c.Violate("server-redirect-to-another-path|raw="+fmt.Sprint(cs.Raw), fmt.Sprintf("input %q: redirected (%d) to %q, which names the path %q; the request's path, decoded once and resolved, is %q", in, ms[0].Status, loc, got, want), cs)
			}
		}
		return
	}
	if cs.Raw && strings.Contains(cs.Target, "//") {
		return // routing on the raw path keeps empty segments (RemoveExtraSlash is the option that merges them)
	}
	kind := "noroute"
	switch {
	case want == "/":
		kind = "root"
	case strings.HasPrefix(want, "/pub/"):
		kind = "pub"
	case strings.HasPrefix(want, "/dir/") && strings.HasSuffix(want, "/") && strings.Count(want, "/") == 3 && len(want) > len("/dir//"):
		kind = "dir"
	}
	if len(w.ran) != 1 || w.ran[0] != kind+"|"+want {
		c.Violate("server-routes-on-another-path|"+strings.TrimSpace(cs.Version)+"|raw="+fmt.Sprint(cs.Raw), fmt.Sprintf("input %q: handlers run (kind|path seen) = %q; the target's path, decoded once and resolved, is %q: expected [%q] or a refusal without any handler", in, w.ran, want, kind+"|"+want), cs)
	}
}

var srvAlpha = []string{"/", "pub", "a", "..", "%2e", "%09", "\t", "\x01", "\x7f", "\x0b", "dir", "%252e"}

func serverPart(c *mc.Ctx) {
	n := 3
	if c.Thorough() {
		n = 4
	}
	var firsts []string
	for _, t := range srvAlpha {
		firsts = append(firsts, t)
	}
	var mu sync.Mutex
	var total int64
	c.ParallelFor(2*len(firsts), func(i int) {
		raw := i >= len(firsts)
		i %= len(firsts)
		w := newSrvWorker(raw)
		var cnt int64
		var rec func(s string, d int)
		rec = func(s string, d int) {
			for _, v := range []string{" HTTP/1.1", " HTTP/1.0", ""} {
				for _, nh := range []bool{false, true} {
					w.one(c, SCase{Target: "/" + s, Version: v, NoHost: nh, Server: true, Raw: raw})
					cnt++
				}
			}
			if d == n {
				return
			}
			for _, t := range srvAlpha {
				rec(s+t, d+1)
			}
		}
		rec(firsts[i], 1)
		if i == 0 {
			rec("", 0)
			// fixed shapes from the audit: a control byte next to a query, behind an encoded dot segment
			for _, t := range []string{"/nosuchroute\x1f?q=1", "/pub/%2e%2e/pub/x\x0b", "/pub/a\tb", "/pub/a\x01b"} {
				rec(strings.TrimPrefix(t, "/"), n)
			}
		}
		mu.Lock()
		total += cnt
		mu.Unlock()
	})
	c.Add("executions", total)
	c.Add("nontrivial", total)
	c.Extra("server_part_cases", total)
}
