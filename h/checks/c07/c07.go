// Package c07: normalised request paths cannot climb out of the root.
// Bounded-exhaustive enumeration of request targets over a token alphabet, judged by an
// invariant and by equality with an independent segment-stack reference (pathref).
package c07

import (
	"encoding/json"
	"fmt"
	"github.com/cloudwego/hertz/pkg/app"
	"path"
	"strings"
	"sync/atomic"

	"github.com/cloudwego/hertz/pkg/common/utils"
	"github.com/cloudwego/hertz/pkg/protocol"

	"verifh/mc"
)

var Check = &mc.Check{
	ID:    "C07",
	Level: "model_checking",
	Rule: "every string of <=N tokens over {/ . a %2e %2f % \\} (N=8 quick, 10 thorough) and of <=5 (6) tokens over the extended alphabet adding {%2E %252e %2F %5c .. //}, and of <=5 tokens behind paddings of 118..132 and 4090 bytes, " +
		"fed to URI.Parse(host,target).Path() (host set / unset) and utils.CleanPath; part S: every target of <=3 (4) tokens over {/ pub a dir .. %2e %252e %09 TAB 0x01 0x7f 0x0b} x {HTTP/1.1, HTTP/1.0, no version} x {Host, no Host} x {UseRawPath off, on} through Engine.Serve with routes /, /pub/*x, /dir/:n/ and NoRoute - a trailing-slash redirect names the request's own path - the handler that runs is the one the reference path selects and sees that path; non-trivial = targets whose decoded form contains a '..' segment, a '.' segment or an empty segment (the normaliser has to act)",
	Run:    run,
	Replay: replay,
	Assumptions: []string{
		"unix build (backslash is an ordinary byte)",
		"targets without '?', '#', ':' so that the whole target is the path component",
	},
}

type Case struct {
	Target string `json:"target"`
}

var base = []string{"/", ".", "a", "%2e", "%2f", "%", "\\"}
var ext = []string{"/", ".", "a", "%2e", "%2f", "%", "\\", "%2E", "%252e", "%2F", "%5c", "..", "//"}

func hexv(c byte) int {
	switch {
	case '0' <= c && c <= '9':
		return int(c - '0')
	case 'a' <= c && c <= 'f':
		return int(c-'a') + 10
	case 'A' <= c && c <= 'F':
		return int(c-'A') + 10
	}
	return -1
}

// decodeOnce percent-decodes once; an incomplete or non-hex escape is kept literally.
func decodeOnce(s string) string {
	var b strings.Builder
	for i := 0; i < len(s); i++ {
		if s[i] == '%' && i+2 < len(s)+0 && i+2 <= len(s)-1 {
			h, l := hexv(s[i+1]), hexv(s[i+2])
			if h >= 0 && l >= 0 {
				b.WriteByte(byte(h<<4 | l))
				i += 2
				continue
			}
		}
		b.WriteByte(s[i])
	}
	return b.String()
}

// RefPath is the segment-stack reference of the property statement.
func RefPath(target string) string {
	d := decodeOnce(target)
	if len(d) == 0 || d[0] != '/' {
		d = "/" + d
	}
	segs := strings.Split(d[1:], "/")
	var st []string
	trailing := false
	for i, s := range segs {
		last := i == len(segs)-1
		switch s {
		case "":
			if last {
				trailing = true
			}
		case ".":
			if last {
				st = append(st, ".") // hertz keeps a trailing "/." (allowed: '.' only as last segment)
			}
		case "..":
			if len(st) > 0 {
				st = st[:len(st)-1]
			}
			if last {
				trailing = true
			}
		default:
			st = append(st, s)
		}
	}
	out := "/" + strings.Join(st, "/")
	if trailing && len(st) > 0 {
		out += "/"
	}
	return out
}

func containedOK(p string, allowLastDot bool) string {
	if len(p) == 0 || p[0] != '/' {
		return "does not start with '/'"
	}
	segs := strings.Split(p[1:], "/")
	for i, s := range segs {
		last := i == len(segs)-1
		if s == ".." {
			return "contains a '..' segment"
		}
		if s == "" && !last {
			return "contains an empty segment that is not last"
		}
		if s == "." && !(last && allowLastDot) {
			return "contains a '.' segment that is not last"
		}
	}
	return ""
}

func refClean(p string) string {
	if p == "" {
		return "/"
	}
	q := p
	if q[0] != '/' {
		q = "/" + q
	}
	r := path.Clean(q)
	trailing := len(p) > 1 && (strings.HasSuffix(p, "/") || strings.HasSuffix(q, "/."))
	if trailing && r != "/" {
		r += "/"
	}
	return r
}

func nontrivial(target string) bool {
	d := decodeOnce(target)
	for _, s := range strings.Split(d, "/") {
		if s == ".." || s == "." {
			return true
		}
	}
	return strings.Contains(d, "//")
}

var hostH = []byte("h")

var targetSuffixes = []string{"#f", "?q=1", "?q=1#f", "#f?x"}

func checkOne(c *mc.Ctx, u *protocol.URI, target string) {
	for _, host := range [][]byte{hostH, nil} {
		if host == nil && (strings.HasPrefix(target, "//") || strings.Contains(target, "://")) {
			continue // authority form: the first segment is the host, not part of the path
		}
		u.Parse(host, []byte(target))
		got := string(u.Path())
		if msg := containedOK(got, true); msg != "" {
			c.Violate("path-invariant:"+msg, fmt.Sprintf("URI.Parse(%q,%q).Path()=%q %s", host, target, got, msg), Case{target})
		} else if want := RefPath(target); got != want {
			c.Violate("path-differs-from-segment-stack", fmt.Sprintf("URI.Parse(%q,%q).Path()=%q, reference (decode once, resolve with a stack)=%q", host, target, got, want), Case{target})
		}
	}
	// the same path followed by a query and/or a fragment: what follows '?' or '#' is not part of the path and
	// must not change how the path is decoded and resolved
	want := RefPath(target)
	for _, suf := range targetSuffixes {
		u.Parse(hostH, []byte(target+suf))
		if got := string(u.Path()); got != want {
			c.Violate("path-differs-with-suffix:"+suf, fmt.Sprintf("URI.Parse(%q,%q).Path()=%q, reference (decode once, resolve with a stack)=%q", hostH, target+suf, got, want), Case{target + suf})
		}
	}
	// the path setters run the same decode-and-resolve step as the parser
	for si, set := range []func(){func() { u.SetPath(target) }, func() { u.SetPathBytes([]byte(target)) }} {
		u.Reset()
		set()
		if got := string(u.Path()); got != want {
			c.Violate("path-setter-differs-from-segment-stack", fmt.Sprintf("URI.%s(%q): Path()=%q, reference (decode once, resolve with a stack)=%q", []string{"SetPath", "SetPathBytes"}[si], target, got, want), Case{target})
		}
	}
	cp := utils.CleanPath(target)
	if msg := containedOK(cp, false); msg != "" {
		c.Violate("cleanpath-invariant:"+msg, fmt.Sprintf("CleanPath(%q)=%q %s", target, cp, msg), Case{target})
	} else if want := refClean(target); cp != want {
		c.Violate("cleanpath-differs-from-path.Clean", fmt.Sprintf("CleanPath(%q)=%q, reference=%q", target, cp, want), Case{target})
	}
}

type VCase struct {
	Host   string `json:"host"`
	Target string `json:"target"`
}

func vhostOne(c *mc.Ctx, rew app.PathRewriteFunc, ctx *app.RequestContext, host, target string) {
	ctx.Request.Reset()
	ctx.Request.SetRequestURI(target)
	ctx.Request.SetHost(host)
	ctx.Request.Header.SetHost(host)
	got := string(rew(ctx))
	first, rest := got, ""
	if i := strings.IndexByte(got[min1(len(got)):], '/'); i >= 0 {
		first, rest = got[1:1+i], got[1+i:]
	} else if len(got) > 0 {
		first = got[1:]
	}
	want := RefPath(target)
	if rest == "" {
		rest = "/"
	}
	if (first != host && first != "invalid-host") || rest != want || !strings.HasPrefix(got, "/") {
		c.Violate("vhost-rewriter|host="+host, fmt.Sprintf("NewVHostPathRewriter(0) with Host %q and target %q serves from %q; expected the directory of that host (or invalid-host) followed by %q (the path decoded once and resolved)", host, target, got, want), VCase{host, target})
	}
}

func min1(n int) int {
	if n < 1 {
		return n
	}
	return 1
}

func vhost(c *mc.Ctx) {
	rew := app.NewVHostPathRewriter(0)
	hosts := []string{"a.com", "..", ".", "a.com%2f..", "%2e%2e", "a.com/.."}
	al := []string{"/", ".", "a", "%2e", "%2f", "%252e", "%252f", "%", ".."}
	n := 5
	if c.Thorough() {
		n = 6
	}
	ctx := app.NewContext(0)
	var cnt int64
	var rec func(s string, d int)
	rec = func(s string, d int) {
		for _, h := range hosts {
			vhostOne(c, rew, ctx, h, "/"+s)
			cnt++
		}
		if d == n {
			return
		}
		for _, t := range al {
			rec(s+t, d+1)
		}
	}
	rec("", 0)
	c.Add("executions", cnt)
	c.Extra("vhost_rewriter_cases", cnt)
}

func enum(c *mc.Ctx, alpha []string, maxTok int, tag, pad string) {
	ev := c.Counter("executions")
	nt := c.Counter("nontrivial")
	// shard on the first two tokens
	n := len(alpha)
	c.ParallelFor(n*n+n+1, func(i int) {
		u := &protocol.URI{}
		var pre []int
		switch {
		case i == 0:
			pre = nil
		case i <= n:
			pre = []int{i - 1}
		default:
			j := i - n - 1
			pre = []int{j / n, j % n}
		}
		var rec func(prefix string, depth int, extend bool)
		var local, localNT int64
		outs := map[string]struct{}{}
		defer func() {
			for o := range outs {
				c.Distinct("outcomes", o)
			}
		}()
		rec = func(prefix string, depth int, extend bool) {
			checkOne(c, u, prefix)
			if len(outs) < 4096 {
				outs[string(u.Path())] = struct{}{}
			}
			local++
			if nontrivial(prefix) {
				localNT++
			}
			if !extend || depth == maxTok {
				return
			}
			if local&0xfff == 0 && c.Expired() {
				return
			}
			for _, t := range alpha {
				rec(prefix+t, depth+1, true)
			}
		}
		s := pad
		for _, k := range pre {
			s += alpha[k]
		}
		rec(s, len(pre), len(pre) == 2)
		atomic.AddInt64(ev, local)
		atomic.AddInt64(nt, localNT)
	})
	c.Extra("max_tokens_"+tag, maxTok)
}

func run(c *mc.Ctx) {
	nb, ne := 8, 5
	if c.Thorough() {
		nb, ne = 10, 6
	}
	for _, s := range []string{"/a/../../%2e%2e/a", "%2f..%2f.", "\\..\\a/%2e/./"} {
		c.Sample(map[string]string{"target": s, "path": RefPath(s)})
	}
	// absolute-form targets whose authority is followed directly by a query or a fragment: the path is empty ("/"),
	// whatever slashes the query or fragment contains
	for _, host := range []string{"h.com", "h.com:8080", "[::1]:80"} {
		for _, tail := range []string{"", "/", "?x=/admin", "#/admin", "?x=/a/../b#/c", "?x=1", "#f", "/p?x=/y", "/p#/y"} {
			target := "http://" + host + tail
			wantPath := "/"
			if strings.HasPrefix(tail, "/p") {
				wantPath = "/p"
			}
			for _, h := range [][]byte{nil, []byte("other")} {
				u := &protocol.URI{}
				u.Parse(h, []byte(target))
				c.Add("executions", 1)
				if string(u.Path()) != wantPath || string(u.Host()) != strings.ToLower(host) {
					c.Violate("absolute-form-authority", fmt.Sprintf("URI.Parse(%q,%q): host=%q path=%q query=%q, expected host %q and path %q (the authority ends at the first of '/', '?', '#')", h, target, u.Host(), u.Path(), u.QueryString(), strings.ToLower(host), wantPath), Case{target})
				}
			}
		}
	}
	// virtual hosting: the path rewriter prepends the request's host to the (already decoded) path; what the file
	// handler then serves from must still be "the host's directory" + the path decoded ONCE and resolved
	vhost(c)
	// the same reference through the real server and router, control bytes included
	serverPart(c)
	enum(c, base, nb, "base", "")
	enum(c, ext, ne, "ext", "")
	// long targets: the same token strings behind paddings that straddle CleanPath's 128-byte stack buffer
	for k := 118; k <= 132; k++ {
		enum(c, base, 5, fmt.Sprintf("pad%d", k), "/"+strings.Repeat("a", k))
	}
	enum(c, base, 5, "pad4096", "/"+strings.Repeat("a", 4090))
	c.Add("transitions", c.Get("executions")*3)
}

func replay(c *mc.Ctx, raw json.RawMessage) {
	var cs Case
	if json.Unmarshal(raw, &cs) != nil {
		return
	}
	var sc SCase
	if json.Unmarshal(raw, &sc) == nil && sc.Server {
		newSrvWorker(sc.Raw).one(c, sc)
		return
	}
	var vc VCase
	if json.Unmarshal(raw, &vc) == nil && vc.Host != "" {
		vhostOne(c, app.NewVHostPathRewriter(0), app.NewContext(0), vc.Host, vc.Target)
		return
	}
	if strings.HasPrefix(cs.Target, "http://") {
		u := &protocol.URI{}
		u.Parse(nil, []byte(cs.Target))
		rest := strings.TrimPrefix(cs.Target, "http://")
		i := strings.IndexAny(rest, "/?#")
		host, wantPath := rest, "/"
		if i >= 0 {
			host = rest[:i]
			if strings.HasPrefix(rest[i:], "/p") {
				wantPath = "/p"
			}
		}
		if string(u.Path()) != wantPath || string(u.Host()) != host {
			c.Violate("absolute-form-authority", fmt.Sprintf("URI.Parse(nil,%q): host=%q path=%q", cs.Target, u.Host(), u.Path()), cs)
		}
		return
	}
	for _, suf := range targetSuffixes {
		cs.Target = strings.TrimSuffix(cs.Target, suf) // a suffix variant is re-checked through its base target
	}
	checkOne(c, &protocol.URI{}, cs.Target)
}
