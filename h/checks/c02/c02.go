// Package c02: message parsing does not depend on how bytes are split into reads.
// For every corpus stream: the unsplit run, EVERY 1-cut segmentation, EVERY 2-cut segmentation
// (streams up to a length bound) and byte-wise delivery are executed against the real server
// (buffered and streaming) and the real client response reader; all observations must equal
// the observation of the unsplit run (differential oracle, no hand-written expectation).
package c02

import (
	"crypto/sha1"
	"encoding/hex"
	"encoding/json"
	"fmt"
	"regexp"
	"strings"
	"sync/atomic"

	"verifh/clih"
	"verifh/mc"
	"verifh/netsim"
	"verifh/srvh"
	"verifh/wire"
)

var Check = &mc.Check{
	ID:    "C02",
	Level: "model_checking",
	Rule: "corpus of request streams (singles and pipelined pairs built from descriptions: folded headers, chunk edges, trailers, near-miss names, Expect, boundary body lengths; plus raw malformed/odd streams) and response streams (fixed, chunked+trailers, close-delimited, 100-continue, folded, two exchanges); " +
		"per stream of length L: all L-1 one-cut segmentations, all C(L-1,2) two-cut segmentations when L<=bound, byte-wise; server buffered+streaming, client buffered+streaming; " +
		"non-trivial = segmentations whose cut falls strictly inside the header block, a chunk-size line or a trailer block (counted per stream by position class)",
	Run:         run,
	Replay:      replay,
	Assumptions: []string{"the unsplit run is judged by C01/C11, here only equality with it is checked", "server-side error values are compared by class (nil / non-nil), responses and close behaviour byte for byte"},
}

type Case struct {
	Side      string      `json:"side"` // "server" | "client"
	Stream    string      `json:"stream,omitempty"`
	Specs     []wire.Spec `json:"specs,omitempty"`
	Name      string      `json:"name"`
	Cuts      []int       `json:"cuts"` // nil = whole, [-1] = bytewise
	Streaming bool        `json:"streaming"`
}

var reDate = regexp.MustCompile(`Date: [^\r\n]*\r\n`)

type worker struct {
	buf, str *srvh.Server
}

func newWorker() *worker {
	w := &worker{buf: srvh.New(srvh.Opts{}), str: srvh.New(srvh.Opts{Streaming: true})}
	for _, s := range []*srvh.Server{w.buf, w.str} {
		s.EchoAll()
		s.Start()
	}
	return w
}

func segs(stream []byte, cuts []int) [][]byte {
	if len(cuts) == 1 && cuts[0] == -1 {
		return netsim.Bytewise(stream)
	}
	return netsim.Segment(stream, cuts)
}

func hash(s string) string {
	h := sha1.Sum([]byte(s))
	return hex.EncodeToString(h[:10])
}

func (w *worker) observeServer(stream []byte, cuts []int, streaming bool) string {
	s := w.buf
	if streaming {
		s = w.str
	}
	res := s.Run(segs(stream, cuts), netsim.EndEOF, nil)
	seen, _ := json.Marshal(res.Seen)
	res.Out = reDate.ReplaceAll(res.Out, nil) // error responses carry a Date header whatever NoDefaultDate says: wall-clock time is not an observation
	return fmt.Sprintf("panic=%v|err=%v|closed=%v|seen=%s|out=%q", res.Panic, res.Err != nil, res.Closed, seen, res.Out)
}

func streamOf(cs Case) []byte {
	if cs.Stream != "" || len(cs.Specs) == 0 {
		return []byte(cs.Stream)
	}
	var b []byte
	for _, sp := range cs.Specs {
		x, _ := wire.Build(sp)
		b = append(b, x...)
	}
	return b
}

func (w *worker) observe(cs Case, stream []byte) string {
	if cs.Side == "client" {
		return clih.ObserveResponse(stream, segs(stream, cs.Cuts), cs.Streaming, cs.Name)
	}
	return w.observeServer(stream, cs.Cuts, cs.Streaming)
}

type item struct {
	cs     Case
	stream []byte
}

func serverCorpus(thorough bool) []item {
	var out []item
	add := func(name string, specs ...wire.Spec) {
		for i := range specs {
			specs[i].ID = fmt.Sprintf("%s.%d", name, i)
			if specs[i].Target == "" {
				specs[i].Target = fmt.Sprintf("/%s/%d?x=%d", name, i, i)
			}
		}
		cs := Case{Side: "server", Specs: specs, Name: name}
		out = append(out, item{cs, streamOf(cs)})
	}
	raw := func(name, s string) {
		out = append(out, item{Case{Side: "server", Stream: s, Name: name}, []byte(s)})
	}
	S := func(m string, f, n int) wire.Spec { return wire.Spec{Method: m, Framing: f, BodyLen: n} }
	with := func(s wire.Spec, f func(*wire.Spec)) wire.Spec { f(&s); return s }
	add("get", S("GET", wire.FNone, 0))
	add("cl3", S("POST", wire.FCL, 3))
	add("ch3", S("POST", wire.FChunked, 3))
	add("ch3x3", with(S("POST", wire.FChunked, 3), func(s *wire.Spec) { s.Part = wire.PBytes1 }))
	add("cht2", S("POST", wire.FChunkedTrailer, 2))
	add("cht0", S("POST", wire.FChunkedTrailer, 0))
	add("expect", S("POST", wire.FCLExpect, 4))
	add("foldsp", with(S("GET", wire.FNone, 0), func(s *wire.Spec) { s.Extra = wire.XFoldSP }))
	add("foldtab-cl", with(S("POST", wire.FCL, 2), func(s *wire.Spec) { s.Extra = wire.XFoldTab }))
	add("fold2-ch", with(S("POST", wire.FChunked, 2), func(s *wire.Spec) { s.Extra = wire.XFold2 }))
	add("empty", with(S("GET", wire.FNone, 0), func(s *wire.Spec) { s.Extra = wire.XEmpty }))
	add("nearmiss-cr", with(S("GET", wire.FNone, 0), func(s *wire.Spec) { s.NearMiss = 6 }))
	add("nearmiss-x", with(S("POST", wire.FCL, 1), func(s *wire.Spec) { s.NearMiss = 1 }))
	add("v10", with(S("POST", wire.FCL, 2), func(s *wire.Spec) { s.V10 = true; s.KeepAl10 = true }))
	add("head", S("HEAD", wire.FNone, 0))
	add("pair-get-get", S("GET", wire.FNone, 0), S("GET", wire.FNone, 0))
	add("pair-cl-get", S("POST", wire.FCL, 5), S("GET", wire.FNone, 0))
	add("pair-ch-cl", S("POST", wire.FChunked, 2), S("PUT", wire.FCL, 1))
	add("pair-cht-get", S("POST", wire.FChunkedTrailer, 1), S("GET", wire.FNone, 0))
	add("pair-fold-cl", with(S("POST", wire.FCL, 2), func(s *wire.Spec) { s.Extra = wire.XFoldSP }), S("POST", wire.FCL, 1))
	add("pair-expect-get", S("POST", wire.FCLExpect, 2), S("GET", wire.FNone, 0))
	add("pair-close-get", with(S("GET", wire.FNone, 0), func(s *wire.Spec) { s.Close = true }), S("GET", wire.FNone, 0))
	add("triple", S("POST", wire.FCL, 1), S("POST", wire.FChunked, 1), S("GET", wire.FNone, 0))
	// raw odd / malformed streams: the error behaviour must not depend on segmentation either
	raw("bare-lf", "GET /lf HTTP/1.1\nHost: h\nX-Id: lf\n\n")
	raw("leading-crlf", "\r\n\r\nGET /l HTTP/1.1\r\nHost: h\r\nX-Id: l\r\n\r\n")
	raw("no-colon", "GET /nc HTTP/1.1\r\nHost: h\r\nBadHeader\r\n\r\n")
	raw("space-in-name", "GET /sn HTTP/1.1\r\nHost: h\r\nBad Name: v\r\n\r\n")
	raw("bad-chunk", "POST /bc HTTP/1.1\r\nHost: h\r\nTransfer-Encoding: chunked\r\n\r\nzz\r\nab\r\n0\r\n\r\n")
	raw("chunk-no-crlf", "POST /bc HTTP/1.1\r\nHost: h\r\nTransfer-Encoding: chunked\r\n\r\n2\r\nabXX0\r\n\r\n")
	raw("truncated-cl", "POST /t HTTP/1.1\r\nHost: h\r\nContent-Length: 10\r\n\r\nabc")
	raw("truncated-hdr", "GET /t HTTP/1.1\r\nHost: h\r\nX-A: b")
	raw("bad-cl", "POST /t HTTP/1.1\r\nHost: h\r\nContent-Length: 1x\r\n\r\nabc")
	raw("garbage-after", "GET /g HTTP/1.1\r\nHost: h\r\nX-Id: g\r\n\r\n\x00\x01garbage")
	raw("trailer-fold", "POST /tf HTTP/1.1\r\nHost: h\r\nTransfer-Encoding: chunked\r\n\r\n1\r\na\r\n0\r\nX-T: a\r\n b\r\n\r\nGET /after HTTP/1.1\r\nHost: h\r\n\r\n")
	raw("trailer-fold-announced", "POST /tfa HTTP/1.1\r\nHost: h\r\nTrailer: X-T\r\nTransfer-Encoding: chunked\r\n\r\n1\r\na\r\n0\r\nX-T: a\r\n b\r\n\r\nGET /after HTTP/1.1\r\nHost: h\r\n\r\n")
	raw("trailer-dup-announced", "POST /tda HTTP/1.1\r\nHost: h\r\nTrailer: X-A, X-A\r\nTransfer-Encoding: chunked\r\n\r\n1\r\na\r\n0\r\nX-A: 1\r\nX-A: 2\r\n\r\nGET /after HTTP/1.1\r\nHost: h\r\n\r\n")
	raw("trailer-two-announced", "POST /tta HTTP/1.1\r\nHost: h\r\nTrailer: X-A, X-B\r\nTransfer-Encoding: chunked\r\n\r\n1\r\na\r\n0\r\nX-B: 2\r\nX-A: 1\r\n\r\nGET /after HTTP/1.1\r\nHost: h\r\n\r\n")
	raw("noread-chunked+get", "POST /noread/ch HTTP/1.1\r\nHost: h\r\nTransfer-Encoding: chunked\r\n\r\n5\r\nhello\r\n3\r\nabc\r\n0\r\n\r\nGET /after HTTP/1.1\r\nHost: h\r\nX-Id: after\r\n\r\n")
	raw("noread-chunked-trailer+get", "POST /noread/cht HTTP/1.1\r\nHost: h\r\nTrailer: X-T\r\nTransfer-Encoding: chunked\r\n\r\n5\r\nhello\r\n0\r\nX-T: v\r\n\r\nGET /after HTTP/1.1\r\nHost: h\r\nX-Id: after\r\n\r\n")
	raw("noread-cl+get", "POST /noread/cl HTTP/1.1\r\nHost: h\r\nContent-Length: 7\r\n\r\nhello!!GET /after HTTP/1.1\r\nHost: h\r\nX-Id: after\r\n\r\n")
	raw("chunk-space", "POST /cs HTTP/1.1\r\nHost: h\r\nTransfer-Encoding: chunked\r\n\r\n1  \r\na\r\n0\r\n\r\n")
	raw("http09", "GET /nine\r\nHost: h\r\n\r\n")
	raw("abs-uri", "GET http://example.com/p?q=1 HTTP/1.1\r\nHost: h\r\nX-Id: abs\r\n\r\n")
	raw("cookie-ua-ct", "POST /c HTTP/1.1\r\nHost: h\r\nUser-Agent: ua\r\nCookie: a=b; c=d\r\nContent-Type: text/x\r\nContent-Length: 2\r\n\r\nhi")
	raw("multipart", "POST /mp HTTP/1.1\r\nHost: h\r\nContent-Type: multipart/form-data; boundary=xx\r\nContent-Length: 62\r\n\r\n--xx\r\nContent-Disposition: form-data; name=\"a\"\r\n\r\nv\r\n--xx--\r\n")
	// boundary sizes: 1-cut only (streams are long)
	for _, n := range []int{4095, 4096, 4097} {
		add(fmt.Sprintf("cl%d+get", n), S("POST", wire.FCL, n), S("GET", wire.FNone, 0))
	}
	// a body longer than the 8 KiB a streaming server prefetches, which the handler does not read: the skip of the rest
	// has to wait for it in whatever pieces it arrives
	raw("noread-cl9000+get", "POST /noread/big HTTP/1.1\r\nHost: h\r\nContent-Length: 9000\r\n\r\n"+strings.Repeat("GET /evil HTTP/1.1\r\nHost: e\r\n\r\n", 290)+"0123456789"+"GET /after HTTP/1.1\r\nHost: h\r\nX-Id: after\r\n\r\n")
	add("ch4097+get", with(S("POST", wire.FChunked, 4097), func(s *wire.Spec) { s.Part = wire.PSplit4096 }), S("GET", wire.FNone, 0))
	add("many+cl", with(S("POST", wire.FCL, 3), func(s *wire.Spec) { s.Extra = wire.XMany }))
	add("get+many", S("GET", wire.FNone, 0), with(S("GET", wire.FNone, 0), func(s *wire.Spec) { s.Extra = wire.XMany }))
	add("cl+many2+cl", S("POST", wire.FCL, 2), with(S("POST", wire.FCL, 3), func(s *wire.Spec) { s.Extra = wire.XMany2 }), S("GET", wire.FNone, 0))
	add("expect-chunked+get", S("POST", wire.FChunkedExpect, 3), S("GET", wire.FNone, 0))
	if thorough {
		for _, n := range []int{8191, 8192, 8193} {
			add(fmt.Sprintf("cl%d+get", n), S("POST", wire.FCL, n), S("GET", wire.FNone, 0))
			add(fmt.Sprintf("cht%d+get", n), S("POST", wire.FChunkedTrailer, n), S("GET", wire.FNone, 0))
		}
		add("cl65537+get", S("POST", wire.FCL, 65537), S("GET", wire.FNone, 0))
	}
	return out
}

// classify a cut position for the non-triviality rule: inside the header block / chunk line / trailer
func inHead(stream []byte, p int) bool {
	// position p is "inside a header block" when the bytes before it do not yet contain CRLFCRLF
	// counted from the start of the message it falls in; a cheap conservative proxy: p is before the first blank line
	for i := 0; i+3 < len(stream) && i+3 < p; i++ {
		if stream[i] == '\r' && stream[i+1] == '\n' && stream[i+2] == '\r' && stream[i+3] == '\n' {
			return false
		}
	}
	return true
}

func run(c *mc.Ctx) {
	ex := c.Counter("executions")
	tr := c.Counter("transitions")
	twoCutBound, threeCutBound := 160, 0
	if c.Thorough() {
		twoCutBound, threeCutBound = 600, 110
	}
	c.Extra("three_cut_length_bound", threeCutBound)
	c.Extra("two_cut_length_bound", twoCutBound)
	items := serverCorpus(c.Thorough())
	for _, it := range clih.ResponseCorpus(c.Thorough()) {
		items = append(items, item{Case{Side: "client", Stream: string(it.Stream), Name: it.Name}, it.Stream})
	}
	c.Extra("corpus_streams", len(items))
	// work units: (item, mode, first cut) so that long streams spread over all workers
	type unit struct {
		it        int
		streaming bool
		first     int // first cut position; 0 = whole+bytewise unit
	}
	var units []unit
	for i, it := range items {
		for _, st := range []bool{false, true} {
			units = append(units, unit{i, st, 0})
			for p := 1; p < len(it.stream); p++ {
				units = append(units, unit{i, st, p})
			}
		}
	}
	type refKey struct {
		it        int
		streaming bool
	}
	refs := make(map[refKey]string)
	pool := make(chan *worker, 64)
	getW := func() *worker {
		select {
		case w := <-pool:
			return w
		default:
			return newWorker()
		}
	}
	// reference observations (unsplit) first
	w0 := getW()
	for i, it := range items {
		for _, st := range []bool{false, true} {
			cs := it.cs
			cs.Streaming = st
			cs.Cuts = nil
			refs[refKey{i, st}] = w0.observe(cs, it.stream)
			c.Distinct("outcomes", refs[refKey{i, st}])
		}
	}
	pool <- w0
	c.Sample(map[string]interface{}{"stream": string(items[3].stream), "cuts": []int{40, 95}, "side": "server", "streaming": true})
	c.Sample(map[string]interface{}{"stream": string(items[len(items)-2].stream), "cuts": []int{17}, "side": "client"})
	var nt int64
	c.ParallelFor(len(units), func(ui int) {
		u := units[ui]
		it := items[u.it]
		w := getW()
		defer func() { pool <- w }()
		ref := refs[refKey{u.it, u.streaming}]
		try := func(cuts []int) {
			cs := it.cs
			cs.Streaming = u.streaming
			cs.Cuts = cuts
			got := w.observe(cs, it.stream)
			atomic.AddInt64(ex, 1)
			atomic.AddInt64(tr, int64(len(cuts)+1))
			if got != ref {
				kind := "1cut"
				if len(cuts) == 3 {
					kind = "3cut"
				} else if len(cuts) == 2 {
					kind = "2cut"
				} else if len(cuts) == 1 && cuts[0] == -1 {
					kind = "bytewise"
				}
				c.Violate(fmt.Sprintf("%s|%s|streaming=%v|%s", it.cs.Side, it.cs.Name, u.streaming, kind),
					fmt.Sprintf("stream %q (%s side, streaming=%v): observation with cuts %v differs from the unsplit run\n  split:   %.600s\n  unsplit: %.600s", it.cs.Name, it.cs.Side, u.streaming, cuts, got, ref), cs)
			}
		}
		if u.first == 0 {
			try([]int{-1})
			return
		}
		try([]int{u.first})
		if inHead(it.stream, u.first) {
			atomic.AddInt64(&nt, 1)
		}
		if len(it.stream) <= twoCutBound {
			for q := u.first + 1; q < len(it.stream); q++ {
				try([]int{u.first, q})
				if inHead(it.stream, u.first) {
					atomic.AddInt64(&nt, 1)
				}
				if len(it.stream) <= threeCutBound {
					for r := q + 1; r < len(it.stream); r++ {
						try([]int{u.first, q, r})
					}
				}
			}
		}
	})
	c.Add("nontrivial", nt)
}

func replay(c *mc.Ctx, raw json.RawMessage) {
	var cs Case
	if json.Unmarshal(raw, &cs) != nil {
		return
	}
	w := newWorker()
	stream := streamOf(cs)
	ref := cs
	ref.Cuts = nil
	a, b := w.observe(ref, stream), w.observe(cs, stream)
	if a != b {
		c.Violate("replay", fmt.Sprintf("cuts %v: %.600s\nunsplit: %.600s", cs.Cuts, b, a), cs)
	}
}
