// Package c11: client requests reach the server intact and responses come back intact.
//
// Request side: every request of a finite product (method x URL x header set x body kind x
// configuration) is built through the public protocol.Request API and sent by the real
// http1.HostClient over a scripted connection. The bytes the client wrote are decoded by three
// decoders that share no code with the client writer: the strict RFC 7230 reader httpref,
// net/http.ReadRequest and the real hertz server (loop-back through route.Engine). All three must
// accept the bytes as exactly one request (no byte left over) and agree with each other and with
// the intention (a hand-written table per URL / header set / body kind) on method, target, Host,
// header multiset and body (form and multipart bodies are compared after decoding).
//
// Response side: every response of a finite product (framing x chunk partition x trailers x body
// size x header set x delivery) is produced by a small independent generator, delivered by the
// scripted peer, and the response returned by the client (buffered and streaming, with and without
// MaxResponseBodySize, header-name normalisation on and off) must equal what the generator
// intended; a second exchange follows on the same client to expose a body that ended at the wrong
// offset.
package c11

import (
	"bufio"
	"bytes"
	"crypto/sha1"
	"encoding/hex"
	"encoding/json"
	"fmt"
	"github.com/cloudwego/hertz/pkg/app/client/retry"
	"io"
	"mime"
	"mime/multipart"
	"net/http"
	"net/url"
	"sort"
	"strconv"
	"strings"
	"sync/atomic"

	"github.com/cloudwego/hertz/pkg/app"
	"github.com/cloudwego/hertz/pkg/common/hlog"
	"github.com/cloudwego/hertz/pkg/protocol"

	"verifh/clih"
	"verifh/httpref"
	"verifh/mc"
	"verifh/netsim"
	"verifh/srvh"
)

func init() {
	hlog.SetOutput(io.Discard)
	hlog.SetLevel(hlog.LevelFatal)
}

var Check = &mc.Check{
	ID:    "C11",
	Level: "model_checking",
	Rule: "requests: full product method{GET,HEAD,POST,PUT,DELETE,OPTIONS,CONNECT} x URL table{plain, escapes, query &=%+, fragment, userinfo, IPv6 host:port, dot segments + upper-case host, empty path, empty path + query, unreserved escapes + params, explicit port + upper-case scheme, 5 KiB request line} x header set{none, custom, repeated Add, cookies, explicit Host, own User-Agent/Content-Type} x " +
		"body{none, SetBody 0/1/4096/4097, SetBodyStream known length / -1 / LimitedReader of 1/4097/8193 bytes (two reader behaviours), url-encoded form, multipart fields, multipart fields+files} x {header-name normalisation off} x {path normalisation off} x {proxy form}; plus ordered pairs (first request x 5 second requests) on one kept-alive connection with a fresh / recycled Request object; " +
		"responses: full product framing{fixed, chunked x 6 chunk partitions x 0..2 trailers, close-delimited 1.1/1.0, 204, 304, HEAD, 100-continue + fixed/chunked} x status x body size around 4 KiB / 8 KiB x header set{minimal, rich, obs-folded} x {buffered, streaming} x MaxResponseBodySize{unset, =size, size-1} x {normalisation off} x delivery{one segment, 1460-byte segments, head|body, last byte of head and of message apart, 4096-byte segments} x following exchange{fixed, chunked+trailer, HEAD, close-delimited} on the same client; " +
		"thorough adds body sizes (every size 4090..4102 and 8186..8198, 12/16/64 KiB) and request bodies up to 64 KiB; " +
		"non-trivial = every case other than a body-less request with default configuration to the plain URL / a tiny fixed-length response with minimal headers, no limit, buffered, one segment (i.e. a body of >= 4095 bytes, a stream, form or multipart body, chunked / close-delimited / interim framing, trailers, folded or repeated headers, escaping, normalisation, proxy form, a size limit, split delivery)",
	Run:    run,
	Replay: replay,
	Assumptions: []string{
		"the request URI is parsed (req.URI()) before HostClient.Do, as client.Client.Do does for every request",
		"header field names are compared case-insensitively between decoders; on the wire they must be canonical (normalisation on) or exactly as given (normalisation off)",
		"the request target path is compared after strict percent-decoding when path normalisation is on (which characters are escaped is the client's choice), byte for byte when it is off; the query is compared byte for byte",
		"response trailers are declared in a Trailer header (hertz only reports declared trailers); chunk extensions and HTAB as optional white space are not generated",
		"streaming mode with a body larger than MaxResponseBodySize: the documentation does not say what happens, so only 'no wrong byte' is required (error, or a prefix of the body, or the whole body)",
		"a response without Content-Type: ResponseHeader.ContentType()/VisitAll report the API default \"text/plain; charset=utf-8\"; that default is accepted in place of 'absent'",
		"Date and other wall-clock dependent fields are not generated and not compared",
		"multipart boundaries are random by design (mime/multipart); multipart bodies are compared after decoding",
	},
}

// ---- deterministic payloads ----------------------------------------------------------------

// patUnit contains everything that could confuse a framing bug: CRLF, a last-chunk, a request line,
// a multipart-looking delimiter, NUL, high bytes and url-reserved characters.
const patUnit = "ab\r\n0\r\n\r\nGET /x HTTP/1.1\r\nHost: y\r\n\r\n--b\r\n1a\r\n\x00\xff%41+&=;"

func pat(n, salt int) []byte {
	b := make([]byte, n)
	for i := range b {
		if i%32 < 4 { // position stamp: a shifted, dropped or duplicated block cannot go unnoticed
			b[i] = "0123456789abcdef"[((i/32)>>(uint(3-i%32)*4))&15]
		} else {
			b[i] = patUnit[(i+salt)%len(patUnit)]
		}
	}
	return b
}

func sum(b []byte) string {
	h := sha1.Sum(b)
	return fmt.Sprintf("%d:%s", len(b), hex.EncodeToString(h[:8]))
}

func clip(b []byte) string {
	if len(b) > 700 {
		return fmt.Sprintf("%q...(%d bytes)...%q", b[:500], len(b), b[len(b)-120:])
	}
	return fmt.Sprintf("%q", b)
}

func firstDiff(a, b []byte) string {
	n := len(a)
	if len(b) < n {
		n = len(b)
	}
	i := 0
	for i < n && a[i] == b[i] {
		i++
	}
	lo := i - 20
	if lo < 0 {
		lo = 0
	}
	ha, hb := i+30, i+30
	if ha > len(a) {
		ha = len(a)
	}
	if hb > len(b) {
		hb = len(b)
	}
	return fmt.Sprintf("lengths %d vs %d, first difference at offset %d: got ...%q, want ...%q", len(a), len(b), i, a[lo:ha], b[lo:hb])
}

// ---- request side: the tables that state the intention -------------------------------------------

type urlSpec struct {
	Name    string
	Raw     string // what the application passes to SetRequestURI
	Host    string // authority the request is for (lower case, no userinfo)
	PathRaw string // path exactly as written ("" = empty path)
	PathDec string // reference: the path percent-decoded once, dot segments and duplicate slashes resolved
	Query   string // query exactly as written
	Auth    string // Authorization value implied by userinfo
}

var urls = []urlSpec{
	{"plain", "http://h/", "h", "/", "/", "", ""},
	{"escapes", "http://h/pa%20th/%E4%B8%AD/a%2Bb%3Fc%23d%25e", "h", "/pa%20th/%E4%B8%AD/a%2Bb%3Fc%23d%25e", "/pa th/\xe4\xb8\xad/a+b?c#d%e", "", ""},
	{"query", "http://h/q?a=1&b=%26%3D&c=x+y&d&e=", "h", "/q", "/q", "a=1&b=%26%3D&c=x+y&d&e=", ""},
	{"fragment", "http://h/f?x=1#frag", "h", "/f", "/f", "x=1", ""},
	{"userinfo", "http://user:pass@h/u", "h", "/u", "/u", "", "Basic dXNlcjpwYXNz"},
	{"ipv6", "http://[::1]:8080/v6?z=1", "[::1]:8080", "/v6", "/v6", "z=1", ""},
	{"dots", "http://H.Example:8080/a/./b/../c//d", "h.example:8080", "/a/./b/../c//d", "/a/c/d", "", ""},
	{"nopath", "http://h", "h", "", "/", "", ""},
	{"nopath-query", "http://h?x=1", "h", "", "/", "x=1", ""},
	{"tilde-params", "http://h/%7Euser/x;y=1/z,w", "h", "/%7Euser/x;y=1/z,w", "/~user/x;y=1/z,w", "", ""},
	{"port80-upper-scheme", "HTTP://h:80/p", "h:80", "/p", "/p", "", ""},
	{"long", "http://h/" + longSeg + "/end?q=" + longSeg, "h", "/" + longSeg + "/end", "/" + longSeg + "/end", "q=" + longSeg, ""},
}

// longSeg makes the request line longer than the 4 KiB buffers on both sides.
var longSeg = strings.Repeat("abcdefghijklmnopqrstuvwxyz012345", 80)

func short(s string) string {
	if len(s) > 100 {
		return fmt.Sprintf("%s...(%d bytes)...%s", s[:40], len(s), s[len(s)-20:])
	}
	return s
}

var methods = []string{"GET", "HEAD", "POST", "PUT", "DELETE", "OPTIONS", "CONNECT"}

const (
	hNone = iota
	hCustom
	hRepeat
	hCookie
	hHost
	hOwn
	nHdr
)

var hdrNames = []string{"none", "custom", "repeated-add", "cookies", "explicit-host", "own-ua-ct"}

const explicitHost = "explicit.example:81"

// body kinds
const (
	bNone = iota
	bBytes
	bStreamKnown
	bStreamUnknown
	bStreamLimited
	bForm
	bMultipart
	bMultipartFile
)

type bodySpec struct {
	Kind  int
	Size  int
	Style int // stream reader behaviour: 0 = as much as asked, 1 = at most 1000 bytes per Read and the last bytes together with io.EOF
}

func (b bodySpec) name() string {
	k := []string{"none", "SetBody", "SetBodyStream-known", "SetBodyStream-unknown", "SetBodyStream-LimitedReader", "form", "multipart", "multipart+file"}[b.Kind]
	if b.Kind >= bBytes && b.Kind <= bStreamLimited {
		k += fmt.Sprintf("(%d)", b.Size)
	}
	if b.Kind >= bStreamKnown && b.Kind <= bStreamLimited && b.Style%2 == 1 {
		k += "/dribble"
	}
	if b.Kind == bStreamUnknown && b.Style >= 2 {
		k += "+Set(Content-Length)"
	}
	return k
}

func bodySpecs(thorough bool) []bodySpec {
	out := []bodySpec{{bNone, 0, 0}}
	sizes := []int{0, 1, 4096, 4097}
	ssz := []int{1, 4097, 8193}
	if thorough {
		sizes = append(sizes, 4095, 8192, 8193, 65537)
		ssz = append(ssz, 4096, 8192, 65537)
	}
	for _, n := range sizes {
		out = append(out, bodySpec{bBytes, n, 0})
	}
	for st := 0; st < 2; st++ {
		for _, n := range ssz {
			out = append(out, bodySpec{bStreamKnown, n, st})
		}
		out = append(out, bodySpec{bStreamUnknown, 0, st})
		for _, n := range ssz {
			out = append(out, bodySpec{bStreamUnknown, n, st})
		}
		out = append(out, bodySpec{bStreamLimited, 4097, st})
	}
	out = append(out, bodySpec{bStreamUnknown, 1, 2}, bodySpec{bStreamUnknown, 4097, 3})
	out = append(out, bodySpec{bStreamLimited, 5, 2}, bodySpec{bStreamLimited, 4097, 3})
	out = append(out, bodySpec{bForm, 0, 0}, bodySpec{bMultipart, 0, 0}, bodySpec{bMultipartFile, 0, 0}, bodySpec{bMultipartFile, 0, 1}, bodySpec{bMultipartFile, 0, 2})
	return out
}

type ReqCase struct {
	Method     string   `json:"method"`
	URL        int      `json:"url"`
	Hdr        int      `json:"hdr"`
	Body       bodySpec `json:"body"`
	NoNormHdr  bool     `json:"no_norm_hdr"`
	NoNormPath bool     `json:"no_norm_path"`
	Proxy      bool     `json:"proxy"`
}

func (r ReqCase) String() string {
	return fmt.Sprintf("%s %s headers=%s body=%s noNormHdr=%v noNormPath=%v proxy=%v", r.Method, short(urls[r.URL].Raw), hdrNames[r.Hdr], r.Body.name(), r.NoNormHdr, r.NoNormPath, r.Proxy)
}

// dribble hands out at most 1000 bytes per Read and returns the last bytes together with io.EOF.
type dribble struct {
	b   []byte
	max int
}

func (d *dribble) Read(p []byte) (int, error) {
	if len(d.b) == 0 {
		return 0, io.EOF
	}
	n := len(p)
	if d.max == 0 {
		d.max = 1000
	}
	if n > d.max {
		n = d.max
	}
	if n > len(d.b) {
		n = len(d.b)
	}
	copy(p, d.b[:n])
	d.b = d.b[n:]
	if len(d.b) == 0 {
		return n, io.EOF
	}
	return n, nil
}

func reader(b []byte, style int) io.Reader {
	if style == 1 {
		return &dribble{b: b}
	}
	if style == 2 {
		return &dribble{b: b, max: 100} // every read returns less than a caller's 512-byte sniff buffer asks for
	}
	return bytes.NewReader(b)
}

type fileView struct {
	Param, Filename, CType, Sum string
}

type formView struct {
	Values []string // "name=value", sorted
	Files  []fileView
}

func (f *formView) sort() {
	sort.Strings(f.Values)
	sort.Slice(f.Files, func(i, j int) bool {
		if f.Files[i].Param != f.Files[j].Param {
			return f.Files[i].Param < f.Files[j].Param
		}
		return f.Files[i].Filename < f.Files[j].Filename
	})
}

func viewOf(f *multipart.Form) (formView, error) {
	var v formView
	for k, vs := range f.Value {
		for _, x := range vs {
			v.Values = append(v.Values, k+"="+x)
		}
	}
	for k, fs := range f.File {
		for _, fh := range fs {
			fd, err := fh.Open()
			if err != nil {
				return v, err
			}
			b, err := io.ReadAll(fd)
			fd.Close()
			if err != nil {
				return v, err
			}
			v.Files = append(v.Files, fileView{k, fh.Filename, fh.Header.Get("Content-Type"), sum(b)})
		}
	}
	v.sort()
	return v, nil
}

// intent is what the application asked for, stated independently of any hertz code.
type intent struct {
	method  string
	url     urlSpec
	host    string           // Host header value
	headers []httpref.Header // fields the application set: each must be on the wire exactly so often
	ctype   string           // exact Content-Type ("" = not determined by the application)
	ctypePf string           // required Content-Type prefix
	ua      string           // exact User-Agent ("" = any non-empty)
	body    []byte           // raw body (kinds none/bytes/streams)
	form    url.Values       // url-encoded form
	mp      *formView        // multipart
	rc      ReqCase
}

func canonName(s string) string {
	b := []byte(strings.ToLower(s))
	up := true
	for i, c := range b {
		if up && c >= 'a' && c <= 'z' {
			b[i] = c - 32
		}
		up = c == '-'
	}
	return string(b)
}

var formPairs = [][2]string{{"a", "1"}, {"b", "x y&=+%"}, {"c", ""}, {"b", "\xe4\xb8\xad\r\n"}}

// build fills req through the public API only and returns the intention.
func build(req *protocol.Request, rc ReqCase) *intent {
	u := urls[rc.URL]
	in := &intent{method: rc.Method, url: u, host: u.Host, rc: rc}
	if rc.NoNormHdr {
		req.Header.DisableNormalizing()
	}
	req.SetMethod(rc.Method)
	req.SetRequestURI(u.Raw)
	set := func(k, v string) {
		req.Header.Set(k, v)
		in.headers = append(in.headers, httpref.Header{Name: k, Value: v})
	}
	add := func(k, v string) {
		req.Header.Add(k, v)
		in.headers = append(in.headers, httpref.Header{Name: k, Value: v})
	}
	switch rc.Hdr {
	case hCustom:
		set("X-Custom", "v1")
		set("x-lower-case", "v 2")
		set("X-Empty", "")
	case hRepeat:
		add("X-Multi", "a")
		add("X-Multi", "b")
		add("Accept", "x/y, */*;q=0.1")
		add("X-Multi", "a")
	case hCookie:
		req.SetCookie("k", "v")
		req.SetCookie("k2", "v2=w")
		in.headers = append(in.headers, httpref.Header{Name: "Cookie", Value: "k=v; k2=v2=w"})
	case hHost:
		req.Header.SetHost(explicitHost)
		in.host = explicitHost
	case hOwn:
		req.Header.Set("User-Agent", "ua/1")
		req.Header.Set("Content-Type", "text/x; charset=utf-8")
		in.ua = "ua/1"
		in.ctype = "text/x; charset=utf-8"
	}
	b := rc.Body
	switch b.Kind {
	case bBytes:
		in.body = pat(b.Size, 1)
		req.SetBody(in.body)
	case bStreamKnown:
		in.body = pat(b.Size, 2)
		req.SetBodyStream(reader(in.body, b.Style), b.Size)
	case bStreamUnknown:
		in.body = pat(b.Size, 3)
		req.SetBodyStream(reader(in.body, b.Style%2), -1)
		if b.Style >= 2 {
			// the application then states the length itself through the generic header setter
			req.Header.Set("Content-Length", strconv.Itoa(b.Size))
		}
	case bStreamLimited:
		in.body = pat(b.Size, 4)
		if b.Style >= 2 {
			// "at most N": the reader ends 1019 bytes before the limit
			req.SetBodyStream(&io.LimitedReader{R: reader(in.body, b.Style%2), N: int64(b.Size + 1019)}, -1)
		} else {
			more := append(append([]byte(nil), in.body...), "MUST-NOT-BE-SENT"...)
			req.SetBodyStream(&io.LimitedReader{R: reader(more, b.Style), N: int64(b.Size)}, -1)
		}
	case bForm:
		in.form = url.Values{}
		for _, kv := range formPairs {
			req.PostArgs().Add(kv[0], kv[1])
			in.form.Add(kv[0], kv[1])
		}
		req.Header.SetContentTypeBytes([]byte("application/x-www-form-urlencoded"))
		in.ctype = "application/x-www-form-urlencoded"
	case bMultipart, bMultipartFile:
		v := &formView{}
		req.SetMultipartFormData(map[string]string{"f1": "v1"})
		v.Values = append(v.Values, "f1=v1")
		f2 := "v2\r\n--x\r\n" + string(pat(70, 5))
		req.SetMultipartField("f2", "", "", strings.NewReader(f2))
		v.Values = append(v.Values, "f2="+f2)
		if b.Kind == bMultipartFile {
			c1, c2 := pat(5000, 6), pat(300, 7)
			req.SetFileReader("file1", "a.txt", reader(c1, b.Style)) // style 1: a reader whose reads return less than asked for
			v.Files = append(v.Files, fileView{"file1", "a.txt", "", sum(c1)})
			req.SetMultipartField("file2", "b.bin", "application/x-c11", reader(c2, b.Style))
			v.Files = append(v.Files, fileView{"file2", "b.bin", "application/x-c11", sum(c2)})
			// names that need quoted-string escaping in Content-Disposition
			c3 := pat(40, 8)
			req.SetMultipartField("fi\"le3", "c \"quoted\\name\".txt", "", reader(c3, b.Style))
			v.Files = append(v.Files, fileView{"fi\"le3", "c \"quoted\\name\".txt", "", sum(c3)})
		}
		v.sort()
		in.mp = v
		in.ctype = ""
		in.ctypePf = "multipart/form-data; boundary="
	}
	req.URI() // client.Client.Do parses the URI of every request before handing it to the host client
	return in
}

// strictUnescape percent-decodes s; ok=false if s contains a malformed escape or a byte that may not
// appear raw in a path.
func strictUnescape(s string) (string, bool) {
	var b []byte
	for i := 0; i < len(s); i++ {
		c := s[i]
		switch {
		case c == '%':
			if i+2 > len(s)-1 {
				return "", false
			}
			h, l := unhex(s[i+1]), unhex(s[i+2])
			if h < 0 || l < 0 {
				return "", false
			}
			b = append(b, byte(h<<4|l))
			i += 2
		case c >= 'a' && c <= 'z', c >= 'A' && c <= 'Z', c >= '0' && c <= '9', strings.IndexByte("-._~!$&'()*+,;=:@/", c) >= 0:
			b = append(b, c)
		default:
			return "", false
		}
	}
	return string(b), true
}

func unhex(c byte) int {
	switch {
	case c >= '0' && c <= '9':
		return int(c - '0')
	case c >= 'a' && c <= 'f':
		return int(c-'a') + 10
	case c >= 'A' && c <= 'F':
		return int(c-'A') + 10
	}
	return -1
}

// judgeTarget compares the request target on the wire with the intention. Returns the class of the
// deviation and a reason, or "", "".
func judgeTarget(in *intent, target string) (string, string) {
	u := in.url
	if in.method == "CONNECT" {
		if !strings.EqualFold(target, u.Host) {
			return "connect-authority", fmt.Sprintf("CONNECT target %q, want the authority %q", target, u.Host)
		}
		return "", ""
	}
	rest := target
	if in.rc.Proxy {
		pf := "http://" + u.Host
		if len(target) < len(pf) || !strings.EqualFold(target[:len(pf)], pf) {
			return "proxy-prefix", fmt.Sprintf("proxy form target %q does not start with %q", target, pf)
		}
		rest = target[len(pf):]
	}
	if strings.IndexByte(rest, '#') >= 0 {
		return "fragment-in-target", fmt.Sprintf("target %q contains a fragment ('#' is not allowed in a request-target)", target)
	}
	p, q := rest, ""
	hasQ := false
	if i := strings.IndexByte(rest, '?'); i >= 0 {
		p, q, hasQ = rest[:i], rest[i+1:], true
	}
	if q != u.Query || (hasQ && u.Query == "") {
		return "query", fmt.Sprintf("query on the wire %q (present=%v), want %q", q, hasQ, u.Query)
	}
	if p == "" && in.rc.Proxy && u.PathRaw == "" {
		return "", "" // absolute-form: an absolute-URI may have an empty path (RFC 3986 path-abempty)
	}
	if len(p) == 0 || p[0] != '/' {
		return "path-without-leading-slash", fmt.Sprintf("path on the wire %q does not start with '/' (target %q)", p, target)
	}
	if in.rc.NoNormPath {
		want := u.PathRaw
		if want == "" {
			want = "/"
		}
		if p != want {
			return "path-not-as-given", fmt.Sprintf("path on the wire %q, want it as given %q", p, want)
		}
		return "", ""
	}
	d, ok := strictUnescape(p)
	if !ok {
		return "path-malformed", fmt.Sprintf("path on the wire %q is not a well-formed RFC 3986 path", p)
	}
	if d != u.PathDec {
		return "path-differs", fmt.Sprintf("path on the wire %q decodes to %q, want %q", p, d, u.PathDec)
	}
	return "", ""
}

var reqFraming = map[string]bool{"host": true, "content-length": true, "transfer-encoding": true}

func headerSet(hs []httpref.Header, skip map[string]bool) []string {
	var out []string
	for _, h := range hs {
		n := strings.ToLower(h.Name)
		if skip[n] {
			continue
		}
		out = append(out, n+": "+h.Value)
	}
	sort.Strings(out)
	return out
}

func count(hs []httpref.Header, name string, exact bool) (n int, vals []string) {
	for _, h := range hs {
		if h.Name == name || (!exact && strings.EqualFold(h.Name, name)) {
			n++
			vals = append(vals, h.Value)
		}
	}
	return
}

// reqDecoded is what one decoder made of one request.
type reqDecoded struct {
	method, target, host string
	headers              []string // sorted "lname: value" without framing fields
	body                 []byte
}

type worker struct {
	cl       *clih.Client
	srv      *srvh.Server
	proxyURI *protocol.URI
}

func newWorker() *worker {
	w := &worker{cl: clih.New(nil), srv: srvh.New(srvh.Opts{})}
	w.proxyURI = protocol.ParseURI("http://pu:pp@proxy.example:3128")
	w.srv.Respond = func(ctx *app.RequestContext, sn *srvh.Seen) {
		ct := string(ctx.Request.Header.ContentType())
		sn.Extra = map[string]string{}
		if strings.HasPrefix(ct, "application/x-www-form-urlencoded") {
			var kv []string
			ctx.PostArgs().VisitAll(func(k, v []byte) { kv = append(kv, string(k)+"="+string(v)) })
			sort.Strings(kv)
			b, _ := json.Marshal(kv)
			sn.Extra["form"] = string(b)
		}
		if strings.HasPrefix(ct, "multipart/form-data") {
			f, err := ctx.MultipartForm()
			if err != nil {
				sn.Extra["mperr"] = err.Error()
			} else if v, err := viewOf(f); err != nil {
				sn.Extra["mperr"] = err.Error()
			} else {
				b, _ := json.Marshal(v)
				sn.Extra["mp"] = string(b)
			}
		}
		ctx.SetStatusCode(200)
		ctx.Response.SetBodyString("ok")
	}
	w.srv.EchoAll()
	w.srv.Start()
	return w
}

const respOK = "HTTP/1.1 200 OK\r\nContent-Length: 0\r\n\r\n"

type Case struct {
	Side  string    `json:"side"` // "request" | "pair" | "response"
	Reqs  []ReqCase `json:"reqs,omitempty"`
	Reuse bool      `json:"reuse,omitempty"` // pair: the second request is built in the same (Reset) Request object
	// Stale (pairs): the server closes the kept-alive connection after the first exchange; the second request is written
	// to the dead connection first and - if the client retries it - again to a new connection. Whatever reaches the new
	// connection must be the complete second request (or Do reports an error).
	Stale bool `json:"stale,omitempty"`
	// CustomRetry (stale pairs): the client is configured with a RetryIfFunc that always agrees and two attempts
	CustomRetry bool `json:"custom_retry,omitempty"`
	// Dies (single requests, with CustomRetry): the first connection takes the request and is closed by the peer without an answer; a second connection answers
	Dies bool      `json:"dies,omitempty"`
	Resp *RespCase `json:"resp,omitempty"`
}

type violation struct {
	key, msg string
}

func (w *worker) setConfig(rc ReqCase) {
	hc := w.cl.HC
	hc.DisableHeaderNamesNormalizing = rc.NoNormHdr
	hc.DisablePathNormalizing = rc.NoNormPath
	hc.ResponseBodyStream = false
	hc.MaxResponseBodySize = 0
	if rc.Proxy {
		hc.ProxyURI = w.proxyURI
	} else {
		hc.ProxyURI = nil
	}
}

// runRequests sends the requests one after the other through the same client and returns the
// violations found. outcome is a short class of what was seen on the wire (vacuity guard).
func (w *worker) runRequests(cs Case) (vs []violation, outcome string) {
	rcs := cs.Reqs
	fail := func(kind, feat, msg string) {
		vs = append(vs, violation{cs.Side + "|" + kind + "|" + feat, msg})
	}
	sc := netsim.NewScriptConn([][]byte{[]byte(respOK)}, netsim.EndEOF)
	for i := 1; i < len(rcs) && !cs.Stale; i++ {
		sc.Next = append(sc.Next, [][]byte{[]byte(respOK)})
	}
	var spare []*netsim.ScriptConn
	if cs.Dies {
		sc = netsim.NewScriptConn(nil, netsim.EndEOF)
	}
	conns := []*netsim.ScriptConn{sc}
	if cs.Dies {
		s2 := netsim.NewScriptConn([][]byte{[]byte(respOK)}, netsim.EndEOF)
		spare = append(spare, s2)
		conns = append(conns, s2)
	}
	for i := 1; i < len(rcs); i++ {
		s2 := netsim.NewScriptConn([][]byte{[]byte(respOK)}, netsim.EndEOF)
		spare = append(spare, s2)
		conns = append(conns, s2)
	}
	w.cl.Reset(conns...)
	defer w.cl.Reset()
	if cs.CustomRetry {
		w.cl.HC.ClientOptions.RetryIfFunc = func(req *protocol.Request, resp *protocol.Response, err error) bool { return true }
		w.cl.HC.ClientOptions.RetryConfig = &retry.Config{MaxAttemptTimes: 2}
		defer func() { w.cl.HC.ClientOptions.RetryIfFunc, w.cl.HC.ClientOptions.RetryConfig = nil, nil }()
	}
	var ins []*intent
	recycled := &protocol.Request{} // per case, so that a case is a complete history and replays on its own
	for i, rc := range rcs {
		w.setConfig(rc)
		var req *protocol.Request
		if cs.Reuse {
			req = recycled
			req.Reset()
		} else {
			req = &protocol.Request{}
		}
		in := build(req, rc)
		ins = append(ins, in)
		o := w.cl.Do(req)
		if (cs.Stale && i > 0 || cs.Dies) && o.Err != "" && o.Panic == "" {
			return vs, "stale-connection-error" // not retried: the caller is told, nothing wrong reached a server
		}
		if o.Err != "" || o.Panic != "" || o.Status != 200 {
			fail("client-error", fmt.Sprintf("method=%s|body=%s", methodClass(rc.Method), bodyClass(rc.Body)), fmt.Sprintf("request #%d %v: HostClient.Do failed: err=%q panic=%q status=%d; wire=%s", i, rc, o.Err, o.Panic, o.Status, clip(sc.Out)))
			return vs, "client-error"
		}
	}
	var out []byte
	for ci, s := range conns {
		if cs.Dies && ci == 0 {
			continue // the connection that died: what went to it was never answered
		}
		if cs.Stale && ci == 0 {
			// of the first connection only the first request counts: what the client wrote to it afterwards went to a dead peer
			if m, err := httpref.ParseRequest(s.Out, 0); err == nil {
				out = append(out, s.Out[:m.End]...)
				continue
			}
		}
		out = append(out, s.Out...)
	}

	// decoder 1: strict RFC 7230 reader
	ms, rest := httpref.ParseRequests(out)
	if rest != nil || len(ms) != len(rcs) || ms[len(ms)-1].End != len(out) {
		n := 0
		if len(ms) > 0 {
			n = ms[len(ms)-1].End
		}
		fail("wire-not-wellformed", featOf(rcs), fmt.Sprintf("%v: the bytes written are not exactly %d well-formed request(s) for the strict RFC 7230 reader: parsed %d, consumed %d of %d bytes, error=%v; wire=%s", rcs, len(rcs), len(ms), n, len(out), rest, clip(out)))
		return vs, "not-wellformed"
	}
	// the request target is judged first: a target that is not the intended one makes the other decoders fail in many ways
	for i, rc := range rcs {
		if class, why := judgeTarget(ins[i], ms[i].Target); class != "" {
			fail("target", fmt.Sprintf("%s|proxy=%v", class, rc.Proxy), fmt.Sprintf("request #%d of %v: %s; request line %q", i, rcs, why, ms[i].Method+" "+ms[i].Target+" "+ms[i].Proto))
			return vs, "bad-target"
		}
	}
	// decoder 2: net/http
	br := bufio.NewReader(bytes.NewReader(out))
	var nh []reqDecoded
	for i := range rcs {
		r, err := http.ReadRequest(br)
		if err != nil {
			fail("nethttp-rejects", featOf(rcs[i:i+1]), fmt.Sprintf("%v: net/http.ReadRequest rejects request #%d: %v; wire=%s", rcs, i, err, clip(out)))
			return vs, "nethttp-rejects"
		}
		body, err := io.ReadAll(r.Body)
		if err != nil {
			fail("nethttp-rejects", featOf(rcs[i:i+1]), fmt.Sprintf("%v: net/http cannot read the body of request #%d: %v; wire=%s", rcs, i, err, clip(out)))
			return vs, "nethttp-rejects"
		}
		var hs []httpref.Header
		for k, vv := range r.Header {
			for _, v := range vv {
				hs = append(hs, httpref.Header{Name: k, Value: v})
			}
		}
		nh = append(nh, reqDecoded{r.Method, r.RequestURI, r.Host, headerSet(hs, reqFraming), body})
	}
	if _, err := br.Peek(1); err != io.EOF {
		fail("nethttp-trailing-bytes", featOf(rcs), fmt.Sprintf("%v: bytes left over after net/http read %d request(s); wire=%s", rcs, len(rcs), clip(out)))
	}
	// decoder 3: the hertz server
	res := w.srv.Run([][]byte{append([]byte(nil), out...)}, netsim.EndEOF, nil)
	if res.Panic != nil || len(res.Seen) != len(rcs) {
		fail("server-rejects", featOf(rcs), fmt.Sprintf("%v: the hertz server dispatched %d request(s), want %d (panic=%v); server answered %s; wire=%s", rcs, len(res.Seen), len(rcs), res.Panic, clip(res.Out), clip(out)))
		return vs, "server-rejects"
	}
	oc := ""
	for i, rc := range rcs {
		in, m, sn, n := ins[i], ms[i], res.Seen[i], nh[i]
		tag := fmt.Sprintf("request #%d of %v", i, rcs)
		one := featOf(rcs[i : i+1])
		// method
		if m.Method != in.method || sn.Method != in.method || n.method != in.method {
			fail("method", "method="+in.method, fmt.Sprintf("%s: method on the wire %q, hertz server %q, net/http %q, want %q", tag, m.Method, sn.Method, n.method, in.method))
		}
		// target
		if sn.URI != m.Target || n.target != m.Target {
			fail("target-decoders-disagree", one, fmt.Sprintf("%s: request target: strict reader %q, hertz server %q, net/http %q", tag, m.Target, sn.URI, n.target))
		}
		if m.Proto != "HTTP/1.1" {
			fail("proto", "", fmt.Sprintf("%s: protocol %q", tag, m.Proto))
		}
		// Host
		nHost, hostVals := count(m.Headers, "Host", false)
		wantNetHost := in.host
		if rc.Proxy || in.method == "CONNECT" {
			wantNetHost = in.url.Host // RFC 7230 5.4: with an absolute-form / authority-form target the authority of the target is the host (net/http implements this)
		}
		if nHost != 1 || !strings.EqualFold(hostVals[0], in.host) || !strings.EqualFold(sn.Host, in.host) || !strings.EqualFold(n.host, wantNetHost) {
			fail("host", fmt.Sprintf("hdr=%s|proxy=%v|connect=%v", hdrNames[rc.Hdr], rc.Proxy, in.method == "CONNECT"), fmt.Sprintf("%s: Host fields on the wire %q, hertz server %q, net/http %q, want %q", tag, hostVals, sn.Host, n.host, in.host))
		}
		// header fields: the three decoders agree ...
		a, b, c := headerSet(m.Headers, reqFraming), headerSet(sn.Headers, reqFraming), n.headers
		if strings.Join(a, "\n") != strings.Join(b, "\n") || strings.Join(a, "\n") != strings.Join(c, "\n") {
			fail("headers-decoders-disagree", fmt.Sprintf("hdr=%s|nonormhdr=%v", hdrNames[rc.Hdr], rc.NoNormHdr), fmt.Sprintf("%s: header fields: strict reader %q, hertz server %q, net/http %q", tag, a, b, c))
		}
		// ... and with the intention
		if why := judgeHeaders(in, m); why != "" {
			fail("headers", fmt.Sprintf("hdr=%s|nonormhdr=%v", hdrNames[rc.Hdr], rc.NoNormHdr), fmt.Sprintf("%s: %s; header block on the wire %q", tag, why, m.Headers))
		}
		// body
		if !bytes.Equal(m.Body, n.body) {
			fail("body-decoders-disagree", "body="+bodyClass(rc.Body), fmt.Sprintf("%s: body: strict reader vs net/http: %s", tag, firstDiff(n.body, m.Body)))
		}
		switch {
		case in.mp != nil:
			if why := judgeMultipart(in, m, sn); why != "" {
				fail("multipart", "body="+bodyClass(rc.Body), fmt.Sprintf("%s: %s; body on the wire %s", tag, why, clip(m.Body)))
			}
		case in.form != nil:
			got, err := url.ParseQuery(string(m.Body))
			wantSrv := []string{}
			for k, vv := range in.form {
				for _, v := range vv {
					wantSrv = append(wantSrv, k+"="+v)
				}
			}
			sort.Strings(wantSrv)
			wb, _ := json.Marshal(wantSrv)
			if err != nil || got.Encode() != in.form.Encode() || sn.Extra["form"] != string(wb) || !bytes.Equal(sn.Body, m.Body) {
				fail("form", "method="+methodClass(in.method), fmt.Sprintf("%s: url-encoded body %q decodes to %v (err=%v), hertz server PostArgs %s, want %v", tag, m.Body, got, err, sn.Extra["form"], in.form))
			}
		default:
			if !bytes.Equal(m.Body, in.body) {
				fail("body", "body="+bodyClass(rc.Body)+styleOf(rc.Body), fmt.Sprintf("%s: body on the wire differs from the body given: %s", tag, firstDiff(m.Body, in.body)))
			} else if !bytes.Equal(sn.Body, in.body) || sn.BodyErr != "" {
				fail("body-server", "method="+methodClass(in.method)+"|body="+bodyClass(rc.Body), fmt.Sprintf("%s: body seen by the hertz server differs from the body given (err=%q): %s", tag, sn.BodyErr, firstDiff(sn.Body, in.body)))
			}
		}
		fr := "none"
		if m.Chunked {
			fr = "chunked"
		} else if m.CL >= 0 {
			fr = "cl"
		}
		oc += fmt.Sprintf("%s %s %s %d;", m.Method, fr, bodyClass(rc.Body), len(m.Headers))
	}
	return vs, oc
}

func styleOf(b bodySpec) string {
	if b.Style == 1 {
		return "/dribble"
	}
	return ""
}

func bodyClass(b bodySpec) string {
	return []string{"none", "bytes", "stream-known", "stream-unknown", "stream-limited", "form", "multipart", "multipart+file"}[b.Kind]
}

func featOf(rcs []ReqCase) string {
	var parts []string
	for _, rc := range rcs {
		cfg := ""
		if rc.NoNormHdr {
			cfg += "H"
		}
		if rc.NoNormPath {
			cfg += "P"
		}
		if rc.Proxy {
			cfg += "X"
		}
		parts = append(parts, fmt.Sprintf("%s|body=%s|cfg=%s", methodClass(rc.Method), bodyClass(rc.Body), cfg))
	}
	return strings.Join(parts, "+")
}

func methodClass(m string) string {
	switch m {
	case "GET", "HEAD", "CONNECT":
		return m
	}
	return "POST-like"
}

func judgeHeaders(in *intent, m *httpref.Message) string {
	rc := in.rc
	// every field the application set is there, exactly as often as it was set, under the right name
	seen := map[string]bool{}
	for _, h := range in.headers {
		wireName := canonName(h.Name)
		if rc.NoNormHdr {
			wireName = h.Name
		}
		key := wireName + "\x00" + h.Value
		if seen[key] {
			continue
		}
		seen[key] = true
		want := 0
		for _, g := range in.headers {
			if g.Name == h.Name && g.Value == h.Value {
				want++
			}
		}
		got := 0
		for _, g := range m.Headers {
			if g.Name == wireName && g.Value == h.Value {
				got++
			}
		}
		if got != want {
			return fmt.Sprintf("field %q: %q set %d time(s) by the application, found %d time(s) on the wire under that name", wireName, h.Value, want, got)
		}
	}
	// nothing else except what the client is entitled to add
	mine := map[string]bool{}
	for _, h := range in.headers {
		mine[strings.ToLower(h.Name)] = true
	}
	single := map[string]int{}
	for _, h := range m.Headers {
		n := strings.ToLower(h.Name)
		if mine[n] {
			continue
		}
		single[n]++
		switch n {
		case "host", "content-length", "transfer-encoding":
		case "user-agent":
			if h.Value == "" || (in.ua != "" && h.Value != in.ua) {
				return fmt.Sprintf("User-Agent %q, want %q (empty = any non-empty)", h.Value, in.ua)
			}
		case "content-type":
			if in.ctype != "" && h.Value != in.ctype {
				return fmt.Sprintf("Content-Type %q, want %q", h.Value, in.ctype)
			}
			if in.ctypePf != "" && !strings.HasPrefix(h.Value, in.ctypePf) {
				return fmt.Sprintf("Content-Type %q, want prefix %q", h.Value, in.ctypePf)
			}
		case "authorization":
			if in.url.Auth == "" || h.Value != in.url.Auth {
				return fmt.Sprintf("Authorization %q, want %q", h.Value, in.url.Auth)
			}
		case "proxy-authorization":
			if !rc.Proxy || h.Value != "Basic cHU6cHA=" {
				return fmt.Sprintf("unexpected Proxy-Authorization %q (proxy=%v)", h.Value, rc.Proxy)
			}
		default:
			return fmt.Sprintf("field %q: %q was not set by the application", h.Name, h.Value)
		}
	}
	for n, k := range single {
		if k > 1 {
			return fmt.Sprintf("field %q occurs %d times", n, k)
		}
	}
	if single["user-agent"] != 1 {
		return "no User-Agent field"
	}
	if (in.ctype != "" || in.ctypePf != "") && single["content-type"] != 1 {
		return fmt.Sprintf("no Content-Type field, want %q", in.ctype+in.ctypePf)
	}
	if in.url.Auth != "" && single["authorization"] != 1 {
		return fmt.Sprintf("no Authorization field for the userinfo of the URL, want %q", in.url.Auth)
	}
	if rc.Proxy && single["proxy-authorization"] != 1 {
		return "no Proxy-Authorization field for the userinfo of the proxy URL"
	}
	return ""
}

func judgeMultipart(in *intent, m *httpref.Message, sn *srvh.Seen) string {
	ct, _ := m.Get("Content-Type")
	mt, params, err := mime.ParseMediaType(ct)
	if err != nil || mt != "multipart/form-data" || params["boundary"] == "" {
		return fmt.Sprintf("Content-Type %q is not multipart/form-data with a boundary (%v)", ct, err)
	}
	f, err := multipart.NewReader(bytes.NewReader(m.Body), params["boundary"]).ReadForm(1 << 20)
	if err != nil {
		return fmt.Sprintf("mime/multipart cannot decode the body: %v", err)
	}
	defer f.RemoveAll() //nolint:errcheck
	got, err := viewOf(f)
	if err != nil {
		return fmt.Sprintf("mime/multipart cannot read a file part: %v", err)
	}
	gb, _ := json.Marshal(got)
	if sn.Extra["mperr"] != "" || sn.Extra["mp"] != string(gb) {
		return fmt.Sprintf("decoders disagree on the form: mime/multipart %s, hertz server %s (err=%q)", gb, sn.Extra["mp"], sn.Extra["mperr"])
	}
	want := *in.mp
	if len(got.Values) != len(want.Values) || len(got.Files) != len(want.Files) {
		return fmt.Sprintf("form on the wire %s, want %+v", gb, want)
	}
	for i := range want.Values {
		if got.Values[i] != want.Values[i] {
			return fmt.Sprintf("form value %q, want %q", got.Values[i], want.Values[i])
		}
	}
	for i, wf := range want.Files {
		g := got.Files[i]
		if g.Param != wf.Param || g.Filename != wf.Filename || g.Sum != wf.Sum || (wf.CType != "" && g.CType != wf.CType) {
			return fmt.Sprintf("file part %+v, want %+v", g, wf)
		}
	}
	return ""
}

// ---- response side -----------------------------------------------------------------------------

const (
	fCL = iota
	fChunked
	fClose11
	fClose10
	f204
	f304
	fHead
	fContCL
	fContChunked
	nFraming
)

const nPart = 6

var framingNames = []string{"fixed", "chunked", "close-delimited-1.1", "close-delimited-1.0", "204", "304", "HEAD", "100-continue+fixed", "100-continue+chunked"}

type RespCase struct {
	Framing  int  `json:"framing"`
	Status   int  `json:"status"`
	Size     int  `json:"size"`
	Part     int  `json:"part"`     // chunk partition: 0 one chunk, 1 two halves, 2 chunks of 1000 (lower-case hex), 3 chunks of 1003 + size line in upper-case hex, 4 chunks of 1,2,3,... bytes, 5 chunks of 4096
	Trailers int  `json:"trailers"` // number of (declared) trailer fields
	Hdr      int  `json:"hdr"`      // 0 minimal, 1 rich, 2 obs-folded
	Stream   bool `json:"stream"`
	Max      int  `json:"max"` // 0 unset, 1 = size, 2 = size-1
	NoNorm   bool `json:"no_norm"`
	Deliver  int  `json:"deliver"` // 0 one segment, 1 segments of 1460 bytes, 2 head | body, 3 head minus its last byte | ... | last byte, 4 segments of 4096 bytes
	Second   int  `json:"second"`  // index into seconds: the response of the following exchange
	// Skip: the caller sets Response.SkipBody for the first exchange (it wants status and header only); that exchange
	// is judged by "no panic" alone, the following exchange on the same client must come back intact
	Skip bool `json:"skip,omitempty"`
	// Stall (close-delimited framing): the peer sends the head and half of the body and then stays silent (the client's
	// read timeout fires): what was read is not the body, the call (or the read of the stream) has to fail
	Stall bool `json:"stall,omitempty"`
}

func (r RespCase) String() string {
	return fmt.Sprintf("framing=%s status=%d size=%d part=%d trailers=%d hdr=%d stream=%v max=%d(%d) nonorm=%v deliver=%d second=%d", framingNames[r.Framing], r.Status, r.Size, r.Part, r.Trailers, r.Hdr, r.Stream, r.Max, r.limit(), r.NoNorm, r.Deliver, r.Second)
}

func (r RespCase) limit() int {
	switch r.Max {
	case 1:
		return r.Size
	case 2:
		return r.Size - 1
	}
	return 0
}

func (r RespCase) bodiless() bool {
	return r.Framing == f204 || r.Framing == f304 || r.Framing == fHead
}
func (r RespCase) chunked() bool { return r.Framing == fChunked || r.Framing == fContChunked }

type expect struct {
	status   int
	headers  []httpref.Header // without framing fields
	cl       string           // Content-Length field sent by the peer ("" = none)
	body     []byte
	trailers []httpref.Header
	foldName string
}

var reasons = map[int]string{200: "OK", 201: "Created", 204: "No Content", 304: "Not Modified", 404: "Not Found", 500: "Internal Server Error"}

// render is the generator of the scripted peer: the wire bytes and, independently, what they mean.
func render(rc RespCase) (wire []byte, headLen int, ex expect) {
	var b bytes.Buffer
	if rc.Framing == fContCL || rc.Framing == fContChunked {
		b.WriteString("HTTP/1.1 100 Continue\r\n\r\n")
	}
	proto := "HTTP/1.1"
	if rc.Framing == fClose10 {
		proto = "HTTP/1.0"
	}
	ex.status = rc.Status
	fmt.Fprintf(&b, "%s %d %s\r\n", proto, rc.Status, reasons[rc.Status])
	h := func(name, onWire, meaning string) {
		b.WriteString(name + ":" + onWire + "\r\n")
		ex.headers = append(ex.headers, httpref.Header{Name: name, Value: meaning})
	}
	switch rc.Hdr {
	case 1:
		h("Content-Type", " text/plain; charset=utf-8", "text/plain; charset=utf-8")
		h("X-Custom", " v1", "v1")
		h("Server", " srv/1", "srv/1")
		h("x-lower-case", " v 2", "v 2")
		h("X-Multi", " a", "a")
		h("Set-Cookie", " a=b; Path=/", "a=b; Path=/")
		h("X-Multi", "b", "b")
		h("Set-Cookie", " c=d; HttpOnly", "c=d; HttpOnly")
		h("X-Empty", "", "")
		h("X-Ows", "    padded  value   ", "padded  value")
		h("X-Multi", " a", "a")
	case 2:
		h("X-Before", " 1", "1")
		h("X-Fold", " p1\r\n p2\r\n\tp3", "p1 p2 p3")
		h("X-After", " 2", "2")
		ex.foldName = "x-fold"
	}
	body := pat(rc.Size, 9)
	if rc.bodiless() {
		body = nil
	}
	tnames := []string{"X-T1", "x-t2"}[:rc.Trailers]
	switch rc.Framing {
	case fCL, fContCL, f304, fHead:
		ex.cl = fmt.Sprint(rc.Size)
		fmt.Fprintf(&b, "Content-Length: %d\r\n", rc.Size)
	case fChunked, fContChunked:
		if rc.Trailers > 0 {
			fmt.Fprintf(&b, "Trailer: %s\r\n", strings.Join(tnames, ", "))
		}
		b.WriteString("Transfer-Encoding: chunked\r\n")
	case fClose11:
		b.WriteString("Connection: close\r\n")
	}
	b.WriteString("\r\n")
	headLen = b.Len()
	if rc.chunked() {
		rest := body
		k := 0
		for len(rest) > 0 {
			n := len(rest)
			format := "%x\r\n"
			switch rc.Part {
			case 1:
				if len(rest) == len(body) && n > 1 {
					n = n / 2
				}
			case 2:
				if n > 1000 {
					n = 1000
				}
			case 3:
				if n > 1003 {
					n = 1003
				}
				format = "%X\r\n"
			case 4: // 1, 2, 3, ... bytes: many size lines of growing width
				k++
				if n > k {
					n = k
				}
			case 5: // the size of the read buffers
				if n > 4096 {
					n = 4096
				}
			}
			fmt.Fprintf(&b, format, n)
			b.Write(rest[:n])
			b.WriteString("\r\n")
			rest = rest[n:]
		}
		b.WriteString("0\r\n")
		for i, tn := range tnames {
			v := fmt.Sprintf("tv%d %s", i, sum(body))
			b.WriteString(tn + ": " + v + "\r\n")
			ex.trailers = append(ex.trailers, httpref.Header{Name: tn, Value: v})
		}
		b.WriteString("\r\n")
	} else {
		b.Write(body)
	}
	ex.body = body
	return b.Bytes(), headLen, ex
}

var respFraming = map[string]bool{"content-length": true, "transfer-encoding": true, "connection": true, "trailer": true}

func collapse(s string) string { return strings.Join(strings.Fields(s), " ") }

// respHeaderSet renders a header list for comparison: framing fields dropped, names exact or lower-cased.
func respHeaderSet(hs []httpref.Header, exactNames bool, foldName string) []string {
	var out []string
	for _, h := range hs {
		ln := strings.ToLower(h.Name)
		if respFraming[ln] {
			continue
		}
		n, v := h.Name, h.Value
		if !exactNames {
			n = ln
		}
		if ln == foldName {
			v = collapse(v) // RFC 7230 3.2.4: each obs-fold is replaced by one or more SP
		}
		out = append(out, n+": "+v)
	}
	sort.Strings(out)
	return out
}

// seconds are the responses of the exchange that follows the response under test on the same client
// (on the same connection whenever the first response allows keeping it).
var seconds = []RespCase{
	{Framing: fCL, Status: 201, Size: 3, Hdr: 0},
	{Framing: fChunked, Status: 200, Size: 4097, Part: 2, Trailers: 1, Hdr: 1},
	{Framing: fHead, Status: 200, Size: 10, Hdr: 0},
	{Framing: fClose11, Status: 404, Size: 4097, Hdr: 2},
}

func segment(wire []byte, headLen, deliver int) [][]byte {
	switch deliver {
	case 1:
		var cuts []int
		for p := 1460; p < len(wire); p += 1460 {
			cuts = append(cuts, p)
		}
		return netsim.Segment(wire, cuts)
	case 2:
		return netsim.Segment(wire, []int{headLen})
	case 3:
		return netsim.Segment(wire, []int{headLen - 1, len(wire) - 1})
	case 4:
		var cuts []int
		for p := 4096; p < len(wire); p += 4096 {
			cuts = append(cuts, p)
		}
		return netsim.Segment(wire, cuts)
	}
	return [][]byte{append([]byte(nil), wire...)}
}

func requestFor(rc RespCase, path string) *protocol.Request {
	req := &protocol.Request{}
	req.SetRequestURI("http://h/" + path)
	switch rc.Framing {
	case fHead:
		req.SetMethod("HEAD")
	case fContCL, fContChunked:
		req.SetMethod("POST")
		req.Header.Set("Expect", "100-continue")
		req.SetBody([]byte("x"))
	default:
		req.SetMethod("GET")
	}
	return req
}

// judgeResponse compares what the client returned with what the generator meant.
func judgeResponse(rc RespCase, ex expect, o clih.RespObs, wire []byte, tag string, fail func(kind, extra, msg string)) (outcome string) {
	over := rc.Max == 2 && !rc.bodiless() // limit = size-1 >= 1
	switch {
	case o.Panic != "":
		fail("panic", "", fmt.Sprintf("%s: panic %s", tag, o.Panic))
		return "panic"
	case over && !rc.Stream:
		if !strings.Contains(o.Err, "body size exceeds the given limit") {
			fail("limit-not-enforced", "", fmt.Sprintf("%s: body of %d bytes, MaxResponseBodySize=%d, buffered mode: want ErrBodyTooLarge, got err=%q status=%d body %d bytes", tag, rc.Size, rc.limit(), o.Err, o.Status, len(o.Body)))
		}
		return "too-large"
	case over && rc.Stream:
		// not documented: an error, a prefix or the whole body are all accepted, a wrong byte is not
		if o.Err != "" {
			return "stream-over-limit:err"
		}
		if !bytes.HasPrefix(ex.body, o.Body) {
			fail("stream-over-limit-wrong-bytes", "", fmt.Sprintf("%s: streamed body is not a prefix of the body sent: %s", tag, firstDiff(o.Body, ex.body)))
		}
		if o.Status != ex.status {
			fail("status", "", fmt.Sprintf("%s: status %d, want %d", tag, o.Status, ex.status))
		}
		return fmt.Sprintf("stream-over-limit:%v:%v", len(o.Body) == len(ex.body), o.BodyErr != "")
	case o.Err != "":
		fail("error", "", fmt.Sprintf("%s: HostClient.Do failed: %s; wire=%s", tag, o.Err, clip(wire)))
		return "error"
	}
	if o.Status != ex.status {
		fail("status", "", fmt.Sprintf("%s: status %d, want %d", tag, o.Status, ex.status))
	}
	hs := o.Headers
	if rc.Hdr != 1 {
		// no Content-Type was sent: ResponseHeader.ContentType() (and therefore VisitAll) reports the
		// API's default value "text/plain; charset=utf-8" for an absent field; that default is accepted
		hs = nil
		for _, h := range o.Headers {
			if !(h.Name == "Content-Type" && h.Value == "text/plain; charset=utf-8") {
				hs = append(hs, h)
			}
		}
	}
	got, want := respHeaderSet(hs, rc.NoNorm, ex.foldName), respHeaderSet(ex.headers, rc.NoNorm, ex.foldName)
	if strings.Join(got, "\n") != strings.Join(want, "\n") {
		fail("headers", fmt.Sprintf("hdr=%d|nonorm=%v", rc.Hdr, rc.NoNorm), fmt.Sprintf("%s: header fields returned %q, sent %q (all returned: %q)", tag, got, want, o.Headers))
	}
	if ex.cl != "" {
		if n, vals := count(o.Headers, "Content-Length", false); n != 1 || vals[0] != ex.cl {
			fail("content-length", "", fmt.Sprintf("%s: Content-Length fields returned %q, sent %q", tag, vals, ex.cl))
		}
	}
	if !bytes.Equal(o.Body, ex.body) || o.BodyErr != "" {
		fail("body", fmt.Sprintf("part=%d", rc.Part), fmt.Sprintf("%s: body returned differs from the body sent (stream error %q): %s", tag, o.BodyErr, firstDiff(o.Body, ex.body)))
	}
	gt, wt := respHeaderSet(o.Trailers, rc.NoNorm, ""), respHeaderSet(ex.trailers, rc.NoNorm, "")
	if strings.Join(gt, "\n") != strings.Join(wt, "\n") {
		fail("trailers", fmt.Sprintf("nonorm=%v", rc.NoNorm), fmt.Sprintf("%s: trailers returned %q, sent %q", tag, gt, wt))
	}
	return fmt.Sprintf("ok:%d:%d:%d", o.Status, len(o.Trailers), len(o.Headers))
}

// selfCheck validates the response generator against the two independent readers: what the scripted
// peer sends is a conforming response that means what the generator says it means. Returns "" or a reason.
func selfCheck(rc RespCase) string {
	wire, _, ex := render(rc)
	method := string(requestFor(rc, "x").Header.Method())
	if rc.Hdr != 2 { // the strict reader rejects obs-fold in responses (RFC 7230 3.2.4 allows that)
		ms, err := httpref.ParseResponses(wire, []string{method}, true)
		fin := httpref.Finals(ms)
		if err != nil || len(fin) != 1 || fin[0].End != len(wire) {
			return fmt.Sprintf("strict reader: %v (%d final responses)", err, len(fin))
		}
		m := fin[0]
		a, b := respHeaderSet(m.Headers, true, ""), respHeaderSet(ex.headers, true, "")
		if m.Status != ex.status || !bytes.Equal(m.Body, ex.body) || strings.Join(a, "\n") != strings.Join(b, "\n") ||
			strings.Join(respHeaderSet(m.Trailers, true, ""), "\n") != strings.Join(respHeaderSet(ex.trailers, true, ""), "\n") {
			return fmt.Sprintf("strict reader decodes status %d headers %q trailers %q body %s", m.Status, a, m.Trailers, sum(m.Body))
		}
	}
	br := bufio.NewReader(bytes.NewReader(wire))
	r, err := http.ReadResponse(br, &http.Request{Method: method})
	if err == nil && r.StatusCode == 100 {
		r, err = http.ReadResponse(br, &http.Request{Method: method})
	}
	if err != nil {
		return "net/http: " + err.Error()
	}
	body, err := io.ReadAll(r.Body)
	if err != nil || r.StatusCode != ex.status || !bytes.Equal(body, ex.body) {
		return fmt.Sprintf("net/http decodes status %d body %s err %v", r.StatusCode, sum(body), err)
	}
	for _, h := range ex.headers {
		found := false
		for _, v := range r.Header[http.CanonicalHeaderKey(h.Name)] {
			if collapse(v) == collapse(h.Value) {
				found = true
			}
		}
		if !found {
			return fmt.Sprintf("net/http does not see %q: %q in %v", h.Name, h.Value, r.Header)
		}
	}
	for _, h := range ex.trailers {
		if r.Trailer.Get(h.Name) != h.Value {
			return fmt.Sprintf("net/http does not see trailer %q: %q in %v", h.Name, h.Value, r.Trailer)
		}
	}
	return ""
}

func (w *worker) runResponse(rc RespCase) (vs []violation, outcome string) {
	feat := fmt.Sprintf("framing=%s|stream=%v", framingNames[rc.Framing], rc.Stream)
	wire, headLen, ex := render(rc)
	rc2 := seconds[rc.Second]
	rc2.Stream, rc2.NoNorm = rc.Stream, rc.NoNorm
	wire2, _, ex2 := render(rc2)

	sc := netsim.NewScriptConn(segment(wire, headLen, rc.Deliver), netsim.EndEOF)
	if rc.Framing != fClose11 && rc.Framing != fClose10 && rc2.Framing != fClose11 && rc2.Framing != fClose10 {
		// a keep-alive peer stays silent behind a message whose end the framing tells: a client that reads on gets a time-out
		sc.End = netsim.EndTimeout
	}
	if rc.Stall {
		cut := headLen + (len(wire)-headLen)/2
		sc = netsim.NewScriptConn([][]byte{append([]byte(nil), wire[:cut]...)}, netsim.EndTimeout)
	}
	sc.Next = [][][]byte{{append([]byte(nil), wire2...)}}
	sc2 := netsim.NewScriptConn([][]byte{append([]byte(nil), wire2...)}, netsim.EndEOF)
	hc := w.cl.HC
	hc.DisableHeaderNamesNormalizing = rc.NoNorm
	hc.DisablePathNormalizing = false
	hc.ProxyURI = nil
	hc.ResponseBodyStream = rc.Stream
	hc.MaxResponseBodySize = rc.limit()
	w.cl.Reset(sc, sc2)
	defer w.cl.Reset()

	w.cl.SkipBodyOnce = rc.Skip
	o := w.cl.Do(requestFor(rc, "r1"))
	if rc.Stall {
		feat += "|stalled"
		outcome = "stall"
		if o.Panic != "" || (o.Err == "" && o.BodyErr == "") {
			vs = append(vs, violation{"response|truncated-body-returned-as-complete|" + feat, fmt.Sprintf("response {%v}: the peer stalled after half of a close-delimited body and the read timed out, but the call returned nil with a %d-byte body (panic=%q)", rc, len(o.Body), o.Panic)})
		}
	} else if rc.Skip {
		feat += "|skip-body"
		outcome = "skip"
		if o.Panic != "" {
			vs = append(vs, violation{"response|panic|" + feat, fmt.Sprintf("response {%v} with Response.SkipBody: panic %s", rc, o.Panic)})
		}
	} else {
		outcome = judgeResponse(rc, ex, o, wire, fmt.Sprintf("response {%v}", rc), func(kind, extra, msg string) {
			_ = extra
			vs = append(vs, violation{"response|" + kind + "|" + feat, msg})
		})
	}
	// second exchange: whatever happened, the next response must come back intact
	hc.MaxResponseBodySize = 0
	o2 := w.cl.Do(requestFor(rc2, "r2"))
	judgeResponse(rc2, ex2, o2, wire2, fmt.Sprintf("exchange {%v} that follows response {%v} (dials=%d)", rc2, rc, w.cl.D.Dials), func(kind, extra, msg string) {
		vs = append(vs, violation{fmt.Sprintf("response|next-exchange|%s|%s", kind, feat), msg})
	})
	outcome += fmt.Sprintf("|dials=%d", w.cl.D.Dials)
	return vs, outcome
}

// ---- enumeration -------------------------------------------------------------------------------

func (w *worker) exec(cs Case) ([]violation, string) {
	if cs.Side == "response" {
		if cs.Resp == nil {
			return nil, ""
		}
		return w.runResponse(*cs.Resp)
	}
	if len(cs.Reqs) == 0 {
		return nil, ""
	}
	return w.runRequests(cs)
}

func validReq(rc ReqCase) bool {
	// an own Content-Type together with a form / multipart body: the application gave two contradicting Content-Types
	if rc.Hdr == hOwn && rc.Body.Kind >= bForm {
		return false
	}
	return true
}

func reqNontrivial(rc ReqCase) bool {
	return rc.Body.Kind != bNone || rc.URL != 0 || rc.Hdr != hNone || rc.NoNormHdr || rc.NoNormPath || rc.Proxy || rc.Method == "CONNECT"
}

func respNontrivial(rc RespCase) bool {
	return rc.Size >= 4095 || rc.Framing != fCL || rc.Hdr != 0 || rc.Max != 0 || rc.Stream || rc.Deliver != 0
}

func requestCases(thorough bool) []Case {
	var out []Case
	bodies := bodySpecs(thorough)
	for _, m := range methods {
		for u := range urls {
			for h := 0; h < nHdr; h++ {
				for _, b := range bodies {
					for cfg := 0; cfg < 8; cfg++ {
						rc := ReqCase{Method: m, URL: u, Hdr: h, Body: b, NoNormHdr: cfg&1 != 0, NoNormPath: cfg&2 != 0, Proxy: cfg&4 != 0}
						if validReq(rc) {
							out = append(out, Case{Side: "request", Reqs: []ReqCase{rc}})
							if cfg == 0 && h == hNone && u == 0 {
								out = append(out, Case{Side: "request", Reqs: []ReqCase{rc}, CustomRetry: true, Dies: true})
							}
						}
					}
				}
			}
		}
	}
	return out
}

func pairCases(thorough bool) []Case {
	var out []Case
	bodies := bodySpecs(thorough)
	seconds := []ReqCase{
		{Method: "GET", URL: 2, Hdr: hNone, Body: bodySpec{bNone, 0, 0}},
		{Method: "POST", URL: 0, Hdr: hCustom, Body: bodySpec{bBytes, 1, 0}},
		{Method: "PUT", URL: 1, Hdr: hCookie, Body: bodySpec{bStreamUnknown, 4097, 1}},
		{Method: "POST", URL: 4, Hdr: hRepeat, Body: bodySpec{bMultipartFile, 0, 0}},
		{Method: "POST", URL: 5, Hdr: hHost, Body: bodySpec{bForm, 0, 0}},
		{Method: "POST", URL: 4, Hdr: hNone, Body: bodySpec{bMultipart, 0, 0}}, // fields only, one of them from a reader
	}
	firstM := []string{"POST", "GET", "HEAD"}
	firstU := []int{0, 4}
	if thorough {
		firstM = methods
		firstU = []int{0, 1, 2, 4, 6}
	}
	for _, m := range firstM {
		for _, u := range firstU {
			for h := 0; h < nHdr; h++ {
				for _, b := range bodies {
					first := ReqCase{Method: m, URL: u, Hdr: h, Body: b}
					if !validReq(first) {
						continue
					}
					for _, s := range seconds {
						for _, reuse := range []bool{false, true} {
							out = append(out, Case{Side: "pair", Reqs: []ReqCase{first, s}, Reuse: reuse})
						}
						if m == "GET" && u == 0 && h == hNone {
							// the second request again, after the server dropped the idle connection; every method and body kind
							for _, m2 := range []string{"PUT", "GET", "DELETE", "POST"} {
								s2 := s
								s2.Method = m2
								if validReq(s2) {
									out = append(out, Case{Side: "pair", Reqs: []ReqCase{first, s2}, Stale: true})
									if b.Kind == bNone {
										out = append(out, Case{Side: "pair", Reqs: []ReqCase{first, s2}, Stale: true, CustomRetry: true})
									}
								}
							}
						}
					}
				}
			}
		}
	}
	return out
}

func responseCases(thorough bool) []Case {
	sizes := []int{0, 1, 2, 4095, 4096, 4097, 8191, 8192, 8193}
	delivers := []int{0, 1, 2, 3, 4}
	if thorough {
		sizes = []int{0, 1, 2, 3, 1000, 1459, 1460, 1461, 12288, 16384, 16385, 65537}
		for n := 4090; n <= 4102; n++ {
			sizes = append(sizes, n, n+4096)
		}
	}
	type fv struct {
		framing, status, part, trailers int
	}
	var fvs []fv
	for _, st := range []int{200, 404} {
		fvs = append(fvs, fv{fCL, st, 0, 0})
		for part := 0; part < nPart; part++ {
			for tr := 0; tr <= 2; tr++ {
				fvs = append(fvs, fv{fChunked, st, part, tr})
			}
		}
	}
	fvs = append(fvs, fv{fClose11, 200, 0, 0}, fv{fClose10, 200, 0, 0}, fv{f204, 204, 0, 0}, fv{f304, 304, 0, 0}, fv{fHead, 200, 0, 0}, fv{fContCL, 200, 0, 0},
		fv{fContChunked, 200, 0, 0}, fv{fContChunked, 201, 2, 2})
	var out []Case
	for _, f := range fvs {
		for _, n := range sizes {
			if f.framing == f204 && n != 0 {
				continue
			}
			for hdr := 0; hdr < 3; hdr++ {
				for _, stream := range []bool{false, true} {
					for max := 0; max < 3; max++ {
						if max == 1 && n == 0 || max == 2 && n < 2 {
							continue // a limit of 0 means "unset"
						}
						for _, nonorm := range []bool{false, true} {
							for _, d := range delivers {
								for sec := range seconds {
									rc := RespCase{Framing: f.framing, Status: f.status, Size: n, Part: f.part, Trailers: f.trailers, Hdr: hdr, Stream: stream, Max: max, NoNorm: nonorm, Deliver: d, Second: sec}
									out = append(out, Case{Side: "response", Resp: &rc})
									if (f.framing == fClose11 || f.framing == fClose10) && hdr == 0 && max == 0 && !nonorm && d == 0 && n >= 2 {
										rst := rc
										rst.Stall = true
										out = append(out, Case{Side: "response", Resp: &rst})
									}
									if hdr == 0 && max == 0 && !nonorm && (d == 0 || d == 2) && (n == 0 || n == 2 || n == 4097) {
										// the caller does not want this body (Response.SkipBody): the next exchange must still be intact
										rs := rc
										rs.Skip = true
										out = append(out, Case{Side: "response", Resp: &rs})
									}
								}
							}
						}
					}
				}
			}
		}
	}
	return out
}

func run(c *mc.Ctx) {
	th := c.Thorough()
	var cases []Case
	rq, pr, rs := requestCases(th), pairCases(th), responseCases(th)
	cases = append(append(append(cases, rq...), pr...), rs...)
	c.Extra("request_cases", len(rq))
	c.Extra("pair_cases", len(pr))
	c.Extra("response_cases", len(rs))
	c.Extra("request_body_variants", len(bodySpecs(th)))
	c.Sample(rq[len(rq)/3])
	c.Sample(pr[len(pr)/2])
	c.Sample(rs[len(rs)/2])

	// the generator of the scripted peer is validated once per distinct response (not a property of hertz:
	// a failure here is a harness error)
	checked := map[string]bool{}
	for _, cs := range rs {
		g := *cs.Resp
		g.Stream, g.Max, g.NoNorm, g.Deliver, g.Second = false, 0, false, 0, 0
		k := fmt.Sprint(g)
		if checked[k] {
			continue
		}
		checked[k] = true
		if why := selfCheck(g); why != "" {
			panic(fmt.Sprintf("response generator is not conforming for {%v}: %s", g, why))
		}
	}
	c.Extra("distinct_scripted_responses_validated_by_httpref_and_nethttp", len(checked))

	ex, nt, tr := c.Counter("executions"), c.Counter("nontrivial"), c.Counter("transitions")
	pool := make(chan *worker, 256)
	const block = 64
	nb := (len(cases) + block - 1) / block
	var done int64
	c.ParallelFor(nb, func(bi int) {
		var w *worker
		select {
		case w = <-pool:
		default:
			w = newWorker()
		}
		defer func() { pool <- w }()
		outcomes := map[string]struct{}{}
		var lex, lnt, ltr int64
		hi := (bi + 1) * block
		if hi > len(cases) {
			hi = len(cases)
		}
		for i := bi * block; i < hi; i++ {
			cs := cases[i]
			vs, oc := w.exec(cs)
			lex++
			if cs.Side == "response" {
				ltr += 2
				if respNontrivial(*cs.Resp) {
					lnt++
				}
			} else {
				ltr += int64(len(cs.Reqs)) * 4 // one client exchange and three decodings per request
				for _, rc := range cs.Reqs {
					if reqNontrivial(rc) {
						lnt++
						break
					}
				}
			}
			outcomes[cs.Side+"|"+oc] = struct{}{}
			for _, v := range vs {
				c.Violate(v.key, v.msg, cs)
			}
		}
		atomic.AddInt64(ex, lex)
		atomic.AddInt64(nt, lnt)
		atomic.AddInt64(tr, ltr)
		atomic.AddInt64(&done, lex)
		for k := range outcomes {
			c.Distinct("outcomes", k)
		}
	})
	c.Extra("cases_total", len(cases))
	c.Extra("cases_done", atomic.LoadInt64(&done))
}

func replay(c *mc.Ctx, raw json.RawMessage) {
	var cs Case
	if json.Unmarshal(raw, &cs) != nil {
		return
	}
	for _, rc := range cs.Reqs {
		if rc.URL < 0 || rc.URL >= len(urls) || rc.Hdr < 0 || rc.Hdr >= nHdr || rc.Body.Kind < 0 || rc.Body.Kind > bMultipartFile {
			return
		}
	}
	if cs.Resp != nil && (cs.Resp.Part < 0 || cs.Resp.Part >= nPart || cs.Resp.Framing < 0 || cs.Resp.Framing >= nFraming || cs.Resp.Trailers < 0 || cs.Resp.Trailers > 2 || cs.Resp.Second < 0 || cs.Resp.Second >= len(seconds) || cs.Resp.Size < 0) {
		return
	}
	w := newWorker()
	vs, _ := w.exec(cs)
	for _, v := range vs {
		c.Violate(v.key, v.msg, cs)
	}
}
