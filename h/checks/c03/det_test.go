package c03

import (
	"fmt"
	"testing"

	"verifh/mc"
	"verifh/srvh"
)

func TestDeterministicVerdicts(t *testing.T) {
	c := mc.NewCtx("C03", "quick")
	var ms []string
	for _, s := range serverSeeds {
		mutants1(s, func(m string) { ms = append(ms, m) })
	}
	run := func(order []int) map[string]string {
		w := &worker{servers: map[string]*srvh.Server{}}
		out := map[string]string{}
		for _, i := range order {
			for _, st := range []bool{false, true} {
				for _, bw := range []bool{false, true} {
					cs := Case{Side: "server", Input: ms[i], Streaming: st, Bytewise: bw}
					out[fmt.Sprintf("%v|%v|%q", st, bw, ms[i])] = w.execServer(c, cs)
				}
			}
		}
		return out
	}
	fw := make([]int, len(ms))
	bw := make([]int, len(ms))
	for i := range ms {
		fw[i] = i
		bw[i] = len(ms) - 1 - i
	}
	a, b := run(fw), run(bw)
	n := 0
	for k, v := range a {
		if b[k] != v {
			n++
			if n < 15 {
				t.Errorf("%s: forward %s, backward %s", k, v, b[k])
			}
		}
	}
	t.Logf("%d mutants, %d differ", len(a), n)
}

func TestDeterministicClientVerdicts(t *testing.T) {
	c := mc.NewCtx("C03", "quick")
	var ms []string
	for _, s := range clientSeeds {
		mutants1(s, func(m string) { ms = append(ms, m) })
	}
	run := func(rev bool) map[string]string {
		out := map[string]string{}
		for k := range ms {
			i := k
			if rev {
				i = len(ms) - 1 - k
			}
			for _, st := range []bool{false, true} {
				for _, bw := range []bool{false, true} {
					cs := Case{Side: "client", Input: ms[i], Streaming: st, Bytewise: bw}
					out[fmt.Sprintf("%v|%v|%q", st, bw, ms[i])] = execClient(c, cs)
				}
			}
		}
		return out
	}
	a, b := run(false), run(true)
	n := 0
	for k, v := range a {
		if b[k] != v {
			n++
			if n < 15 {
				t.Errorf("%s: forward %s, backward %s", k, v, b[k])
			}
		}
	}
	t.Logf("%d mutants, %d differ", len(a), n)
}
