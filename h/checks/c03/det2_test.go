package c03

import (
	"testing"

	"verifh/clih"
)

func TestClientLeak(t *testing.T) {
	var ms []string
	for _, s := range clientSeeds {
		mutants1(s, func(m string) { ms = append(ms, m) })
	}
	good := "HTTP/1.1 200 OK\r\nContent-Length: 2\r\n\r\nok"
	bad := 0
	for i, m := range ms {
		for _, st := range []bool{false, true} {
			clih.ObserveRaw([][]byte{[]byte(m)}, st)
			o := clih.ObserveRaw([][]byte{[]byte(good)}, st)
			if o.Err != "" {
				bad++
				if bad < 6 {
					t.Errorf("after mutant %d %q (streaming=%v) a good response gives err=%s", i, m, st, o.Err)
				}
			}
		}
		if bad > 5 {
			break
		}
	}
}
