// Package c03: no peer-controlled input can crash the process; bad input gets a clean 4xx.
// Complete 1-edit (thorough: 2-edit for short seeds) balls around seed messages for the server
// read path and the client response read path, and complete short token strings for the
// exported parsers of untrusted data.
package c03

import (
	"encoding/json"
	"fmt"
	"os"
	"os/exec"
	"regexp"
	"runtime"
	"strconv"
	"strings"
	"sync/atomic"
	"syscall"

	"github.com/cloudwego/hertz/pkg/app"
	"github.com/cloudwego/hertz/pkg/protocol"

	"verifh/clih"
	"verifh/httpref"
	"verifh/mc"
	"verifh/netsim"
	"verifh/srvh"
)

var Check = &mc.Check{
	ID:    "C03",
	Level: "model_checking",
	Rule: "complete 1-edit balls (every position x {delete, truncate, insert b, substitute b}, b over a 24-byte hostile alphabet) around ~60 seed requests and ~25 seed responses (thorough: 2-edit balls around the seeds of <=60 bytes), each mutant delivered whole and byte-wise, buffered and streaming; " +
		"limit enforcement grid (body length around MaxRequestBodySize x framing); all strings of <=n tokens over per-parser alphabets for URI.Parse, Args/Cookie/Range/Trailer/Content-Length/multipart-boundary/Set-Cookie parsers; " +
		"non-trivial = mutants on which hertz's verdict differs from the seed's (rejected, or served a different number of requests)",
	Run:         run,
	Replay:      replay,
	Assumptions: []string{"the engine under test has no recovery middleware: a panic escaping Engine.Serve would kill the process", "the oracle never demands rejection of a malformed message, only discipline when hertz rejects"},
}

type Case struct {
	Side           string `json:"side"` // server | client | parser
	Input          string `json:"input"`
	Bytewise       bool   `json:"bytewise,omitempty"`
	Streaming      bool   `json:"streaming,omitempty"`
	MaxBody        int    `json:"max_body,omitempty"`
	Parser         string `json:"parser,omitempty"`
	Arg            int    `json:"arg,omitempty"`
	ExpectTooLarge int    `json:"expect_413,omitempty"` // 1: must be 413, 2: must not be 413
	// HeadIntact: the input is a HEAD request whose request line is the seed's, unchanged (the edit lies in a header field or the body):
	// the server has read the method, so whatever it answers, it answers a HEAD - no bytes after the header block
	HeadIntact bool `json:"head_intact,omitempty"`
}

var hostile = []byte{0, '\t', '\n', '\r', ' ', '"', '%', ',', '-', '.', '/', '0', '9', ':', ';', '=', '?', '@', 'A', 'a', '\\', 0x7f, 0x80, 0xff}

var serverSeeds = []string{
	"GET / HTTP/1.1\r\nHost: h\r\n\r\n",
	"GET /a/b?x=1&y=2#f HTTP/1.1\r\nHost: h\r\nX-A: b\r\n\r\n",
	"POST /p HTTP/1.1\r\nHost: h\r\nContent-Length: 3\r\n\r\nabc",
	"POST /p HTTP/1.1\r\nHost: h\r\nTransfer-Encoding: chunked\r\n\r\n3\r\nabc\r\n0\r\n\r\n",
	"POST /p HTTP/1.1\r\nHost: h\r\nTrailer: X-T\r\nTransfer-Encoding: chunked\r\n\r\n1\r\na\r\n0\r\nX-T: v\r\n\r\n",
	"POST /p HTTP/1.1\r\nHost: h\r\nTrailer: a,b\r\nTransfer-Encoding: chunked\r\n\r\n0\r\na: 1\r\nb: 2\r\n\r\n",
	"POST /p HTTP/1.1\r\nHost: h\r\nExpect: 100-continue\r\nContent-Length: 2\r\n\r\nhi",
	"GET /c HTTP/1.1\r\nHost: h\r\nCookie: a=b; c=\"d\"; e\r\n\r\n",
	"GET /r HTTP/1.1\r\nHost: h\r\nRange: bytes=0-1\r\n\r\n",
	"GET /k HTTP/1.1\r\nHost: h\r\nConnection: close\r\n\r\n",
	"GET /k HTTP/1.0\r\nConnection: keep-alive\r\n\r\n",
	"GET /nohost HTTP/1.0\r\n\r\n",
	"GET http://example.com/abs?q HTTP/1.1\r\nHost: h\r\n\r\n",
	"GET a:b HTTP/1.1\r\nHost: h\r\n\r\n",
	"GET //x/y HTTP/1.1\r\nHost: h\r\n\r\n",
	"OPTIONS * HTTP/1.1\r\nHost: h\r\n\r\n",
	"HEAD /h HTTP/1.1\r\nHost: h\r\n\r\n",
	"HEAD /h HTTP/1.1\r\nHost: h\r\nTransfer-Encoding: chunked\r\n\r\n3\r\nabc\r\n0\r\n\r\n",
	// a repeated last-chunk line where the trailer section would start (tolerated by hertz, read by the trailer parser)
	"POST /p HTTP/1.1\r\nHost: h\r\nTransfer-Encoding: chunked\r\n\r\n1\r\na\r\n0\r\n0\r\n\r\n",
	"GET /f HTTP/1.1\r\nHost: h\r\nX-F: a\r\n b\r\n\r\n",
	"POST /m HTTP/1.1\r\nHost: h\r\nContent-Type: multipart/form-data; boundary=xx\r\nContent-Length: 62\r\n\r\n--xx\r\nContent-Disposition: form-data; name=\"a\"\r\n\r\nv\r\n--xx--\r\n",
	"POST /u HTTP/1.1\r\nHost: h\r\nContent-Type: application/x-www-form-urlencoded\r\nContent-Length: 7\r\n\r\na=1&b=2",
	"GET /1 HTTP/1.1\r\nHost: h\r\n\r\nGET /2 HTTP/1.1\r\nHost: h\r\n\r\n",
	"POST /1 HTTP/1.1\r\nHost: h\r\nContent-Length: 1\r\n\r\nxGET /2 HTTP/1.1\r\nHost: h\r\n\r\n",
	"GET /ua HTTP/1.1\r\nHost: h\r\nUser-Agent: u\r\nContent-Type: t\r\nAccept-Encoding: gzip\r\n\r\n",
	"PUT /i HTTP/1.1\r\nHost: h\r\nTransfer-Encoding: identity\r\nContent-Length: 1\r\n\r\nz",
	"GET /%41%2f..%2F?%41=%42 HTTP/1.1\r\nHost: H:80\r\n\r\n",
	"GET /u HTTP/1.1\r\nHost: user:pw@h\r\n\r\n",
}

var clientSeeds = []string{
	"HTTP/1.1 200 OK\r\nContent-Length: 3\r\n\r\nabc",
	"HTTP/1.1 200 OK\r\nTransfer-Encoding: chunked\r\n\r\n3\r\nabc\r\n0\r\n\r\n",
	"HTTP/1.1 200 OK\r\nTrailer: X-T\r\nTransfer-Encoding: chunked\r\n\r\n1\r\na\r\n0\r\nX-T: v\r\n\r\n",
	"HTTP/1.1 200 OK\r\nTransfer-Encoding: chunked\r\n\r\n1\r\na\r\n0\r\n0\r\n\r\n",
	"HTTP/1.1 200 OK\r\nConnection: close\r\n\r\nbody",
	"HTTP/1.0 200 OK\r\n\r\nbody",
	"HTTP/1.1 100 Continue\r\n\r\nHTTP/1.1 200 OK\r\nContent-Length: 1\r\n\r\nx",
	"HTTP/1.1 204 No Content\r\n\r\n",
	"HTTP/1.1 304 Not Modified\r\nContent-Length: 5\r\n\r\n",
	"HTTP/1.1 200 OK\r\nSet-Cookie: a=b; Path=/; Domain=d; Expires=Wed, 09 Jun 2021 10:18:14 GMT; Max-Age=5; HttpOnly; Secure; SameSite=Lax; Partitioned\r\nContent-Length: 0\r\n\r\n",
	"HTTP/1.1 200 OK\r\nSet-Cookie: k=v; SameSite=None\r\nSet-Cookie: k2=v2; SameSite\r\nContent-Length: 0\r\n\r\n",
	"HTTP/1.1 200 OK\r\nX-F: a\r\n b\r\nContent-Length: 1\r\n\r\nx",
	"HTTP/1.1 206 Partial Content\r\nContent-Range: bytes 0-1/5\r\nContent-Length: 2\r\n\r\nab",
	"HTTP/1.1 200 OK\r\nContent-Type: text/plain\r\nServer: s\r\nContent-Encoding: gzip\r\nContent-Length: 2\r\n\r\nzz",
	"HTTP/1.1 101 Switching Protocols\r\nConnection: Upgrade\r\nUpgrade: x\r\n\r\n",
	"HTTP/1.1 301 Moved\r\nLocation: http://h/x\r\nContent-Length: 0\r\n\r\n",
}

var rePanicSite = regexp.MustCompile(`github\.com/cloudwego/hertz/[^\s(]+`)

func panicSite(stack string) string {
	for _, m := range rePanicSite.FindAllString(stack, -1) {
		if strings.Contains(m, "verifh") || strings.Contains(m, "/srvh.") {
			continue
		}
		return m
	}
	return "?"
}

type worker struct {
	servers map[string]*srvh.Server
}

func (w *worker) server(streaming bool, maxBody int) *srvh.Server {
	k := fmt.Sprintf("%v/%d", streaming, maxBody)
	if s := w.servers[k]; s != nil {
		return s
	}
	s := srvh.New(srvh.Opts{Streaming: streaming, MaxBody: maxBody})
	s.EchoAll()
	s.Start()
	w.servers[k] = s
	return s
}

// verdict summarises an execution for the non-triviality rule
func (w *worker) execServer(c *mc.Ctx, cs Case) string {
	in := []byte(cs.Input)
	segs := [][]byte{in}
	if cs.Bytewise {
		segs = netsim.Bytewise(in)
	}
	if len(in) == 0 {
		segs = nil
	}
	res := w.server(cs.Streaming, cs.MaxBody).Run(segs, netsim.EndEOF, nil)
	mode := fmt.Sprintf("streaming=%v", cs.Streaming)
	if res.Panic != nil {
		c.Violate("server-panic|"+panicSite(res.Stack), fmt.Sprintf("panic escaped Engine.Serve (no recovery middleware: process crash): %v\ninput=%q\n%s", res.Panic, cs.Input, clip(res.Stack, 1500)), cs)
		return "panic"
	}
	var methods []string
	for _, s := range res.Seen {
		methods = append(methods, s.Method)
	}
	var ms []*httpref.Message
	var err error
	if len(res.Seen) == 0 && cs.HeadIntact {
		// the first request is a HEAD and no handler ran: whatever the server answers, it answers a HEAD -
		// bytes after the header block belong to no message
		ms, err = httpref.ParseResponses(res.Out, []string{"HEAD"}, true)
	} else {
		ms, err = httpref.ParseResponses(res.Out, methods, true)
		if err != nil {
			// the method of a later request that was rejected before any handler ran is not known to the harness:
			// a rejected HEAD is answered without a body
			if ms2, err2 := httpref.ParseResponses(res.Out, append(append([]string{}, methods...), "HEAD"), true); err2 == nil {
				ms, err = ms2, nil
			}
		}
	}
	if err != nil {
		c.Violate("server-malformed-output|"+mode, fmt.Sprintf("server emitted bytes that are not well-formed HTTP: %v\ninput=%q\noutput=%q", err, cs.Input, clip(string(res.Out), 600)), cs)
		return "badout"
	}
	fin := httpref.Finals(ms)
	rejected := false
	for i, m := range fin {
		if m.Status == 200 {
			continue
		}
		rejected = true
		why := ""
		switch {
		case m.Status/100 != 4:
			why = fmt.Sprintf("server-generated status %d is not 4xx", m.Status)
		case i != len(fin)-1:
			why = "bytes were written after the rejection response"
		case !m.HasToken("Connection", "close"):
			why = "rejection response does not carry Connection: close"
		case !res.Closed:
			why = "connection not closed after the rejection"
		case len(res.Seen) != i:
			why = fmt.Sprintf("handler ran for the rejected request (handlers=%d, responses before rejection=%d)", len(res.Seen), i)
		}
		if why != "" {
			c.Violate("reject-discipline|"+strings.SplitN(why, " (", 2)[0]+"|"+mode, fmt.Sprintf("%s\ninput=%q\noutput=%q", why, cs.Input, clip(string(res.Out), 600)), cs)
			return "undisciplined"
		}
	}
	n200 := len(fin)
	if rejected {
		n200--
		c.Distinct("outcomes", fmt.Sprintf("rejected-with-%d after %d handled", fin[len(fin)-1].Status, len(res.Seen)))
	} else {
		c.Distinct("outcomes", fmt.Sprintf("handled=%d closed=%v err=%v", len(res.Seen), res.Closed, res.Err != nil))
	}
	if n200 != len(res.Seen) {
		c.Violate("handler-response-mismatch|"+mode, fmt.Sprintf("%d handler runs but %d success responses\ninput=%q\noutput=%q", len(res.Seen), n200, cs.Input, clip(string(res.Out), 600)), cs)
	}
	if cs.ExpectTooLarge == 1 && !(rejected && fin[len(fin)-1].Status == 413) {
		c.Violate("limit-not-enforced|"+mode, fmt.Sprintf("buffered body over MaxRequestBodySize=%d was not answered 413\ninput=%q\noutput=%q", cs.MaxBody, clip(cs.Input, 300), clip(string(res.Out), 300)), cs)
	}
	if cs.ExpectTooLarge == 2 && rejected {
		c.Violate("limit-false-reject|"+mode, fmt.Sprintf("body within MaxRequestBodySize=%d was rejected\ninput=%q\noutput=%q", cs.MaxBody, clip(cs.Input, 300), clip(string(res.Out), 300)), cs)
	}
	return fmt.Sprintf("seen=%d rejected=%v", len(res.Seen), rejected)
}

var redirectSeeds = []string{
	"HTTP/1.1 302 Found\r\nLocation: /next?a=1&b=c d\r\nContent-Length: 0\r\n\r\n",
	"HTTP/1.1 301 Moved\r\nLocation: http://h/p/../q?x#f\r\nContent-Length: 0\r\n\r\n",
	"HTTP/1.1 307 T\r\nLocation: ?only=query\r\nContent-Length: 0\r\n\r\n",
}

func execRedirect(c *mc.Ctx, cs Case) {
	in := []byte(cs.Input)
	segs := [][]byte{in}
	if cs.Bytewise {
		segs = netsim.Bytewise(in)
	}
	out, o := clih.ObserveRedirect(segs, false)
	if o.Panic != "" {
		c.Violate("client-panic|redirect", fmt.Sprintf("panic while following a redirect: %s\ninput=%q", clip(o.Panic, 1500), cs.Input), cs)
		return
	}
	if _, err := httpref.ParseRequests(out); err != nil {
		c.Violate("client-malformed-output|redirect", fmt.Sprintf("after the peer's answer the client wrote bytes that are not well-formed requests: %v\ninput=%q\nwritten=%q", err, cs.Input, clip(string(out), 400)), cs)
	}
}

func execClient(c *mc.Ctx, cs Case) string {
	in := []byte(cs.Input)
	segs := [][]byte{in}
	if cs.Bytewise {
		segs = netsim.Bytewise(in)
	}
	var verdict string
	func() {
		defer func() {
			if r := recover(); r != nil {
				buf := make([]byte, 8192)
				st := string(buf[:runtime.Stack(buf, false)])
				c.Violate("client-panic|"+panicSite(st), fmt.Sprintf("panic while reading a response: %v\ninput=%q\n%s", r, cs.Input, clip(st, 1500)), cs)
				verdict = "panic"
			}
		}()
		o := clih.ObserveRaw(segs, cs.Streaming)
		if o.Panic != "" {
			c.Violate("client-panic|"+panicSite(o.Panic), fmt.Sprintf("panic while reading a response: %s\ninput=%q", clip(o.Panic, 1500), cs.Input), cs)
			verdict = "panic"
			return
		}
		// read back everything the application can ask the response object for (these parse untrusted data lazily)
		verdict = fmt.Sprintf("err=%v status=%d", o.Err != "", o.Status)
	}()
	return verdict
}

func clip(s string, n int) string {
	if len(s) > n {
		return s[:n] + "..."
	}
	return s
}

// ---- parsers ---------------------------------------------------------------------------

type parser struct {
	name   string
	tokens []string
	n      int
	args   []int
	f      func(s string, arg int)
}

var parsers = []parser{
	{"URI.Parse", []string{"a", ":", "/", "//", "?", "#", "@", "%", "%41", ".", ".."}, 6, []int{0, 1}, func(s string, arg int) {
		var u protocol.URI
		var host []byte
		if arg == 1 {
			host = []byte("h")
		}
		u.Parse(host, []byte(s))
		_ = u.Path()
		_ = u.FullURI()
		_ = u.RequestURI()
		_ = u.QueryArgs().QueryString()
		_ = u.Host()
		_ = u.Scheme()
		_ = u.LastPathSegment()
		_ = u.Username()
		u.Update(s)
		_ = u.FullURI()
	}},
	{"ParseURI", []string{"http", "s", ":", "/", "//", "?", "#", "@", "[", "]", "1"}, 6, []int{0}, func(s string, arg int) {
		u := protocol.ParseURI(s)
		_ = u.FullURI()
	}},
	{"Args.ParseBytes", []string{"a", "=", "&", "%", "%4", "%41", "%zz", "+", ";"}, 6, []int{0}, func(s string, arg int) {
		var a protocol.Args
		a.ParseBytes([]byte(s))
		_ = a.QueryString()
		a.VisitAll(func(k, v []byte) {})
		_ = a.Peek("a")
	}},
	{"Cookie.ParseBytes", []string{"a", "=", ";", " ", "\"", "SameSite", "Max-Age", "Expires", "Lax", "0", "Domain", "Path", "Partitioned", "HttpOnly"}, 5, []int{0}, func(s string, arg int) {
		var ck protocol.Cookie
		_ = ck.ParseBytes([]byte(s))
		_ = ck.Cookie()
		_ = ck.Key()
		_ = ck.Expire()
	}},
	{"ResponseHeader.ParseSetCookie", []string{"a", "=", ";", " ", "\"", "samesite", "max-age", "expires", "strict", "-1", ","}, 5, []int{0}, func(s string, arg int) {
		var h protocol.ResponseHeader
		h.ParseSetCookie([]byte(s))
		var ck protocol.Cookie
		ck.SetKey("a")
		h.Cookie(&ck)
		h.VisitAllCookie(func(k, v []byte) {
			var c2 protocol.Cookie
			_ = c2.ParseBytes(v)
		})
		_ = h.Header()
	}},
	{"RequestHeader.Cookie", []string{"a", "=", ";", " ", "\"", "b", ","}, 6, []int{0}, func(s string, arg int) {
		var h protocol.RequestHeader
		h.Set("Cookie", s)
		_ = h.Cookie("a")
		h.VisitAllCookie(func(k, v []byte) {})
		_ = h.Header()
	}},
	{"ParseByteRange", []string{"bytes", "=", "-", ",", "0", "9", "99999999999999999999", " ", "5"}, 6, []int{0, 1, 5}, func(s string, arg int) {
		st, en, err := app.ParseByteRange([]byte(s), arg)
		if err == nil {
			var h protocol.ResponseHeader
			h.SetContentRange(st, en, arg)
		}
	}},
	{"Trailer.SetTrailers", []string{"a", ",", " ", "Content-Length", "b", "\t", ":"}, 6, []int{0}, func(s string, arg int) {
		var t protocol.Trailer
		_ = t.SetTrailers([]byte(s))
		_ = t.Header()
		var h protocol.RequestHeader
		h.Set("Trailer", s)
		_ = h.Header()
		var rh protocol.ResponseHeader
		rh.Set("Trailer", s)
		_ = rh.Header()
	}},
	{"IsBadTrailer", []string{"a", "", "Content-Length", "H", "host", "t", "T", "Trailer"}, 2, []int{0}, func(s string, arg int) {
		_ = protocol.IsBadTrailer([]byte(s))
	}},
	{"ParseContentLength", []string{"0", "9", "-", "+", " ", "99999999999999999999", "a", "."}, 5, []int{0}, func(s string, arg int) {
		_, _ = protocol.ParseContentLength([]byte(s))
	}},
	{"MultipartFormBoundary", []string{"multipart/form-data", ";", " ", "boundary", "=", "\"", "x", ","}, 7, []int{0}, func(s string, arg int) {
		var h protocol.RequestHeader
		h.SetContentTypeBytes([]byte(s))
		_ = h.MultipartFormBoundary()
	}},
	{"Request.MultipartForm", []string{"--", "xx", "\r\n", "Content-Disposition: form-data; name=\"a\"", "v", "filename=\"f\"", ";", " "}, 6, []int{0}, func(s string, arg int) {
		var r protocol.Request
		r.Header.SetMethod("POST")
		r.Header.SetContentTypeBytes([]byte("multipart/form-data; boundary=xx"))
		r.SetBody([]byte(s))
		_, _ = r.MultipartForm()
		r.RemoveMultipartFormFiles()
	}},
	{"Request.PostArgs", []string{"a", "=", "&", "%", "%41", "+"}, 6, []int{0}, func(s string, arg int) {
		var r protocol.Request
		r.Header.SetMethod("POST")
		r.Header.SetContentTypeBytes([]byte("application/x-www-form-urlencoded"))
		r.SetBody([]byte(s))
		_ = r.PostArgs().QueryString()
	}},
}

func runParser(c *mc.Ctx, p *parser, s string, arg int) {
	defer func() {
		if r := recover(); r != nil {
			buf := make([]byte, 8192)
			st := string(buf[:runtime.Stack(buf, false)])
			c.Violate("parser-panic|"+p.name+"|"+panicSite(st), fmt.Sprintf("%s(%q, arg=%d) panicked: %v\n%s", p.name, s, arg, r, clip(st, 1200)), Case{Side: "parser", Parser: p.name, Input: s, Arg: arg})
		}
	}()
	p.f(s, arg)
}

// ---- enumeration -----------------------------------------------------------------------

// mutants1 calls f for every 1-edit mutant of s.
func mutants1(s string, f func(m string)) {
	for i := 0; i <= len(s); i++ {
		if i < len(s) {
			f(s[:i] + s[i+1:]) // delete
			f(s[:i])           // truncate
		}
		for _, b := range hostile {
			f(s[:i] + string([]byte{b}) + s[i:]) // insert
			if i < len(s) && s[i] != b {
				f(s[:i] + string([]byte{b}) + s[i+1:]) // substitute
			}
		}
	}
}

func run(c *mc.Ctx) {
	ex := c.Counter("executions")
	// 1) server: 1-edit balls
	type job struct {
		side string
		seed string
		max  int
	}
	var jobs []job
	for _, s := range serverSeeds {
		jobs = append(jobs, job{"server", s, 0})
	}
	for _, s := range clientSeeds {
		jobs = append(jobs, job{"client", s, 0})
	}
	c.Extra("server_seeds", len(serverSeeds))
	c.Extra("client_seeds", len(clientSeeds))
	c.Sample(Case{Side: "server", Input: serverSeeds[5][:30] + "\x00" + serverSeeds[5][30:], Bytewise: true})
	// split every seed's positions into work units
	type unit struct {
		j      int
		lo, hi int
	}
	var units []unit
	for ji, j := range jobs {
		for lo := 0; lo <= len(j.seed); lo += 8 {
			hi := lo + 8
			if hi > len(j.seed)+1 {
				hi = len(j.seed) + 1
			}
			units = append(units, unit{ji, lo, hi})
		}
	}
	pool := make(chan *worker, 64)
	getW := func() *worker {
		select {
		case w := <-pool:
			return w
		default:
			return &worker{servers: map[string]*srvh.Server{}}
		}
	}
	seedVerdict := map[string]string{}
	w0 := getW()
	for _, j := range jobs {
		for _, st := range []bool{false, true} {
			for _, bw := range []bool{false, true} {
				cs := Case{Side: j.side, Input: j.seed, Streaming: st, Bytewise: bw}
				var v string
				if j.side == "server" {
					v = w0.execServer(c, cs)
				} else {
					v = execClient(c, cs)
				}
				seedVerdict[fmt.Sprintf("%s|%v|%v|%s", j.side, st, bw, j.seed)] = v
			}
		}
	}
	pool <- w0
	var nt int64
	c.ParallelFor(len(units), func(ui int) {
		u := units[ui]
		j := jobs[u.j]
		w := getW()
		defer func() { pool <- w }()
		one := func(m string) {
			for _, st := range []bool{false, true} {
				for _, bw := range []bool{false, true} {
					cs := Case{Side: j.side, Input: m, Streaming: st, Bytewise: bw}
					// the request line of a HEAD seed is untouched: the server has read the method before anything can fail
					if fl := strings.Index(j.seed, "\r\n"); j.side == "server" && strings.HasPrefix(j.seed, "HEAD ") && fl > 0 && len(m) >= fl+2 && m[:fl+2] == j.seed[:fl+2] {
						cs.HeadIntact = true
					}
					var v string
					if j.side == "server" {
						v = w.execServer(c, cs)
					} else {
						v = execClient(c, cs)
					}
					atomic.AddInt64(ex, 1)
					if v != seedVerdict[fmt.Sprintf("%s|%v|%v|%s", j.side, st, bw, j.seed)] {
						atomic.AddInt64(&nt, 1)
					}
				}
			}
		}
		// restrict the first edit to positions [lo,hi)
		s := j.seed
		for i := u.lo; i < u.hi && i <= len(s); i++ {
			var firsts []string
			if i < len(s) {
				firsts = append(firsts, s[:i]+s[i+1:], s[:i])
			}
			for _, b := range hostile {
				firsts = append(firsts, s[:i]+string([]byte{b})+s[i:])
				if i < len(s) && s[i] != b {
					firsts = append(firsts, s[:i]+string([]byte{b})+s[i+1:])
				}
			}
			for _, m := range firsts {
				one(m)
				if c.Thorough() && len(s) <= 60 {
					// second edit at or after position i (unordered pairs of edits)
					tail := m[min(i, len(m)):]
					head := m[:min(i, len(m))]
					mutants1(tail, func(t string) { one(head + t) })
				}
			}
		}
	})
	// 1b) what the client writes next is derived from the peer's bytes when it follows a redirect: every 1-edit
	// (thorough: 2-edit) mutant of redirect responses is answered by the redirect-following helper; all bytes the
	// client wrote must be a sequence of well-formed requests
	var redir []string
	for _, s := range redirectSeeds {
		mutants1(s, func(m string) {
			redir = append(redir, m)
			if c.Thorough() && len(s) <= 70 {
				mutants1(m, func(m2 string) { redir = append(redir, m2) })
			}
		})
	}
	c.Extra("redirect_mutants", len(redir))
	c.ParallelFor(len(redir), func(i int) {
		for _, bw := range []bool{false, true} {
			execRedirect(c, Case{Side: "redirect", Input: redir[i], Bytewise: bw})
			atomic.AddInt64(ex, 1)
		}
	})
	c.Add("nontrivial", nt)
	c.Extra("client_executions_repeated_on_a_fresh_client", atomic.LoadInt64(&clih.Exhausted))
	// 2) limit enforcement grid (buffered: over the limit is always 413)
	w := getW()
	for _, limit := range []int{8, 100, 4096} {
		for _, n := range []int{0, 1, limit - 1, limit, limit + 1, 2*limit + 3} {
			if n < 0 {
				continue
			}
			body := strings.Repeat("b", n)
			reqs := map[string]string{
				"cl":      fmt.Sprintf("POST /l HTTP/1.1\r\nHost: h\r\nContent-Length: %d\r\n\r\n%s", n, body),
				"chunked": fmt.Sprintf("POST /l HTTP/1.1\r\nHost: h\r\nTransfer-Encoding: chunked\r\n\r\n%x\r\n%s\r\n0\r\n\r\n", n, body),
				"expect":  fmt.Sprintf("POST /l HTTP/1.1\r\nHost: h\r\nExpect: 100-continue\r\nContent-Length: %d\r\n\r\n%s", n, body),
				"form":    fmt.Sprintf("POST /l HTTP/1.1\r\nHost: h\r\nContent-Type: application/x-www-form-urlencoded\r\nContent-Length: %d\r\n\r\n%s", n, body),
			}
			mpHead, mpTail := "--xx\r\nContent-Disposition: form-data; name=\"a\"\r\n\r\n", "\r\n--xx--\r\n"
			if fill := n - len(mpHead) - len(mpTail); fill >= 0 {
				mp := mpHead + strings.Repeat("v", fill) + mpTail
				reqs["multipart"] = fmt.Sprintf("POST /l HTTP/1.1\r\nHost: h\r\nContent-Type: multipart/form-data; boundary=xx\r\nContent-Length: %d\r\n\r\n%s", n, mp)
			}
			reqs["head-cl"] = fmt.Sprintf("HEAD /l HTTP/1.1\r\nHost: h\r\nContent-Length: %d\r\n\r\n%s", n, body)
			if n == 0 {
				delete(reqs, "chunked")
				reqs["chunked"] = "POST /l HTTP/1.1\r\nHost: h\r\nTransfer-Encoding: chunked\r\n\r\n0\r\n\r\n"
			}
			for _, r := range reqs {
				for _, bw := range []bool{false, true} {
					cs := Case{Side: "server", Input: r, MaxBody: limit, Bytewise: bw, ExpectTooLarge: 2, HeadIntact: strings.HasPrefix(r, "HEAD ")}
					if n > limit {
						cs.ExpectTooLarge = 1
					}
					w.execServer(c, cs)
					atomic.AddInt64(ex, 1)
				}
			}
		}
	}
	// 2b) numeric-width grid: chunk sizes and Content-Length values of every width up to 20 digits. A size the code
	// believes can end in "fatal error: out of memory", which no recover() stops, so the grid runs in a child process:
	// if the child dies the case it was working on is the violation, and the grid resumes after it.
	grid := numericGrid()
	for from := 0; from < len(grid); {
		done, crashed, msg := runGridChild(from)
		atomic.AddInt64(ex, int64(done-from))
		if !crashed {
			if msg == "violations" {
				// ordinary (non-fatal) violations were seen in the child: record them by running the cases here
				for _, cs := range grid[from:] {
					if cs.Side == "server" {
						w.execServer(c, cs)
					} else {
						execClient(c, cs)
					}
				}
			}
			break
		}
		if done < len(grid) {
			cs := grid[done]
			c.ViolateObserved("process-crash|"+cs.Side+"|numeric-width", fmt.Sprintf("the process died (not a recoverable panic) while handling a peer-controlled size: %s\ninput=%q", msg, cs.Input), cs)
		}
		from = done + 1
	}
	// 2c) a header block far above the read buffer, delivered in one-byte segments, in a child process whose address space
	// is limited to 4 GiB: the memory held for one message must stay proportional to its size, or a single slow peer ends
	// the process
	if died, msg := runBigHeadChild(); died {
		cs := bigHeadCases()[0]
		cs.Input = cs.Input[:40] + "..."
		c.ViolateObserved("process-crash|header-in-one-byte-segments", "the process (address space limited to 4 GiB) died while reading a 48 KiB header block delivered byte by byte: "+msg, cs)
	}
	atomic.AddInt64(ex, int64(len(bigHeadCases())))
	pool <- w
	// 3) parsers: all token strings up to n
	for pi := range parsers {
		p := &parsers[pi]
		nTok := p.n
		if c.Thorough() {
			nTok++
		}
		c.Extra("parser_"+p.name+"_max_tokens", nTok)
		k := len(p.tokens)
		c.ParallelFor(k+1, func(first int) {
			var cnt int64
			var rec func(s string, d int)
			rec = func(s string, d int) {
				for _, a := range p.args {
					runParser(c, p, s, a)
					cnt++
				}
				if d == nTok {
					return
				}
				for _, t := range p.tokens {
					rec(s+t, d+1)
				}
			}
			if first == k {
				for _, a := range p.args {
					runParser(c, p, "", a)
					cnt++
				}
			} else {
				rec(p.tokens[first], 1)
			}
			atomic.AddInt64(ex, cnt)
			c.Add("parser_calls", cnt)
		})
	}
	c.Add("transitions", c.Get("executions"))
}

func numericGrid() []Case {
	var out []Case
	for k := 1; k <= 20; k++ {
		for _, d := range []string{strings.Repeat("f", k), "8" + strings.Repeat("0", k-1), "7" + strings.Repeat("f", k-1), strings.Repeat("0", k-1) + "1"} {
			for _, st := range []bool{false, true} {
				for _, bw := range []bool{false, true} {
					out = append(out, Case{Side: "server", Streaming: st, Bytewise: bw, Input: "POST /n HTTP/1.1\r\nHost: h\r\nTransfer-Encoding: chunked\r\n\r\n" + d + "\r\na\r\n0\r\n\r\n"})
					out = append(out, Case{Side: "client", Streaming: st, Bytewise: bw, Input: "HTTP/1.1 200 OK\r\nTransfer-Encoding: chunked\r\n\r\n" + d + "\r\na\r\n0\r\n\r\n"})
				}
			}
		}
		for _, d := range []string{strings.Repeat("9", k), "1" + strings.Repeat("0", k-1), strings.Repeat("0", k-1) + "1"} {
			for _, st := range []bool{false, true} {
				out = append(out, Case{Side: "server", Streaming: st, Input: "POST /n HTTP/1.1\r\nHost: h\r\nContent-Length: " + d + "\r\n\r\na"})
				// the same with the body limit switched off (MaxRequestBodySize <= 0): nothing may be reserved for a length that is only announced
				out = append(out, Case{Side: "server", Streaming: st, MaxBody: -1, Input: "POST /n HTTP/1.1\r\nHost: h\r\nContent-Length: " + d + "\r\n\r\na"})
				out = append(out, Case{Side: "client", Streaming: st, Input: "HTTP/1.1 200 OK\r\nContent-Length: " + d + "\r\n\r\na"})
			}
		}
	}
	return out
}

// child mode: VERIF_C03_GRID=<from> runs the numeric grid from that index, printing "AT <i>" before each case.
func init() {
	v := os.Getenv("VERIF_C03_GRID")
	if v == "" {
		return
	}
	from, _ := strconv.Atoi(v)
	grid := numericGrid()
	c := mc.NewCtx("C03", "quick")
	w := &worker{servers: map[string]*srvh.Server{}}
	for i := from; i < len(grid); i++ {
		fmt.Printf("AT %d\n", i)
		if grid[i].Side == "server" {
			w.execServer(c, grid[i])
		} else {
			execClient(c, grid[i])
		}
	}
	fmt.Printf("AT %d\n", len(grid))
	if c.ViolationCount() > 0 {
		fmt.Println("VIOLATIONS-IN-CHILD")
	}
	os.Exit(0)
}

func bigHeadCases() []Case {
	pad := strings.Repeat("p", 48*1024)
	return []Case{
		{Side: "server", Input: "GET /big HTTP/1.1\r\nHost: h\r\nX-Pad: " + pad + "\r\n\r\n", Bytewise: true},
		{Side: "client", Input: "HTTP/1.1 200 OK\r\nX-Pad: " + pad + "\r\nContent-Length: 0\r\n\r\n", Bytewise: true},
	}
}

// child mode: VERIF_C03_BIGHEAD=1 limits the address space and serves the big-header cases.
func init() {
	if os.Getenv("VERIF_C03_BIGHEAD") == "" {
		return
	}
	lim := syscall.Rlimit{Cur: 4 << 30, Max: 4 << 30}
	if err := syscall.Setrlimit(syscall.RLIMIT_AS, &lim); err != nil {
		fmt.Println("NO-RLIMIT", err)
		os.Exit(0)
	}
	c := mc.NewCtx("C03", "quick")
	w := &worker{servers: map[string]*srvh.Server{}}
	for _, cs := range bigHeadCases() {
		if cs.Side == "server" {
			w.execServer(c, cs)
		} else {
			execClient(c, cs)
		}
	}
	fmt.Println("BIGHEAD-DONE")
	os.Exit(0)
}

func runBigHeadChild() (died bool, msg string) {
	cmd := exec.Command(os.Args[0], "list")
	cmd.Env = append(os.Environ(), "VERIF_C03_BIGHEAD=1")
	out, err := cmd.CombinedOutput()
	if strings.Contains(string(out), "BIGHEAD-DONE") || strings.Contains(string(out), "NO-RLIMIT") {
		return false, ""
	}
	msg = fmt.Sprint(err)
	for _, ln := range strings.Split(string(out), "\n") {
		if strings.HasPrefix(ln, "fatal error") || strings.HasPrefix(ln, "panic:") || strings.HasPrefix(ln, "runtime:") {
			msg += "; " + ln
			break
		}
	}
	return true, msg
}

// runGridChild runs the grid from index `from` in a child process; it returns the index reached.
func runGridChild(from int) (reached int, crashed bool, msg string) {
	cmd := exec.Command(os.Args[0], "list")
	cmd.Env = append(os.Environ(), "VERIF_C03_GRID="+strconv.Itoa(from))
	out, err := cmd.CombinedOutput()
	reached = from
	for _, ln := range strings.Split(string(out), "\n") {
		if strings.HasPrefix(ln, "AT ") {
			reached, _ = strconv.Atoi(ln[3:])
		}
	}
	if err != nil {
		msg = err.Error()
		for _, ln := range strings.Split(string(out), "\n") {
			if strings.HasPrefix(ln, "fatal error") || strings.HasPrefix(ln, "panic:") || strings.HasPrefix(ln, "runtime:") {
				msg += "; " + ln
				break
			}
		}
		return reached, true, msg
	}
	if strings.Contains(string(out), "VIOLATIONS-IN-CHILD") {
		return reached, false, "violations"
	}
	return reached, false, ""
}

func min(a, b int) int {
	if a < b {
		return a
	}
	return b
}

func replay(c *mc.Ctx, raw json.RawMessage) {
	var cs Case
	if json.Unmarshal(raw, &cs) != nil {
		return
	}
	switch cs.Side {
	case "server":
		w := &worker{servers: map[string]*srvh.Server{}}
		w.execServer(c, cs)
	case "client":
		execClient(c, cs)
	case "redirect":
		execRedirect(c, cs)
	case "parser":
		for i := range parsers {
			if parsers[i].name == cs.Parser {
				runParser(c, &parsers[i], cs.Input, cs.Arg)
			}
		}
	}
}
