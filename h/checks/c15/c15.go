// Package c15: binding fills each field from the highest-priority source that carries it.
//
// Bounded-exhaustive enumeration of run-time generated struct types (reflect.StructOf) x
// requests (parsed from wire bytes by the real HTTP/1 request reader) x histories of first
// use (fresh binder = cold decoder cache, long-lived binder = warm) x controlled schedules of
// concurrent first binds. Every bind result of the real binding package is compared with
// bindref, an independent reference that walks the fixed source list and converts with
// strconv.
package c15

import (
	"encoding/json"
	"fmt"
	"io"
	"reflect"
	"runtime/debug"
	"sort"
	"strconv"
	"strings"
	"sync"
	"sync/atomic"
	"time"

	"github.com/cloudwego/hertz/pkg/app/server/binding"
	"github.com/cloudwego/hertz/pkg/common/hlog"
	"github.com/cloudwego/hertz/pkg/common/test/mock"
	"github.com/cloudwego/hertz/pkg/protocol"
	h1req "github.com/cloudwego/hertz/pkg/protocol/http1/req"
	"github.com/cloudwego/hertz/pkg/route/param"

	"verifh/mc"
)

func init() {
	hlog.SetOutput(io.Discard)
	hlog.SetLevel(hlog.LevelFatal)
}

var Check = &mc.Check{
	ID:    "C15",
	Level: "model_checking",
	Rule: "struct types generated with reflect.StructOf: every 1-field type over kinds {15 quick / 41 thorough: bool,intN,uintN,floatN,string, *T, []T} x every non-empty subset of the six source tags (63) x {no default, default} x {required: none, on first tag (thorough: also on last tag, on all tags)}; " +
		"requests (real wire bytes through http1/req.Read): every subset of the six sources carrying the key (form and json bodies exclude each other: 48) x value rotations, plus for every present source one of {empty, out-of-range, malformed} value; " +
		"each (type,request) is bound on a fresh binder (cold cache) and on the shared long-lived binder (warm cache, Bind/BindAndValidate alternating) and compared with the reference; " +
		"histories: every ordered pair (T1,T2) of a reduced type set on a fresh binder: T1 cold, T2 cold, T1 warm, T2 warm; 2-field (thorough 3-field) cross products and 3..6-field striped types with per-field source subsets; " +
		"schedules: 2 (thorough 3) goroutines doing first binds of the same / different types on one binder, every interleaving of the segments cut at the cache-miss point (Validator.ValidateTag hook) and mid-decode (custom type decoder hook). " +
		"non-trivial = at least two tagged sources present (a priority decision), or the chosen value is empty/invalid (conversion must fail or default must act), or no tagged source present while default/required is declared",
	Run:    run,
	Replay: replay,
	Assumptions: []string{
		"default BindConfig (LooseZeroMode=false, sonic JSON), content types application/json, application/x-www-form-urlencoded, multipart/form-data",
		"all sources use the same key per field; keys differ from Go field names so that untagged JSON name matching cannot fill a field; header keys are in canonical form (Aa)",
		"form and JSON body cannot be present in the same request (one body); a path parameter may be present and empty (a catch-all parameter on a path that ends at the slash)",
		"scalar and pointer fields receive one value per source; slice fields receive one (path, cookie) or two (form, query, header, json) values",
		"[]uint8 is excluded (JSON represents it as base64)",
		"accepted as undetermined by the property (either result passes): slice field with form tag when only the query carries the key; empty value + declared default on a slice field; required + declared default + no value (error or default); invalid JSON value for a json-tagged field when a higher-priority source wins (error or winner); empty JSON string + declared default",
		"an empty text value counts as present (it wins over lower-priority sources); for scalar/pointer fields with a declared default the default replaces an empty text",
		"on an expected error only the error is compared, not the partially filled struct",
	},
}

// ---------------------------------------------------------------------------------------
// sources, kinds, value alphabets

const (
	srcPath = iota
	srcForm
	srcQuery
	srcCookie
	srcHeader
	srcJSON
	nSrc
)

var srcName = [nSrc]string{"path", "form", "query", "cookie", "header", "json"}

// field keys as an application writes them in tags; only some are in canonical header form (header names are
// case-insensitive, every other source is matched exactly)
var keys = []string{"bB", "aa", "Cc", "dd-e", "Ee", "FF"}

const hookKey = "Hk"

const (
	catBool = iota
	catInt
	catUint
	catFloat
	catString
)

type baseInfo struct {
	name    string
	rt      reflect.Type
	cat     int
	bits    int
	valid   [6]string
	bad1    string // out of range for the kind
	bad2    string // malformed
	bad2Raw bool   // bad2 is a well-formed JSON number: sent unquoted in JSON
	def     [2]string
}

const (
	shScalar = iota
	shPtr
	shSlice
	shHook
)

var shapeName = []string{"scalar", "ptr", "slice", "hook"}

type kindInfo struct {
	name  string
	base  *baseInfo
	shape int
	rt    reflect.Type
}

var kinds = map[string]*kindInfo{}
var quickKinds = []string{"bool", "int8", "int16", "int", "int64", "uint8", "uint32", "uint", "float32", "float64", "string", "*int", "*string", "[]int", "[]string"}
var allKinds []string

// hookVal is a customised type: its registered decoder is a scheduling point in the middle of a decode.
type hookVal struct{ V string }

func init() {
	add := func(name string, rt reflect.Type, cat, bits int) {
		b := &baseInfo{name: name, rt: rt, cat: cat, bits: bits}
		switch cat {
		case catBool:
			b.valid = [6]string{"true", "false", "1", "0", "T", "F"}
			b.bad1, b.bad2 = "2", "yes"
			b.bad2Raw = false
			b.def = [2]string{"true", "false"}
		case catInt:
			max := uint64(1)<<(uint(bits)-1) - 1
			b.valid = [6]string{"7", "-" + strconv.FormatUint(max+1, 10), strconv.FormatUint(max, 10), "-1", "100", "12"}
			b.bad1, b.bad2 = strconv.FormatUint(max+1, 10), "1x"
			b.def = [2]string{"55", "56"}
		case catUint:
			max := ^uint64(0)
			b.bad1 = "18446744073709551616"
			if bits < 64 {
				max = uint64(1)<<uint(bits) - 1
				b.bad1 = strconv.FormatUint(max+1, 10)
			}
			b.valid = [6]string{"7", "1", strconv.FormatUint(max, 10), "100", "12", "33"}
			b.bad2, b.bad2Raw = "-1", true
			b.def = [2]string{"55", "56"}
		case catFloat:
			b.valid = [6]string{"1.5", "-2.25", "1e3", "0.1", "100", "-7"}
			b.bad1, b.bad2 = "1e999", "1.5x"
			if bits == 32 {
				b.bad1 = "1e60"
			}
			b.def = [2]string{"5.5", "6.5"}
		case catString:
			b.valid = [6]string{"abc", "d-e", "G7", "hh", "i.j", "k_l"}
			b.def = [2]string{"dflt", "dflu"}
		}
		kinds[name] = &kindInfo{name: name, base: b, shape: shScalar, rt: rt}
		kinds["*"+name] = &kindInfo{name: "*" + name, base: b, shape: shPtr, rt: reflect.PtrTo(rt)}
		allKinds = append(allKinds, name, "*"+name)
		if name != "uint8" {
			kinds["[]"+name] = &kindInfo{name: "[]" + name, base: b, shape: shSlice, rt: reflect.SliceOf(rt)}
			allKinds = append(allKinds, "[]"+name)
		}
	}
	add("bool", reflect.TypeOf(false), catBool, 0)
	add("int", reflect.TypeOf(int(0)), catInt, strconv.IntSize)
	add("int8", reflect.TypeOf(int8(0)), catInt, 8)
	add("int16", reflect.TypeOf(int16(0)), catInt, 16)
	add("int32", reflect.TypeOf(int32(0)), catInt, 32)
	add("int64", reflect.TypeOf(int64(0)), catInt, 64)
	add("uint", reflect.TypeOf(uint(0)), catUint, strconv.IntSize)
	add("uint8", reflect.TypeOf(uint8(0)), catUint, 8)
	add("uint16", reflect.TypeOf(uint16(0)), catUint, 16)
	add("uint32", reflect.TypeOf(uint32(0)), catUint, 32)
	add("uint64", reflect.TypeOf(uint64(0)), catUint, 64)
	add("float32", reflect.TypeOf(float32(0)), catFloat, 32)
	add("float64", reflect.TypeOf(float64(0)), catFloat, 64)
	add("string", reflect.TypeOf(""), catString, 0)
	kinds["hook"] = &kindInfo{name: "hook", shape: shHook, rt: reflect.TypeOf(hookVal{})}
}

// conv is the "usual Go text rules" of the property: strconv with the bit size of the kind.
func conv(b *baseInfo, s string) (string, bool) {
	switch b.cat {
	case catBool:
		v, err := strconv.ParseBool(s)
		if err != nil {
			return "", false
		}
		return strconv.FormatBool(v), true
	case catInt:
		v, err := strconv.ParseInt(s, 10, b.bits)
		if err != nil {
			return "", false
		}
		return strconv.FormatInt(v, 10), true
	case catUint:
		v, err := strconv.ParseUint(s, 10, b.bits)
		if err != nil {
			return "", false
		}
		return strconv.FormatUint(v, 10), true
	case catFloat:
		v, err := strconv.ParseFloat(s, b.bits)
		if err != nil {
			return "", false
		}
		return strconv.FormatFloat(v, 'g', -1, b.bits), true
	}
	return strconv.Quote(s), true
}

// convJSON converts one JSON literal (number, true/false, or quoted string) for the base kind.
func convJSON(b *baseInfo, lit string) (string, bool) {
	quoted := strings.HasPrefix(lit, `"`)
	if b.cat == catString {
		if !quoted {
			return "", false
		}
		s, err := strconv.Unquote(lit)
		if err != nil {
			return "", false
		}
		return strconv.Quote(s), true
	}
	if quoted {
		return "", false
	}
	if b.cat == catBool {
		if lit == "true" || lit == "false" {
			return lit, true
		}
		return "", false
	}
	return conv(b, lit)
}

// jsonLit renders a text value of the alphabet as the JSON literal carried by the body.
func jsonLit(b *baseInfo, text string) string {
	if b.cat == catString {
		return strconv.Quote(text)
	}
	if b.cat == catBool {
		if v, err := strconv.ParseBool(text); err == nil {
			return strconv.FormatBool(v)
		}
		if text == b.bad1 {
			return text
		}
		return strconv.Quote(text)
	}
	if text == b.bad2 && !b.bad2Raw {
		return strconv.Quote(text)
	}
	return text
}

// canon renders a bound field value in the canonical form used by the reference.
func canon(v reflect.Value) string {
	switch v.Kind() {
	case reflect.Ptr:
		if v.IsNil() {
			return "nil"
		}
		return "&" + canon(v.Elem())
	case reflect.Slice:
		if v.IsNil() {
			return "nil"
		}
		parts := make([]string, v.Len())
		for i := range parts {
			parts[i] = canon(v.Index(i))
		}
		return "[" + strings.Join(parts, ",") + "]"
	case reflect.Bool:
		return strconv.FormatBool(v.Bool())
	case reflect.Int, reflect.Int8, reflect.Int16, reflect.Int32, reflect.Int64:
		return strconv.FormatInt(v.Int(), 10)
	case reflect.Uint, reflect.Uint8, reflect.Uint16, reflect.Uint32, reflect.Uint64:
		return strconv.FormatUint(v.Uint(), 10)
	case reflect.Float32:
		return strconv.FormatFloat(v.Float(), 'g', -1, 32)
	case reflect.Float64:
		return strconv.FormatFloat(v.Float(), 'g', -1, 64)
	case reflect.String:
		return strconv.Quote(v.String())
	case reflect.Struct:
		if hv, ok := v.Interface().(hookVal); ok {
			return "hook(" + hv.V + ")"
		}
	}
	return fmt.Sprintf("?%v", v.Interface())
}

// ---------------------------------------------------------------------------------------
// type and request descriptions (JSON-serialisable: they are the replay case)

type FieldSpec struct {
	Kind    string `json:"kind"`
	Tags    int    `json:"tags"` // bit s set = source s named (path=1, form=2, query=4, cookie=8, header=16, json=32)
	Default bool   `json:"default,omitempty"`
	Req     int    `json:"req,omitempty"` // 0 none, 1 on the first (highest-priority) tag, 2 on the last tag, 3 on all tags
	Rev     bool   `json:"rev,omitempty"` // tags written in reverse order in the tag string
	// JSONSkip: the field (which does not name the json source) carries `json:"-"`: the body is no source for it
	JSONSkip bool `json:"json_skip,omitempty"`
}

type TypeSpec struct {
	Fields []FieldSpec `json:"fields"`
	// Dotted: the keys carry a '.' ("b.B"), a legal character in a json member name and in every other source's key
	Dotted bool `json:"dotted,omitempty"`
}

func (t TypeSpec) key(i int) string {
	if t.Dotted {
		return keys[i][:1] + "." + keys[i][1:]
	}
	return keys[i]
}

// ReqSpec: Vals[field][source] = texts carried by that source under the field's key (nil = absent).
// For the json source the texts are JSON literals (elements, for slice fields).
type ReqSpec struct {
	Vals      [][][]string `json:"vals"`
	Multipart bool         `json:"multipart,omitempty"`
	CT        int          `json:"ct,omitempty"` // spelling of the JSON media type: 0 application/json, 1 Application/JSON, 2 application/JSON; charset=utf-8
	// FormCT: spelling of the form media types: 0 lower case, 1 "Application/X-WWW-Form-Urlencoded" / "Multipart/Form-Data; boundary=B", 2 "multipart/form-data; Boundary=B"
	FormCT int `json:"form_ct,omitempty"`
	// KeyUpper: the JSON member names are written in upper case (JSON decoding matches member names to fields ignoring case)
	KeyUpper bool `json:"key_upper,omitempty"`
	// NoCL: the request object is put together with SetBody / SetRequestURI instead of being read from the wire, so the
	// header records no Content-Length (as for a chunked body that was streamed)
	NoCL bool `json:"no_cl,omitempty"`
	// GoName: the JSON body carries, for every field tagged json:"-", a member named after the Go field (F0, f1 ...) with a
	// valid value: it must neither be bound nor count as "present"
	GoName bool `json:"go_name,omitempty"`
}

var jsonCT = []string{"application/json", "Application/JSON", "application/JSON; charset=utf-8", "application/json ; charset=utf-8", "application/json;charset=utf-8"}

func (f FieldSpec) has(s int) bool { return f.Tags&(1<<uint(s)) != 0 }

func defaultTag(k *kindInfo) string {
	b := k.base
	if k.shape != shSlice {
		return b.def[0]
	}
	if b.cat == catString {
		return "['" + b.def[0] + "','" + b.def[1] + "']"
	}
	return "[" + b.def[0] + "," + b.def[1] + "]"
}

func (f FieldSpec) tagString(key string) string {
	if f.Kind == "hook" {
		return `query:"` + hookKey + `"`
	}
	var named []int
	for s := 0; s < nSrc; s++ {
		if f.has(s) {
			named = append(named, s)
		}
	}
	var parts []string
	for i, s := range named {
		req := f.Req == 3 || (f.Req == 1 && i == 0) || (f.Req == 2 && i == len(named)-1)
		p := srcName[s] + `:"` + key
		if req {
			p += ",required"
		}
		parts = append(parts, p+`"`)
	}
	if f.Rev {
		for i, j := 0, len(parts)-1; i < j; i, j = i+1, j-1 {
			parts[i], parts[j] = parts[j], parts[i]
		}
	}
	if f.JSONSkip && !f.has(srcJSON) {
		parts = append(parts, `json:"-"`)
	}
	if f.Default {
		parts = append(parts, `default:"`+defaultTag(kinds[f.Kind])+`"`)
	}
	return strings.Join(parts, " ")
}

func (t TypeSpec) rtype() reflect.Type {
	fs := make([]reflect.StructField, len(t.Fields))
	for i, f := range t.Fields {
		fs[i] = reflect.StructField{Name: "F" + strconv.Itoa(i), Type: kinds[f.Kind].rt, Tag: reflect.StructTag(f.tagString(t.key(i)))}
	}
	return reflect.StructOf(fs)
}

func (t TypeSpec) String() string {
	var parts []string
	for i, f := range t.Fields {
		parts = append(parts, fmt.Sprintf("F%d %s `%s`", i, f.Kind, f.tagString(t.key(i))))
	}
	return "struct{" + strings.Join(parts, "; ") + "}"
}

type realReq struct {
	req    *protocol.Request
	params param.Params
	wire   string
}

// realize turns a request description into a parsed *protocol.Request (through the real reader) and path params.
func realize(t TypeSpec, r ReqSpec) realReq {
	var query, cookie, hdr, form, js []string
	var mpart strings.Builder
	var params param.Params
	for i, f := range t.Fields {
		key := t.key(i)
		if f.Kind == "hook" {
			key = hookKey
		}
		v := r.Vals[i]
		for _, x := range v[srcPath] {
			params = append(params, param.Param{Key: key, Value: x})
		}
		for _, x := range v[srcForm] {
			form = append(form, key+"="+x)
			mpart.WriteString("--B\r\nContent-Disposition: form-data; name=\"" + key + "\"\r\n\r\n" + x + "\r\n")
		}
		for _, x := range v[srcQuery] {
			query = append(query, key+"="+x)
		}
		for _, x := range v[srcCookie] {
			cookie = append(cookie, key+"="+x)
		}
		for _, x := range v[srcHeader] {
			hdr = append(hdr, key+": "+x+"\r\n")
		}
		if v[srcJSON] != nil {
			lit := v[srcJSON][0]
			if kinds[f.Kind].shape == shSlice {
				lit = "[" + strings.Join(v[srcJSON], ",") + "]"
			}
			jk := key
			if r.KeyUpper {
				jk = strings.ToUpper(key)
			}
			js = append(js, strconv.Quote(jk)+":"+lit)
		}
	}
	if form != nil && js != nil {
		panic("c15: request with form and json body")
	}
	if r.GoName {
		for i, f := range t.Fields {
			if f.JSONSkip && !f.has(srcJSON) && f.Kind != "hook" {
				k := kinds[f.Kind]
				lit := jsonLit(k.base, k.base.valid[0])
				if k.shape == shSlice {
					lit = "[" + lit + "]"
				}
				name := "F" + strconv.Itoa(i)
				if i%2 == 1 {
					name = "f" + strconv.Itoa(i)
				}
				js = append(js, strconv.Quote(name)+":"+lit)
			}
		}
	}
	target := "/x"
	if query != nil {
		target += "?" + strings.Join(query, "&")
	}
	var w strings.Builder
	w.WriteString("POST " + target + " HTTP/1.1\r\nHost: h\r\n")
	body := ""
	switch {
	case js != nil:
		body = "{" + strings.Join(js, ",") + "}"
		w.WriteString("Content-Type: " + jsonCT[r.CT] + "\r\n")
	case form != nil && r.Multipart:
		body = mpart.String() + "--B--\r\n"
		w.WriteString("Content-Type: " + []string{"multipart/form-data; boundary=B", "Multipart/Form-Data; boundary=B", "multipart/form-data; Boundary=B"}[r.FormCT] + "\r\n")
	case form != nil:
		body = strings.Join(form, "&")
		w.WriteString("Content-Type: " + []string{"application/x-www-form-urlencoded", "Application/X-WWW-Form-Urlencoded", "application/x-www-form-urlencoded"}[r.FormCT] + "\r\n")
	}
	if cookie != nil {
		w.WriteString("Cookie: " + strings.Join(cookie, "; ") + "\r\n")
	}
	for _, h := range hdr {
		w.WriteString(h)
	}
	w.WriteString("Content-Length: " + strconv.Itoa(len(body)) + "\r\n\r\n" + body)
	wire := w.String()
	req := &protocol.Request{}
	if err := h1req.Read(req, mock.NewZeroCopyReader(wire)); err != nil {
		panic(fmt.Sprintf("c15: harness request does not parse: %v\n%q", err, wire))
	}
	if r.NoCL {
		// the same request as an object assembled by hand: headers copied, body set, no Content-Length recorded
		d := &protocol.Request{}
		d.SetRequestURI(target)
		d.Header.SetMethod("POST")
		req.Header.VisitAll(func(k, v []byte) {
			if !strings.EqualFold(string(k), "Content-Length") {
				d.Header.Add(string(k), string(v))
			}
		})
		d.SetBody(append([]byte(nil), req.Body()...))
		req = d
	}
	return realReq{req: req, params: params, wire: wire}
}

// ---------------------------------------------------------------------------------------
// bindref: the reference

type outcome struct {
	err bool
	val string
	cls string // what produced it: source name, "default", "zero", "required", "convert:<src>"
}

func sliceOf(parts []string) string { return "[" + strings.Join(parts, ",") + "]" }

func shaped(k *kindInfo, c string) string {
	if k.shape == shPtr {
		return "&" + c
	}
	return c
}

func refDefault(k *kindInfo) outcome {
	b := k.base
	if k.shape == shSlice {
		a, _ := conv(b, b.def[0])
		c, _ := conv(b, b.def[1])
		return outcome{val: sliceOf([]string{a, c}), cls: "default"}
	}
	c, _ := conv(b, b.def[0])
	return outcome{val: shaped(k, c), cls: "default"}
}

func refZero(k *kindInfo) outcome {
	if k.shape != shScalar {
		return outcome{val: "nil", cls: "zero"}
	}
	switch k.base.cat {
	case catBool:
		return outcome{val: "false", cls: "zero"}
	case catString:
		return outcome{val: `""`, cls: "zero"}
	}
	return outcome{val: "0", cls: "zero"}
}

func allEmpty(ts []string) bool {
	for _, t := range ts {
		if t != "" {
			return false
		}
	}
	return true
}

// refTexts converts the texts of one source for the kind (json=true: JSON literals).
func refTexts(k *kindInfo, texts []string, isJSON bool, src string) outcome {
	b := k.base
	cv := conv
	if isJSON {
		cv = convJSON
	} else {
		// the blank-padded class travels percent-encoded (query string, url-encoded form)
		dec := make([]string, len(texts))
		for i, t := range texts {
			dec[i] = strings.ReplaceAll(t, "%20", " ")
		}
		texts = dec
	}
	if k.shape != shSlice {
		c, ok := cv(b, texts[0])
		if !ok {
			return outcome{err: true, cls: "convert:" + src}
		}
		return outcome{val: shaped(k, c), cls: src}
	}
	parts := make([]string, len(texts))
	for i, t := range texts {
		c, ok := cv(b, t)
		if !ok {
			return outcome{err: true, cls: "convert:" + src}
		}
		parts[i] = c
	}
	return outcome{val: sliceOf(parts), cls: src}
}

// ref1 is the property statement, with the two knobs the statement leaves open.
func ref1(f FieldSpec, v [][]string, sliceFormTwist, emptyTakesDefault bool) outcome {
	k := kinds[f.Kind]
	for s := srcPath; s <= srcHeader; s++ {
		if !f.has(s) {
			continue
		}
		texts := v[s]
		if s == srcForm && texts == nil && v[srcQuery] != nil && (k.shape != shSlice || sliceFormTwist) {
			texts = v[srcQuery] // documented twist: the form source also consults the query string
		}
		if texts == nil {
			continue
		}
		if f.Default && allEmpty(texts) && (k.shape != shSlice || emptyTakesDefault) {
			return refDefault(k)
		}
		return refTexts(k, texts, false, srcName[s])
	}
	if f.has(srcJSON) && v[srcJSON] != nil {
		if f.Default && emptyTakesDefault && k.shape != shSlice && v[srcJSON][0] == `""` {
			return refDefault(k)
		}
		return refTexts(k, v[srcJSON], true, "json")
	}
	if f.Req != 0 {
		return outcome{err: true, cls: "required"}
	}
	if f.Default {
		return refDefault(k)
	}
	return refZero(k)
}

// refField returns the acceptable outcomes of one field; the first is the primary one.
func refField(f FieldSpec, v [][]string) []outcome {
	k := kinds[f.Kind]
	if k.shape == shHook {
		if v[srcQuery] != nil {
			return []outcome{{val: "hook(" + v[srcQuery][0] + ")", cls: "query"}}
		}
		return []outcome{{val: "hook()", cls: "zero"}}
	}
	var acc []outcome
	push := func(o outcome) {
		for _, a := range acc {
			if a.err == o.err && a.val == o.val {
				return
			}
		}
		acc = append(acc, o)
	}
	push(ref1(f, v, false, false))
	if k.shape == shSlice {
		push(ref1(f, v, true, false))
		push(ref1(f, v, false, true))
		push(ref1(f, v, true, true))
	} else {
		push(ref1(f, v, false, true))
	}
	if acc[0].err && acc[0].cls == "required" && f.Default {
		push(refDefault(k))
	}
	if f.has(srcJSON) && v[srcJSON] != nil && !acc[0].err {
		if o := refTexts(k, v[srcJSON], true, "json"); o.err {
			push(o)
		}
	}
	return acc
}

// nontrivial: the stated rule.
func nontrivial(t TypeSpec, r ReqSpec) bool {
	for i, f := range t.Fields {
		if f.Kind == "hook" {
			continue
		}
		v := r.Vals[i]
		n := 0
		bad := false
		for s := 0; s < nSrc; s++ {
			present := v[s] != nil || (s == srcForm && v[srcQuery] != nil)
			if f.has(s) && present {
				n++
			}
		}
		o := ref1(f, v, false, false)
		if o.err || o.cls == "default" {
			bad = true
		}
		if n >= 2 || bad {
			return true
		}
	}
	return false
}

// ---------------------------------------------------------------------------------------
// executing one bind and judging it

type Step struct {
	Type TypeSpec `json:"type"`
	Req  ReqSpec  `json:"req"`
	API  int      `json:"api,omitempty"` // 0 Bind, 1 BindAndValidate
	// Pre: before the judged call the same binder binds the same request into another object of the same type through a
	// single-source entry point (2 BindQuery, 3 BindHeader, 4 BindPath, 5 BindForm, 6 BindJSON); its result is not judged
	Pre int `json:"pre,omitempty"`
}

// preBind is the single-source call of Step.Pre.
func preBind(b binding.Binder, pre int, rr realReq, rt reflect.Type) {
	if pre == 0 {
		return
	}
	defer func() { recover() }() //nolint:errcheck
	obj := reflect.New(rt).Interface()
	switch pre {
	case 2:
		b.BindQuery(rr.req, obj) //nolint:errcheck
	case 3:
		b.BindHeader(rr.req, obj) //nolint:errcheck
	case 4:
		b.BindPath(rr.req, obj, rr.params) //nolint:errcheck
	case 5:
		b.BindForm(rr.req, obj) //nolint:errcheck
	case 6:
		b.BindJSON(rr.req, obj) //nolint:errcheck
	}
}

type Case struct {
	Mode     string `json:"mode"` // seq | sched | conc
	Steps    []Step `json:"steps"`
	Global   bool   `json:"global,omitempty"` // seq: also bind the last step on the process-wide binder (twice, scribbling in between)
	Schedule []int  `json:"schedule,omitempty"`
	Threads  int    `json:"threads,omitempty"`
}

func safeBind(b binding.Binder, api int, rr realReq, obj interface{}) (err error, pan string) {
	defer func() {
		if r := recover(); r != nil {
			pan = fmt.Sprint(r)
		}
	}()
	if api == 1 {
		err = b.BindAndValidate(rr.req, obj, rr.params)
	} else {
		err = b.Bind(rr.req, obj, rr.params)
	}
	return
}

// scribble overwrites everything reachable from the bound struct so that any memory shared with
// the decoder (cached default values, reused backing arrays) corrupts a later bind visibly.
func scribble(v reflect.Value) {
	for i := 0; i < v.NumField(); i++ {
		f := v.Field(i)
		switch f.Kind() {
		case reflect.Ptr:
			if !f.IsNil() {
				f.Elem().Set(reflect.Zero(f.Type().Elem()))
			}
		case reflect.Slice:
			for j := 0; j < f.Len(); j++ {
				f.Index(j).Set(reflect.Zero(f.Type().Elem()))
			}
		}
	}
}

type verdict struct {
	key, msg string
	class    string // outcome class when ok
}

// classify names which candidate value the observed value corresponds to.
func classify(f FieldSpec, v [][]string, got string) string {
	k := kinds[f.Kind]
	if k.shape == shHook {
		return "other"
	}
	if got == refZero(k).val {
		return "zero"
	}
	if got == refDefault(k).val {
		return "default"
	}
	for pass := 0; pass < 2; pass++ { // tagged sources first
		for s := 0; s < nSrc; s++ {
			if v[s] == nil || f.has(s) != (pass == 0) {
				continue
			}
			if o := refTexts(k, v[s], s == srcJSON, srcName[s]); !o.err && o.val == got {
				if pass == 1 {
					return "untagged-" + srcName[s]
				}
				return srcName[s]
			}
		}
	}
	return "other"
}

func judge(t TypeSpec, r ReqSpec, err error, pan string, obj reflect.Value) verdict {
	if pan != "" {
		return verdict{key: "panic", msg: "Bind panicked: " + pan}
	}
	accs := make([][]outcome, len(t.Fields))
	errOK := false
	errWhy := ""
	for i, f := range t.Fields {
		accs[i] = refField(f, r.Vals[i])
		for _, o := range accs[i] {
			if o.err {
				errOK = true
				errWhy = o.cls
			}
		}
	}
	if err != nil {
		if errOK {
			return verdict{class: "error:" + errWhy}
		}
		want := make([]string, len(accs))
		for i := range accs {
			want[i] = accs[i][0].val
		}
		return verdict{key: fmt.Sprintf("unexpected-error:shape=%s:want=%s", shapeName[kinds[t.Fields[0].Kind].shape], accs[0][0].cls),
			msg: fmt.Sprintf("Bind returned error %q; reference: no error, fields=%v", err.Error(), want)}
	}
	cls := ""
	for i, f := range t.Fields {
		got := canon(obj.Field(i))
		ok := false
		for _, o := range accs[i] {
			if !o.err && o.val == got {
				ok = true
				if i == 0 {
					cls = o.cls
				}
				break
			}
		}
		if ok {
			continue
		}
		sh := shapeName[kinds[f.Kind].shape]
		p := accs[i][0]
		if p.err {
			why := p.cls + ":shape=" + sh
			if p.cls == "required" && f.has(srcJSON) {
				why = "required:json-tagged:shape=" + sh
			} else if p.cls == "convert:json" {
				why = "convert:json:base=" + kinds[f.Kind].base.name
			} else if strings.HasPrefix(p.cls, "convert:") {
				why = "convert:text:base=" + kinds[f.Kind].base.name
			}
			return verdict{key: "no-error:" + why,
				msg: fmt.Sprintf("field F%d (%s `%s`): Bind returned nil error and value %s; reference: error (%s)", i, f.Kind, f.tagString(t.key(i)), got, p.cls)}
		}
		gc := classify(f, r.Vals[i], got)
		return verdict{key: fmt.Sprintf("value:shape=%s:want=%s:got=%s", sh, p.cls, gc),
			msg: fmt.Sprintf("field F%d (%s `%s`): got %s, reference %s (from %s)", i, f.Kind, f.tagString(t.key(i)), got, p.val, p.cls)}
	}
	return verdict{class: cls}
}

func describe(t TypeSpec, rr realReq) string {
	return fmt.Sprintf("type %s; path params %v; request %q", t.String(), rr.params, rr.wire)
}

// ---------------------------------------------------------------------------------------
// request enumeration

// texts of source s for field index fi of kind k, rotation rot, class cls (0 valid, 1 empty, 2 bad1, 3 bad2, 4 blank-padded)
func srcTexts(k *kindInfo, s, fi, rot, cls int) []string {
	b := k.base
	v0 := b.valid[(s+rot+fi)%6]
	v1 := b.valid[(s+rot+fi+2)%6]
	two := k.shape == shSlice && (s == srcForm || s == srcQuery || s == srcHeader || s == srcJSON)
	special := ""
	switch cls {
	case 1:
		if s == srcJSON {
			return []string{`""`}
		}
		return []string{""}
	case 2:
		special = b.bad1
	case 3:
		special = b.bad2
	case 4:
		special = "%20" + v0 // a leading blank, percent-encoded for the query string / url-encoded form
	}
	var out []string
	if cls == 0 {
		out = []string{v0}
		if two {
			out = append(out, v1)
		}
	} else if two {
		out = []string{v0, special}
	} else {
		out = []string{special}
	}
	if s == srcJSON {
		for i := range out {
			out[i] = jsonLit(b, out[i])
		}
	}
	return out
}

// classAllowed: which special classes exist for (kind, source).
func classAllowed(k *kindInfo, s, cls int) bool {
	b := k.base
	switch cls {
	case 1:
		if s == srcPath {
			return true // "/files/" on the route "/files/*rest": the catch-all parameter is present and empty
		}
		if s == srcJSON {
			return b.cat == catString && k.shape != shSlice
		}
		return true
	case 2:
		return b.bad1 != ""
	case 3:
		return b.bad2 != ""
	case 4:
		// a value with a leading blank: kept as it is for strings, a conversion error for everything else - in every shape
		return s == srcQuery || s == srcForm
	}
	return true
}

var subsets48 = func() []int {
	var out []int
	for m := 0; m < 64; m++ {
		if m&(1<<srcForm) != 0 && m&(1<<srcJSON) != 0 {
			continue
		}
		out = append(out, m)
	}
	return out
}()

func fieldVals(k *kindInfo, mask, fi, rot int, special, cls int) [][]string {
	v := make([][]string, nSrc)
	for s := 0; s < nSrc; s++ {
		if mask&(1<<uint(s)) == 0 {
			continue
		}
		c := 0
		if s == special {
			c = cls
		}
		v[s] = srcTexts(k, s, fi, rot, c)
	}
	return v
}

// singleReqs: the request list of the 1-field phase for one kind.
func singleReqs(k *kindInfo, rots []int, multipart bool) []ReqSpec {
	var out []ReqSpec
	for _, m := range subsets48 {
		for _, rot := range rots {
			out = append(out, ReqSpec{Vals: [][][]string{fieldVals(k, m, 0, rot, -1, 0)}})
		}
		if m&(1<<srcJSON) != 0 {
			for ct := 1; ct < len(jsonCT); ct++ {
				out = append(out, ReqSpec{Vals: [][][]string{fieldVals(k, m, 0, 0, -1, 0)}, CT: ct})
			}
		}
		if m&(1<<srcJSON) != 0 {
			out = append(out, ReqSpec{Vals: [][][]string{fieldVals(k, m, 0, 0, -1, 0)}, KeyUpper: true}, ReqSpec{Vals: [][][]string{fieldVals(k, m, 0, 0, -1, 0)}, NoCL: true})
		}
		if m&(1<<srcForm) != 0 {
			out = append(out, ReqSpec{Vals: [][][]string{fieldVals(k, m, 0, 0, -1, 0)}, FormCT: 1})
			if multipart {
				out = append(out, ReqSpec{Vals: [][][]string{fieldVals(k, m, 0, 0, -1, 0)}, Multipart: true, FormCT: 1}, ReqSpec{Vals: [][][]string{fieldVals(k, m, 0, 0, -1, 0)}, Multipart: true, FormCT: 2})
			}
		}
		if multipart && m&(1<<srcForm) != 0 {
			out = append(out, ReqSpec{Vals: [][][]string{fieldVals(k, m, 0, 0, -1, 0)}, Multipart: true})
		}
		for s := 0; s < nSrc; s++ {
			if m&(1<<uint(s)) == 0 {
				continue
			}
			for cls := 1; cls <= 4; cls++ {
				if classAllowed(k, s, cls) {
					out = append(out, ReqSpec{Vals: [][][]string{fieldVals(k, m, 0, 0, s, cls)}})
					if multipart && s == srcForm && cls != 4 {
						out = append(out, ReqSpec{Vals: [][][]string{fieldVals(k, m, 0, 0, s, cls)}, Multipart: true})
					}
				}
			}
		}
	}
	return out
}

// ---------------------------------------------------------------------------------------
// per-worker accounting

type acct struct {
	exec, nontriv, trans int64
	classes              map[string]struct{}
}

func newAcct() *acct { return &acct{classes: map[string]struct{}{}} }

func (a *acct) flush(c *mc.Ctx) {
	c.Add("executions", a.exec)
	c.Add("nontrivial", a.nontriv)
	c.Add("transitions", a.trans)
	ks := make([]string, 0, len(a.classes))
	for k := range a.classes {
		ks = append(ks, k)
	}
	sort.Strings(ks)
	for _, k := range ks {
		c.Distinct("outcomes", k)
	}
}

// bindJudge performs one bind of (t, r) on binder b and reports a violation if the reference disagrees.
// cas builds the replay case lazily.
func bindJudge(c *mc.Ctx, a *acct, b binding.Binder, api int, rt reflect.Type, t TypeSpec, r ReqSpec, rr realReq, phase string, cas func() Case) bool {
	obj := reflect.New(rt)
	err, pan := safeBind(b, api, rr, obj.Interface())
	vd := judge(t, r, err, pan, obj.Elem())
	a.exec++
	a.trans += int64(len(t.Fields))
	if vd.key != "" {
		if t.Dotted {
			vd.key = "dotted-key|" + vd.key
		}
		c.Violate(vd.key, phase+": "+vd.msg+"; "+describe(t, rr), cas())
		return false
	}
	a.classes[shapeName[kinds[t.Fields[0].Kind].shape]+"/"+vd.class] = struct{}{}
	scribble(obj.Elem())
	return true
}

// ---------------------------------------------------------------------------------------
// phase 1: every 1-field type x every request, cold and warm

func phaseSingle(c *mc.Ctx, kindNames []string, reqModes []int, rots []int, multipart bool) {
	types := int64(0)
	c.ParallelFor(len(kindNames)*63, func(i int) {
		k := kinds[kindNames[i/63]]
		mask := i%63 + 1
		a := newAcct()
		defer a.flush(c)
		reqs := singleReqs(k, rots, multipart)
		proto := TypeSpec{Fields: []FieldSpec{{Kind: k.name, Tags: mask}}}
		rrs := make([]realReq, len(reqs))
		for j := range reqs {
			rrs[j] = realize(proto, reqs[j])
		}
		for _, def := range []bool{false, true} {
			for _, rq := range reqModes {
				t := TypeSpec{Fields: []FieldSpec{{Kind: k.name, Tags: mask, Default: def, Req: rq, Rev: mask%2 == 1}}}
				rt := t.rtype()
				atomic.AddInt64(&types, 1)
				for j := range reqs {
					r := reqs[j]
					if nontrivial(t, r) {
						a.nontriv += 2
					}
					cas := func() Case { return Case{Mode: "seq", Steps: []Step{{Type: t, Req: r, API: j % 2}}, Global: true} }
					// cold: a binder that has never seen any type
					bindJudge(c, a, binding.NewDefaultBinder(nil), j%2, rt, t, r, rrs[j], "single/cold", cas)
					// warm: the process-wide binder shared by all workers (first request of the type fills its cache)
					bindJudge(c, a, binding.DefaultBinder(), j%2, rt, t, r, rrs[j], "single/warm", cas)
				}
				if c.Expired() {
					return
				}
			}
		}
	})
	c.Add("types", types)
	c.Extra("single_field_types", types)
}

// phase 1b: fields tagged json:"-" (the body is no source for them) next to a JSON body that carries a member of the
// field's Go name: required / default / the other sources decide as if that member were not there
func phaseJSONSkip(c *mc.Ctx, kindNames []string, reqModes []int) {
	masks := []int{1 << srcQuery, 1 << srcHeader, 1<<srcQuery | 1<<srcHeader, 1 << srcPath, 1<<srcCookie | 1<<srcQuery}
	c.ParallelFor(len(kindNames)*len(masks), func(i int) {
		k := kinds[kindNames[i/len(masks)]]
		mask := masks[i%len(masks)]
		a := newAcct()
		defer a.flush(c)
		var reqs []ReqSpec
		for _, present := range []int{0, mask, mask & -mask} {
			for _, gn := range []bool{false, true} {
				reqs = append(reqs, ReqSpec{Vals: [][][]string{fieldVals(k, present, 0, 0, -1, 0)}, GoName: gn})
			}
		}
		for _, def := range []bool{false, true} {
			for _, rq := range reqModes {
				t := TypeSpec{Fields: []FieldSpec{{Kind: k.name, Tags: mask, Default: def, Req: rq, JSONSkip: true}}}
				rt := t.rtype()
				for j := range reqs {
					r := reqs[j]
					rr := realize(t, r)
					a.nontriv += 2
					cas := func() Case { return Case{Mode: "seq", Steps: []Step{{Type: t, Req: r, API: j % 2}}, Global: true} }
					bindJudge(c, a, binding.NewDefaultBinder(nil), j%2, rt, t, r, rr, "jsonskip/cold", cas)
					bindJudge(c, a, binding.DefaultBinder(), j%2, rt, t, r, rr, "jsonskip/warm", cas)
				}
			}
		}
	})
}

// phase 1c: keys that contain a '.' (`json:"b.B"`): a legal member name; the presence test behind required / default must
// find the member the JSON decoder finds
func phaseDotted(c *mc.Ctx, kindNames []string, reqModes []int) {
	masks := []int{1 << srcJSON, 1<<srcQuery | 1<<srcJSON, 1<<srcHeader | 1<<srcJSON, 1 << srcQuery}
	c.ParallelFor(len(kindNames)*len(masks), func(i int) {
		k := kinds[kindNames[i/len(masks)]]
		mask := masks[i%len(masks)]
		a := newAcct()
		defer a.flush(c)
		var reqs []ReqSpec
		for _, present := range []int{0, mask, mask & -mask, mask & (1 << srcJSON)} {
			reqs = append(reqs, ReqSpec{Vals: [][][]string{fieldVals(k, present, 0, 0, -1, 0)}})
		}
		for _, def := range []bool{false, true} {
			for _, rq := range reqModes {
				t := TypeSpec{Fields: []FieldSpec{{Kind: k.name, Tags: mask, Default: def, Req: rq}}, Dotted: true}
				rt := t.rtype()
				for j := range reqs {
					r := reqs[j]
					rr := realize(t, r)
					a.nontriv += 2
					cas := func() Case { return Case{Mode: "seq", Steps: []Step{{Type: t, Req: r, API: j % 2}}, Global: true} }
					bindJudge(c, a, binding.NewDefaultBinder(nil), j%2, rt, t, r, rr, "dotted/cold", cas)
					bindJudge(c, a, binding.DefaultBinder(), j%2, rt, t, r, rr, "dotted/warm", cas)
				}
				// a JSON body that carries another member: the dotted member is absent from a body that is there
				t2 := TypeSpec{Fields: []FieldSpec{{Kind: k.name, Tags: mask, Default: def, Req: rq}, {Kind: "int", Tags: 1 << srcJSON}}, Dotted: true}
				rt2 := t2.rtype()
				for j, present := range []int{0, mask & (1 << srcJSON), mask &^ (1 << srcJSON)} {
					if present&(1<<srcForm) != 0 {
						continue
					}
					r := ReqSpec{Vals: [][][]string{fieldVals(k, present, 0, 0, -1, 0), fieldVals(kinds["int"], 1<<srcJSON, 1, 0, -1, 0)}}
					rr := realize(t2, r)
					a.nontriv++
					cas := func() Case { return Case{Mode: "seq", Steps: []Step{{Type: t2, Req: r, API: j % 2}}, Global: true} }
					bindJudge(c, a, binding.NewDefaultBinder(nil), j%2, rt2, t2, r, rr, "dotted2/cold", cas)
				}
			}
		}
	})
}

// ---------------------------------------------------------------------------------------
// phase 2: histories on a fresh binder: T1 cold, T2 cold, T1 warm, T2 warm

func reducedTypes(kindNames []string) []TypeSpec {
	all := 63
	masks := []int{1 << srcPath, 1 << srcQuery, 1 << srcJSON, 1<<srcQuery | 1<<srcJSON, all}
	var out []TypeSpec
	for _, kn := range kindNames {
		for _, m := range masks {
			out = append(out,
				TypeSpec{Fields: []FieldSpec{{Kind: kn, Tags: m}}},
				TypeSpec{Fields: []FieldSpec{{Kind: kn, Tags: m, Default: true}}},
				TypeSpec{Fields: []FieldSpec{{Kind: kn, Tags: m, Req: 2}}})
		}
	}
	q, h, j := 1<<srcQuery, 1<<srcHeader, 1<<srcJSON
	out = append(out,
		TypeSpec{Fields: []FieldSpec{{Kind: "int", Tags: q}, {Kind: "string", Tags: h}}},
		TypeSpec{Fields: []FieldSpec{{Kind: "string", Tags: h}, {Kind: "int", Tags: q}}},
		TypeSpec{Fields: []FieldSpec{{Kind: "string", Tags: q}, {Kind: "int", Tags: h}}},
		TypeSpec{Fields: []FieldSpec{{Kind: "[]int", Tags: all}, {Kind: "*string", Tags: j}}},
		TypeSpec{Fields: []FieldSpec{{Kind: "*string", Tags: j, Default: true}, {Kind: "[]int", Tags: all, Default: true}}},
		TypeSpec{Fields: []FieldSpec{{Kind: "int8", Tags: q | j}, {Kind: "int8", Tags: q | j}, {Kind: "uint8", Tags: h}}},
	)
	return out
}

// histReq: all sources but json (variant 0) / all but form (variant 1), per-field values.
func histReq(t TypeSpec, variant int) ReqSpec {
	mask := 63 &^ (1 << srcJSON)
	if variant == 1 {
		mask = 63 &^ (1 << srcForm)
	}
	r := ReqSpec{}
	for i, f := range t.Fields {
		r.Vals = append(r.Vals, fieldVals(kinds[f.Kind], mask, i, variant, -1, 0))
	}
	return r
}

func phasePairs(c *mc.Ctx, kindNames []string) {
	ts := reducedTypes(kindNames)
	n := len(ts)
	type prep struct {
		rt reflect.Type
		r  [2]ReqSpec
		rr [2]realReq
	}
	c.ParallelFor(n, func(i int) {
		a := newAcct()
		defer a.flush(c)
		// parsed requests have lazily filled parts: every worker item parses its own
		preps := make([]prep, n)
		for k := range ts {
			p := &preps[k]
			p.rt = ts[k].rtype()
			for v := 0; v < 2; v++ {
				p.r[v] = histReq(ts[k], v)
				p.rr[v] = realize(ts[k], p.r[v])
			}
		}
		p1 := &preps[i]
		for j := 0; j < n; j++ {
			p2 := &preps[j]
			b := binding.NewDefaultBinder(nil)
			steps := []Step{
				{Type: ts[i], Req: p1.r[0]},
				{Type: ts[j], Req: p2.r[0], API: 1},
				{Type: ts[i], Req: p1.r[1]},
				{Type: ts[j], Req: p2.r[1]},
			}
			// single-source entry points on the same binder: in front of the first use of T1 (every second pair) and
			// between the two uses of T2
			if j%2 == 1 {
				steps[0].Pre = 2 + i%5
			}
			steps[3].Pre = 2 + (i+j)%5
			rts := []reflect.Type{p1.rt, p2.rt, p1.rt, p2.rt}
			rrs := []realReq{p1.rr[0], p2.rr[0], p1.rr[1], p2.rr[1]}
			for s := range steps {
				upto := s
				preBind(b, steps[s].Pre, rrs[s], rts[s])
				if nontrivial(steps[s].Type, steps[s].Req) {
					a.nontriv++
				}
				ok := bindJudge(c, a, b, steps[s].API, rts[s], steps[s].Type, steps[s].Req, rrs[s], fmt.Sprintf("history step %d of (T1 cold, T2 cold, T1 warm, T2 warm)", s+1),
					func() Case { return Case{Mode: "seq", Steps: steps[:upto+1]} })
				if !ok {
					break
				}
			}
		}
	})
	c.Extra("history_types", n)
	c.Extra("history_ordered_pairs", n*n)
}

// ---------------------------------------------------------------------------------------
// phase 3: 2-field (3-field) cross products

type fieldOpt struct {
	def bool
	req int
}

// multiReqs: per-field source subsets for an n-field type of the given kinds.
func multiReqs(ks []*kindInfo) []ReqSpec {
	var out []ReqSpec
	text := 1<<srcPath | 1<<srcQuery | 1<<srcCookie | 1<<srcHeader
	body := 1<<srcForm | 1<<srcJSON
	for _, m := range subsets48 {
		variants := []int{m, (^m & text) | (m & body), ^m & text}
		for vi := range variants {
			r := ReqSpec{}
			for i, k := range ks {
				mi := m
				if i > 0 {
					mi = variants[(vi+i-1)%3]
				}
				r.Vals = append(r.Vals, fieldVals(k, mi, i, vi, -1, 0))
			}
			out = append(out, r)
		}
	}
	// one special value in one source of one field, all sources present (form body / json body)
	for _, m := range []int{63 &^ (1 << srcJSON), 63 &^ (1 << srcForm)} {
		for fi, k := range ks {
			for s := 0; s < nSrc; s++ {
				if m&(1<<uint(s)) == 0 {
					continue
				}
				for cls := 1; cls <= 4; cls++ {
					if !classAllowed(k, s, cls) {
						continue
					}
					r := ReqSpec{}
					for i, ki := range ks {
						sp := -1
						if i == fi {
							sp = s
						}
						r.Vals = append(r.Vals, fieldVals(ki, m, i, 0, sp, cls))
					}
					out = append(out, r)
				}
			}
		}
	}
	return out
}

func phaseMulti(c *mc.Ctx, nf int, kindNames []string, masks []int, opts []fieldOpt) {
	nk := len(kindNames)
	items := 1
	for i := 0; i < nf; i++ {
		items *= nk
	}
	nv := len(masks) * len(opts)
	types := int64(0)
	c.ParallelFor(items*len(masks), func(it int) {
		a := newAcct()
		defer a.flush(c)
		m0 := masks[it%len(masks)]
		x := it / len(masks)
		ks := make([]*kindInfo, nf)
		for i := 0; i < nf; i++ {
			ks[i] = kinds[kindNames[x%nk]]
			x /= nk
		}
		reqs := multiReqs(ks)
		proto := TypeSpec{}
		for _, k := range ks {
			proto.Fields = append(proto.Fields, FieldSpec{Kind: k.name, Tags: 63})
		}
		rrs := make([]realReq, len(reqs))
		for j := range reqs {
			rrs[j] = realize(proto, reqs[j])
		}
		// variants of field 0: options (its mask is fixed by the work item); of the other fields: mask x options
		total := len(opts)
		for i := 1; i < nf; i++ {
			total *= nv
		}
		for vi := 0; vi < total; vi++ {
			y := vi
			t := TypeSpec{}
			o := opts[y%len(opts)]
			y /= len(opts)
			t.Fields = append(t.Fields, FieldSpec{Kind: ks[0].name, Tags: m0, Default: o.def, Req: o.req})
			for i := 1; i < nf; i++ {
				z := y % nv
				y /= nv
				o := opts[z%len(opts)]
				t.Fields = append(t.Fields, FieldSpec{Kind: ks[i].name, Tags: masks[z/len(opts)], Default: o.def, Req: o.req, Rev: i%2 == 1})
			}
			rt := t.rtype()
			atomic.AddInt64(&types, 1)
			for j := range reqs {
				r := reqs[j]
				if nontrivial(t, r) {
					a.nontriv += 2
				}
				cas := func() Case { return Case{Mode: "seq", Steps: []Step{{Type: t, Req: r, API: j % 2}}, Global: true} }
				bindJudge(c, a, binding.NewDefaultBinder(nil), j%2, rt, t, r, rrs[j], "multi/cold", cas)
				bindJudge(c, a, binding.DefaultBinder(), j%2, rt, t, r, rrs[j], "multi/warm", cas)
			}
			if c.Expired() {
				return
			}
		}
	})
	c.Add("types", types)
	c.Extra(fmt.Sprintf("types_%d_fields", nf), types)
}

// ---------------------------------------------------------------------------------------
// phase 4: 3..6-field striped types

func phaseWide(c *mc.Ctx, kindNames []string) {
	masks := []int{1 << srcQuery, 1 << srcHeader, 1 << srcJSON, 1<<srcPath | 1<<srcJSON, 1<<srcForm | 1<<srcQuery, 63, 1<<srcCookie | 1<<srcHeader | 1<<srcJSON, 1 << srcPath}
	opts := []fieldOpt{{false, 0}, {true, 0}, {false, 1}, {true, 2}}
	nk := len(kindNames)
	types := int64(0)
	c.ParallelFor(4*nk*len(masks), func(it int) {
		a := newAcct()
		defer a.flush(c)
		nf := 3 + it%4
		ko := (it / 4) % nk
		mo := it / 4 / nk
		t := TypeSpec{}
		var ks []*kindInfo
		for i := 0; i < nf; i++ {
			k := kinds[kindNames[(ko+i*5)%nk]]
			ks = append(ks, k)
			o := opts[(mo+i)%len(opts)]
			t.Fields = append(t.Fields, FieldSpec{Kind: k.name, Tags: masks[(mo+i*3)%len(masks)], Default: o.def, Req: o.req, Rev: i%2 == 0})
		}
		rt := t.rtype()
		atomic.AddInt64(&types, 1)
		for j, r := range multiReqs(ks) {
			r := r
			rr := realize(t, r)
			if nontrivial(t, r) {
				a.nontriv += 2
			}
			cas := func() Case { return Case{Mode: "seq", Steps: []Step{{Type: t, Req: r, API: j % 2}}, Global: true} }
			bindJudge(c, a, binding.NewDefaultBinder(nil), j%2, rt, t, r, rr, "wide/cold", cas)
			bindJudge(c, a, binding.DefaultBinder(), j%2, rt, t, r, rr, "wide/warm", cas)
		}
	})
	c.Add("types", types)
	c.Extra("types_3_to_6_fields", types)
}

// ---------------------------------------------------------------------------------------
// phase 5: controlled schedules of concurrent first binds

// sched runs real goroutines one at a time; a goroutine gives control back at the two hook points
// reachable through exported configuration: Validator.ValidateTag (called by the binder between the
// cache Load miss and the decoder build + Store) and the customised type decoder of the hook field
// (called in the middle of a decode, after the fields before it and before the fields after it).
type sched struct {
	cur    int
	resume []chan struct{}
	back   chan bool // true = finished
}

func (s *sched) yield() {
	g := s.cur
	s.back <- false
	<-s.resume[g]
}

type hookValidator struct{ s *sched }

func (h hookValidator) ValidateStruct(interface{}) error { return nil }
func (h hookValidator) Engine() interface{}              { return nil }
func (h hookValidator) ValidateTag() string              { h.s.yield(); return "" }

func newHookBinder(s *sched) binding.Binder {
	cfg := binding.NewBindConfig()
	cfg.Validator = hookValidator{s}
	cfg.MustRegTypeUnmarshal(reflect.TypeOf(hookVal{}), func(req *protocol.Request, params param.Params, text string) (reflect.Value, error) {
		s.yield()
		return reflect.ValueOf(hookVal{text}), nil
	})
	return binding.NewDefaultBinder(cfg)
}

type traceStep struct {
	choice  int
	enabled []int
}

type threadResult struct {
	err error
	pan string
	obj reflect.Value
}

// runSchedule executes the steps as one goroutine each under the schedule prefix (then lowest id first);
// afterwards it binds every step once more sequentially (warm). Returns the trace and all results.
func runSchedule(steps []Step, rts []reflect.Type, rrs []realReq, prefix []int) ([]traceStep, []threadResult, []threadResult) {
	n := len(steps)
	s := &sched{resume: make([]chan struct{}, n), back: make(chan bool)}
	b := newHookBinder(s)
	res := make([]threadResult, n)
	for g := 0; g < n; g++ {
		s.resume[g] = make(chan struct{})
		g := g
		go func() {
			<-s.resume[g]
			obj := reflect.New(rts[g])
			err, pan := safeBind(b, steps[g].API, rrs[g], obj.Interface())
			res[g] = threadResult{err, pan, obj.Elem()}
			s.back <- true
		}()
	}
	done := make([]bool, n)
	var trace []traceStep
	for {
		var en []int
		for g := 0; g < n; g++ {
			if !done[g] {
				en = append(en, g)
			}
		}
		if len(en) == 0 {
			break
		}
		ch := en[0]
		if len(trace) < len(prefix) {
			ch = prefix[len(trace)]
			if done[ch] {
				ch = en[0] // a stale replay schedule: stay deterministic
			}
		}
		trace = append(trace, traceStep{ch, en})
		s.cur = ch
		s.resume[ch] <- struct{}{}
		if <-s.back {
			done[ch] = true
		}
	}
	// sequential warm binds on the same binder: the hooks still yield, so run them under a trivial scheduler
	after := make([]threadResult, n)
	for g := 0; g < n; g++ {
		fin := make(chan struct{})
		s.cur = g
		go func() {
			obj := reflect.New(rts[g])
			err, pan := safeBind(b, 0, rrs[g], obj.Interface())
			after[g] = threadResult{err, pan, obj.Elem()}
			close(fin)
			s.back <- true
		}()
		for !<-s.back {
			s.resume[g] <- struct{}{}
		}
		<-fin
	}
	return trace, res, after
}

func schedTypes(thorough bool) []TypeSpec {
	q, h, j, all := 1<<srcQuery, 1<<srcHeader, 1<<srcJSON, 63
	hk := FieldSpec{Kind: "hook"}
	mk := func(a, b FieldSpec) TypeSpec { return TypeSpec{Fields: []FieldSpec{a, hk, b}} }
	out := []TypeSpec{
		mk(FieldSpec{Kind: "int", Tags: q}, FieldSpec{Kind: "string", Tags: h}),
		mk(FieldSpec{Kind: "string", Tags: h}, FieldSpec{Kind: "int", Tags: q}),
		mk(FieldSpec{Kind: "int8", Tags: all, Default: true}, FieldSpec{Kind: "[]string", Tags: all, Default: true}),
		mk(FieldSpec{Kind: "[]int", Tags: q | j}, FieldSpec{Kind: "*int", Tags: j, Default: true}),
		mk(FieldSpec{Kind: "*string", Tags: h | j, Req: 2}, FieldSpec{Kind: "float64", Tags: q}),
		{Fields: []FieldSpec{{Kind: "uint8", Tags: q}, {Kind: "bool", Tags: all}}}, // no hook field: only the cache-miss point
	}
	if thorough {
		out = append(out,
			mk(FieldSpec{Kind: "int", Tags: q}, FieldSpec{Kind: "string", Tags: q}),
			mk(FieldSpec{Kind: "[]string", Tags: h}, FieldSpec{Kind: "[]string", Tags: h, Default: true}),
			mk(FieldSpec{Kind: "*int", Tags: all, Req: 1}, FieldSpec{Kind: "*int", Tags: all}),
			TypeSpec{Fields: []FieldSpec{hk, {Kind: "int64", Tags: j | q}}},
		)
	}
	return out
}

func schedReq(t TypeSpec, g int) ReqSpec {
	mask := 63 &^ (1 << srcForm)
	if g%2 == 1 {
		mask = 63 &^ (1 << srcJSON)
	}
	r := ReqSpec{}
	for i, f := range t.Fields {
		if f.Kind == "hook" {
			v := make([][]string, nSrc)
			v[srcQuery] = []string{"g" + strconv.Itoa(g)}
			r.Vals = append(r.Vals, v)
			continue
		}
		r.Vals = append(r.Vals, fieldVals(kinds[f.Kind], mask, i, g+1, -1, 0))
	}
	return r
}

func judgeSchedule(c *mc.Ctx, steps []Step, rrs []realReq, trace []traceStep, res, after []threadResult) (ok bool) {
	ok = true
	sch := make([]int, len(trace))
	for i, t := range trace {
		sch[i] = t.choice
	}
	for pass, rs := range [][]threadResult{res, after} {
		for g, r := range rs {
			vd := judge(steps[g].Type, steps[g].Req, r.err, r.pan, r.obj)
			if vd.key != "" {
				what := "concurrent bind"
				if pass == 1 {
					what = "sequential bind after the concurrent ones"
				}
				same := "different types"
				if len(steps) > 1 && reflect.DeepEqual(steps[0].Type, steps[1].Type) {
					same = "same type"
				}
				c.Violate("sched:"+vd.key, fmt.Sprintf("%s of goroutine %d (%s) under schedule %v: %s; %s", what, g, same, sch, vd.msg, describe(steps[g].Type, rrs[g])),
					Case{Mode: "sched", Steps: steps, Schedule: sch})
				ok = false
			}
		}
	}
	return
}

func exploreSchedules(c *mc.Ctx, a *acct, steps []Step) {
	rts := make([]reflect.Type, len(steps))
	rrs := make([]realReq, len(steps))
	for g := range steps {
		rts[g] = steps[g].Type.rtype()
		rrs[g] = realize(steps[g].Type, steps[g].Req)
	}
	var prefix []int
	for {
		trace, res, after := runSchedule(steps, rts, rrs, prefix)
		a.exec++
		a.nontriv++
		a.trans += int64(len(trace))
		switches := 0
		for i := 1; i < len(trace); i++ {
			if trace[i].choice != trace[i-1].choice {
				switches++
			}
		}
		a.classes[fmt.Sprintf("sched/threads=%d/steps=%d/switches=%d", len(steps), len(trace), switches)] = struct{}{}
		if !judgeSchedule(c, steps, rrs, trace, res, after) {
			return
		}
		// next schedule in depth-first order
		i := len(trace) - 1
		next := -1
		for ; i >= 0; i-- {
			for _, e := range trace[i].enabled {
				if e > trace[i].choice {
					next = e
					break
				}
			}
			if next >= 0 {
				break
			}
		}
		if i < 0 {
			return
		}
		prefix = prefix[:0]
		for _, t := range trace[:i] {
			prefix = append(prefix, t.choice)
		}
		prefix = append(prefix, next)
	}
}

func phaseSched(c *mc.Ctx) {
	ts := schedTypes(c.Thorough())
	n := len(ts)
	threads := 2
	if c.Thorough() {
		threads = 3
	}
	var combos [][]int
	for i := 0; i < n; i++ {
		for j := 0; j < n; j++ {
			combos = append(combos, []int{i, j})
			if threads == 3 {
				combos = append(combos, []int{i, j, i}, []int{i, j, j})
			}
		}
	}
	scen := int64(0)
	c.ParallelFor(len(combos), func(ci int) {
		a := newAcct()
		defer a.flush(c)
		var steps []Step
		for g, ti := range combos[ci] {
			steps = append(steps, Step{Type: ts[ti], Req: schedReq(ts[ti], g), API: g % 2})
		}
		atomic.AddInt64(&scen, 1)
		before := a.exec
		exploreSchedules(c, a, steps)
		c.Add("schedules", a.exec-before)
	})
	c.Extra("schedule_scenarios", scen)
	c.Extra("schedule_threads", threads)
}

// ---------------------------------------------------------------------------------------
// phase 6: free-running goroutines (side pass; the Go scheduler picks the interleaving)

func runConc(steps []Step, threads, rounds int) (int, threadResult) {
	rts := make([]reflect.Type, len(steps))
	for g := range steps {
		rts[g] = steps[g].Type.rtype()
	}
	for round := 0; round < rounds; round++ {
		b := binding.NewDefaultBinder(nil)
		res := make([]threadResult, threads)
		start := make(chan struct{})
		var wg sync.WaitGroup
		for g := 0; g < threads; g++ {
			g := g
			st := steps[g%len(steps)]
			rr := realize(st.Type, st.Req) // own parsed request: the request's lazy parts are not shared
			wg.Add(1)
			go func() {
				defer wg.Done()
				<-start
				obj := reflect.New(rts[g%len(steps)])
				err, pan := safeBind(b, st.API, rr, obj.Interface())
				res[g] = threadResult{err, pan, obj.Elem()}
			}()
		}
		close(start)
		wg.Wait()
		for g := range res {
			st := steps[g%len(steps)]
			if vd := judge(st.Type, st.Req, res[g].err, res[g].pan, res[g].obj); vd.key != "" {
				return g, res[g]
			}
		}
	}
	return -1, threadResult{}
}

func phaseConc(c *mc.Ctx, kindNames []string) {
	ts := reducedTypes(kindNames)
	threads := 8
	c.ParallelFor(len(ts), func(i int) {
		a := newAcct()
		defer a.flush(c)
		j := (i*7 + 3) % len(ts)
		steps := []Step{{Type: ts[i], Req: histReq(ts[i], 0)}, {Type: ts[j], Req: histReq(ts[j], 1), API: 1}, {Type: ts[i], Req: histReq(ts[i], 1)}}
		g, r := runConc(steps, threads, 1)
		a.exec += int64(threads)
		a.classes["conc/free-running"] = struct{}{}
		if g >= 0 {
			st := steps[g%len(steps)]
			vd := judge(st.Type, st.Req, r.err, r.pan, r.obj)
			c.Violate("conc:"+vd.key, fmt.Sprintf("%d free-running goroutines on one fresh binder, goroutine %d: %s; type %s", threads, g, vd.msg, st.Type.String()),
				Case{Mode: "conc", Steps: steps, Threads: threads})
		}
	})
	c.Extra("free_running_scenarios", len(ts))
}

// ---------------------------------------------------------------------------------------

func run(c *mc.Ctx) {
	// tens of thousands of run-time generated types stay alive for the whole run and every bind allocates: with the
	// default pacing the collector runs ten times a second over a heap of 100 MB and takes most of the machine
	defer debug.SetGCPercent(debug.SetGCPercent(400))
	t0 := time.Now()
	lap := func(name string) {
		c.Extra("wall_s_"+name, float64(int(time.Since(t0).Seconds()*10))/10)
		t0 = time.Now()
	}
	kn := quickKinds
	reqModes := []int{0, 1}
	rots := []int{0, 1}
	if c.Thorough() {
		kn = allKinds
		reqModes = []int{0, 1, 2, 3}
		rots = []int{0, 1, 2, 3, 4, 5}
	}
	q, h, j, p, f := 1<<srcQuery, 1<<srcHeader, 1<<srcJSON, 1<<srcPath, 1<<srcForm
	ex := TypeSpec{Fields: []FieldSpec{{Kind: "int8", Tags: p | q | j, Default: true, Req: 1}}}
	exr := ReqSpec{Vals: [][][]string{fieldVals(kinds["int8"], q|h|j, 0, 0, srcQuery, 2)}}
	c.Sample(map[string]interface{}{"type": ex.String(), "request": realize(ex, exr).wire, "reference": refField(ex.Fields[0], exr.Vals[0])[0].cls})
	ex2 := TypeSpec{Fields: []FieldSpec{{Kind: "[]string", Tags: f | h}, {Kind: "*int", Tags: j, Default: true}}}
	exr2 := histReq(ex2, 1)
	c.Sample(map[string]interface{}{"type": ex2.String(), "request": realize(ex2, exr2).wire,
		"reference": []string{refField(ex2.Fields[0], exr2.Vals[0])[0].val, refField(ex2.Fields[1], exr2.Vals[1])[0].val}})

	phaseSingle(c, kn, reqModes, rots, true)
	phaseJSONSkip(c, kn, reqModes)
	phaseDotted(c, kn, reqModes)
	lap("single")
	c.Extra("kinds", len(kn))
	c.Extra("requests_per_single_field_type", len(singleReqs(kinds["int8"], rots, true)))
	if c.Expired() {
		return
	}
	phasePairs(c, kn)
	lap("histories")
	if c.Expired() {
		return
	}
	phaseSched(c)
	lap("schedules")
	phaseConc(c, quickKinds)
	lap("free_running")
	if c.Expired() {
		return
	}
	phaseWide(c, kn)
	lap("wide")
	if c.Expired() {
		return
	}
	mkinds := []string{"int8", "string", "*int", "[]string", "bool", "float64"}
	mmasks := []int{q, j, p | j, f | q, 63}
	mopts := []fieldOpt{{false, 0}, {true, 0}, {false, 1}}
	if c.Thorough() {
		mkinds = []string{"int8", "string", "*int", "[]string", "bool", "float64", "uint32", "[]int"}
		mmasks = []int{q, h, j, p | j, f | q, 63}
	}
	phaseMulti(c, 2, mkinds, mmasks, mopts)
	lap("2_fields")
	c.Extra("requests_per_2_field_type", len(multiReqs([]*kindInfo{kinds["int8"], kinds["string"]})))
	if c.Thorough() && !c.Expired() {
		phaseMulti(c, 3, []string{"int8", "string", "[]int"}, []int{q, p | j, 63}, []fieldOpt{{false, 0}, {true, 1}})
		lap("3_fields")
	}
}

// ---------------------------------------------------------------------------------------

func replay(c *mc.Ctx, raw json.RawMessage) {
	var cs Case
	if json.Unmarshal(raw, &cs) != nil || len(cs.Steps) == 0 {
		return
	}
	for _, st := range cs.Steps {
		for _, f := range st.Type.Fields {
			if kinds[f.Kind] == nil {
				return
			}
		}
		if len(st.Req.Vals) != len(st.Type.Fields) {
			return
		}
		for _, v := range st.Req.Vals {
			if len(v) != nSrc {
				return
			}
		}
	}
	a := newAcct()
	switch cs.Mode {
	case "seq":
		b := binding.NewDefaultBinder(nil)
		for i, st := range cs.Steps {
			rr := realize(st.Type, st.Req)
			preBind(b, st.Pre, rr, st.Type.rtype())
			if !bindJudge(c, a, b, st.API, st.Type.rtype(), st.Type, st.Req, rr, fmt.Sprintf("replay step %d", i+1), func() Case { return cs }) {
				return
			}
		}
		if cs.Global {
			st := cs.Steps[len(cs.Steps)-1]
			rr := realize(st.Type, st.Req)
			for i := 0; i < 2; i++ {
				if !bindJudge(c, a, binding.DefaultBinder(), st.API, st.Type.rtype(), st.Type, st.Req, rr, "replay on the process-wide binder", func() Case { return cs }) {
					return
				}
			}
		}
	case "sched":
		rts := make([]reflect.Type, len(cs.Steps))
		rrs := make([]realReq, len(cs.Steps))
		for g := range cs.Steps {
			rts[g] = cs.Steps[g].Type.rtype()
			rrs[g] = realize(cs.Steps[g].Type, cs.Steps[g].Req)
		}
		for _, g := range cs.Schedule {
			if g < 0 || g >= len(cs.Steps) {
				return
			}
		}
		trace, res, after := runSchedule(cs.Steps, rts, rrs, cs.Schedule)
		judgeSchedule(c, cs.Steps, rrs, trace, res, after)
	case "conc":
		if cs.Threads < 1 || cs.Threads > 64 {
			return
		}
		if g, r := runConc(cs.Steps, cs.Threads, 200); g >= 0 {
			st := cs.Steps[g%len(cs.Steps)]
			vd := judge(st.Type, st.Req, r.err, r.pan, r.obj)
			c.Violate("conc:"+vd.key, vd.msg, cs)
		}
	}
}
