// Package c17: URI, query-string and cookie codecs round-trip.
//
// Bounded-exhaustive enumeration of
//   - ordered argument lists (Args.Add / Args.Set -> QueryString -> ParseBytes),
//   - query strings over a token alphabet (ParseBytes vs net/url.ParseQuery, re-encode fixed point),
//   - URIs assembled through the setters under several object histories
//     (FullURI -> Parse -> getters, FullURI fixed point),
//   - response cookies over the cookie-octet alphabet and every attribute combination
//     (Cookie() -> ParseBytes -> getters, agreement with net/http.ParseSetCookie).
//
// The reference is the identity on the components given to the setters (plus the documented
// normalisations: scheme and host lower-cased, Max-Age>0 suppresses Expires, SameSite=None and
// Partitioned imply Secure) and, as independent implementations, net/url and net/http.
package c17

import (
	"bytes"
	"encoding/json"
	"fmt"
	"io"
	"net/http"
	"net/url"
	"sort"
	"strconv"
	"strings"
	"sync"
	"sync/atomic"
	"time"

	"github.com/cloudwego/hertz/pkg/common/hlog"
	"github.com/cloudwego/hertz/pkg/protocol"

	"verifh/mc"
)

func init() {
	hlog.SetOutput(io.Discard)
	hlog.SetLevel(hlog.LevelFatal)
}

var Check = &mc.Check{
	ID:    "C17",
	Level: "model_checking",
	Rule: "args (Add/Set -> QueryString -> ParseBytes): every single pair with (key<=3,value<=2) or (key<=2,value<=3) symbols of {a % + & = ; SP 4 1 NUL 0xFF} (thorough key<=3,value<=4), every pair of single bytes over all 256 byte values, every ordered 2-pair list of a wide pair (key<=2,value<=1; thorough value<=2) and a narrow pair (<=1,<=1) in both orders, every list of <=5 (thorough 6) pairs over keys {a,b,''} x values {'',a,%} built with Add and with Set; " +
		"query decode (ParseBytes vs net/url.ParseQuery, re-encode fixed point): every string of <=6 tokens over {a = & % %4 %41 %zz + ;} and of <=5 tokens over that alphabet plus {%26 %3d %2B} (thorough: <=7 tokens over the 12-token alphabet); " +
		"URI (setters -> FullURI -> Parse -> FullURI): scheme {http,https,HTTP,''} x host {h, h:8080, [::1]:80, H.Example.COM, [FE80::1]} on a fresh object and 2 scheme/host pairs on each object history {reused after Parse, reused after Parse+QueryArgs read, reused after Parse+QueryArgs.Add}, x one component (path over the hostile symbols plus {/ . ? #}, fragment over hostile plus {# ? /}, raw query over hostile minus NUL plus {?}, query args with key<=2 (thorough 3) and value<=1 symbols over hostile plus {# ? /}) over all strings of <=3 (thorough 4) symbols with the other components from a 4x4 context set, plus path, raw query and fragment jointly over <=1 (thorough 2) symbols; " +
		"cookies (setters -> Cookie -> ParseBytes, net/http.ParseSetCookie): value over all strings of <=2 (thorough 3) cookie octets, key over all tokens of <=2 characters, Domain/Path over pairs of cookie octets, each with 4 attribute sets, and every combination of Max-Age{-,1,86400,2147483647} x Expires{-,5 instants incl. CookieExpireDelete, non-UTC zones} x Domain{-,2} x Path{-,2} x HttpOnly x Secure x SameSite{5} x Partitioned for 4 key/value shapes, plus 45k expiry instants 1970..2100 (thorough: also every second of two days around a leap day and a year end); " +
		"every case is formatted by hertz and parsed back into a cold object and into an object that previously held other content (input buffer overwritten after parsing); non-trivial = the codec has to act: some byte needs escaping or is a delimiter, the list has >=2 entries, the query string takes the decoder's slow path (% or +), the URI object has a history or carries a query, or the cookie carries at least one attribute",
	Run:    run,
	Replay: replay,
	Assumptions: []string{
		"the raw query string given to SetQueryString is the caller's pre-encoded text: '#' and control bytes (which no URI string can carry unencoded) are enumerated only in keys/values passed through QueryArgs().Add, not in raw query strings",
		"hosts are reg-names / IPv6 literals with optional port (no userinfo '@', no '/', '?', '#')",
		"cookie names are RFC 6265 tokens, cookie values / Domain / Path are over the octets hertz's ValidCookieValueTable (= net/http validCookieValueByte) accepts, without leading or trailing SP (every cookie parser strips OWS) ; the empty name is enumerated only with a non-empty value without '='",
		"Max-Age >= 0 (SetMaxAge documents 0 = unset; negative values are not documented) and expiry instants with second resolution, years 1970..9999",
		"cookie paths without '%', dot segments and '//' (SetPath normalises such paths like a URI path; that normalisation is C07's subject)",
		"unix build",
	},
}

// ---------------------------------------------------------------------------------------------
// case representation (replayable)

// Q is a byte string that survives JSON (Go-quoted ASCII inside the JSON string).
type Q string

func (q Q) MarshalJSON() ([]byte, error) {
	return json.Marshal(strconv.QuoteToASCII(string(q)))
}

func (q *Q) UnmarshalJSON(b []byte) error {
	var s string
	if err := json.Unmarshal(b, &s); err != nil {
		return err
	}
	u, err := strconv.Unquote(s)
	if err != nil {
		return err
	}
	*q = Q(u)
	return nil
}

type Pair struct {
	K Q `json:"k"`
	V Q `json:"v"`
}

type URICase struct {
	Hist   string `json:"hist"` // fresh | reused | reused-args | reused-add
	Scheme Q      `json:"scheme"`
	Host   Q      `json:"host"`
	Path   Q      `json:"path"`
	QMode  string `json:"qmode"` // none | raw | args
	Raw    Q      `json:"raw"`
	Args   []Pair `json:"args,omitempty"`
	Hash   Q      `json:"hash"`
	// NoNorm: DisablePathNormalizing is set (the path is given in wire form and formatted verbatim)
	NoNorm bool `json:"no_norm,omitempty"`
}

type CookieCase struct {
	Key         Q     `json:"key"`
	Value       Q     `json:"value"`
	MaxAge      int   `json:"max_age"`
	HasExp      bool  `json:"has_exp"`
	ExpUnix     int64 `json:"exp_unix"`
	ExpZone     int   `json:"exp_zone_s"`
	Domain      Q     `json:"domain"`
	Path        Q     `json:"path"`
	HTTPOnly    bool  `json:"http_only"`
	Secure      bool  `json:"secure"`
	SameSite    int   `json:"same_site"`
	Partitioned bool  `json:"partitioned"`
}

type Case struct {
	Kind   string      `json:"kind"` // args | query | uri | cookie
	Mode   string      `json:"mode,omitempty"`
	Pairs  []Pair      `json:"pairs,omitempty"`
	Query  Q           `json:"query,omitempty"`
	URI    *URICase    `json:"uri,omitempty"`
	Cookie *CookieCase `json:"cookie,omitempty"`
}

// ---------------------------------------------------------------------------------------------
// small helpers

// stats are per-worker accumulators, flushed once.
type stats struct {
	exec, nontrivial, trans int64
	neturlAccepted          int64
	nethttpCompared         int64
	outcomes                map[string]struct{}
}

func newStats() *stats { return &stats{outcomes: map[string]struct{}{}} }

func (s *stats) outcome(k string) { s.outcomes[k] = struct{}{} }

func (s *stats) flush(c *mc.Ctx) {
	atomic.AddInt64(c.Counter("executions"), s.exec)
	atomic.AddInt64(c.Counter("nontrivial"), s.nontrivial)
	atomic.AddInt64(c.Counter("transitions"), s.trans)
	atomic.AddInt64(c.Counter("neturl_accepted"), s.neturlAccepted)
	atomic.AddInt64(c.Counter("nethttp_compared"), s.nethttpCompared)
	for k := range s.outcomes {
		c.Distinct("outcomes", k)
	}
}

// listDiff classifies the first difference between two ordered lists ("" if equal).
func listDiff(want, got []Pair) string {
	if len(want) != len(got) {
		return "count"
	}
	for i := range want {
		if want[i].K != got[i].K {
			return "key"
		}
		if want[i].V != got[i].V {
			return "value"
		}
	}
	return ""
}

func fmtList(l []Pair) string {
	var b strings.Builder
	b.WriteByte('[')
	for i, p := range l {
		if i > 0 {
			b.WriteByte(' ')
		}
		fmt.Fprintf(&b, "(%q,%q)", string(p.K), string(p.V))
	}
	b.WriteByte(']')
	return b.String()
}

func listOf(a *protocol.Args) []Pair {
	out := make([]Pair, 0, a.Len())
	a.VisitAll(func(k, v []byte) {
		out = append(out, Pair{Q(k), Q(v)})
	})
	return out
}

func dropEmpty(l []Pair) []Pair {
	out := make([]Pair, 0, len(l))
	for _, p := range l {
		if p.K == "" && p.V == "" {
			continue
		}
		out = append(out, p)
	}
	return out
}

// refSet is the reference of a sequence of Args.Set calls: replace the first entry with the key, else append.
func refSet(pairs []Pair) []Pair {
	var out []Pair
next:
	for _, p := range pairs {
		for i := range out {
			if out[i].K == p.K {
				out[i].V = p.V
				continue next
			}
		}
		out = append(out, p)
	}
	return out
}

func multimap(l []Pair) map[string][]string {
	m := map[string][]string{}
	for _, p := range l {
		m[string(p.K)] = append(m[string(p.K)], string(p.V))
	}
	return m
}

// valuesMinusEmpty converts net/url's result, leaving out entries whose key and value are both empty.
func valuesMinusEmpty(v url.Values) map[string][]string {
	m := map[string][]string{}
	for k, vs := range v {
		for _, x := range vs {
			if k == "" && x == "" {
				continue
			}
			m[k] = append(m[k], x)
		}
	}
	return m
}

func mmEqual(a, b map[string][]string) bool {
	if len(a) != len(b) {
		return false
	}
	for k, va := range a {
		vb, ok := b[k]
		if !ok || len(va) != len(vb) {
			return false
		}
		for i := range va {
			if va[i] != vb[i] {
				return false
			}
		}
	}
	return true
}

func fmtMM(m map[string][]string) string {
	keys := make([]string, 0, len(m))
	for k := range m {
		keys = append(keys, k)
	}
	sort.Strings(keys)
	var b strings.Builder
	b.WriteByte('{')
	for i, k := range keys {
		if i > 0 {
			b.WriteByte(' ')
		}
		fmt.Fprintf(&b, "%q:%q", k, m[k])
	}
	b.WriteByte('}')
	return b.String()
}

func clobber(b []byte) {
	for i := range b {
		b[i] = '#'
	}
}

func unreserved(b byte) bool {
	return b >= '0' && b <= '9' || b >= 'a' && b <= 'z' || b >= 'A' && b <= 'Z' || b == '-' || b == '_' || b == '.' || b == '~'
}

func needsCodec(s string) bool {
	for i := 0; i < len(s); i++ {
		if !unreserved(s[i]) {
			return true
		}
	}
	return false
}

// stringsUpTo returns every concatenation of <= n symbols of alpha (duplicates removed, order deterministic).
func stringsUpTo(alpha []string, n int) []string {
	out := []string{""}
	seen := map[string]struct{}{"": {}}
	level := []string{""}
	for d := 0; d < n; d++ {
		var next []string
		for _, p := range level {
			for _, a := range alpha {
				s := p + a
				if _, ok := seen[s]; ok {
					continue
				}
				seen[s] = struct{}{}
				next = append(next, s)
			}
		}
		out = append(out, next...)
		level = next
	}
	return out
}

func guard(c *mc.Ctx, kind string, cs *Case) {
	if r := recover(); r != nil {
		c.Violate("panic|"+kind, fmt.Sprintf("panic in %s case: %v", kind, r), cs)
	}
}

// ---------------------------------------------------------------------------------------------
// args: encode -> decode

// dirtyQuery is parsed into an Args object before the real input ("warm" object): entries without
// value, long keys and values and more entries than any enumerated list.
const dirtyQuery = "zz=yy&novalue&q=%41%42%43&=x&long=longvaluelongvalue&n2&k7=v7&k8=v8"

func parseCold(qs []byte) (*protocol.Args, []Pair) {
	scratch := append([]byte(nil), qs...)
	a := &protocol.Args{}
	a.ParseBytes(scratch)
	clobber(scratch) // the parsed list must not alias the input
	return a, listOf(a)
}

func parseWarm(qs []byte) []Pair {
	a := &protocol.Args{}
	a.ParseBytes([]byte(dirtyQuery))
	scratch := append([]byte(nil), qs...)
	a.ParseBytes(scratch)
	clobber(scratch)
	return listOf(a)
}

func checkArgs(c *mc.Ctx, st *stats, mode string, pairs []Pair) {
	cs := &Case{Kind: "args", Mode: mode, Pairs: pairs}
	defer guard(c, "args", cs)
	st.exec++
	st.trans += int64(len(pairs)) + 4

	ref := pairs
	a := &protocol.Args{}
	if mode == "set" {
		ref = refSet(pairs)
		for _, p := range pairs {
			a.Set(string(p.K), string(p.V))
		}
	} else {
		for _, p := range pairs {
			a.Add(string(p.K), string(p.V))
		}
	}
	nt := len(ref) >= 2
	for _, p := range ref {
		if needsCodec(string(p.K)) || needsCodec(string(p.V)) {
			nt = true
		}
	}
	if nt {
		st.nontrivial++
	}
	if d := listDiff(ref, listOf(a)); d != "" {
		c.Violate("args|build-"+mode+"|"+d, fmt.Sprintf("Args built with %s%s holds %s, want %s", mode, fmtList(pairs), fmtList(listOf(a)), fmtList(ref)), cs)
		return
	}
	qs := append([]byte(nil), a.QueryString()...)
	want := dropEmpty(ref)

	pa, got := parseCold(qs)
	if d := listDiff(want, got); d != "" {
		c.Violate("args|roundtrip|"+d, fmt.Sprintf("list %s encodes to %q, ParseBytes returns %s, want %s", fmtList(ref), qs, fmtList(got), fmtList(want)), cs)
		return
	}
	if gw := parseWarm(qs); listDiff(want, gw) != "" {
		c.Violate("args|roundtrip-warm|"+listDiff(want, gw), fmt.Sprintf("list %s encodes to %q, ParseBytes into an Args that held %q before returns %s, want %s", fmtList(ref), qs, dirtyQuery, fmtList(gw), fmtList(want)), cs)
		return
	}
	// accessors on the parsed object
	if pa.Len() != len(want) {
		c.Violate("args|len", fmt.Sprintf("%q: Len()=%d, want %d", qs, pa.Len(), len(want)), cs)
		return
	}
	wm := multimap(want)
	for k, vs := range wm {
		if !pa.Has(k) || string(pa.Peek(k)) != vs[0] {
			c.Violate("args|peek", fmt.Sprintf("%q: Has(%q)=%v Peek=%q, want first value %q", qs, k, pa.Has(k), pa.Peek(k), vs[0]), cs)
			return
		}
		all := pa.PeekAll(k)
		ok := len(all) == len(vs)
		for i := 0; ok && i < len(vs); i++ {
			ok = string(all[i]) == vs[i]
		}
		if !ok {
			c.Violate("args|peekall", fmt.Sprintf("%q: PeekAll(%q)=%q, want %q", qs, k, all, vs), cs)
			return
		}
	}
	// re-encoding the parsed list and parsing again is a fixed point
	qs2 := append([]byte(nil), pa.QueryString()...)
	if _, g2 := parseCold(qs2); listDiff(want, g2) != "" {
		c.Violate("args|reencode|"+listDiff(want, g2), fmt.Sprintf("%q parsed and re-encoded is %q which parses to %s, want %s", qs, qs2, fmtList(g2), fmtList(want)), cs)
		return
	}
	// independent decoder: what hertz emits must mean the same list to net/url
	vals, err := url.ParseQuery(string(qs))
	if err != nil {
		c.Violate("args|neturl-rejects-encoding", fmt.Sprintf("list %s encodes to %q which net/url.ParseQuery rejects: %v", fmtList(ref), qs, err), cs)
		return
	}
	st.neturlAccepted++
	if !mmEqual(valuesMinusEmpty(vals), wm) {
		c.Violate("args|neturl-differs-on-encoding", fmt.Sprintf("list %s encodes to %q; net/url reads %s, want %s", fmtList(ref), qs, fmtMM(valuesMinusEmpty(vals)), fmtMM(wm)), cs)
		return
	}
	st.outcome("args|n=" + strconv.Itoa(len(want)) + "|dropped=" + strconv.Itoa(len(ref)-len(want)))
}

// ---------------------------------------------------------------------------------------------
// query string: decode vs net/url, re-encode fixed point

func checkQuery(c *mc.Ctx, st *stats, s string) {
	cs := &Case{Kind: "query", Query: Q(s)}
	defer guard(c, "query", cs)
	st.exec++
	st.trans += 4
	slow := strings.ContainsAny(s, "%+")
	if slow {
		st.nontrivial++
	}
	pa, got := parseCold([]byte(s))
	for _, p := range got {
		if p.K == "" && p.V == "" {
			c.Violate("query|empty-entry-kept", fmt.Sprintf("ParseBytes(%q) = %s contains an entry with empty key and value", s, fmtList(got)), cs)
			return
		}
	}
	if gw := parseWarm([]byte(s)); listDiff(got, gw) != "" {
		c.Violate("query|warm-differs|"+listDiff(got, gw), fmt.Sprintf("ParseBytes(%q) into a fresh Args = %s, into an Args that held %q before = %s", s, fmtList(got), dirtyQuery, fmtList(gw)), cs)
		return
	}
	if pa.Len() != len(got) {
		c.Violate("query|len", fmt.Sprintf("ParseBytes(%q): Len()=%d but VisitAll shows %d entries", s, pa.Len(), len(got)), cs)
		return
	}
	gm := multimap(got)
	vals, err := url.ParseQuery(s)
	if err == nil {
		st.neturlAccepted++
		if wm := valuesMinusEmpty(vals); !mmEqual(wm, gm) {
			c.Violate("query|neturl-differs", fmt.Sprintf("ParseBytes(%q) = %s, net/url.ParseQuery = %s", s, fmtList(got), fmtMM(wm)), cs)
			return
		}
	}
	// the parsed list is itself an ordered argument list: encode -> decode returns it
	enc := append([]byte(nil), pa.QueryString()...)
	if _, g2 := parseCold(enc); listDiff(got, g2) != "" {
		c.Violate("query|reencode|"+listDiff(got, g2), fmt.Sprintf("ParseBytes(%q) = %s; its QueryString() %q parses to %s", s, fmtList(got), enc, fmtList(g2)), cs)
		return
	}
	v2, err2 := url.ParseQuery(string(enc))
	if err2 != nil {
		c.Violate("query|neturl-rejects-encoding", fmt.Sprintf("ParseBytes(%q).QueryString() = %q which net/url rejects: %v", s, enc, err2), cs)
		return
	}
	if !mmEqual(valuesMinusEmpty(v2), gm) {
		c.Violate("query|neturl-differs-on-encoding", fmt.Sprintf("ParseBytes(%q) = %s; re-encoded %q; net/url reads %s", s, fmtList(got), enc, fmtMM(valuesMinusEmpty(v2))), cs)
		return
	}
	o := "query|n=" + strconv.Itoa(len(got))
	if err == nil {
		o += "|neturl-ok"
	}
	if slow {
		o += "|slow"
	}
	st.outcome(o)
}

// ---------------------------------------------------------------------------------------------
// URI

const dirtyURI = "https://OLD.host:1/old/%41path/?old=1&x&y=%20#oldhash"

func lower(s string) string {
	b := []byte(s)
	for i, c := range b {
		if c >= 'A' && c <= 'Z' {
			b[i] = c + 32
		}
	}
	return string(b)
}

func hasCTL(s string) bool {
	for i := 0; i < len(s); i++ {
		if s[i] < 0x20 || s[i] == 0x7f {
			return true
		}
	}
	return false
}

// plainPath: the setter's normalisation is the identity on it.
func plainPath(p string) bool {
	if p == "" || p[0] != '/' || strings.Contains(p, "%") || strings.Contains(p, "//") {
		return false
	}
	for _, seg := range strings.Split(p[1:], "/") {
		if seg == "." || seg == ".." {
			return false
		}
	}
	return true
}

func buildURI(uc *URICase) *protocol.URI {
	u := &protocol.URI{}
	hist, setter := uc.Hist, ""
	if i := strings.IndexByte(hist, '/'); i >= 0 {
		hist, setter = hist[:i], hist[i+1:] // the query is then replaced through SetQueryStringBytes / Update("?...")
	}
	setQuery := func(q string) {
		switch setter {
		case "bytes":
			u.SetQueryStringBytes([]byte(q))
		case "update":
			u.Update("?" + q)
		case "updatehash":
			u.Update("?" + q + "#fromref") // a relative reference "?query#fragment": the fragment is not part of the query
		default:
			u.SetQueryString(q)
		}
	}
	switch hist {
	case "reused":
		u.Parse(nil, []byte(dirtyURI))
	case "reused-args":
		u.Parse(nil, []byte(dirtyURI))
		_ = u.QueryArgs().Len() // a read: parses the old query string
	case "reused-add":
		u.Parse(nil, []byte(dirtyURI))
		u.QueryArgs().Add("zz", "1")
	}
	u.SetScheme(string(uc.Scheme))
	u.SetHost(string(uc.Host))
	u.DisablePathNormalizing = uc.NoNorm
	u.SetPath(string(uc.Path))
	switch uc.QMode {
	case "raw":
		setQuery(string(uc.Raw))
	case "raw-del":
		// the application removes every argument again: no query is left
		setQuery(string(uc.Raw))
		qa := u.QueryArgs()
		for _, p := range listOf(qa) {
			qa.Del(string(p.K))
		}
	case "args":
		setQuery("")
		qa := u.QueryArgs()
		qa.Reset()
		for _, p := range uc.Args {
			qa.Add(string(p.K), string(p.V))
		}
	default:
		setQuery("")
	}
	u.SetHash(string(uc.Hash))
	return u
}

// uriKey is the stable class of a URI failure: the situation that matters first, then the component.
func uriKey(uc *URICase, stage, comp string) string {
	switch {
	case hasCTL(string(uc.Hash)):
		return "uri|control-byte-in-fragment"
	case uc.QMode == "raw" && hasCTL(string(uc.Raw)):
		return "uri|control-byte-in-raw-query"
	case strings.HasPrefix(uc.Hist, "reused-a") && uc.QMode != "args" && strings.HasPrefix(comp, "query"):
		if i := strings.IndexByte(uc.Hist, '/'); i >= 0 {
			return "uri|query-set-through-" + uc.Hist[i+1:] + "-after-QueryArgs-use|" + stage
		}
		return "uri|SetQueryString-after-QueryArgs-use|" + stage
	}
	if uc.NoNorm {
		stage = "verbatim-path|" + stage
	}
	if comp == "" {
		return "uri|" + stage
	}
	return "uri|" + stage + "|" + comp
}

type uriView struct{ scheme, host, path, query, hash string }

func viewOf(u *protocol.URI) uriView {
	return uriView{string(u.Scheme()), string(u.Host()), string(u.Path()), string(u.QueryString()), string(u.Hash())}
}

func checkURI(c *mc.Ctx, st *stats, uc *URICase) {
	cs := &Case{Kind: "uri", URI: uc}
	defer guard(c, "uri", cs)
	st.exec++
	st.trans += 9
	if uc.Hist != "fresh" || needsCodec(strings.TrimPrefix(string(uc.Path), "/")) || needsCodec(string(uc.Hash)) || uc.QMode != "none" {
		st.nontrivial++
	}
	desc := func() string {
		q := fmt.Sprintf("raw query %q", string(uc.Raw))
		if uc.QMode == "raw-del" {
			q += " with every argument deleted again"
		}
		if uc.QMode == "args" {
			q = "query args " + fmtList(uc.Args)
		} else if uc.QMode == "none" {
			q = "no query"
		}
		if uc.NoNorm {
			q += ", DisablePathNormalizing"
		}
		return fmt.Sprintf("URI (%s) scheme=%q host=%q path=%q %s fragment=%q", uc.Hist, string(uc.Scheme), string(uc.Host), string(uc.Path), q, string(uc.Hash))
	}

	u := buildURI(uc)
	// what the setters were given (documented normalisation: scheme and host lower-cased, default scheme http)
	want := uriView{scheme: lower(string(uc.Scheme)), host: lower(string(uc.Host)), hash: string(uc.Hash)}
	if want.scheme == "" {
		want.scheme = "http"
	}
	if uc.QMode == "raw" {
		want.query = string(uc.Raw)
	}
	pre := viewOf(u)
	want.path = pre.path // the normalised path the object reports (normalisation itself is C07)
	if plainPath(string(uc.Path)) && pre.path != string(uc.Path) {
		c.Violate(uriKey(uc, "setter", "path"), fmt.Sprintf("%s: Path() after SetPath = %q", desc(), pre.path), cs)
		return
	}
	if pre.scheme != want.scheme || pre.host != want.host || pre.hash != want.hash || (uc.QMode != "args" && uc.QMode != "raw-del" && pre.query != want.query) {
		c.Violate(uriKey(uc, "setter", "other"), fmt.Sprintf("%s: getters after the setters show %+v, want %+v", desc(), pre, want), cs)
		return
	}
	wantArgs := dropEmpty(uc.Args)
	if uc.QMode != "args" {
		wantArgs = nil
	}

	full := append([]byte(nil), u.FullURI()...)
	if again := u.FullURI(); !bytes.Equal(again, full) {
		c.Violate(uriKey(uc, "format-unstable", ""), fmt.Sprintf("%s: FullURI()=%q, called again %q", desc(), full, again), cs)
		return
	}

	for _, warm := range []bool{false, true} {
		tag := "cold"
		p := &protocol.URI{}
		if warm {
			tag = "warm"
			p.Parse(nil, []byte(dirtyURI))
			_ = p.QueryArgs().Len()
			p.SetHash("stale")
		}
		scratch := append([]byte(nil), full...)
		p.Parse(nil, scratch)
		clobber(scratch)
		got := viewOf(p)
		comp := ""
		switch {
		case got.scheme != want.scheme:
			comp = "scheme"
		case got.host != want.host:
			comp = "host"
		case got.path != want.path:
			comp = "path"
		case uc.QMode != "args" && got.query != want.query:
			comp = "query"
		case got.hash != want.hash:
			comp = "fragment"
		}
		if comp != "" {
			c.Violate(uriKey(uc, "roundtrip-"+tag, comp), fmt.Sprintf("%s: FullURI()=%q; Parse of it gives %+v, want %+v", desc(), full, got, want), cs)
			return
		}
		p.DisablePathNormalizing = uc.NoNorm // a formatting option: the copy is formatted the way the original was
		full2 := append([]byte(nil), p.FullURI()...)
		if !bytes.Equal(full2, full) {
			c.Violate(uriKey(uc, "not-a-fixed-point-"+tag, ""), fmt.Sprintf("%s: FullURI()=%q; Parse + FullURI gives %q", desc(), full, full2), cs)
			return
		}
		if uc.QMode == "args" {
			ga := listOf(p.QueryArgs())
			if d := listDiff(wantArgs, ga); d != "" {
				c.Violate(uriKey(uc, "roundtrip-"+tag, "args-"+d), fmt.Sprintf("%s: FullURI()=%q; Parse(...).QueryArgs() = %s, want %s", desc(), full, fmtList(ga), fmtList(wantArgs)), cs)
				return
			}
			if len(wantArgs) == len(uc.Args) {
				// canonical encoding without empty entries: reading the args must not change the text
				if full3 := p.FullURI(); !bytes.Equal(full3, full) {
					c.Violate(uriKey(uc, "not-a-fixed-point-after-args-read-"+tag, ""), fmt.Sprintf("%s: FullURI()=%q; Parse + QueryArgs() + FullURI gives %q", desc(), full, full3), cs)
					return
				}
			}
		}
	}
	o := "uri|" + uc.Hist + "|" + uc.QMode
	if uc.Hash != "" {
		o += "|frag"
	}
	st.outcome(o)
}

// ---------------------------------------------------------------------------------------------
// cookies

const dirtyCookie = "old=oldvalue; max-age=77; expires=Tue, 10 Nov 2009 23:00:00 GMT; domain=old.example; path=/old/path; HttpOnly; secure; SameSite=Strict; Partitioned"

func (cc *CookieCase) expire() time.Time {
	if !cc.HasExp {
		return time.Time{}
	}
	t := time.Unix(cc.ExpUnix, 0).UTC()
	if cc.ExpZone != 0 {
		t = t.In(time.FixedZone("", cc.ExpZone))
	}
	return t
}

func buildCookie(cc *CookieCase, reused bool) *protocol.Cookie {
	ck := &protocol.Cookie{}
	if reused {
		_ = ck.ParseBytes([]byte(dirtyCookie))
		ck.Reset()
	}
	ck.SetKey(string(cc.Key))
	ck.SetValue(string(cc.Value))
	if cc.MaxAge != 0 {
		ck.SetMaxAge(cc.MaxAge)
	}
	if cc.HasExp {
		ck.SetExpire(cc.expire())
	}
	if cc.Domain != "" {
		ck.SetDomain(string(cc.Domain))
	}
	if cc.Path != "" {
		ck.SetPath(string(cc.Path))
	}
	ck.SetHTTPOnly(cc.HTTPOnly)
	ck.SetSecure(cc.Secure)
	ck.SetSameSite(protocol.CookieSameSite(cc.SameSite))
	ck.SetPartitioned(cc.Partitioned)
	return ck
}

// canary renders a few observations that depend only on package-level constants of hertz (the shared "/" slice,
// default method, protocol and content type): whatever an application does with its own objects, they must not change.
func canary() string {
	var u protocol.URI
	u.Parse(nil, []byte("http://canary.example"))
	var rh protocol.RequestHeader
	var ck protocol.Cookie
	ck.SetPath("/x/../..")
	var r protocol.Request
	r.SetRequestURI("http://canary.example")
	return fmt.Sprintf("uri.path=%q full=%q method=%q requri=%q cookie.path=%q req.path=%q", u.Path(), u.FullURI(), rh.Method(), rh.RequestURI(), ck.Path(), r.URI().Path())
}

var canary0 = canary()

type cookieView struct {
	Key, Value, Domain, Path string
	MaxAge                   int
	HasExp                   bool
	ExpUnix                  int64
	HTTPOnly, Secure, Part   bool
	SameSite                 int
}

func cookieViewOf(p *protocol.Cookie) cookieView {
	v := cookieView{Key: string(p.Key()), Value: string(p.Value()), Domain: string(p.Domain()), Path: string(p.Path()),
		MaxAge: p.MaxAge(), HTTPOnly: p.HTTPOnly(), Secure: p.Secure(), Part: p.Partitioned(), SameSite: int(p.SameSite())}
	if e := p.Expire(); !e.IsZero() {
		v.HasExp, v.ExpUnix = true, e.Unix()
	}
	return v
}

func cookieDiff(w, g cookieView) string {
	switch {
	case w.Key != g.Key:
		return "key"
	case w.Value != g.Value:
		return "value"
	case w.MaxAge != g.MaxAge:
		return "max-age"
	case w.HasExp != g.HasExp || w.ExpUnix != g.ExpUnix:
		return "expires"
	case w.Domain != g.Domain:
		return "domain"
	case w.Path != g.Path:
		return "path"
	case w.HTTPOnly != g.HTTPOnly:
		return "httponly"
	case w.Secure != g.Secure:
		return "secure"
	case w.SameSite != g.SameSite:
		return "samesite"
	case w.Part != g.Part:
		return "partitioned"
	}
	return ""
}

func isToken(s string) bool {
	if s == "" {
		return false
	}
	for i := 0; i < len(s); i++ {
		if !tchar(s[i]) {
			return false
		}
	}
	return true
}

func tchar(b byte) bool {
	if b >= '0' && b <= '9' || b >= 'a' && b <= 'z' || b >= 'A' && b <= 'Z' {
		return true
	}
	return strings.IndexByte("!#$%&'*+-.^_`|~", b) >= 0
}

// cookieOctet: what hertz's ValidCookieValueTable (and net/http) accept in a value.
func cookieOctet(b byte) bool {
	return b >= 0x20 && b < 0x7f && b != '"' && b != ';' && b != '\\'
}

// exoticBlank: the text holds HTAB or a byte above 0x7f (no-break space, ideographic space, ...). hertz's own round trip is
// demanded for such values; net/http sanitises them in its own way and is not consulted.
func exoticBlank(s string) bool {
	for i := 0; i < len(s); i++ {
		if s[i] == '\t' || s[i] >= 0x80 {
			return true
		}
	}
	return false
}

func checkCookie(c *mc.Ctx, st *stats, cc *CookieCase) {
	cs := &Case{Kind: "cookie", Cookie: cc}
	defer guard(c, "cookie", cs)
	st.exec++
	st.trans += 6
	attrs := ""
	if cc.MaxAge != 0 {
		attrs += "M"
	}
	if cc.HasExp {
		attrs += "E"
	}
	if cc.Domain != "" {
		attrs += "D"
	}
	if cc.Path != "" {
		attrs += "P"
	}
	if cc.HTTPOnly {
		attrs += "H"
	}
	if cc.Secure {
		attrs += "S"
	}
	if cc.SameSite != 0 {
		attrs += "s" + strconv.Itoa(cc.SameSite)
	}
	if cc.Partitioned {
		attrs += "p"
	}
	if attrs != "" {
		st.nontrivial++
	}

	want := cookieView{Key: string(cc.Key), Value: string(cc.Value), Domain: string(cc.Domain), Path: string(cc.Path),
		MaxAge: cc.MaxAge, HTTPOnly: cc.HTTPOnly, SameSite: cc.SameSite, Part: cc.Partitioned}
	// documented: SameSite=None and Partitioned also set Secure
	want.Secure = cc.Secure || cc.SameSite == int(protocol.CookieSameSiteNoneMode) || cc.Partitioned
	// documented: Max-Age takes precedence over (suppresses) Expires
	if cc.HasExp && cc.MaxAge <= 0 {
		want.HasExp, want.ExpUnix = true, cc.ExpUnix
	}
	desc := func() string {
		e := "-"
		if cc.HasExp {
			e = cc.expire().Format(time.RFC3339)
		}
		return fmt.Sprintf("cookie key=%q value=%q max-age=%d expires=%s domain=%q path=%q httponly=%v secure=%v samesite=%d partitioned=%v",
			string(cc.Key), string(cc.Value), cc.MaxAge, e, string(cc.Domain), string(cc.Path), cc.HTTPOnly, cc.Secure, cc.SameSite, cc.Partitioned)
	}

	if p := string(cc.Path); p == "/.." || p == "/a/../.." {
		want.Path = "/" // the path setter resolves dot segments (C07); these two climb to the root
	}
	ck := buildCookie(cc, false)
	if p := string(cc.Path); strings.Contains(p, "%") || strings.ContainsAny(p, ";\x01") || strings.HasSuffix(p, " ") {
		// the path setter decodes and resolves (C07), and bytes that cannot travel raw in a Set-Cookie line (';', a
		// blank at the end, a control byte) are kept escaped; what matters here is that the attribute the object
		// reports is the attribute a recipient reads back
		want.Path = string(ck.Path())
	}
	s := append([]byte(nil), ck.Cookie()...)
	defer func() {
		// the application recycles the object it built: parse something short into it, then look at process-wide state
		_ = ck.ParseBytes([]byte("k=v; path=x"))
		if now := canary(); now != canary0 {
			c.Violate("global-state|cookie", fmt.Sprintf("%s: after this cookie object was re-used for ParseBytes(%q), values derived from package-level constants changed process-wide: %s (was %s)", desc(), "k=v; path=x", now, canary0), cs)
		}
	}()
	if s2 := buildCookie(cc, true).Cookie(); !bytes.Equal(s, s2) {
		c.Violate("cookie|reset-incomplete", fmt.Sprintf("%s: built on a fresh Cookie gives %q, built on a Cookie that was parsed from %q and Reset() gives %q", desc(), s, dirtyCookie, s2), cs)
		return
	}
	for _, warm := range []bool{false, true} {
		tag := "cold"
		p := &protocol.Cookie{}
		if warm {
			tag = "warm"
			_ = p.ParseBytes([]byte(dirtyCookie))
		}
		scratch := append([]byte(nil), s...)
		if err := p.ParseBytes(scratch); err != nil {
			c.Violate("cookie|parse-error-"+tag+"|"+attrs, fmt.Sprintf("%s: Cookie()=%q; ParseBytes fails: %v", desc(), s, err), cs)
			return
		}
		clobber(scratch)
		got := cookieViewOf(p)
		if d := cookieDiff(want, got); d != "" {
			c.Violate("cookie|roundtrip-"+tag+"|"+d, fmt.Sprintf("%s: Cookie()=%q; ParseBytes gives %+v, want %+v", desc(), s, got, want), cs)
			return
		}
		if s3 := p.Cookie(); !bytes.Equal(s3, s) {
			c.Violate("cookie|not-a-fixed-point-"+tag, fmt.Sprintf("%s: Cookie()=%q; ParseBytes + Cookie() gives %q", desc(), s, s3), cs)
			return
		}
	}
	// a response header that receives the string as a Set-Cookie line files it under the cookie's key: the second
	// parser of the same string (getCookieKey) must find the key Cookie.ParseBytes finds
	{
		var rh protocol.ResponseHeader
		rh.Set("Set-Cookie", string(s))
		var keys []string
		rh.VisitAllCookie(func(k, v []byte) { keys = append(keys, string(k)) })
		if len(keys) != 1 || keys[0] != want.Key {
			c.Violate("cookie|header-files-under-another-key", fmt.Sprintf("%s: Cookie()=%q; a ResponseHeader that receives it as Set-Cookie files it under %q", desc(), s, keys), cs)
			return
		}
		p := &protocol.Cookie{}
		p.SetKey(want.Key)
		if !rh.Cookie(p) {
			c.Violate("cookie|header-lookup-fails", fmt.Sprintf("%s: Cookie()=%q; ResponseHeader.Cookie with the key %q does not find it", desc(), s, want.Key), cs)
			return
		}
		if d := cookieDiff(want, cookieViewOf(p)); d != "" {
			c.Violate("cookie|header-roundtrip|"+d, fmt.Sprintf("%s: Cookie()=%q; ResponseHeader.Cookie gives %+v, want %+v", desc(), s, cookieViewOf(p), want), cs)
			return
		}
	}
	// net/http reads the same cookie (names it accepts: non-empty tokens)
	if isToken(string(cc.Key)) && !exoticBlank(string(cc.Value)) && !exoticBlank(string(cc.Path)) && !exoticBlank(string(cc.Domain)) {
		hc, err := http.ParseSetCookie(string(s))
		if err != nil {
			c.Violate("cookie|nethttp-rejects", fmt.Sprintf("%s: Cookie()=%q; net/http.ParseSetCookie: %v", desc(), s, err), cs)
			return
		}
		st.nethttpCompared++
		got := cookieView{Key: hc.Name, Value: hc.Value, Domain: hc.Domain, Path: hc.Path, MaxAge: hc.MaxAge,
			HTTPOnly: hc.HttpOnly, Secure: hc.Secure, Part: hc.Partitioned, SameSite: int(hc.SameSite)}
		if !hc.Expires.IsZero() {
			got.HasExp, got.ExpUnix = true, hc.Expires.Unix()
		}
		if d := cookieDiff(want, got); d != "" {
			c.Violate("cookie|nethttp-differs|"+d, fmt.Sprintf("%s: Cookie()=%q; net/http reads %+v, want %+v", desc(), s, got, want), cs)
			return
		}
	}
	st.outcome("cookie|" + attrs)
}

// ---------------------------------------------------------------------------------------------
// enumeration

var hostile = []string{"a", "%", "+", "&", "=", ";", " ", "4", "1", "\x00", "\xff"}

// softLimit keeps the thorough tier inside its 15 minute budget on a loaded machine.
const softLimit = 13 * time.Minute

func expired(c *mc.Ctx, n int64) bool {
	if n&0x3ff != 0 {
		return false
	}
	if c.Expired() {
		return true
	}
	if time.Since(c.Start) > softLimit {
		c.Cap("13 minute budget of the check used up; bounds completed are in the executions_* counters")
		return true
	}
	return false
}

func enumArgs(c *mc.Ctx) {
	thorough := c.Thorough()
	// A1: one pair, key and value over short hostile strings
	s2 := stringsUpTo(hostile, 2)
	s3 := stringsUpTo(hostile, 3)
	keys, vals := s3, s2
	kn, vn := 3, 2
	if thorough {
		vals, vn = stringsUpTo(hostile, 4), 4
	}
	c.ParallelFor(len(keys), func(i int) {
		st := newStats()
		defer st.flush(c)
		for _, v := range vals {
			if expired(c, st.exec) {
				return
			}
			checkArgs(c, st, "add", []Pair{{Q(keys[i]), Q(v)}})
			if !thorough && len(keys[i]) == 3 {
				// quick tier: the transposed pair covers (key <= 2, value <= 3)
				checkArgs(c, st, "add", []Pair{{Q(v), Q(keys[i])}})
			}
		}
	})
	c.Extra("args_single_pair_key_len", kn)
	c.Extra("args_single_pair_value_len", vn)

	// A1b: one pair over all single bytes (and the empty string)
	all := []string{""}
	for b := 0; b < 256; b++ {
		all = append(all, string([]byte{byte(b)}))
	}
	c.ParallelFor(len(all), func(i int) {
		st := newStats()
		defer st.flush(c)
		for _, v := range all {
			checkArgs(c, st, "add", []Pair{{Q(all[i]), Q(v)}})
			checkArgs(c, st, "set", []Pair{{Q(all[i]), Q(v)}, {Q(v), Q(all[i])}})
		}
	})

	// A2: ordered two-pair lists: one pair wide (key <= 2, value <= 1; thorough value <= 2), the other over
	// <= 1 symbol, in both orders
	s1 := stringsUpTo(hostile, 1)
	wv := s1
	if thorough {
		wv = s2
	}
	var wide, narrow []Pair
	for _, k := range s2 {
		for _, v := range wv {
			wide = append(wide, Pair{Q(k), Q(v)})
		}
	}
	for _, k := range s1 {
		for _, v := range s1 {
			narrow = append(narrow, Pair{Q(k), Q(v)})
		}
	}
	c.ParallelFor(len(wide), func(i int) {
		st := newStats()
		defer st.flush(c)
		for _, nb := range narrow {
			if expired(c, st.exec) {
				return
			}
			checkArgs(c, st, "add", []Pair{wide[i], nb})
			checkArgs(c, st, "add", []Pair{nb, wide[i]})
		}
	})
	c.Extra("args_two_pair_lists", 2*len(wide)*len(narrow))

	// A3: lists of <= 5 pairs over a 9-pair alphabet, Add and Set (duplicates, empty entries)
	var alpha []Pair
	for _, k := range []string{"a", "b", ""} {
		for _, v := range []string{"", "a", "%"} {
			alpha = append(alpha, Pair{Q(k), Q(v)})
		}
	}
	maxLen := 5
	if thorough {
		maxLen = 6
	}
	c.ParallelFor(len(alpha)*len(alpha), func(i int) {
		st := newStats()
		defer st.flush(c)
		pre := []Pair{alpha[i/len(alpha)], alpha[i%len(alpha)]}
		if i == 0 {
			for _, m := range []string{"add", "set"} {
				checkArgs(c, st, m, nil)
				for _, p := range alpha {
					checkArgs(c, st, m, []Pair{p})
				}
			}
		}
		var rec func(l []Pair)
		rec = func(l []Pair) {
			cp := append([]Pair(nil), l...)
			checkArgs(c, st, "add", cp)
			checkArgs(c, st, "set", cp)
			if len(l) == maxLen || expired(c, st.exec) {
				return
			}
			for _, p := range alpha {
				rec(append(l, p))
			}
		}
		rec(pre)
	})
	c.Extra("args_list_max_len", maxLen)
}

var (
	queryTokens    = []string{"a", "=", "&", "%", "%4", "%41", "%zz", "+", ";"}
	queryTokensExt = []string{"a", "=", "&", "%", "%4", "%41", "%zz", "+", ";", "%26", "%3d", "%2B"}
)

func enumQueryOver(c *mc.Ctx, toks []string, maxTok int) {
	n := len(toks)
	c.ParallelFor(n*n+n+1, func(i int) {
		st := newStats()
		defer st.flush(c)
		var pre string
		depth := 0
		switch {
		case i == 0:
		case i <= n:
			pre, depth = toks[i-1], 1
		default:
			j := i - n - 1
			pre, depth = toks[j/n]+toks[j%n], 2
		}
		var rec func(s string, d int)
		rec = func(s string, d int) {
			checkQuery(c, st, s)
			if d < 2 || d == maxTok || expired(c, st.exec) {
				return
			}
			for _, t := range toks {
				rec(s+t, d+1)
			}
		}
		rec(pre, depth)
	})
}

func enumQuery(c *mc.Ctx) {
	nb, ne := 6, 5
	if c.Thorough() {
		nb, ne = 7, 7 // the base alphabet is a subset of the extended one
	} else {
		enumQueryOver(c, queryTokens, nb)
	}
	enumQueryOver(c, queryTokensExt, ne)
	c.Extra("query_max_tokens_base", nb)
	c.Extra("query_max_tokens_ext", ne)
}

var (
	schemes = []string{"http", "https", "HTTP", ""}
	hosts   = []string{"h", "h:8080", "[::1]:80", "H.Example.COM", "[FE80::1]"}
	hists   = []string{"fresh", "reused", "reused-args", "reused-add", "reused-args/bytes", "reused-args/update", "reused-add/bytes", "reused/updatehash"}
)

type uriCtx struct {
	path, raw, hash string
	args            []Pair
	qmode           string
	nonorm          bool
}

func enumURI(c *mc.Ctx) {
	thorough := c.Thorough()
	n := 3
	joint := 1
	if thorough {
		n, joint = 4, 2
	}
	pathAlpha := append(append([]string(nil), hostile...), "/", ".", "?", "#", "%25") // %25: the decoded path holds a literal '%' (followed by hex digits: "%41")
	hashAlpha := append(append([]string(nil), hostile...), "#", "?", "/")
	rawAlpha := []string{"a", "%", "+", "&", "=", ";", " ", "4", "1", "\xff", "?"}
	argAlpha := append(append([]string(nil), hostile...), "#", "?", "/")

	type shape struct{ scheme, host, hist string }
	var shapes []shape
	for _, s := range schemes {
		for _, h := range hosts {
			shapes = append(shapes, shape{s, h, "fresh"})
		}
	}
	for _, hi := range hists[1:] {
		// the object's history interacts with the query / fragment state, not with scheme and host
		shapes = append(shapes, shape{"https", "h:8080", hi}, shape{"", "[FE80::1]:80", hi})
	}
	run := func(tag string, cases []uriCtx, shapes []shape) {
		c.ParallelFor(len(cases), func(i int) {
			st := newStats()
			defer st.flush(c)
			x := cases[i]
			for _, sh := range shapes {
				if expired(c, st.exec) {
					return
				}
				checkURI(c, st, &URICase{Hist: sh.hist, Scheme: Q(sh.scheme), Host: Q(sh.host), Path: Q(x.path), QMode: x.qmode, Raw: Q(x.raw), Args: x.args, Hash: Q(x.hash), NoNorm: x.nonorm})
			}
		})
		c.Extra("uri_"+tag+"_cases", len(cases)*len(shapes))
	}
	ctxPaths := []string{"/", "/a/b", "", "/a%2fb/../c d"}
	ctxHash := []string{"", "f", "a?b#c", "%41 +"}
	type qv struct {
		mode, raw string
		args      []Pair
	}
	ctxQuery := []qv{{"none", "", nil}, {"raw", "a=1&b", nil}, {"raw-del", "a=1&b", nil}, {"raw-del", "token=s3cret", nil}, {"raw", "%41=%zz&+", nil}, {"args", "", []Pair{{"k", "v w"}, {"k", "&=#"}}}}

	var cases []uriCtx
	for _, p := range stringsUpTo(pathAlpha, n) {
		for _, q := range ctxQuery {
			for _, h := range ctxHash {
				cases = append(cases, uriCtx{path: p, qmode: q.mode, raw: q.raw, args: q.args, hash: h})
			}
		}
	}
	run("path", cases, shapes)

	cases = nil
	for _, h := range stringsUpTo(hashAlpha, n) {
		for _, p := range ctxPaths {
			for _, q := range ctxQuery {
				cases = append(cases, uriCtx{path: p, qmode: q.mode, raw: q.raw, args: q.args, hash: h})
			}
		}
	}
	run("fragment", cases, shapes)

	cases = nil
	for _, r := range stringsUpTo(rawAlpha, n) {
		for _, p := range ctxPaths {
			for _, h := range ctxHash {
				cases = append(cases, uriCtx{path: p, qmode: "raw", raw: r, hash: h})
			}
		}
	}
	run("rawquery", cases, shapes)

	cases = nil
	a1 := stringsUpTo(argAlpha, 1)
	kl := stringsUpTo(argAlpha, n-1)
	for _, k := range kl {
		for _, v := range a1 {
			lists := [][]Pair{{{Q(k), Q(v)}}, {{Q(v), Q(k)}}, {{Q(k), Q(v)}, {"a", "1"}}, {{"a", ""}, {Q(k), Q(v)}, {Q(k), "2"}}}
			for _, l := range lists {
				for _, p := range ctxPaths[1:2] {
					for _, h := range ctxHash[1:3] {
						cases = append(cases, uriCtx{path: p, qmode: "args", args: l, hash: h})
					}
				}
			}
		}
	}
	run("queryargs", cases, shapes)

	cases = nil
	for _, p := range stringsUpTo(pathAlpha, joint) {
		for _, r := range stringsUpTo(rawAlpha, joint) {
			for _, h := range stringsUpTo(hashAlpha, joint) {
				cases = append(cases, uriCtx{path: "/" + p, qmode: "raw", raw: r, hash: h})
			}
		}
	}
	js := shapes
	if thorough {
		js = []shape{{"http", "h", "fresh"}, {"https", "h:8080", "reused-args"}}
	}
	run("joint", cases, js)

	// DisablePathNormalizing: the path is in wire form already (unreserved bytes, escapes, sub-delimiters) and is formatted
	// verbatim; with or without its leading slash it must stay the path and must not run into the host
	wireAlpha := []string{"a", "/", ".", "%41", "%2f", "4", ":", "@", "~", "%"}
	cases = nil
	for _, p := range stringsUpTo(wireAlpha, n+1) {
		for _, q := range ctxQuery[:2] {
			for _, h := range ctxHash[:2] {
				cases = append(cases, uriCtx{path: p, qmode: q.mode, raw: q.raw, hash: h, nonorm: true})
			}
		}
	}
	run("verbatim", cases, shapes[:len(schemes)*len(hosts)])
	c.Extra("uri_component_max_symbols", n)
	c.Extra("uri_joint_max_symbols", joint)
}

type instant struct {
	unix int64
	zone int
}

func enumCookies(c *mc.Ctx) {
	thorough := c.Thorough()
	var octets, toks []string
	for b := 0; b < 256; b++ {
		if cookieOctet(byte(b)) {
			octets = append(octets, string([]byte{byte(b)}))
		}
		if tchar(byte(b)) {
			toks = append(toks, string([]byte{byte(b)}))
		}
	}
	instants := []instant{
		{protocol.CookieExpireDelete.Unix(), 0},
		{0, 0},
		{time.Date(2024, 2, 29, 12, 34, 56, 0, time.UTC).Unix(), 8 * 3600},
		{time.Date(9999, 12, 31, 23, 59, 59, 0, time.UTC).Unix(), 0},
		{time.Date(2038, 1, 19, 3, 14, 8, 0, time.UTC).Unix(), -5 * 3600},
	}
	trimmed := func(s string) bool {
		return s == "" || (s[0] != ' ' && s[len(s)-1] != ' ')
	}
	// a few attribute sets used with the wide key/value enumerations
	shapes := []CookieCase{
		{},
		{MaxAge: 3600, HasExp: true, ExpUnix: instants[0].unix, Domain: "example.com", Path: "/a/b", HTTPOnly: true, Secure: true, SameSite: 3, Partitioned: true},
		{HasExp: true, ExpUnix: instants[2].unix, ExpZone: instants[2].zone, SameSite: 4},
		{MaxAge: 1, Path: "/", SameSite: 1},
	}
	with := func(sh CookieCase, k, v string) *CookieCase {
		cc := sh
		cc.Key, cc.Value = Q(k), Q(v)
		return &cc
	}

	// D1: values over all strings of <= 2 (3) cookie octets
	vn := 2
	if thorough {
		vn = 3
	}
	first := stringsUpTo(octets, 1)
	rest := stringsUpTo(octets, vn-1)
	c.ParallelFor(len(first), func(i int) {
		st := newStats()
		defer st.flush(c)
		for _, r := range rest {
			v := first[i] + r
			if (first[i] == "" && r != "") || !trimmed(v) {
				continue
			}
			if expired(c, st.exec) {
				return
			}
			for _, sh := range shapes {
				checkCookie(c, st, with(sh, "k", v))
			}
			if v != "" && !strings.Contains(v, "=") {
				checkCookie(c, st, with(shapes[0], "", v))
				checkCookie(c, st, with(shapes[1], "", v))
			}
		}
	})
	c.Extra("cookie_value_max_len", vn)

	// D2: keys over all tokens of <= 2 characters, with values that look like syntax
	keys := append(stringsUpTo(toks, 2)[1:], "Path", "secure", "__Host-x", "max-age", "SameSite", "expires")
	c.ParallelFor(len(keys), func(i int) {
		st := newStats()
		defer st.flush(c)
		for _, v := range []string{"", "v", "a=b", "x y,z", "=", "HttpOnly"} {
			for _, sh := range shapes {
				checkCookie(c, st, with(sh, keys[i], v))
			}
		}
	})

	// D3: every attribute combination
	type kvp struct{ k, v string }
	kvs := []kvp{{"k", "v"}, {"K.1", "a=b c,d"}, {"", "v"}, {"k", ""}, {"k", " v"}, {"k", "v "}, {"k", " "}, {"", "a=b"}, {"", "dG9rZW4="}, {"", "=a"},
		// other blanks at the edges (HTAB, no-break space, ideographic space, next line): only SP is optional whitespace there
		{"k", "a\t"}, {"k", "\ta"}, {"k", "10\u00a0"}, {"k", "\u3000x"}, {"k", "x\u0085"}, {"k\u00a0", "v"}}
	maxAges := []int{0, 1, 86400, 2147483647}
	domains := []string{"", "example.com", ".Sub.Example.COM"}
	paths := []string{"", "/", "/a/B c", "/..", "/a/../..", "/a%3Bb", "/x%20", "/p%3B%20Domain=evil.example", "/dir\u00a0", "/dir%09",
		// the same bytes handed over raw
		"/app;v=1", "/p; Domain=evil.example", "/my files ", "/c\x01d"}
	var combos []CookieCase
	for _, ma := range maxAges {
		for e := -1; e < len(instants); e++ {
			for _, d := range domains {
				for _, p := range paths {
					for flags := 0; flags < 8; flags++ {
						for ss := 0; ss <= 4; ss++ {
							cc := CookieCase{MaxAge: ma, Domain: Q(d), Path: Q(p), HTTPOnly: flags&1 != 0, Secure: flags&2 != 0, Partitioned: flags&4 != 0, SameSite: ss}
							if e >= 0 {
								cc.HasExp, cc.ExpUnix, cc.ExpZone = true, instants[e].unix, instants[e].zone
							}
							combos = append(combos, cc)
						}
					}
				}
			}
		}
	}
	c.ParallelFor(len(combos), func(i int) {
		st := newStats()
		defer st.flush(c)
		for _, kv := range kvs {
			checkCookie(c, st, with(combos[i], kv.k, kv.v))
		}
	})
	c.Extra("cookie_attribute_combinations", len(combos))

	// D4: Domain and Path over single cookie octets
	c.ParallelFor(len(octets), func(i int) {
		st := newStats()
		defer st.flush(c)
		o := octets[i]
		if o == " " {
			return
		}
		for _, o2 := range octets {
			if o2 == " " {
				continue
			}
			cc := CookieCase{Key: "k", Value: "v", Domain: Q(o + o2), HTTPOnly: true}
			if p := "/" + o + "x" + o2; plainPath(p) {
				cc.Path = Q(p)
			}
			checkCookie(c, st, &cc)
		}
	})

	// D5: expiry instants 1970..2100 in steps of 1d 1h 1m 1s (every weekday, month, hour, minute, second value occurs)
	const step = 86400 + 3600 + 60 + 1
	end := time.Date(2100, 1, 1, 0, 0, 0, 0, time.UTC).Unix()
	ninst := int(end/step) + 1
	if thorough {
		// additionally every second of the day around a leap day and a year end
		ninst += 2 * 86400
	}
	base := int(end/step) + 1
	leap := time.Date(2024, 2, 28, 12, 0, 0, 0, time.UTC).Unix()
	yearEnd := time.Date(1999, 12, 31, 12, 0, 0, 0, time.UTC).Unix()
	c.ParallelFor((ninst+255)/256, func(blk int) {
		st := newStats()
		defer st.flush(c)
		for j := blk * 256; j < (blk+1)*256 && j < ninst; j++ {
			var u int64
			switch {
			case j < base:
				u = int64(j) * step
			case j < base+86400:
				u = leap + int64(j-base)
			default:
				u = yearEnd + int64(j-base-86400)
			}
			zone := []int{0, 3600, -8 * 3600, 5*3600 + 1800}[j%4]
			checkCookie(c, st, &CookieCase{Key: "k", Value: "v", HasExp: true, ExpUnix: u, ExpZone: zone, Secure: j%2 == 0})
		}
	})
	c.Extra("cookie_expiry_instants", ninst)
}

var sampleOnce sync.Once

func run(c *mc.Ctx) {
	sampleOnce.Do(func() {
		c.Sample(Case{Kind: "args", Mode: "add", Pairs: []Pair{{"a%", "+&"}, {"", "\x00\xff"}}})
		c.Sample(Case{Kind: "query", Query: "%41=%zz&+;%4"})
		c.Sample(Case{Kind: "uri", URI: &URICase{Hist: "reused-args", Scheme: "HTTP", Host: "[::1]:80", Path: "/a%2f../;\xff", QMode: "raw", Raw: "a=%41&+", Hash: "#?\x00"}})
		c.Sample(Case{Kind: "cookie", Cookie: &CookieCase{Key: "k", Value: "a=b c", MaxAge: 1, HasExp: true, ExpUnix: protocol.CookieExpireDelete.Unix(), Domain: "example.com", Path: "/", HTTPOnly: true, SameSite: 4}})
	})
	for _, part := range []struct {
		name string
		f    func(*mc.Ctx)
	}{{"args", enumArgs}, {"query", enumQuery}, {"uri", enumURI}, {"cookies", enumCookies}} {
		t0 := time.Now()
		e0 := c.Get("executions")
		part.f(c)
		c.Extra("executions_"+part.name, c.Get("executions")-e0)
		c.Extra("wall_s_"+part.name, float64(int(time.Since(t0).Seconds()*10))/10)
	}
}

func replay(c *mc.Ctx, raw json.RawMessage) {
	var cs Case
	if json.Unmarshal(raw, &cs) != nil {
		return
	}
	st := newStats()
	switch cs.Kind {
	case "args":
		checkArgs(c, st, cs.Mode, cs.Pairs)
	case "query":
		checkQuery(c, st, string(cs.Query))
	case "uri":
		if cs.URI != nil {
			checkURI(c, st, cs.URI)
		}
	case "cookie":
		if cs.Cookie != nil {
			checkCookie(c, st, cs.Cookie)
		}
	}
}
