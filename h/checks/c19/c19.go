// Package c19: tracer start/finish calls pair up exactly once per request, in causal order.
// All connection histories of up to 3 requests over 7 per-request outcomes x end of connection
// x idle handling (in-loop vs return-to-poller) x trace level x buffered/streaming x delivery,
// on the real engine with a recording tracer.
package c19

import (
	"bytes"
	"context"
	"encoding/json"
	"fmt"
	"github.com/cloudwego/hertz/pkg/protocol/http1"
	"strings"
	"sync/atomic"
	"time"

	"github.com/cloudwego/hertz/pkg/app"
	"github.com/cloudwego/hertz/pkg/app/middlewares/server/recovery"
	"github.com/cloudwego/hertz/pkg/common/config"
	"github.com/cloudwego/hertz/pkg/common/tracer/stats"
	"github.com/cloudwego/hertz/pkg/common/tracer/traceinfo"
	"github.com/cloudwego/hertz/pkg/network"

	"verifh/mc"
	"verifh/netsim"
	"verifh/srvh"
)

var Check = &mc.Check{
	ID:    "C19",
	Level: "model_checking",
	Rule: "histories = all strings of 1..3 (thorough 1..6) per-request outcomes over {ok, handler panic + recovery, handler installs its own trace info, malformed header, body too large, peer closes mid-body, write error, hijack} (a terminal outcome ends the string) x end of connection {peer EOF, idle time-out, Connection: close on the last request} x idle handling {IdleTimeout>0 in-loop, IdleTimeout==0 re-entry per request} x trace level {disabled, base, detailed} x {buffered, streaming} x delivery {pipelined in one read, one read per request}; " +
		"non-trivial = histories with more than one request or a failing outcome",
	Run:         run,
	Replay:      replay,
	Assumptions: []string{"IdleTimeout==0 models the hertz-side behaviour of a poller-driven transport: the harness re-enters Serve while input remains", "stage order is judged on the recorded event times (monotonic clock, one goroutine)"},
}

const outcomes = "oPtmLcwh" // ok, Panic, own trace info installed by the handler, malformed, Large, close mid-body, write error, hijack

func terminal(o byte) bool { return strings.IndexByte("mLcwh", o) >= 0 }

type Case struct {
	Hist      string `json:"hist"`
	End       string `json:"end"` // eof | idle | close
	NoIdle    bool   `json:"no_idle"`
	Detailed  bool   `json:"detailed"`
	Streaming bool   `json:"streaming"`
	Split     bool   `json:"split"` // one read per request instead of pipelined
	// NoPool: served with the request-context pool switched off (what HERTZ_DISABLE_REQUEST_CONTEXT_POOL=true does):
	// every connection works on a context of its own that does not come out of the engine's pool
	NoPool bool `json:"no_pool,omitempty"`
	// Disabled: trace level LevelDisabled with a tracer registered: no stage events, but Start and Finish still bracket every request
	Disabled bool `json:"disabled,omitempty"`
}

type entry struct {
	kind   byte // 'S' | 'F'
	path   string
	events map[string]time.Time
	hasErr bool
}

type recTracer struct{ log *[]entry }

var stageEvents = []struct {
	name string
	ev   stats.Event
}{
	{"HTTPStart", stats.HTTPStart}, {"ReadHeaderStart", stats.ReadHeaderStart}, {"ReadHeaderFinish", stats.ReadHeaderFinish},
	{"ReadBodyStart", stats.ReadBodyStart}, {"ReadBodyFinish", stats.ReadBodyFinish}, {"ServerHandleStart", stats.ServerHandleStart},
	{"ServerHandleFinish", stats.ServerHandleFinish}, {"WriteStart", stats.WriteStart}, {"WriteFinish", stats.WriteFinish}, {"HTTPFinish", stats.HTTPFinish},
}

func (t recTracer) Start(ctx context.Context, c *app.RequestContext) context.Context {
	*t.log = append(*t.log, entry{kind: 'S'})
	return ctx
}

func (t recTracer) Finish(ctx context.Context, c *app.RequestContext) {
	e := entry{kind: 'F', events: map[string]time.Time{}}
	e.path = string(c.Request.URI().Path())
	if ti := c.GetTraceInfo(); ti != nil {
		st := ti.Stats()
		for _, se := range stageEvents {
			if ev := st.GetEvent(se.ev); ev != nil && !ev.IsNil() {
				e.events[se.name] = ev.Time()
			}
		}
		e.hasErr = st.Error() != nil
	}
	*t.log = append(*t.log, e)
}

type worker struct {
	servers map[string]*srvh.Server
	logs    map[string]*[]entry
}

func (w *worker) server(cs Case) (*srvh.Server, *[]entry) {
	k := fmt.Sprintf("%v/%v/%v/%v", cs.NoIdle, cs.Detailed, cs.Streaming, cs.Disabled)
	if s := w.servers[k]; s != nil {
		return s, w.logs[k]
	}
	lg := &[]entry{}
	s := srvh.New(srvh.Opts{Streaming: cs.Streaming, NoIdle: cs.NoIdle, MaxBody: 64, Mods: []func(o *config.Options){func(o *config.Options) {
		o.Tracers = append(o.Tracers, recTracer{lg})
		switch {
		case cs.Disabled:
			o.TraceLevel = stats.LevelDisabled
		case cs.Detailed:
			o.TraceLevel = stats.LevelDetailed
		default:
			o.TraceLevel = stats.LevelBase
		}
	}}})
	s.E.Use(recovery.Recovery())
	h := func(c context.Context, ctx *app.RequestContext) {
		p := string(ctx.Request.URI().Path())
		ctx.SetStatusCode(200)
		ctx.Response.SetBodyString("ok:" + p)
		switch {
		case strings.HasSuffix(p, "/P"):
			panic("boom")
		case strings.HasSuffix(p, "/w"):
			s.Conn.WriteFailAt = len(s.Conn.Out) + 1
		case strings.HasSuffix(p, "/h"):
			ctx.Hijack(func(conn network.Conn) {})
		case strings.HasSuffix(p, "/t"):
			// the handler installs a trace info of its own (what a tracing middleware of another vendor does)
			ti := traceinfo.NewTraceInfo()
			ti.Stats().SetLevel(stats.LevelDetailed)
			ctx.SetTraceInfo(ti)
		}
		if ctx.Request.IsBodyStream() {
			buf := make([]byte, 256)
			for {
				if _, err := ctx.RequestBodyStream().Read(buf); err != nil {
					break
				}
			}
		}
	}
	s.E.Any("/*any", h)
	s.Start()
	w.servers[k], w.logs[k] = s, lg
	return s, lg
}

func build(cs Case) [][]byte {
	var segs [][]byte
	var cur bytes.Buffer
	for i := 0; i < len(cs.Hist); i++ {
		o := cs.Hist[i]
		last := i == len(cs.Hist)-1
		closeHdr := ""
		if last && cs.End == "close" {
			closeHdr = "Connection: close\r\n"
		}
		path := fmt.Sprintf("/r%d/%c", i, o)
		switch o {
		case 'o', 'P', 'w', 'h', 't':
			fmt.Fprintf(&cur, "POST %s HTTP/1.1\r\nHost: h\r\n%sContent-Length: 3\r\n\r\nabc", path, closeHdr)
		case 'm':
			fmt.Fprintf(&cur, "GET %s HTTP/1.1\r\nHost: h\r\nBad Header Line\r\n\r\n", path)
		case 'L':
			fmt.Fprintf(&cur, "POST %s HTTP/1.1\r\nHost: h\r\nContent-Length: 100\r\n\r\n%s", path, strings.Repeat("x", 100))
		case 'c':
			fmt.Fprintf(&cur, "POST %s HTTP/1.1\r\nHost: h\r\nContent-Length: 50\r\n\r\nabc", path)
		}
		if cs.Split {
			segs = append(segs, append([]byte(nil), cur.Bytes()...))
			cur.Reset()
		}
	}
	if cur.Len() > 0 {
		segs = append(segs, cur.Bytes())
	}
	return segs
}

func (w *worker) exec(c *mc.Ctx, cs Case) {
	s, lg := w.server(cs)
	*lg = (*lg)[:0]
	end := netsim.EndEOF
	if cs.End == "idle" {
		end = netsim.EndTimeout
	}
	if strings.HasSuffix(cs.Hist, "c") {
		end = netsim.EndEOF // the peer closes in the middle of the body
	}
	res := s.Run(build(cs), end, nil)
	fail := func(kind, msg string) {
		var seq []byte
		for _, e := range *lg {
			seq = append(seq, e.kind)
		}
		mode := "in-loop"
		if cs.NoIdle {
			mode = "re-entry"
		}
		c.Violate(fmt.Sprintf("%s|idle=%s|last=%c|end=%s%s", kind, mode, cs.Hist[len(cs.Hist)-1], cs.End, map[bool]string{false: "", true: "|context-pool-off"}[cs.NoPool]),
			fmt.Sprintf("%s\nhistory=%q end=%s mode=%s detailed=%v streaming=%v split=%v\ntracer calls: %s (Serve returned %v)", msg, cs.Hist, cs.End, mode, cs.Detailed, cs.Streaming, cs.Split, seq, res.Err), cs)
	}
	if res.Panic != nil {
		fail("panic", fmt.Sprintf("panic escaped: %v", res.Panic))
		return
	}
	log := *lg
	c.Distinct("outcomes", fmt.Sprintf("calls=%d|err=%v|closed=%v|out=%dB", len(log), res.Err, res.Closed, len(res.Out)))
	// strict alternation starting with S
	for i, e := range log {
		want := byte('S')
		if i%2 == 1 {
			want = 'F'
		}
		if e.kind != want {
			if e.kind == 'F' {
				fail("finish-without-start", fmt.Sprintf("tracer call %d is a Finish with no preceding unmatched Start", i))
			} else {
				fail("start-without-finish", fmt.Sprintf("tracer call %d is a Start while the previous Start has not been finished", i))
			}
			return
		}
	}
	if len(log)%2 == 1 {
		fail("start-without-finish", "the last Start was never finished")
		return
	}
	if pairs := len(log) / 2; pairs != len(cs.Hist) {
		fail("pair-count", fmt.Sprintf("%d start/finish pairs for %d requests", pairs, len(cs.Hist)))
		return
	}
	for i := 0; i < len(cs.Hist); i++ {
		f := log[2*i+1]
		o := cs.Hist[i]
		if strings.IndexByte("oPwht", o) >= 0 { // requests that reached a handler: the Finish must carry their data
			if want := fmt.Sprintf("/r%d/%c", i, o); f.path != want {
				fail("finish-data", fmt.Sprintf("Finish %d carries request path %q, the request it brackets is %q", i, f.path, want))
				return
			}
		}
		if o == 't' || cs.Disabled {
			continue // the stage events live in the trace info the handler replaced / are not recorded at this level
		}
		// stage order
		var prev time.Time
		prevName := ""
		for _, se := range stageEvents {
			t, ok := f.events[se.name]
			if !ok {
				continue
			}
			if prevName != "" && t.Before(prev) {
				fail("stage-order", fmt.Sprintf("pair %d: %s is recorded before %s", i, se.name, prevName))
				return
			}
			prev, prevName = t, se.name
		}
		if _, ok := f.events["HTTPStart"]; !ok {
			fail("stage-missing", fmt.Sprintf("pair %d: HTTPStart not recorded at Finish", i))
			return
		}
		if _, ok := f.events["HTTPFinish"]; !ok {
			fail("stage-missing", fmt.Sprintf("pair %d: HTTPFinish not recorded at Finish", i))
			return
		}
		for _, st := range []string{"ReadHeader", "ReadBody", "ServerHandle", "Write"} {
			_, a := f.events[st+"Start"]
			_, b := f.events[st+"Finish"]
			if a && !b {
				fail("stage-unfinished", fmt.Sprintf("pair %d (outcome %c): stage %s was started but is not finished when Finish is delivered", i, o, st))
				return
			}
			if b && !a {
				fail("stage-unstarted", fmt.Sprintf("pair %d (outcome %c): stage %s has a finish event but no start event (stale data?)", i, o, st))
				return
			}
			if !cs.Detailed && (a || b) {
				fail("level", fmt.Sprintf("pair %d: detailed stage %s recorded at base level", i, st))
				return
			}
		}
		if cs.Detailed && (o == 'o' || o == 'P') {
			for _, st := range []string{"ReadHeaderStart", "ReadBodyFinish", "ServerHandleStart", "ServerHandleFinish", "WriteStart", "WriteFinish"} {
				if _, ok := f.events[st]; !ok {
					fail("stage-missing", fmt.Sprintf("pair %d (outcome %c): %s not recorded for a completely handled request", i, o, st))
					return
				}
			}
		}
	}
}

func histories(maxLen int) []string {
	var out []string
	var rec func(s string)
	rec = func(s string) {
		if s != "" {
			out = append(out, s)
		}
		if len(s) == maxLen || (s != "" && terminal(s[len(s)-1])) {
			return
		}
		for i := 0; i < len(outcomes); i++ {
			rec(s + string(outcomes[i]))
		}
	}
	rec("")
	return out
}

func run(c *mc.Ctx) {
	maxLen := 3
	if c.Thorough() {
		maxLen = 6
	}
	hs := histories(maxLen)
	c.Extra("max_requests_per_connection", maxLen)
	c.Extra("histories", len(hs))
	var cases []Case
	for _, h := range hs {
		for _, end := range []string{"eof", "idle", "close"} {
			if end == "close" && terminal(h[len(h)-1]) && h[len(h)-1] != 'w' && h[len(h)-1] != 'h' {
				continue
			}
			for _, ni := range []bool{false, true} {
				for _, det := range []bool{false, true} {
					for _, st := range []bool{false, true} {
						for _, sp := range []bool{false, true} {
							cases = append(cases, Case{Hist: h, End: end, NoIdle: ni, Detailed: det, Streaming: st, Split: sp})
							if !det && !st {
								cases = append(cases, Case{Hist: h, End: end, NoIdle: ni, Streaming: st, Split: sp, Disabled: true})
							}
						}
					}
				}
			}
		}
	}
	c.Sample(Case{Hist: "oPw", End: "idle", Detailed: true, Split: true})
	c.Sample(Case{Hist: "oo", End: "eof", NoIdle: true, Detailed: true, Streaming: true})
	ex := c.Counter("executions")
	nt := c.Counter("nontrivial")
	tr := c.Counter("transitions")
	pool := make(chan *worker, 64)
	c.ParallelFor(len(cases), func(i int) {
		var w *worker
		select {
		case w = <-pool:
		default:
			w = &worker{servers: map[string]*srvh.Server{}, logs: map[string]*[]entry{}}
		}
		w.exec(c, cases[i])
		atomic.AddInt64(ex, 1)
		atomic.AddInt64(tr, int64(len(cases[i].Hist)))
		if len(cases[i].Hist) > 1 || cases[i].Hist != "o" {
			atomic.AddInt64(nt, 1)
		}
		pool <- w
	})
	// the same histories (up to 3 requests) with the context pool switched off; the switch is process-wide, so this is a
	// pass of its own after the pooled one
	var np []Case
	for _, cs := range cases {
		if len(cs.Hist) <= 3 {
			cs.NoPool = true
			np = append(np, cs)
		}
	}
	c.Extra("no_pool_cases", len(np))
	old := http1.SetDisableRequestContextPoolForVerif(true)
	c.ParallelFor(len(np), func(i int) {
		w := &worker{servers: map[string]*srvh.Server{}, logs: map[string]*[]entry{}}
		w.exec(c, np[i])
		atomic.AddInt64(ex, 1)
		atomic.AddInt64(tr, int64(len(np[i].Hist)))
		atomic.AddInt64(nt, 1)
	})
	http1.SetDisableRequestContextPoolForVerif(old)
}

func replay(c *mc.Ctx, raw json.RawMessage) {
	var cs Case
	if json.Unmarshal(raw, &cs) != nil {
		return
	}
	old := http1.SetDisableRequestContextPoolForVerif(cs.NoPool)
	defer http1.SetDisableRequestContextPoolForVerif(old)
	w := &worker{servers: map[string]*srvh.Server{}, logs: map[string]*[]entry{}}
	w.exec(c, cs)
}
