// Package c14: a streamed request body reads exactly the body and keeps the connection in sync.
// Bounded-exhaustive product of bodies x encodings x segmentations x consumption programs
// (read-size pattern, stop point) followed by a pipelined probe request, on the real streaming engine.
package c14

import (
	"bytes"
	"encoding/json"
	"fmt"
	"io"
	"sync/atomic"

	"github.com/cloudwego/hertz/pkg/app"

	"verifh/httpref"
	"verifh/mc"
	"verifh/netsim"
	"verifh/srvh"
	"verifh/wire"
)

var Check = &mc.Check{
	ID:    "C14",
	Level: "model_checking",
	Rule: "bodies: every length 0..6 (thorough 0..9, compositions into <=4 chunks, every 1-cut for all of them) x {Content-Length, every composition into <=3 chunks, with/without trailer} and boundary lengths {4095..4097,8191..8193,16385,65537} x {CL, one chunk, 4096-byte chunks, three chunks, +trailer}; " +
		"MaxRequestBodySize {default, len-1, len}; segmentation {whole, probe in a later read, byte-wise, every 1-cut (small)}; consumption: read sizes {1,2,3,4096,16384}, stop after EVERY k (small) / k in {0,1,mid-chunk,chunk boundary +-1,8191..8193,len-1,len} (large) or read to EOF plus one more read; then a pipelined probe request; " +
		"non-trivial = executions where the handler stops before the end of the body or the body is chunked",
	Run:         run,
	Replay:      replay,
	Assumptions: []string{"standard transport only", "body bytes look like a chunk terminator followed by a request (GET /evil), so unread body bytes interpreted as a request become visible"},
}

type Case struct {
	Len        int    `json:"len"`
	Chunked    bool   `json:"chunked,omitempty"`
	Chunks     []int  `json:"chunks,omitempty"`
	Trailer    bool   `json:"trailer,omitempty"`
	BadTrailer int    `json:"bad_trailer,omitempty"` // 1: forbidden field (Content-Length), 2: request-like lines in the trailer section
	MaxBody    int    `json:"max_body,omitempty"`
	Seg        string `json:"seg"` // whole | later | bytewise | cut:<p>
	Cut        int    `json:"cut,omitempty"`
	ReadSize   int    `json:"read_size"`
	Stop       int    `json:"stop"` // stop after this many bytes; -1 = read to EOF and once more
	NoProbe    bool   `json:"no_probe,omitempty"`
	// Trunc > 0: the peer sends only the first Trunc bytes of the upload request and then closes. A clean end of
	// stream may then only be reported if the whole body was delivered (end-of-stream exactly at the body's end).
	Trunc int `json:"trunc,omitempty"`
	// AfterFailedRelease: first another connection is served whose chunked upload breaks off in the middle of a chunk
	// while its handler has stopped reading (releasing that body stream fails); pooled stream objects carry over.
	AfterFailedRelease bool `json:"after_failed_release,omitempty"`
	// WriteTo: the handler consumes the body with ctx.Request.BodyWriteTo(w) where w accepts Stop bytes and then fails
	// (Stop < 0: never fails) - the API copies the stream and then detaches it from the request
	WriteTo bool `json:"write_to,omitempty"`
	// Wrap: the handler wraps the stream in a reader that produces two bytes for each byte it consumes (what a decompressing
	// middleware does), installs that as the request's body stream and collects it with BodyE(); what the connection's
	// stream itself returned is recorded underneath the wrapper
	Wrap bool `json:"wrap,omitempty"`
	// Expect: the upload announces Expect: 100-continue (the server builds the body stream on another path, after the interim response)
	Expect bool `json:"expect,omitempty"`
	// AfterBigBody: first another connection is served whose 100000-byte upload the handler collects with Request.Body()
	// (the pooled request's body buffer has grown); MaxBody -1 = no body limit configured
	AfterBigBody bool `json:"after_big_body,omitempty"`
	// LFEnd (chunked): line ends of the trailer section are bare LF - 1: the closing empty line ("0 CRLF LF"), 2: the trailer
	// field and the closing line ("X-Tr: tv LF LF"), 3: only the closing line after a CRLF-terminated field. Every reader
	// of hertz accepts these; whether the handler reads the body or not, what follows is the next request.
	LFEnd int `json:"lf_end,omitempty"`
	// BadChunk (chunked): the chunk framing breaks after the first chunk - 1: size line "1g0", 2: missing CRLF after the
	// chunk data ("abc0"). The handler that reads gets an error; the connection must not go on serving what follows.
	BadChunk int `json:"bad_chunk,omitempty"`
	// ChunkExt (chunked): spelling of every chunk-size line (the last one too) - 1: "5;ext=1", 2: "5 ;ext=1" (a blank in front of
	// the extension), 3: "5; ext", 4: "5 " (trailing blank), 5: "005". All legal; the body and what follows are the same.
	ChunkExt int `json:"chunk_ext,omitempty"`
	// Method: the method of the upload request ("" = POST); a GET or HEAD with a body is framed like any other request
	Method string `json:"method,omitempty"`
}

// expander doubles every byte of r.
type expander struct {
	r    io.Reader
	pend []byte
	err  error
}

func (e *expander) Read(p []byte) (int, error) {
	for len(e.pend) == 0 {
		if e.err != nil {
			return 0, e.err
		}
		var in [512]byte
		n, err := e.r.Read(in[:])
		for _, b := range in[:n] {
			e.pend = append(e.pend, b, b)
		}
		e.err = err
	}
	n := copy(p, e.pend)
	e.pend = e.pend[n:]
	return n, nil
}

type limitedWriter struct {
	left int // < 0: unlimited
	got  []byte
}

func (w *limitedWriter) Write(p []byte) (int, error) {
	if w.left < 0 {
		w.got = append(w.got, p...)
		return len(p), nil
	}
	n := len(p)
	if n > w.left {
		n = w.left
	}
	w.got = append(w.got, p[:n]...)
	w.left -= n
	if n < len(p) {
		return n, fmt.Errorf("harness: the application's writer fails")
	}
	return n, nil
}

func build(cs Case) (stream []byte, body []byte, firstLen int) {
	body = wire.Body(cs.Len)
	var w bytes.Buffer
	method := cs.Method
	if method == "" {
		method = "POST"
	}
	w.WriteString(method + " /upload HTTP/1.1\r\nHost: h\r\nX-Id: up\r\n")
	if cs.Expect {
		w.WriteString("Expect: 100-continue\r\n")
	}
	if !cs.Chunked {
		fmt.Fprintf(&w, "Content-Length: %d\r\n\r\n", cs.Len)
		w.Write(body)
	} else {
		if cs.Trailer {
			w.WriteString("Trailer: X-Tr\r\n")
		}
		w.WriteString("Transfer-Encoding: chunked\r\n\r\n")
		off := 0
		sizeLine := func(n int) string {
			switch cs.ChunkExt {
			case 1:
				return fmt.Sprintf("%x;ext=1\r\n", n)
			case 2:
				return fmt.Sprintf("%x ;ext=1\r\n", n)
			case 3:
				return fmt.Sprintf("%x; ext\r\n", n)
			case 4:
				return fmt.Sprintf("%x \r\n", n)
			case 5:
				return fmt.Sprintf("00%x\r\n", n)
			}
			return fmt.Sprintf("%x\r\n", n)
		}
		for _, n := range cs.Chunks {
			w.WriteString(sizeLine(n))
			w.Write(body[off : off+n])
			w.WriteString("\r\n")
			off += n
		}
		if cs.BadChunk == 1 {
			w.WriteString("1g")
		}
		if cs.BadChunk == 2 {
			// drop the CRLF that ended the last chunk's data
			b := w.Bytes()
			w.Truncate(len(b) - 2)
		}
		w.WriteString(sizeLine(0))
		if cs.Trailer {
			if cs.LFEnd == 2 {
				w.WriteString("X-Tr: tv\n")
			} else {
				w.WriteString("X-Tr: tv\r\n")
			}
		}
		if cs.LFEnd != 0 {
			w.WriteString("\n")
			firstLen = w.Len()
			if !cs.NoProbe {
				w.WriteString("GET /probe HTTP/1.1\r\nHost: h\r\nX-Id: probe\r\n\r\n")
			}
			return w.Bytes(), body, firstLen
		}
		switch cs.BadTrailer {
		case 1:
			w.WriteString("Content-Length: 3\r\n")
		case 2:
			w.WriteString("GET /evil HTTP/1.1\r\nHost: e\r\nX-Id: evil\r\n")
		}
		w.WriteString("\r\n")
	}
	firstLen = w.Len()
	if !cs.NoProbe {
		w.WriteString("GET /probe HTTP/1.1\r\nHost: h\r\nX-Id: probe\r\n\r\n")
	}
	return w.Bytes(), body, firstLen
}

type readLog struct {
	got       []byte
	eofAt     int // total bytes when EOF was first reported, -1 if never
	errs      []string
	extraRead string // result of the read after EOF
	reads     int
}

type worker struct {
	servers map[int]*srvh.Server
	cur     *Case
	log     *readLog
}

func newWorker() *worker { return &worker{servers: map[int]*srvh.Server{}} }

func (w *worker) server(maxBody int) *srvh.Server {
	if s := w.servers[maxBody]; s != nil {
		return s
	}
	s := srvh.New(srvh.Opts{Streaming: true, MaxBody: maxBody})
	s.BodyReader = func(ctx *app.RequestContext, r io.Reader, sn *srvh.Seen) {
		cs, lg := w.cur, w.log
		if sn.URI == "/grow" {
			sn.Body = append([]byte(nil), ctx.Request.Body()...) // collects the stream into the request's body buffer
			return
		}
		if sn.URI != "/upload" {
			// probe (or a smuggled request): read whatever body it claims to have
			b, _ := io.ReadAll(io.LimitReader(r, 1<<20))
			sn.Body = b
			return
		}
		if cs.Wrap {
			var under bytes.Buffer
			ctx.Request.SetBodyStream(&expander{r: io.TeeReader(r, &under)}, -1)
			b, err := ctx.Request.BodyE()
			lg.got, lg.eofAt, lg.reads = append([]byte(nil), under.Bytes()...), -1, 1
			if err == nil {
				lg.eofAt = len(lg.got)
				lg.extraRead = "0,EOF"
				if len(b) != 2*len(lg.got) {
					lg.errs = append(lg.errs, fmt.Sprintf("BodyE() of the doubling wrapper returned %d bytes for %d stream bytes", len(b), len(lg.got)))
				}
			} else {
				lg.errs = append(lg.errs, err.Error())
			}
			sn.Body = lg.got
			return
		}
		if cs.WriteTo {
			lw := &limitedWriter{left: cs.Stop}
			err := ctx.Request.BodyWriteTo(lw)
			lg.got, lg.eofAt, lg.reads = lw.got, -1, 1
			if err == nil {
				lg.eofAt = len(lw.got)
				lg.extraRead = "0,EOF"
			}
			sn.Body = lg.got
			return
		}
		buf := make([]byte, cs.ReadSize)
		lg.eofAt = -1
		for {
			want := cs.ReadSize
			if cs.Stop >= 0 {
				if rem := cs.Stop - len(lg.got); rem < want {
					want = rem
				}
				if want <= 0 {
					break
				}
			}
			n, err := r.Read(buf[:want])
			lg.reads++
			lg.got = append(lg.got, buf[:n]...)
			if err == io.EOF {
				lg.eofAt = len(lg.got)
				if cs.Stop < 0 {
					n2, err2 := r.Read(buf)
					lg.extraRead = fmt.Sprintf("%d,%v", n2, err2)
				}
				break
			}
			if err != nil {
				lg.errs = append(lg.errs, err.Error())
				break
			}
			if n == 0 {
				lg.errs = append(lg.errs, "read returned 0, nil")
				break
			}
			if lg.reads > 1<<20 {
				lg.errs = append(lg.errs, "harness: too many reads")
				break
			}
		}
		sn.Body = lg.got
	}
	s.EchoAll()
	s.Start()
	w.servers[maxBody] = s
	return s
}

func (w *worker) exec(c *mc.Ctx, cs Case) {
	stream, body, firstLen := build(cs)
	if cs.Trunc > 0 && cs.Trunc < len(stream) {
		stream = stream[:cs.Trunc]
	}
	var segs [][]byte
	switch cs.Seg {
	case "later":
		segs = netsim.Segment(stream, []int{firstLen})
	case "bytewise":
		segs = netsim.Bytewise(stream)
	case "cut":
		segs = netsim.Segment(stream, []int{cs.Cut})
	default:
		segs = [][]byte{stream}
	}
	if cs.AfterFailedRelease {
		pre := Case{Len: 5, Chunked: true, Chunks: []int{5}, ReadSize: 1, Stop: 1, NoProbe: true}
		ps, _, _ := build(pre)
		w.cur, w.log = &pre, &readLog{}
		w.server(cs.MaxBody).Run([][]byte{ps[:bytes.Index(ps, []byte("\r\n\r\n"))+4+5]}, netsim.EndEOF, nil) // "...\r\n\r\n5\r\nhe"
	}
	if cs.AfterBigBody {
		big := wire.Body(100000)
		pre := Case{NoProbe: true}
		w.cur, w.log = &pre, &readLog{}
		w.server(cs.MaxBody).Run([][]byte{append([]byte(fmt.Sprintf("POST /grow HTTP/1.1\r\nHost: h\r\nContent-Length: %d\r\n\r\n", len(big))), big...)}, netsim.EndEOF, nil)
	}
	w.cur, w.log = &cs, &readLog{}
	res := w.server(cs.MaxBody).Run(segs, netsim.EndEOF, nil)
	lg := w.log
	c.Distinct("outcomes", fmt.Sprintf("handlers=%d|read=%d/%d|eof=%v|errs=%d|closed=%v|endreads=%d", len(res.Seen), len(lg.got), len(body), lg.eofAt >= 0, len(lg.errs), res.Closed, res.SC.EndReads))
	fail := func(kind, msg string) {
		enc := "cl"
		if cs.Chunked {
			enc = "chunked"
		}
		limit := "default"
		if cs.MaxBody > 0 && cs.MaxBody < cs.Len {
			limit = "below-length"
		} else if cs.MaxBody > 0 {
			limit = "equal-length"
		}
		if enc == "cl" && limit == "below-length" {
			// one input class, one defect (see known_findings.txt): the prefetch of a Content-Length body larger than
			// MaxRequestBodySize takes whatever is buffered, including the bytes after the body
			c.Violate("streaming|content-length-above-MaxRequestBodySize", kind+": "+msg, cs)
			return
		}
		if cs.BadTrailer != 0 {
			enc = fmt.Sprintf("chunked-badtrailer%d", cs.BadTrailer)
		}
		if cs.LFEnd != 0 {
			enc = fmt.Sprintf("chunked-lf-end%d", cs.LFEnd)
		}
		if cs.BadChunk != 0 {
			enc = fmt.Sprintf("chunked-badchunk%d", cs.BadChunk)
		}
		if cs.ChunkExt != 0 {
			enc = fmt.Sprintf("chunked-sizeline%d", cs.ChunkExt)
		}
		if cs.AfterFailedRelease {
			enc += "|after-failed-release"
		}
		if cs.WriteTo {
			enc += "|via-BodyWriteTo"
		}
		if cs.Wrap {
			enc += "|via-wrapping-stream"
		}
		if cs.Expect {
			enc += "|expect-100-continue"
		}
		if cs.AfterBigBody {
			enc += "|after-big-body"
		}
		if cs.MaxBody < 0 {
			limit = "none"
		}
		if cs.Method != "" {
			enc += "|" + cs.Method
		}
		c.Violate(fmt.Sprintf("%s|%s|limit=%s|stop=%s", kind, enc, limit, stopClass(cs)), msg, cs)
	}
	if res.Panic != nil {
		fail("panic", fmt.Sprintf("panic escaped Engine.Serve: %v\n%s", res.Panic, res.Stack))
		return
	}
	if cs.Trunc > 0 {
		if len(res.Seen) == 0 {
			return
		}
		if !bytes.HasPrefix(body, lg.got) {
			fail("not-a-prefix", fmt.Sprintf("truncated upload: handler read %d bytes that are not a prefix of the %d-byte body", len(lg.got), len(body)))
		} else if lg.eofAt >= 0 && lg.eofAt != len(body) {
			fail("early-eof-truncated", fmt.Sprintf("the peer closed after %d of %d message bytes; the handler was told the stream ended cleanly after %d of %d body bytes", cs.Trunc, firstLen, lg.eofAt, len(body)))
		}
		return
	}
	if len(res.Seen) == 0 {
		fail("no-handler", fmt.Sprintf("upload handler never ran; output %q", clip(res.Out)))
		return
	}
	if res.Seen[0].URI != "/upload" {
		fail("first-request", "first handler invocation is not the upload: "+res.Seen[0].URI)
		return
	}
	// bytes read are exactly a prefix of the body
	if !bytes.HasPrefix(body, lg.got) {
		fail("not-a-prefix", fmt.Sprintf("handler read %d bytes that are not a prefix of the %d-byte body (first difference at %d)", len(lg.got), len(body), firstDiff(lg.got, body)))
		return
	}
	badTrailerAtEnd := (cs.BadTrailer != 0 || cs.BadChunk != 0) && len(lg.got) == len(body)
	if len(lg.errs) > 0 && !badTrailerAtEnd {
		fail("read-error", fmt.Sprintf("body read failed after %d of %d bytes: %v", len(lg.got), len(body), lg.errs))
		return
	}
	if lg.eofAt >= 0 && lg.eofAt != len(body) {
		fail("early-eof", fmt.Sprintf("end of stream reported after %d bytes, body has %d", lg.eofAt, len(body)))
		return
	}
	if cs.Stop < 0 && !badTrailerAtEnd {
		if lg.eofAt != len(body) {
			fail("no-eof", fmt.Sprintf("read to the end: got %d of %d bytes, EOF at %d", len(lg.got), len(body), lg.eofAt))
			return
		}
		if lg.extraRead != "0,EOF" {
			fail("read-after-eof", "read after end of stream returned "+lg.extraRead)
			return
		}
	} else if cs.Stop >= 0 {
		want := cs.Stop
		if want > len(body) {
			want = len(body)
		}
		if len(lg.got) != want {
			fail("short", fmt.Sprintf("asked for %d bytes, got %d (body %d)", want, len(lg.got), len(body)))
			return
		}
	}
	for _, m := range res.SC.EndReadMarks {
		if m == 1 {
			fail("blocked", "a body read blocked waiting for bytes beyond the end of the delivered stream")
			return
		}
	}
	// what follows: the probe as itself, or a closed connection with no further handler
	for i, s := range res.Seen[1:] {
		if s.URI != "/probe" || s.Method != "GET" {
			fail("smuggled", fmt.Sprintf("handler invocation %d saw %s %s: unread body bytes were interpreted as a request", i+1, s.Method, s.URI))
			return
		}
	}
	if len(res.Seen) > 2 {
		fail("extra-handler", fmt.Sprintf("%d handler invocations for 2 requests", len(res.Seen)))
		return
	}
	methods := []string{"POST", "GET", "GET", "GET"}
	ms, err := httpref.ParseResponses(res.Out, methods, true)
	if err != nil {
		fail("output", fmt.Sprintf("server output is not well-formed: %v: %q", err, clip(res.Out)))
		return
	}
	fin := httpref.Finals(ms)
	if (cs.BadTrailer != 0 || cs.LFEnd != 0 || cs.BadChunk != 0) && len(fin) > 0 && fin[0].Status/100 == 4 {
		// rejected as malformed: fine, as long as nothing else was served (checked above) and the connection is closed
		if !res.Closed || len(res.Seen) > 1 {
			fail("reject-discipline", fmt.Sprintf("malformed trailer rejected with %d but closed=%v handlers=%d", fin[0].Status, res.Closed, len(res.Seen)))
		}
		return
	}
	if len(fin) == 0 || fin[0].Status != 200 {
		fail("upload-response", fmt.Sprintf("upload not answered with 200: %q", clip(res.Out)))
		return
	}
	probeServed := len(res.Seen) == 2
	if probeServed && cs.BadChunk != 0 {
		// the chunk framing of the upload is broken: there is no "first byte after the body" to resume at
		fail("resync-after-framing-error", fmt.Sprintf("the chunk framing of the upload is malformed (handler errors: %v), yet the server went on and served what followed", lg.errs))
		return
	}
	if probeServed {
		if len(fin) != 2 || string(fin[1].Body) != "id=probe;uri=/probe;n=0;" {
			fail("probe-response", fmt.Sprintf("probe handler ran but its response is wrong: %q", clip(res.Out)))
		}
		return
	}
	// probe not served: connection must be closed, nothing but (optionally) an error response after the upload response
	if !cs.NoProbe && !res.Closed {
		fail("probe-lost", "probe was neither answered nor was the connection closed")
		return
	}
	// The probe's bytes were delivered. If the server did not serve it and yet went on reading until the
	// peer's end-of-stream, it consumed the probe as something else and was waiting for a further request:
	// the connection was kept, out of sync (closing on its own initiative never reads to end-of-script).
	if !cs.NoProbe && res.SC.EndReads > 0 {
		fail("probe-swallowed", fmt.Sprintf("probe bytes were consumed without being served and the server kept waiting for more input (Serve returned %v)", res.Err))
		return
	}
	if len(fin) > 2 {
		fail("extra-response", fmt.Sprintf("%d responses", len(fin)))
	}
}

func stopClass(cs Case) string {
	switch {
	case cs.Stop < 0:
		return "eof+1"
	case cs.Stop == 0:
		return "0"
	case cs.Stop >= cs.Len:
		return "all"
	}
	return "partial"
}

func firstDiff(a, b []byte) int {
	for i := 0; i < len(a) && i < len(b); i++ {
		if a[i] != b[i] {
			return i
		}
	}
	if len(a) < len(b) {
		return len(a)
	}
	return len(b)
}

func clip(b []byte) string {
	if len(b) > 240 {
		return string(b[:240]) + "..."
	}
	return string(b)
}

// compositions of n into at most 3 positive parts
func compositions(n int) [][]int {
	if n == 0 {
		return [][]int{{}}
	}
	out := [][]int{{n}}
	for a := 1; a < n; a++ {
		out = append(out, []int{a, n - a})
		for b := 1; a+b < n; b++ {
			out = append(out, []int{a, b, n - a - b})
		}
	}
	return out
}

// compositions of n into exactly 4 positive parts
func compositions4(n int) [][]int {
	var out [][]int
	for a := 1; a < n; a++ {
		for b := 1; a+b < n; b++ {
			for c := 1; a+b+c < n; c++ {
				out = append(out, []int{a, b, c, n - a - b - c})
			}
		}
	}
	return out
}

func cases(thorough bool) []Case {
	var out []Case
	// small bodies: everything exhaustive
	maxSmall := 6
	if thorough {
		maxSmall = 9
	}
	for n := 0; n <= maxSmall; n++ {
		var encs [][]int
		encs = append(encs, nil)
		encs = append(encs, compositions(n)...)
		if thorough {
			encs = append(encs, compositions4(n)...)
		}
		for ei, ch := range encs {
			for _, tr := range []bool{false, true} {
				if ch == nil && tr {
					continue
				}
				for _, mb := range []int{0, n - 1, n} {
					if mb < 0 || (mb == 0 && n == 0 && false) {
						continue
					}
					if mb == n-1 && n <= 1 {
						continue
					}
					for _, rs := range []int{1, 2, 3, 4096} {
						for stop := -1; stop <= n; stop++ {
							base := Case{Len: n, Chunked: ch != nil, Chunks: ch, Trailer: tr, MaxBody: mb, ReadSize: rs, Stop: stop}
							for _, seg := range []string{"whole", "later", "bytewise"} {
								cs := base
								cs.Seg = seg
								out = append(out, cs)
								if mb == 0 && seg == "whole" && (rs == 1 || rs == 4096) {
									cs.AfterFailedRelease = true
									out = append(out, cs)
									cs.AfterFailedRelease = false
								}
								if mb == 0 && rs == 4096 {
									cs.WriteTo = true
									out = append(out, cs)
									cs.WriteTo = false
								}
								if mb == 0 && rs == 4096 && stop == -1 {
									cs.Wrap = true
									out = append(out, cs)
									cs.Wrap = false
								}
								if mb == 0 && rs == 4096 {
									cs.Expect = true
									out = append(out, cs)
									cs.Expect = false
									cs.Method = "GET"
									out = append(out, cs)
								}
							}
							// the peer closes inside the message: every truncation point after the header block
							if mb == 0 && (rs == 1 || rs == 4096) && stop == -1 && !tr && (ei <= 3 || thorough) {
								st, _, fl := build(base)
								for p := bytes.Index(st, []byte("\r\n\r\n")) + 5; p < fl; p++ {
									for _, seg := range []string{"whole", "bytewise"} {
										cs := base
										cs.Seg, cs.Trunc, cs.NoProbe = seg, p, true
										out = append(out, cs)
									}
								}
							}
							// every 1-cut for a subset that keeps the count reasonable: CL and the first two chunkings, default limit
							if mb == 0 && rs <= 2 && (ei <= 2 || thorough) {
								st, _, _ := build(base)
								for p := 1; p < len(st); p++ {
									cs := base
									cs.Seg, cs.Cut = "cut", p
									out = append(out, cs)
								}
							}
						}
					}
				}
			}
		}
	}
	// malformed / forbidden trailer sections: the bytes must never be served as a request
	for n := 0; n <= 3; n++ {
		for _, ch := range compositions(n) {
			for bt := 1; bt <= 2; bt++ {
				for _, rs := range []int{1, 4096} {
					for stop := -1; stop <= n; stop++ {
						for _, seg := range []string{"whole", "later", "bytewise"} {
							out = append(out, Case{Len: n, Chunked: true, Chunks: ch, BadTrailer: bt, ReadSize: rs, Stop: stop, Seg: seg})
						}
					}
				}
			}
		}
	}
	// trailer sections whose lines end in a bare LF (accepted by every reader), and chunk framing that breaks after the data
	for n := 0; n <= 3; n++ {
		for _, ch := range compositions(n) {
			for _, rs := range []int{1, 4096} {
				for stop := -1; stop <= n; stop++ {
					for _, seg := range []string{"whole", "later", "bytewise"} {
						for lf := 1; lf <= 3; lf++ {
							out = append(out, Case{Len: n, Chunked: true, Chunks: ch, Trailer: lf != 1, LFEnd: lf, ReadSize: rs, Stop: stop, Seg: seg})
						}
						for ce := 1; ce <= 5; ce++ {
							out = append(out, Case{Len: n, Chunked: true, Chunks: ch, Trailer: ce%2 == 0, ChunkExt: ce, ReadSize: rs, Stop: stop, Seg: seg})
						}
						if n > 0 {
							for bc := 1; bc <= 2; bc++ {
								out = append(out, Case{Len: n, Chunked: true, Chunks: ch, BadChunk: bc, ReadSize: rs, Stop: stop, Seg: seg})
							}
						}
					}
				}
			}
		}
	}
	// boundary lengths
	lens := []int{4095, 4096, 4097, 8191, 8192, 8193, 16385}
	if thorough {
		lens = append(lens, 65537)
	}
	for _, n := range lens {
		encs := [][]int{nil, {n}, {n / 3, n / 3, n - 2*(n/3)}}
		var c4 []int
		for r := n; r > 0; r -= 4096 {
			if r > 4096 {
				c4 = append(c4, 4096)
			} else {
				c4 = append(c4, r)
			}
		}
		encs = append(encs, c4)
		for _, ch := range encs {
			stops := map[int]bool{-1: true, 0: true, 1: true, n - 1: true, n: true, 8191: true, 8192: true, 8193: true, n / 2: true}
			if ch != nil {
				acc := 0
				for _, k := range ch {
					acc += k
					stops[acc-1], stops[acc], stops[acc+1] = true, true, true
					stops[acc-k/2] = true
				}
			}
			for stop := range stops {
				if stop > n || stop < -1 {
					continue
				}
				for _, rs := range []int{4096, 16384, 1} {
					if rs == 1 && (stop > 8 || stop < 0) {
						continue
					}
					for _, tr := range []bool{false, true} {
						if ch == nil && tr {
							continue
						}
						for _, mb := range []int{0, n - 1, n} {
							for _, seg := range []string{"whole", "later"} {
								out = append(out, Case{Len: n, Chunked: ch != nil, Chunks: ch, Trailer: tr, MaxBody: mb, ReadSize: rs, Stop: stop, Seg: seg})
								if mb == 0 && rs == 4096 {
									out = append(out, Case{Len: n, Chunked: ch != nil, Chunks: ch, Trailer: tr, ReadSize: rs, Stop: stop, Seg: seg, WriteTo: true})
								}
								if mb == 0 && rs == 4096 && stop == -1 {
									out = append(out, Case{Len: n, Chunked: ch != nil, Chunks: ch, Trailer: tr, ReadSize: rs, Stop: stop, Seg: seg, Wrap: true})
								}
								if mb == 0 && rs == 4096 && !tr {
									// no body limit at all, alone and after a connection that grew the pooled body buffer
									out = append(out, Case{Len: n, Chunked: ch != nil, Chunks: ch, MaxBody: -1, ReadSize: rs, Stop: stop, Seg: seg},
										Case{Len: n, Chunked: ch != nil, Chunks: ch, MaxBody: -1, ReadSize: rs, Stop: stop, Seg: seg, AfterBigBody: true})
								}
								if mb == 0 && rs == 4096 {
									out = append(out, Case{Len: n, Chunked: ch != nil, Chunks: ch, Trailer: tr, ReadSize: rs, Stop: stop, Seg: seg, Expect: true})
								}
							}
							if mb == 0 && !tr {
								st, _, fl := build(Case{Len: n, Chunked: ch != nil, Chunks: ch})
								for _, p := range []int{fl - n - 1, fl - n + 8191, fl - n + 8192, fl - n + 8193, fl - 1, fl + 1, fl + 10} {
									if p > 0 && p < len(st) {
										out = append(out, Case{Len: n, Chunked: ch != nil, Chunks: ch, ReadSize: rs, Stop: stop, Seg: "cut", Cut: p})
									}
								}
							}
						}
					}
				}
			}
		}
	}
	return out
}

func run(c *mc.Ctx) {
	cs := cases(c.Thorough())
	c.Extra("cases", len(cs))
	c.Sample(cs[len(cs)/5])
	c.Sample(cs[len(cs)-7])
	ex := c.Counter("executions")
	nt := c.Counter("nontrivial")
	pool := make(chan *worker, 64)
	c.ParallelFor(len(cs), func(i int) {
		var w *worker
		select {
		case w = <-pool:
		default:
			w = newWorker()
		}
		w.exec(c, cs[i])
		atomic.AddInt64(ex, 1)
		if cs[i].Chunked || (cs[i].Stop >= 0 && cs[i].Stop < cs[i].Len) {
			atomic.AddInt64(nt, 1)
		}
		pool <- w
	})
}

func replay(c *mc.Ctx, raw json.RawMessage) {
	var cs Case
	if json.Unmarshal(raw, &cs) != nil {
		return
	}
	newWorker().exec(c, cs)
}
