package c12

import (
	"context"
	"errors"
	"fmt"
	"github.com/cloudwego/hertz/pkg/protocol/http1/resp"
	"strings"
	"sync"

	"github.com/cloudwego/hertz/pkg/app"
	"github.com/cloudwego/hertz/pkg/common/config"
	"github.com/cloudwego/hertz/pkg/protocol/http1"
	"github.com/cloudwego/hertz/pkg/route"

	"verifh/mc"
	"verifh/netsim"
	"verifh/srvh"
)

// Part C: the two places where chain assembly itself (RouterGroup.combineHandlers) decides whether the property can
// hold at all: the size bound (Abort parks the cursor at a fixed index, so a chain that reaches that index must be
// refused at registration) and the ownership of the assembled chain (it is a copy: what the caller does with its
// argument slice afterwards cannot change a registered route).

type PartC struct {
	Kind  string `json:"kind"`  // size | alias
	N     int    `json:"n"`     // size: total chain length
	Place string `json:"place"` // engine | group | engine+mw | group+mw
	Beh   string `json:"beh"`   // size: abort0 | all-next ; alias: overwrite | append
}

func partCCases() []PartC {
	var out []PartC
	// the chain as the HTTP/1 server drives it (Engine.Serve over a connection), with the request-context pool on and off
	// (HERTZ_DISABLE_REQUEST_CONTEXT_POOL): first and second request of a connection
	for _, pl := range []string{"pool", "nopool"} {
		for _, b := range []string{"matched", "unmatched"} {
			out = append(out, PartC{Kind: "server", Place: pl, Beh: b})
		}
	}
	// every member of the Abort family, called by a middleware in three response states (nothing set, body set, a hijacked
	// chunked writer that has already written): nothing behind the caller may be entered and IsAborted() is true afterwards
	for _, api := range abortAPIs {
		for _, st := range []string{"plain", "body-set", "hijack-written"} {
			// N: the status code handed to the members that take one (statuses without a body included)
			for _, code := range []int{403, 204, 304, 200, 500} {
				if api == "Abort" && code != 403 {
					continue
				}
				out = append(out, PartC{Kind: "abort-family", Place: st, Beh: api, N: code})
			}
		}
	}
	// the chain is replaced through the exported SetHandlers while it runs (a middleware appends an after-hook, cuts the
	// tail, or stores the same chain again - also after Abort): nobody is entered twice, an Abort stays an Abort
	for _, b := range []string{"append", "cut", "same", "same-after-abort", "append-after-abort"} {
		for _, at := range []string{"first", "middle", "last-middleware"} {
			out = append(out, PartC{Kind: "set-handlers", Place: at, Beh: b})
		}
	}
	for _, n := range []int{61, 62, 63, 64, 65, 70, 127, 128, 200} {
		for _, pl := range []string{"engine", "group", "engine+mw", "group+mw"} {
			for _, b := range []string{"abort0", "all-next"} {
				out = append(out, PartC{Kind: "size", N: n, Place: pl, Beh: b})
			}
		}
	}
	for _, pl := range []string{"engine", "group", "engine+mw", "group+mw"} {
		for _, b := range []string{"overwrite", "append"} {
			out = append(out, PartC{Kind: "alias", Place: pl, Beh: b})
		}
	}
	// the same for slices passed to Use(): two groups (or the engine and a group) given one slice with spare capacity
	for _, pl := range []string{"use-groups", "use-engine"} {
		for _, b := range []string{"overwrite", "append"} {
			out = append(out, PartC{Kind: "alias-use", Place: pl, Beh: b})
		}
	}
	return out
}

func newEngineC() *route.Engine {
	opt := config.NewOptions(nil)
	opt.DisablePrintRoute = true
	return route.NewEngine(opt)
}

func serveC(e *route.Engine, path string) (pv interface{}) {
	defer func() { pv = recover() }()
	ctx := e.NewContext()
	ctx.Request.Header.SetMethod("GET")
	ctx.Request.SetRequestURI(path)
	ctx.Request.Header.SetHost("h")
	e.ServeHTTP(context.Background(), ctx)
	return nil
}

func execPartC(c *mc.Ctx, pc PartC, cs Case) {
	fail := func(kind, msg string) {
		c.Violate(fmt.Sprintf("partC|%s|%s|%s", pc.Kind, kind, pc.Place), fmt.Sprintf("%+v: %s", pc, msg), cs)
	}
	if pc.Kind == "abort-family" {
		abortFamily(pc, fail)
		return
	}
	if pc.Kind == "server" {
		serverChain(pc, fail)
		return
	}
	if pc.Kind == "set-handlers" {
		setHandlers(pc, fail)
		return
	}
	if pc.Kind == "alias-use" {
		e := newEngineC()
		var entered []int
		mk := func(id int) app.HandlerFunc {
			return func(c context.Context, ctx *app.RequestContext) { entered = append(entered, id); ctx.Next(c) }
		}
		common := make([]app.HandlerFunc, 1, 4)
		common[0] = mk(1)
		var first route.IRoutes
		if pc.Place == "use-engine" {
			e.Use(common...)
			e.Use(mk(10))
			first = e
		} else {
			gA := e.Group("/a")
			gA.Use(common...)
			gA.Use(mk(10))
			first = gA
		}
		if pc.Beh == "overwrite" {
			common[0] = mk(2)
		}
		gB := e.Group("/b")
		gB.Use(common...)
		gB.Use(mk(20))
		first.GET("/x", mk(11))
		gB.GET("/x", mk(21))
		path := "/a/x"
		if pc.Place == "use-engine" {
			path = "/x"
		}
		if pv := serveC(e, path); pv != nil {
			fail("dispatch-panic", fmt.Sprint(pv))
			return
		}
		if fmt.Sprint(entered) != "[1 10 11]" {
			fail("chain", fmt.Sprintf("middleware registered with Use(common...), Use(own) and route handler 11: GET %s entered %v, expected [1 10 11] (the caller passed the same slice to another group's Use afterwards)", path, entered))
		}
		return
	}
	e := newEngineC()
	var entered []int
	mk := func(id int, abort bool) app.HandlerFunc {
		return func(c context.Context, ctx *app.RequestContext) {
			entered = append(entered, id)
			if abort {
				ctx.Abort()
				return
			}
			ctx.Next(c)
		}
	}
	var g route.IRoutes = e
	own := pc.N
	switch pc.Place {
	case "group":
		g = e.Group("/g")
	case "engine+mw":
		e.Use(mk(0, pc.Beh == "abort0"))
		own--
	case "group+mw":
		g = e.Group("/g", mk(0, pc.Beh == "abort0"))
		own--
	}
	first := pc.N - own // id of the first route handler
	path := "/r"
	if strings.HasPrefix(pc.Place, "group") {
		path = "/g/r"
	}
	if pc.Kind == "size" {
		hs := make([]app.HandlerFunc, own)
		for i := range hs {
			hs[i] = mk(first+i, pc.Beh == "abort0" && first+i == 0)
		}
		var pv interface{}
		func() {
			defer func() { pv = recover() }()
			g.GET("/r", hs...)
		}()
		if pv != nil {
			c.Add("partC_registration_refused", 1)
			if !strings.Contains(fmt.Sprint(pv), "too many handlers") {
				fail("registration-panic", fmt.Sprintf("registration of a %d-handler chain panics with %v", pc.N, pv))
			}
			return
		}
		c.Add("partC_registration_accepted", 1)
		if pv := serveC(e, path); pv != nil {
			fail("dispatch-panic", fmt.Sprintf("a chain of %d handlers was accepted and dispatching it panics: %v", pc.N, pv))
			return
		}
		want := pc.N
		if pc.Beh == "abort0" {
			want = 1
		}
		ok := len(entered) == want
		for i := 0; ok && i < want; i++ {
			ok = entered[i] == i
		}
		if !ok {
			fail("chain", fmt.Sprintf("a chain of %d handlers was accepted; handlers entered: %v, expected handlers 0..%d once each in order", pc.N, clipInts(entered), want-1))
		}
		return
	}
	// alias: the caller reuses the slice it passed
	hs := make([]app.HandlerFunc, 2, 4)
	hs[0], hs[1] = mk(10, false), mk(11, false)
	g.GET("/r", hs...)
	if pc.Beh == "overwrite" {
		hs[0], hs[1] = mk(20, false), mk(21, false)
	} else {
		hs = append(hs[:1], mk(21, false))
	}
	g.GET("/s", hs...)
	if pv := serveC(e, path); pv != nil {
		fail("dispatch-panic", fmt.Sprint(pv))
		return
	}
	want := []int{10, 11}
	if strings.HasSuffix(pc.Place, "+mw") {
		want = []int{0, 10, 11}
	}
	if fmt.Sprint(entered) != fmt.Sprint(want) {
		fail("chain", fmt.Sprintf("route registered with handlers %v runs %v after the caller reused its argument slice for another route", want, entered))
	}
}

func clipInts(l []int) string {
	if len(l) > 12 {
		return fmt.Sprint(l[:12]) + fmt.Sprintf("... (%d)", len(l))
	}
	return fmt.Sprint(l)
}

var noPoolMu sync.Mutex

// serverChain serves two requests on one connection through Engine.Serve: engine middleware, then the route's handlers
// (or the not-found chain), each entered once and in order, for the first request of the connection as for the second.
var abortAPIs = []string{"Abort", "AbortWithStatus", "AbortWithMsg", "AbortWithStatusJSON", "AbortWithError"}

func abortFamily(pc PartC, fail func(kind, msg string)) {
	code := pc.N
	if code == 0 {
		code = 403
	}
	s := srvh.New(srvh.Opts{})
	var entered []string
	aborted := false
	mk := func(name string) app.HandlerFunc {
		return func(c context.Context, ctx *app.RequestContext) {
			entered = append(entered, name)
			ctx.Next(c)
		}
	}
	s.E.Use(mk("mw1"), func(c context.Context, ctx *app.RequestContext) {
		entered = append(entered, "aborter")
		switch pc.Place {
		case "body-set":
			ctx.SetStatusCode(200)
			ctx.Response.SetBodyString("partial")
		case "hijack-written":
			ctx.Response.HijackWriter(resp.NewChunkedBodyWriter(&ctx.Response, ctx.GetWriter()))
			ctx.Write([]byte("streamed so far")) //nolint:errcheck
			ctx.Flush()                          //nolint:errcheck
		}
		switch pc.Beh {
		case "Abort":
			ctx.Abort()
		case "AbortWithStatus":
			ctx.AbortWithStatus(code)
		case "AbortWithMsg":
			ctx.AbortWithMsg("refused", code)
		case "AbortWithStatusJSON":
			ctx.AbortWithStatusJSON(code, map[string]string{"e": "refused"})
		case "AbortWithError":
			ctx.AbortWithError(code, errors.New("refused")) //nolint:errcheck
		}
		aborted = ctx.IsAborted()
		ctx.Next(c) // a no-op after Abort
	})
	s.E.GET("/r", mk("h1"), mk("h2"))
	s.Start()
	res := s.Run([][]byte{[]byte("GET /r HTTP/1.1\r\nHost: h\r\n\r\n")}, netsim.EndEOF, nil)
	if res.Panic != nil {
		fail("panic", fmt.Sprintf("panic while serving: %v", res.Panic))
		return
	}
	if got := strings.Join(entered, " "); got != "mw1 aborter" || !aborted {
		fail("chain", fmt.Sprintf("a middleware calling %s (status %d, response state %s) - handlers entered [%s], IsAborted() afterwards = %v; expected [mw1 aborter] and true", pc.Beh, code, pc.Place, got, aborted))
	}
}

// setHandlers: the middleware named by pc.Place replaces the chain through SetHandlers while the chain runs.
func setHandlers(pc PartC, fail func(kind, msg string)) {
	s := srvh.New(srvh.Opts{})
	var entered []string
	mk := func(name string) app.HandlerFunc {
		return func(c context.Context, ctx *app.RequestContext) {
			if len(entered) > 200 {
				return // a chain that restarts for ever: enough has been seen
			}
			entered = append(entered, name+"-in")
			ctx.Next(c)
			entered = append(entered, name+"-out")
		}
	}
	actor := func(c context.Context, ctx *app.RequestContext) {
		if len(entered) > 200 {
			return
		}
		entered = append(entered, "actor-in")
		hs := ctx.Handlers()
		switch pc.Beh {
		case "append":
			ctx.SetHandlers(append(append(app.HandlersChain{}, hs...), mk("hook")))
		case "cut":
			ctx.SetHandlers(hs[:len(hs)-1])
		case "same":
			ctx.SetHandlers(hs)
		case "same-after-abort":
			ctx.Abort()
			ctx.SetHandlers(hs)
		case "append-after-abort":
			ctx.Abort()
			ctx.SetHandlers(append(append(app.HandlersChain{}, hs...), mk("hook")))
		}
		ctx.Next(c)
		entered = append(entered, "actor-out")
	}
	var before, after []string
	switch pc.Place {
	case "first":
		s.E.Use(actor, mk("m1"), mk("m2"))
		after = []string{"m1", "m2"}
	case "middle":
		s.E.Use(mk("m1"), actor, mk("m2"))
		before, after = []string{"m1"}, []string{"m2"}
	default:
		s.E.Use(mk("m1"), mk("m2"), actor)
		before = []string{"m1", "m2"}
	}
	s.E.GET("/r", mk("h1"), mk("h2"))
	after = append(after, "h1", "h2")
	switch pc.Beh {
	case "append":
		after = append(after, "hook")
	case "cut":
		after = after[:len(after)-1]
	case "same-after-abort", "append-after-abort":
		after = nil
	}
	var want []string
	for _, n := range before {
		want = append(want, n+"-in")
	}
	want = append(want, "actor-in")
	for _, n := range after {
		want = append(want, n+"-in")
	}
	for i := len(after) - 1; i >= 0; i-- {
		want = append(want, after[i]+"-out")
	}
	want = append(want, "actor-out")
	for i := len(before) - 1; i >= 0; i-- {
		want = append(want, before[i]+"-out")
	}
	s.Start()
	res := s.Run([][]byte{[]byte("GET /r HTTP/1.1\r\nHost: h\r\n\r\n")}, netsim.EndEOF, nil)
	if res.Panic != nil {
		fail("panic", fmt.Sprintf("panic while serving: %v", res.Panic))
		return
	}
	if len(entered) > 60 {
		entered = append(entered[:60], "...")
	}
	if got := strings.Join(entered, " "); got != strings.Join(want, " ") {
		fail("chain", fmt.Sprintf("the %s middleware replaces the running chain through SetHandlers (%s): trace [%s], expected [%s]", pc.Place, pc.Beh, got, strings.Join(want, " ")))
	}
}

func serverChain(pc PartC, fail func(kind, msg string)) {
	noPoolMu.Lock()
	defer noPoolMu.Unlock()
	old := http1.SetDisableRequestContextPoolForVerif(pc.Place == "nopool")
	defer http1.SetDisableRequestContextPoolForVerif(old)
	s := srvh.New(srvh.Opts{})
	var entered []string
	mk := func(name string) app.HandlerFunc {
		return func(c context.Context, ctx *app.RequestContext) {
			entered = append(entered, name)
			ctx.Next(c)
		}
	}
	s.E.Use(mk("mw1"), mk("mw2"))
	s.E.GET("/r", mk("h1"), mk("h2"))
	s.E.NoRoute(mk("nf"))
	s.Start()
	target, want := "/r", "mw1 mw2 h1 h2"
	if pc.Beh == "unmatched" {
		target, want = "/zzz", "mw1 mw2 nf"
	}
	req := "GET " + target + " HTTP/1.1\r\nHost: h\r\n\r\n"
	res := s.Run([][]byte{[]byte(req + req)}, netsim.EndEOF, nil)
	if res.Panic != nil {
		fail("panic", fmt.Sprintf("panic while serving: %v", res.Panic))
		return
	}
	if got := strings.Join(entered, " "); got != want+" "+want {
		fail("chain", fmt.Sprintf("two requests GET %s on one connection entered [%s], expected [%s] for each of them", target, got, want))
	}
}
