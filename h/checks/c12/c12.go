// Package c12: middleware chains run in onion order and Abort stops what has not started.
//
// Bounded-exhaustive enumeration of (registration shape, request kind, behaviour vector)
// triples. Every triple is executed against the real hertz engine (route.Engine.ServeHTTP
// with handlers registered through Engine.Use / RouterGroup.Group / RouterGroup.Use /
// GET / POST / NoRoute / NoMethod) and judged by two independent, boring references:
//
//   - groupref (refChains): which handlers, in which order, form the chain of a request,
//     derived only from the registration program and the property statement;
//   - chainref (model): the enter / post-Next / Abort / exit trace a chain must produce,
//     written with an explicit "next pending handler" cursor and an "aborted" flag.
//
// The request context is reused (Reset) between the cases of one job, so every case runs
// on a context that a previous (possibly aborted) request has left behind; a failing case is
// re-executed on a fresh engine with the shortest history that reproduces it before it is
// reported, so that replays are self-contained.
package c12

import (
	"context"
	"encoding/json"
	"fmt"
	"io"
	"strings"
	"sync"

	"github.com/cloudwego/hertz/pkg/app"
	"github.com/cloudwego/hertz/pkg/common/config"
	"github.com/cloudwego/hertz/pkg/common/hlog"
	"github.com/cloudwego/hertz/pkg/route"

	"verifh/mc"
)

func init() {
	hlog.SetOutput(io.Discard)
	hlog.SetLevel(hlog.LevelFatal)
}

var Check = &mc.Check{
	ID:    "C12",
	Level: "model_checking",
	Rule: "part A: every behaviour vector over {return, Next, Abort, Next;Abort, Abort;Next, Next;Next, AbortWithStatus}^n, n=1..5 (thorough 1..7), for every placement of the n handlers " +
		"over (engine.Use | route handlers), (engine.Use | Group(args) | group.Use | route handlers), (engine.Use | NoRoute handlers) and (engine.Use | NoMethod handlers), NoRoute/NoMethod set before or after the Use calls; " +
		"part B: every registration shape of depth 0..3 (per level: Group() with 0/1 handlers, 0..1 (thorough 0..2) Use() before the next level exists (engine 0..3), 0/1 Use() on an ancestor after its descendant exists, 0/1 Use() after the first route is registered, " +
		"1..2 route handlers, a second route registered last, NoRoute/NoMethod unset / set first / set last) x requests {GET route1, POST route2, GET unknown path, POST route1 path, PUT route1 path} x " +
		"every behaviour vector when the chain has <=3 (thorough <=4) handlers, otherwise every vector that differs from all-Next or all-return in at most one position; " +
		"every request runs on a context recycled from the previous case; non-trivial = the expected trace nests at least two handlers or an Abort leaves at least one registered handler un-entered",
	Run:    run,
	Replay: replay,
	Assumptions: []string{
		"requests are dispatched with Engine.ServeHTTP on a RequestContext obtained from Engine.NewContext and recycled with RequestContext.Reset (no wire parsing: that is C01..C03)",
		"Use() on an ancestor (engine or outer group) after a descendant group object was created, before the descendant's route is registered: the property demands that it precedes the route's handlers; hertz leaves it out (known finding, reported per site class and route) - the rest of the chain is then judged on the demanded chain minus exactly the handlers left out, as established by one probe request per route",
		"HandleMethodNotAllowed=true; chains have at most 14 handlers (far below the AbortIndex of 63)",
	},
}

// ---- behaviours ---------------------------------------------------------------

const (
	bR  = iota // return
	bN         // Next, return
	bA         // Abort, return
	bNA        // Next, Abort
	bAN        // Abort, Next
	bNN        // Next, Next
	bAS        // AbortWithStatus(210+id)
	nBeh
)

var behName = [nBeh]string{"return", "Next", "Abort", "Next;Abort", "Abort;Next", "Next;Next", "AbortWithStatus"}

// trace events: bit15 = IsAborted() observed right after the event, bits 8..10 kind, bits 0..7 handler id
const (
	evEnter = 1
	evPost  = 2 // a Next call made by the handler has returned
	evAbort = 3 // an Abort / AbortWithStatus call made by the handler has returned
	evExit  = 4
	flagAb  = 0x8000
)

func ev(kind int, id uint8, aborted bool) uint16 {
	e := uint16(kind)<<8 | uint16(id)
	if aborted {
		e |= flagAb
	}
	return e
}

var evName = map[int]string{evEnter: "enter", evPost: "afterNext", evAbort: "aborted", evExit: "exit"}

// trace formats lazily (only when a message is actually produced).
type trace []uint16

func (t trace) String() string { return fmtTrace(t) }

func fmtTrace(tr []uint16) string {
	var b strings.Builder
	for i, e := range tr {
		if i > 0 {
			b.WriteByte(' ')
		}
		fmt.Fprintf(&b, "%s(h%d)", evName[int(e>>8)&7], e&0xff)
		if e&flagAb != 0 {
			b.WriteByte('!')
		}
	}
	if len(tr) == 0 {
		return "<nothing ran>"
	}
	return b.String()
}

// ---- shapes and requests --------------------------------------------------------

// Shape is a registration program over a linear nest engine -> g1 -> g2 -> g3.
// The program is (every Use call attaches exactly one handler):
//
//	[NoRoute/NoMethod if NWhen==1]
//	for k=0..Depth: (k>0: g_k = g_{k-1}.Group("/g<k>", Grp[k] handlers)); Pre[k] x g_k.Use
//	for k=0..Depth-1: Mid[k] x g_k.Use
//	g_Depth.GET("/r", Own handlers)            -- route R1
//	for k=0..Depth: Post[k] x g_k.Use
//	g_Depth.POST("/s", 1 handler)              -- route R2
//	[NoRoute/NoMethod if NWhen==2]
type Shape struct {
	Depth int    `json:"depth"`
	Grp   [4]int `json:"grp"`
	Pre   [4]int `json:"pre"`
	Mid   [4]int `json:"mid"`
	Post  [4]int `json:"post"`
	Own   int    `json:"own"`
	NR    int    `json:"noroute"`  // handlers given to NoRoute
	NM    int    `json:"nomethod"` // handlers given to NoMethod
	NWhen int    `json:"nwhen"`    // 0: NoRoute/NoMethod never called, 1: called first, 2: called last, 3: called after route R1 (between Use calls)
	// AnyR2: route R2 is registered through Any("/s", ...) instead of POST
	AnyR2 bool `json:"any_r2,omitempty"`
}

const (
	kR1   = iota // GET  <prefix>/r  -> route R1
	kR2          // POST <prefix>/s  -> route R2
	k404         // GET  /zz         -> NoRoute chain
	k405         // POST <prefix>/r  -> NoMethod chain (a POST tree exists)
	k405b        // PUT  <prefix>/r  -> NoMethod chain (no PUT tree exists)
	nKinds
)

var kindName = [nKinds]string{"GET-route1", "POST-route2", "GET-unknown-path", "POST-on-GET-route", "PUT-on-GET-route"}

type ReqSpec struct {
	Kind int    `json:"kind"`
	Beh  behVec `json:"beh"` // behaviour by position in the expected chain of the request
}

// behVec is a behaviour vector; in JSON it is a list of behaviour names.
type behVec []uint8

func (b behVec) MarshalJSON() ([]byte, error) {
	names := make([]string, len(b))
	for i, x := range b {
		if x < nBeh {
			names[i] = behName[x]
		} else {
			names[i] = fmt.Sprint(x)
		}
	}
	return json.Marshal(names)
}

func (b *behVec) UnmarshalJSON(raw []byte) error {
	var names []string
	if err := json.Unmarshal(raw, &names); err != nil {
		return err
	}
	out := make(behVec, len(names))
	for i, n := range names {
		out[i] = 255
		for x, bn := range behName {
			if bn == n {
				out[i] = uint8(x)
			}
		}
	}
	*b = out
	return nil
}

type Case struct {
	Shape   Shape     `json:"shape"`
	History []ReqSpec `json:"history"` // requests served before, on the same context
	Req     ReqSpec   `json:"req"`
	Desc    string    `json:"desc,omitempty"`
	PartC   *PartC    `json:"part_c,omitempty"`
	// Registration: the case is about which handlers the registration program puts into the chain of Req.Kind
	// (middleware the property demands but the route's chain leaves out), not about one behaviour vector
	Registration bool `json:"registration,omitempty"`
}

func (s Shape) valid() bool {
	if s.Depth < 0 || s.Depth > 3 || s.Own < 1 || s.Own > 12 || s.NWhen < 0 || s.NWhen > 3 || s.NR < 0 || s.NM < 0 || s.NR > 12 || s.NM > 12 {
		return false
	}
	tot := s.Own + s.NR + s.NM + 1
	for k := 0; k < 4; k++ {
		for _, v := range []int{s.Grp[k], s.Pre[k], s.Mid[k], s.Post[k]} {
			if v < 0 || v > 12 {
				return false
			}
			tot += v
		}
	}
	return tot <= 60
}

// site classes of handlers (used in violation keys and messages)
const (
	sGrp = iota
	sPre
	sMid
	sPost
	sOwn1
	sOwn2
	sNR
	sNM
)

var siteName = [...]string{"Group()-arg", "Use-before", "Use-on-ancestor-after-child-exists", "Use-after-route", "route1-handler", "route2-handler", "NoRoute-handler", "NoMethod-handler"}

type site struct {
	class, level int
}

func (s site) String() string {
	switch s.class {
	case sGrp, sPre, sMid, sPost:
		lv := "engine"
		if s.level > 0 {
			lv = fmt.Sprintf("g%d", s.level)
		}
		return lv + "." + siteName[s.class]
	}
	return siteName[s.class]
}

// ids records which handler ids were registered at which site.
type ids struct {
	grp, pre, mid, post [4][]uint8
	own1, own2, nr, nm  []uint8
}

// refChains is the registration reference ("groupref"): the chain every request kind must
// run, and the late handlers (optional) that the literal chain holds in addition.
//
//   - a route's chain is, outermost level first, what was attached to each level of its
//     group nest before the next level was created (Group() arguments, then Use), then what
//     was attached to the registering group itself before the registration, then its own handlers;
//   - middleware attached after the registration does not apply;
//   - the 404 / 405 chains are all engine-level middleware (whenever attached) followed by
//     the NoRoute / NoMethod handlers.
//
// literal is the chain the property's words demand: "middleware attached to the engine or to a group before a route is
// registered always precedes that route's own handlers (outermost group first)" - it also holds what was attached to an
// outer level after the inner group object had been created (the handlers marked in optional). chains is literal
// without those: the behaviour vectors of the enumeration are indexed by it.
func refChains(sh Shape, d *ids) (chains [nKinds][]uint8, optional [nKinds]uint64, literal [nKinds][]uint8) {
	defer func() {
		var l1, l2 []uint8
		for k := 0; k <= sh.Depth; k++ {
			l1 = append(append(l1, d.grp[k]...), d.pre[k]...)
			l2 = append(append(l2, d.grp[k]...), d.pre[k]...)
			if k < sh.Depth {
				l1 = append(l1, d.mid[k]...)
				l2 = append(l2, d.mid[k]...)
			}
			l2 = append(l2, d.post[k]...)
		}
		literal = chains
		literal[kR1] = append(l1, d.own1...)
		literal[kR2] = append(l2, d.own2...)
	}()
	var r1, r2 []uint8
	for k := 0; k <= sh.Depth; k++ {
		r1 = append(r1, d.grp[k]...)
		r1 = append(r1, d.pre[k]...)
		r2 = append(r2, d.grp[k]...)
		r2 = append(r2, d.pre[k]...)
		if k == sh.Depth {
			r2 = append(r2, d.post[k]...) // attached to the registering group before R2 was registered
		}
	}
	r1 = append(r1, d.own1...)
	r2 = append(r2, d.own2...)
	var eng []uint8
	eng = append(eng, d.pre[0]...)
	eng = append(eng, d.mid[0]...)
	eng = append(eng, d.post[0]...)
	nf := append(append([]uint8{}, eng...), d.nr...)
	nm := append(append([]uint8{}, eng...), d.nm...)
	chains = [nKinds][]uint8{kR1: r1, kR2: r2, k404: nf, k405: nm, k405b: nm}
	for k := 0; k < sh.Depth; k++ {
		for _, id := range d.mid[k] {
			optional[kR1] |= 1 << id
			optional[kR2] |= 1 << id
		}
		for _, id := range d.post[k] {
			optional[kR2] |= 1 << id
		}
	}
	return
}

// chainLens gives the chain length per request kind without building anything.
func chainLens(sh Shape) (l [nKinds]int) {
	for k := 0; k <= sh.Depth; k++ {
		l[kR1] += sh.Grp[k] + sh.Pre[k]
		l[kR2] += sh.Grp[k] + sh.Pre[k]
	}
	l[kR2] += sh.Post[sh.Depth] + 1
	l[kR1] += sh.Own
	e := sh.Pre[0] + sh.Post[0]
	if sh.Depth > 0 {
		e += sh.Mid[0]
	}
	nr, nm := sh.NR, sh.NM
	if sh.NWhen == 0 {
		nr, nm = 0, 0
	}
	l[k404] = e + nr
	l[k405] = e + nm
	l[k405b] = e + nm
	return
}

// ---- the rig: a real engine with instrumented handlers ------------------------------

type runaway struct{}

type state struct {
	beh   [64]uint8
	tr    []uint16
	limit int
}

func (st *state) handle(id uint8, c context.Context, ctx *app.RequestContext) {
	if len(st.tr) > st.limit {
		panic(runaway{})
	}
	st.tr = append(st.tr, ev(evEnter, id, ctx.IsAborted()))
	switch st.beh[id] {
	case bR:
	case bN:
		ctx.Next(c)
		st.tr = append(st.tr, ev(evPost, id, ctx.IsAborted()))
	case bA:
		ctx.Abort()
		st.tr = append(st.tr, ev(evAbort, id, ctx.IsAborted()))
	case bNA:
		ctx.Next(c)
		st.tr = append(st.tr, ev(evPost, id, ctx.IsAborted()))
		ctx.Abort()
		st.tr = append(st.tr, ev(evAbort, id, ctx.IsAborted()))
	case bAN:
		ctx.Abort()
		st.tr = append(st.tr, ev(evAbort, id, ctx.IsAborted()))
		ctx.Next(c)
		st.tr = append(st.tr, ev(evPost, id, ctx.IsAborted()))
	case bNN:
		ctx.Next(c)
		st.tr = append(st.tr, ev(evPost, id, ctx.IsAborted()))
		ctx.Next(c)
		st.tr = append(st.tr, ev(evPost, id, ctx.IsAborted()))
	case bAS:
		ctx.AbortWithStatus(210 + int(id))
		st.tr = append(st.tr, ev(evAbort, id, ctx.IsAborted()))
	}
	st.tr = append(st.tr, ev(evExit, id, ctx.IsAborted()))
}

type rig struct {
	sh       Shape
	e        *route.Engine
	ctx      *app.RequestContext
	st       *state
	d        ids
	sites    []site
	chains   [nKinds][]uint8
	optional [nKinds]uint64
	// judged: the literal chain without the demanded handlers that the engine's registration left out (missing);
	// everything else about the chain is judged on it
	judged  [nKinds][]uint8
	missing [nKinds]uint64
	method  [nKinds]string
	path    [nKinds]string
	m       model
}

func (r *rig) h(class, level int) (app.HandlerFunc, uint8) {
	id := uint8(len(r.sites))
	r.sites = append(r.sites, site{class, level})
	st := r.st
	return func(c context.Context, ctx *app.RequestContext) { st.handle(id, c, ctx) }, id
}

func (r *rig) hs(n, class, level int, rec *[]uint8) []app.HandlerFunc {
	out := make([]app.HandlerFunc, 0, n)
	for i := 0; i < n; i++ {
		f, id := r.h(class, level)
		out = append(out, f)
		*rec = append(*rec, id)
	}
	return out
}

// build executes the registration program of sh on a new engine.
func build(sh Shape) *rig {
	opt := config.NewOptions(nil)
	opt.DisablePrintRoute = true
	opt.HandleMethodNotAllowed = true
	r := &rig{sh: sh, st: &state{tr: make([]uint16, 0, 256)}}
	e := route.NewEngine(opt)
	r.e = e
	setN := func() {
		e.NoRoute(r.hs(sh.NR, sNR, 0, &r.d.nr)...)
		e.NoMethod(r.hs(sh.NM, sNM, 0, &r.d.nm)...)
	}
	if sh.NWhen == 1 {
		setN()
	}
	var groups [4]*route.RouterGroup
	use := func(k int, class int, rec *[]uint8) {
		f, id := r.h(class, k)
		*rec = append(*rec, id)
		if k == 0 {
			e.Use(f) // Engine.Use: also rebuilds the 404/405 chains
		} else {
			groups[k].Use(f)
		}
	}
	prefix := ""
	for k := 0; k <= sh.Depth; k++ {
		if k == 0 {
			groups[0] = &e.RouterGroup
		} else {
			rel := fmt.Sprintf("/g%d", k)
			prefix += rel
			groups[k] = groups[k-1].Group(rel, r.hs(sh.Grp[k], sGrp, k, &r.d.grp[k])...)
		}
		for i := 0; i < sh.Pre[k]; i++ {
			use(k, sPre, &r.d.pre[k])
		}
	}
	for k := 0; k < sh.Depth; k++ {
		for i := 0; i < sh.Mid[k]; i++ {
			use(k, sMid, &r.d.mid[k])
		}
	}
	groups[sh.Depth].GET("/r", r.hs(sh.Own, sOwn1, sh.Depth, &r.d.own1)...)
	if sh.NWhen == 3 {
		setN()
	}
	for k := 0; k <= sh.Depth; k++ {
		for i := 0; i < sh.Post[k]; i++ {
			use(k, sPost, &r.d.post[k])
		}
	}
	if sh.AnyR2 {
		groups[sh.Depth].Any("/s", r.hs(1, sOwn2, sh.Depth, &r.d.own2)...)
	} else {
		groups[sh.Depth].POST("/s", r.hs(1, sOwn2, sh.Depth, &r.d.own2)...)
	}
	if sh.NWhen == 2 {
		setN()
	}
	var literal [nKinds][]uint8
	r.chains, r.optional, literal = refChains(sh, &r.d)
	r.method = [nKinds]string{"GET", "POST", "GET", "POST", "PUT"}
	r.path = [nKinds]string{prefix + "/r", prefix + "/s", "/zz", prefix + "/r", prefix + "/r"}
	r.ctx = e.NewContext()
	r.st.limit = 16*len(r.sites) + 64
	// which of the demanded late handlers did the registration put into the chains? One request per route with
	// transparent handlers tells (registration is over: the answer is a constant of the engine).
	r.judged = literal
	for _, kind := range []int{kR1, kR2} {
		if r.optional[kind] == 0 {
			continue
		}
		for i := range r.sites {
			r.st.beh[i] = bN
		}
		r.dispatch(kind)
		var present uint64
		for _, e := range r.st.tr {
			if int(e>>8)&7 == evEnter {
				present |= 1 << uint8(e&0xff)
			}
		}
		r.missing[kind] = r.optional[kind] &^ present
		var ch []uint8
		for _, id := range literal[kind] {
			if r.missing[kind]&(1<<id) == 0 {
				ch = append(ch, id)
			}
		}
		r.judged[kind] = ch
	}
	return r
}

// registrationFindings reports the demanded handlers that the chain of a route leaves out: one class per
// (site class, request kind).
func (r *rig) registrationFindings(f func(key, msg string, cs Case)) {
	for _, kind := range []int{kR1, kR2} {
		if r.missing[kind] == 0 {
			continue
		}
		done := map[int]bool{}
		for id := uint8(0); int(id) < len(r.sites); id++ {
			if r.missing[kind]&(1<<id) == 0 || done[r.sites[id].class] {
				continue
			}
			done[r.sites[id].class] = true
			beh := make(behVec, len(r.chains[kind]))
			for i := range beh {
				beh[i] = bN
			}
			cs := Case{Shape: r.sh, Req: ReqSpec{Kind: kind, Beh: beh}, Registration: true}
			msg := fmt.Sprintf("shape %+v: %s %s: handler h%d (%s) was attached before the route was registered but is not in the route's chain (the chain runs %v of the demanded %v)",
				r.sh, r.method[kind], r.path[kind], id, r.sites[id], r.judged[kind], literalOf(r, kind))
			f(fmt.Sprintf("registration|left-out-of-route-chain|%s|%s", siteName[r.sites[id].class], kindName[kind]), msg, cs)
		}
	}
}

func literalOf(r *rig, kind int) []uint8 {
	_, _, l := refChains(r.sh, &r.d)
	return l[kind]
}

// dispatch serves one request of the given kind on the recycled context.
func (r *rig) dispatch(kind int) (pv interface{}) {
	ctx := r.ctx
	ctx.Reset()
	ctx.Request.Header.SetMethod(r.method[kind])
	ctx.Request.SetRequestURI(r.path[kind])
	ctx.Request.Header.SetHost("h")
	r.st.tr = r.st.tr[:0]
	defer func() {
		if x := recover(); x != nil {
			pv = x
		}
	}()
	r.e.ServeHTTP(context.Background(), ctx)
	return nil
}

// ---- chainref: the reference model of one chain ------------------------------------

type model struct {
	chain    []uint8
	beh      *[64]uint8
	pos      int // next handler (position in chain) that has not been entered
	aborted  bool
	status   int
	tr       []uint16
	depth    int
	maxDepth int
	entered  int
}

// pending runs every handler that has not been entered, unless/until the chain is aborted.
func (m *model) pending() {
	for !m.aborted && m.pos < len(m.chain) {
		id := m.chain[m.pos]
		m.pos++
		m.enter(id)
	}
}

func (m *model) emit(kind int, id uint8) { m.tr = append(m.tr, ev(kind, id, m.aborted)) }

func (m *model) next(id uint8) {
	m.pending()
	m.emit(evPost, id)
}

func (m *model) abort(id uint8) {
	m.aborted = true
	m.emit(evAbort, id)
}

func (m *model) enter(id uint8) {
	m.entered++
	m.depth++
	if m.depth > m.maxDepth {
		m.maxDepth = m.depth
	}
	m.emit(evEnter, id)
	switch m.beh[id] {
	case bR:
	case bN:
		m.next(id)
	case bA:
		m.abort(id)
	case bNA:
		m.next(id)
		m.abort(id)
	case bAN:
		m.abort(id)
		m.next(id)
	case bNN:
		m.next(id)
		m.next(id)
	case bAS:
		m.status = 210 + int(id)
		m.abort(id)
	}
	m.emit(evExit, id)
	m.depth--
}

func (m *model) run(chain []uint8, beh *[64]uint8, status int) {
	m.chain, m.beh, m.pos, m.aborted, m.status = chain, beh, 0, false, status
	m.tr, m.depth, m.maxDepth, m.entered = m.tr[:0], 0, 0, 0
	m.pending()
}

func (m *model) nontrivial() bool {
	return m.maxDepth >= 2 || (m.aborted && m.entered < len(m.chain))
}

// ---- judging one execution -----------------------------------------------------------

type verdict struct {
	key          string
	msgf         func() string // formats the message; valid only until the rig serves the next request
	nontrivial   bool
	undetermined bool
	events       int
	outcome      uint64
}

func (r *rig) describe(rs ReqSpec) string {
	ch := r.judged[rs.Kind]
	var b strings.Builder
	fmt.Fprintf(&b, "%s %s, expected chain [", r.method[rs.Kind], r.path[rs.Kind])
	p := 0
	for i, id := range ch {
		if i > 0 {
			b.WriteString(", ")
		}
		bn := behName[bN]
		if r.optional[rs.Kind]&(1<<id) == 0 {
			bn = "?"
			if p < len(rs.Beh) && rs.Beh[p] < nBeh {
				bn = behName[rs.Beh[p]]
			}
			p++
		}
		fmt.Fprintf(&b, "h%d=%s{%s}", id, r.sites[id], bn)
	}
	b.WriteString("]")
	return b.String()
}

// exec serves rs and judges it; judge=false only serves it (history).
func (r *rig) exec(rs ReqSpec, judge bool) (v verdict) {
	chain := r.judged[rs.Kind]
	st := r.st
	for i := range r.sites {
		st.beh[i] = bN // handlers outside the enumerated chain (late middleware included): visible and transparent
	}
	for p, id := range r.chains[rs.Kind] {
		st.beh[id] = rs.Beh[p]
	}
	pv := r.dispatch(rs.Kind)
	if !judge {
		return
	}
	got := st.tr
	v.events = len(got)
	fail := func(key, format string, a ...interface{}) verdict {
		v.key = key
		v.msgf = func() string {
			return fmt.Sprintf("shape %+v: %s: ", r.sh, r.describe(rs)) + fmt.Sprintf(format, a...)
		}
		return v
	}
	if pv != nil {
		if _, ok := pv.(runaway); ok {
			return fail("runaway-chain", "handlers keep being entered (more than %d events); trace starts %s", st.limit, trace(got[:12]))
		}
		return fail("panic-in-dispatch", "ServeHTTP panicked: %v; trace so far %s", pv, trace(got))
	}
	// order invariants, judged on the observed trace alone (and the expected chain for positions)
	var pos [64]int8
	for i := range r.sites {
		pos[i] = -1
	}
	for p, id := range chain {
		pos[id] = int8(p)
	}
	var seen uint64
	var stack [64]uint8
	sp := 0
	last := -1
	abortSeen, postSeen := false, false
	for _, e := range got {
		id := uint8(e & 0xff)
		kind := int(e>>8) & 7
		switch kind {
		case evEnter:
			if pos[id] < 0 {
				return fail("unexpected-handler:"+siteName[r.sites[id].class]+":"+kindName[rs.Kind], "handler h%d (%s) ran but is not part of this request's chain; trace %s", id, r.sites[id], trace(got))
			}
			if seen&(1<<id) != 0 {
				return fail("entered-twice", "handler h%d entered twice; trace %s", id, trace(got))
			}
			seen |= 1 << id
			if abortSeen {
				return fail("entered-after-abort", "handler h%d entered after Abort had been called; trace %s", id, trace(got))
			}
			if postSeen {
				return fail("next-returned-before-later-handlers", "handler h%d entered after an earlier handler's Next had already returned; trace %s", id, trace(got))
			}
			if pos[id] >= 0 {
				if int(pos[id]) < last {
					return fail("entered-out-of-order", "handler h%d (position %d) entered after position %d; trace %s", id, pos[id], last, trace(got))
				}
				last = int(pos[id])
			}
			stack[sp] = id
			sp++
		case evPost, evAbort, evExit:
			if sp == 0 || stack[sp-1] != id {
				return fail("not-nested", "handler h%d continued while a later handler had not returned; trace %s", id, trace(got))
			}
			if kind == evPost {
				postSeen = true
			}
			if kind == evAbort {
				abortSeen = true
			}
			if kind == evExit {
				sp--
			}
		}
		if (e&flagAb != 0) != abortSeen {
			return fail("isaborted-wrong", "IsAborted()=%v at %s(h%d) but Abort called=%v; trace %s", e&flagAb != 0, evName[kind], id, abortSeen, trace(got))
		}
	}
	// equality with the reference trace
	init := 200
	switch rs.Kind {
	case k404:
		init = 404
	case k405, k405b:
		init = 405
	}
	m := &r.m
	m.run(chain, &st.beh, init)
	v.nontrivial = m.nontrivial()
	want := m.tr
	same := len(got) == len(want)
	if same {
		for i := range got {
			if got[i] != want[i] {
				same = false
				break
			}
		}
	}
	if !same {
		if !abortSeen {
			for _, id := range chain {
				if seen&(1<<id) == 0 {
					return fail("handler-not-run:"+siteName[r.sites[id].class]+":"+kindName[rs.Kind], "handler h%d (%s) was never entered although nothing aborted the chain; got %s; want %s", id, r.sites[id], trace(got), trace(want))
				}
			}
		}
		return fail("trace-differs-from-reference", "got %s; want %s", trace(got), trace(want))
	}
	if sc := r.ctx.Response.StatusCode(); sc != m.status {
		return fail("status-wrong", "final status %d, want %d; trace %s", sc, m.status, trace(got))
	}
	// outcome class: the trace with handler ids replaced by chain positions
	h := uint64(14695981039346656037)
	for _, e := range got {
		x := uint64(e&0xff00) | uint64(pos[e&0xff])
		h = (h ^ x) * 1099511628211
	}
	h = (h ^ uint64(rs.Kind)) * 1099511628211
	v.outcome = h
	return v
}

// reproduce serves history then cur on a fresh engine and context.
func reproduce(cs Case) verdict {
	if !cs.Shape.valid() {
		return verdict{}
	}
	lens := chainLens(cs.Shape)
	ok := func(rs ReqSpec) bool {
		if rs.Kind < 0 || rs.Kind >= nKinds || len(rs.Beh) != lens[rs.Kind] {
			return false
		}
		for _, b := range rs.Beh {
			if b >= nBeh {
				return false
			}
		}
		return true
	}
	if !ok(cs.Req) {
		return verdict{}
	}
	r := build(cs.Shape)
	for _, h := range cs.History {
		if !ok(h) {
			return verdict{}
		}
		r.exec(h, false)
	}
	return r.exec(cs.Req, true)
}

func replay(c *mc.Ctx, raw json.RawMessage) {
	var cs Case
	if json.Unmarshal(raw, &cs) != nil {
		return
	}
	if cs.PartC != nil {
		execPartC(c, *cs.PartC, cs)
		return
	}
	if cs.Registration {
		if cs.Shape.valid() {
			build(cs.Shape).registrationFindings(func(key, msg string, x Case) {
				if x.Req.Kind == cs.Req.Kind {
					c.Violate(key, msg, cs)
				}
			})
		}
		return
	}
	if v := reproduce(cs); v.key != "" {
		c.Violate(v.key, v.msgf(), cs)
	}
}

// ---- enumeration ---------------------------------------------------------------------

type job struct {
	sh     Shape
	kinds  []int
	prefix []uint8 // fixed leading behaviours (sharding of long part-A chains)
	lfull  int     // chains up to this length get every vector, longer ones the near-uniform family
}

// vectors calls f for every behaviour vector of the job for a chain of length n, in a fixed order.
func (j *job) vectors(n int, f func(v []uint8) bool) {
	v := make([]uint8, n)
	if n <= j.lfull {
		p := 0
		if len(j.prefix) <= n {
			p = copy(v, j.prefix)
		}
		for {
			if !f(v) {
				return
			}
			i := n - 1
			for ; i >= p; i-- {
				v[i]++
				if v[i] < nBeh {
					break
				}
				v[i] = 0
			}
			if i < p {
				return
			}
		}
	}
	for _, base := range []uint8{bN, bR} {
		for i := range v {
			v[i] = base
		}
		if !f(v) {
			return
		}
		for p := 0; p < n; p++ {
			for b := uint8(0); b < nBeh; b++ {
				if b == base {
					continue
				}
				v[p] = b
				if !f(v) {
					return
				}
			}
			v[p] = base
		}
	}
}

// each enumerates the requests of the job in order; stops when f returns false.
func (j *job) each(f func(rs ReqSpec) bool) {
	lens := chainLens(j.sh)
	stop := false
	for _, k := range j.kinds {
		j.vectors(lens[k], func(v []uint8) bool {
			if !f(ReqSpec{Kind: k, Beh: v}) {
				stop = true
				return false
			}
			return true
		})
		if stop {
			return
		}
	}
}

type local struct {
	exec, nontriv, events, undet int64
	outcomes                     map[uint64]struct{}
}

type agg struct {
	mu   sync.Mutex
	free []*local
	all  []*local
}

func (a *agg) get() *local {
	a.mu.Lock()
	defer a.mu.Unlock()
	if n := len(a.free); n > 0 {
		l := a.free[n-1]
		a.free = a.free[:n-1]
		return l
	}
	l := &local{outcomes: map[uint64]struct{}{}}
	a.all = append(a.all, l)
	return l
}

func (a *agg) put(l *local) {
	a.mu.Lock()
	a.free = append(a.free, l)
	a.mu.Unlock()
}

func cloneSpec(rs ReqSpec) ReqSpec {
	return ReqSpec{Kind: rs.Kind, Beh: append(behVec(nil), rs.Beh...)}
}

// report turns a failure seen at index idx of job j into a self-contained replayable case.
func report(c *mc.Ctx, j *job, idx int, rs ReqSpec, v verdict) (string, string, Case) {
	cur := cloneSpec(rs)
	msg0 := v.msgf() // format now: the trace buffers are reused by the next request
	for _, hl := range []int{0, 1, 8, idx} {
		if hl > idx {
			continue
		}
		var hist []ReqSpec
		i := 0
		j.each(func(x ReqSpec) bool {
			if i >= idx {
				return false
			}
			if i >= idx-hl {
				hist = append(hist, cloneSpec(x))
			}
			i++
			return true
		})
		cs := Case{Shape: j.sh, History: hist, Req: cur}
		if rv := reproduce(cs); rv.key != "" {
			msg := rv.msgf()
			if len(hist) > 0 {
				msg += fmt.Sprintf(" (context recycled after %d earlier request(s), see case.history)", len(hist))
			}
			cs.Desc = msg
			return rv.key, msg, cs
		}
	}
	// not reproducible even with the complete history of the job: the framework's replay will flag it
	return "unreproducible:" + v.key, msg0, Case{Shape: j.sh, Req: cur}
}

func runJob(c *mc.Ctx, a *agg, j *job) {
	l := a.get()
	defer a.put(l)
	r := build(j.sh)
	r.registrationFindings(func(key, msg string, cs Case) { c.Violate(key, msg, cs) })
	type rep struct {
		key, msg string
		cs       Case
		n        int
	}
	var reps map[string]*rep
	idx := 0
	j.each(func(rs ReqSpec) bool {
		if idx&1023 == 1023 && c.Expired() {
			return false
		}
		v := r.exec(rs, true)
		l.exec++
		l.events += int64(v.events)
		if v.key != "" {
			if reps == nil {
				reps = map[string]*rep{}
			}
			p := reps[v.key]
			if p == nil { // one self-contained reproduction per failure class and job
				k, m, cs := report(c, j, idx, rs, v)
				p = &rep{key: k, msg: m, cs: cs}
				reps[v.key] = p
			}
			p.n++
			c.Violate(p.key, p.msg, p.cs)
		} else if v.undetermined {
			l.undet++
		} else {
			if v.nontrivial {
				l.nontriv++
			}
			l.outcomes[v.outcome] = struct{}{}
		}
		idx++
		return true
	})
}

var allKinds = []int{kR1, kR2, k404, k405, k405b}

// jobsA: every chain of length 1..N over the 7 behaviours, for every placement of its handlers.
func jobsA(N int) (jobs []*job, chains int64) {
	add := func(sh Shape, kind, n int) {
		pl := n - 5
		if pl < 0 {
			pl = 0
		}
		cnt := 1
		for i := 0; i < pl; i++ {
			cnt *= nBeh
		}
		for x := 0; x < cnt; x++ {
			pre := make([]uint8, pl)
			y := x
			for i := pl - 1; i >= 0; i-- {
				pre[i] = uint8(y % nBeh)
				y /= nBeh
			}
			jobs = append(jobs, &job{sh: sh, kinds: []int{kind}, prefix: pre, lfull: N})
		}
	}
	for n := 1; n <= N; n++ {
		// matched, route on the engine: a x engine.Use, n-a own handlers
		for a := 0; a < n; a++ {
			sh := Shape{Own: n - a}
			sh.Pre[0] = a
			add(sh, kR1, n)
		}
		// matched, route on a group: a x engine.Use, b Group() args, cc x group.Use, own >= 1
		for a := 0; a < n; a++ {
			for b := 0; a+b < n; b++ {
				for cc := 0; a+b+cc < n; cc++ {
					sh := Shape{Depth: 1, Own: n - a - b - cc}
					sh.Pre[0], sh.Grp[1], sh.Pre[1] = a, b, cc
					add(sh, kR1, n)
				}
			}
		}
		// unmatched / wrong method: s x engine.Use, n-s NoRoute resp. NoMethod handlers, set first or last
		for s := 0; s <= n; s++ {
			for when := 1; when <= 3; when++ {
				sh := Shape{Own: 1, NR: n - s, NWhen: when}
				sh.Pre[0] = s
				add(sh, k404, n)
				sh = Shape{Own: 1, NM: n - s, NWhen: when}
				sh.Pre[0] = s
				add(sh, k405, n)
			}
		}
		c7 := int64(1)
		for i := 0; i < n; i++ {
			c7 *= nBeh
		}
		chains += c7
	}
	return
}

// jobsB: every registration shape of the bounded family, all five request kinds.
func jobsB(lfull, maxPreGroup int) (jobs []*job) {
	for d := 0; d <= 3; d++ {
		// digits: Grp[1..d] in {0,1}; Pre[0] in 0..3, Pre[1..d] in 0..maxPreGroup; Mid[0..d-1] in {0,1}; Post[0], Post[d] in {0,1}
		var rec func(sh Shape, stage, k int)
		rec = func(sh Shape, stage, k int) {
			switch stage {
			case 0: // Grp
				if k > d {
					rec(sh, 1, 0)
					return
				}
				for v := 0; v <= 1; v++ {
					sh.Grp[k] = v
					rec(sh, 0, k+1)
				}
			case 1: // Pre
				if k > d {
					rec(sh, 2, 0)
					return
				}
				max := maxPreGroup
				if k == 0 {
					max = 3
				}
				for v := 0; v <= max; v++ {
					sh.Pre[k] = v
					rec(sh, 1, k+1)
				}
			case 2: // Mid
				if k >= d {
					rec(sh, 3, 0)
					return
				}
				for v := 0; v <= 1; v++ {
					sh.Mid[k] = v
					rec(sh, 2, k+1)
				}
			case 3: // Post on the engine and on the registering group
				for p0 := 0; p0 <= 1; p0++ {
					for pd := 0; pd <= 1; pd++ {
						if d == 0 && pd != p0 {
							continue
						}
						sh.Post[0], sh.Post[d] = p0, pd
						for own := 1; own <= 2; own++ {
							for when := 0; when <= 3; when++ {
								for _, anyR2 := range []bool{false, true} {
									s := sh
									s.Own, s.NWhen, s.AnyR2 = own, when, anyR2
									if when != 0 {
										s.NR, s.NM = 1, 1
									}
									jobs = append(jobs, &job{sh: s, kinds: allKinds, lfull: lfull})
								}
							}
						}
					}
				}
			}
		}
		rec(Shape{Depth: d}, 0, 1)
	}
	return
}

func run(c *mc.Ctx) {
	N, lfull, maxPre := 5, 3, 1
	if c.Thorough() {
		N, lfull, maxPre = 7, 4, 2
	}
	ja, chains := jobsA(N)
	jb := jobsB(lfull, maxPre)
	c.Extra("partA_max_chain_length", N)
	c.Extra("partA_behaviour_vectors", chains)
	c.Extra("partA_jobs", len(ja))
	c.Extra("partB_shapes", len(jb))
	c.Extra("partB_full_vector_length", lfull)
	c.Extra("partB_max_use_before_per_group", maxPre)

	c.Sample(Case{Shape: ja[0].sh, Req: ReqSpec{Kind: kR1, Beh: []uint8{bN}}, Desc: "part A, smallest chain"})
	if len(jb) > 1000 {
		s := jb[len(jb)-7]
		c.Sample(Case{Shape: s.sh, Req: ReqSpec{Kind: kR1, Beh: make([]uint8, chainLens(s.sh)[kR1])}, Desc: "part B, a depth-3 shape, all handlers return"})
	}

	jobs := append(ja, jb...)
	a := &agg{}
	c.ParallelFor(len(jobs), func(i int) { runJob(c, a, jobs[i]) })

	out := map[uint64]struct{}{}
	var exec, nontriv, events, undet int64
	for _, l := range a.all {
		exec += l.exec
		nontriv += l.nontriv
		events += l.events
		undet += l.undet
		for k := range l.outcomes {
			out[k] = struct{}{}
		}
	}
	pcs := partCCases()
	c.Extra("partC_cases", len(pcs))
	for i := range pcs {
		execPartC(c, pcs[i], Case{PartC: &pcs[i], Desc: "part C"})
		exec++
		nontriv++
	}
	c.Add("executions", exec)
	c.Add("nontrivial", nontriv)
	c.Add("transitions", events)
	c.Add("undetermined_by_property", undet)
	for k := range out {
		c.Distinct("outcomes", fmt.Sprintf("%016x", k))
	}
}
