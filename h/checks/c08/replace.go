package c08

import (
	"bytes"
	"fmt"
	"os"
	"path/filepath"
	"sync/atomic"
	"time"

	"verifh/httpref"
	"verifh/mc"
	"verifh/netsim"
	"verifh/srvh"

	"github.com/cloudwego/hertz/pkg/app"
)

// Part R: the tree of files changes between two requests. A file is served once (which, with Compress, leaves a compressed
// copy next to it and, with any option, an entry in the handler's cache), then replaced by other contents whose
// modification time is older or newer than the first one's, and requested again from a handler with a cold cache (a new
// FS handler on the same root, as after a restart or a cache expiry). The second answer must be the bytes of the file as
// it is now. (Equal modification times are left out: the handler has no way to tell.)

type ReplaceCase struct {
	Opt     int    `json:"opt"`     // as Case.Opt
	Len1    int    `json:"len1"`    // length of the first contents
	Len2    int    `json:"len2"`    // length of the replacement
	Older   bool   `json:"older"`   // the replacement's modification time lies before the original's
	Gzip1   bool   `json:"gzip1"`   // first request negotiates gzip
	Gzip2   bool   `json:"gzip2"`   // second request negotiates gzip
	Range2  string `json:"range2"`  // Range of the second request
	Replace bool   `json:"replace"` // marks the case kind for replay
	SameFS  bool   `json:"same_fs"` // second request on the same handler after its cache has expired (real time, 3 x cache life)
}

var replSeq int64

func replContent(n int, salt byte) []byte {
	b := make([]byte, n)
	for i := range b {
		b[i] = "compressible "[i%13] + salt*0 // text that compresses well
	}
	if n > 0 {
		b[0] = 'A' + salt
		b[n-1] = 'a' + salt
	}
	return b
}

func (w *worker) execReplace(c *mc.Ctx, rc ReplaceCase) {
	name := fmt.Sprintf("r%d.txt", atomic.AddInt64(&replSeq, 1))
	path := filepath.Join(w.root, name)
	c1, c2 := replContent(rc.Len1, 1), replContent(rc.Len2, 2)
	t0 := time.Now().Add(-time.Hour).Truncate(time.Second)
	os.WriteFile(path, c1, 0o644) //nolint:errcheck
	os.Chtimes(path, t0, t0)      //nolint:errcheck
	defer func() {
		os.Remove(path)               //nolint:errcheck
		os.Remove(path + ".hertz.gz") //nolint:errcheck
	}()
	newSrv := func() *srvh.Server {
		s := srvh.New(srvh.Opts{})
		s.E.StaticFS("/", &app.FS{Root: w.root, AcceptByteRange: rc.Opt&1 != 0, Compress: rc.Opt&2 != 0, CacheDuration: 40 * time.Millisecond})
		s.Start()
		return s
	}
	fail := func(kind, msg string) {
		c.Violate(fmt.Sprintf("replaced-file|%s|opt=%d|older=%v|gzip=%v,%v", kind, rc.Opt, rc.Older, rc.Gzip1, rc.Gzip2), fmt.Sprintf("%+v: %s", rc, msg), rc)
	}
	get := func(s *srvh.Server, gz bool, rg string) *httpref.Message {
		in := "GET /" + name + " HTTP/1.1\r\nHost: h\r\n"
		if gz {
			in += "Accept-Encoding: gzip\r\n"
		}
		if rg != "" {
			in += "Range: " + rg + "\r\n"
		}
		in += "\r\n"
		res := s.Run([][]byte{[]byte(in)}, netsim.EndEOF, nil)
		if res.Panic != nil {
			fail("panic", fmt.Sprintf("panic: %v", res.Panic))
			return nil
		}
		ms, err := httpref.ParseResponses(res.Out, []string{"GET"}, true)
		if err != nil || len(ms) != 1 {
			fail("malformed", fmt.Sprintf("output is not one well-formed response: %v; %q", err, clip(res.Out)))
			return nil
		}
		return ms[0]
	}
	body := func(m *httpref.Message) []byte {
		if v, _ := m.Get("Content-Encoding"); v == "gzip" {
			return gunzip(m.Body)
		}
		return m.Body
	}
	s1 := newSrv()
	m1 := get(s1, rc.Gzip1, "")
	if m1 == nil {
		return
	}
	if m1.Status != 200 || !bytes.Equal(body(m1), c1) {
		fail("first", fmt.Sprintf("first request: status %d, body %q", m1.Status, clip(body(m1))))
		return
	}
	// replace the file (new inode, as editors and deploy tools do)
	t1 := t0.Add(10 * time.Minute)
	if rc.Older {
		t1 = t0.Add(-10 * time.Minute)
	}
	tmp := path + ".new"
	os.WriteFile(tmp, c2, 0o644) //nolint:errcheck
	os.Chtimes(tmp, t1, t1)      //nolint:errcheck
	os.Rename(tmp, path)         //nolint:errcheck
	s2 := newSrv()               // cold cache; waiting out the first handler's cache life would be a wall-clock oracle
	m2 := get(s2, rc.Gzip2, rc.Range2)
	if m2 == nil {
		return
	}
	c.Distinct("outcomes", fmt.Sprintf("repl|%d|%d", m2.Status, len(m2.Body)))
	if rc.Range2 == "" {
		if m2.Status != 200 || !bytes.Equal(body(m2), c2) {
			fail("stale", fmt.Sprintf("after the file was replaced (%d -> %d bytes) the answer is status %d with %d bytes %q, expected the new contents %q", rc.Len1, rc.Len2, m2.Status, len(body(m2)), clip(body(m2)), clip(c2)))
		}
		return
	}
	kind, a, b := expectRange(rc.Range2, len(c2))
	if rc.Opt&1 == 0 {
		kind = "none"
	}
	switch kind {
	case "ok":
		if v, _ := m2.Get("Content-Encoding"); m2.Status != 206 || v != "" || !bytes.Equal(m2.Body, c2[a:b+1]) {
			fail("stale-range", fmt.Sprintf("after the file was replaced, %s: status %d body %q, expected 206 with %q", rc.Range2, m2.Status, clip(m2.Body), clip(c2[a:b+1])))
		}
	case "none":
		if m2.Status != 200 || !bytes.Equal(body(m2), c2) {
			fail("stale", fmt.Sprintf("after the file was replaced the answer is status %d with %q, expected the new contents", m2.Status, clip(body(m2))))
		}
	case "unsat":
		if m2.Status != 416 {
			fail("stale-range", fmt.Sprintf("after the file was replaced, %s on %d bytes: status %d, expected 416", rc.Range2, len(c2), m2.Status))
		}
	}
}

func replaceCases(thorough bool) []ReplaceCase {
	var out []ReplaceCase
	lens := []int{0, 300, 9000}
	for opt := 0; opt < 4; opt++ {
		for _, l1 := range lens {
			for _, l2 := range lens {
				if l1 == 0 && l2 == 0 {
					continue
				}
				for _, older := range []bool{false, true} {
					for _, g1 := range []bool{false, true} {
						for _, g2 := range []bool{false, true} {
							if (g1 || g2) && opt&2 == 0 {
								continue
							}
							for _, rg := range []string{"", "bytes=1-2", "bytes=250-"} {
								if rg != "" && (opt&1 == 0 || g2) {
									continue
								}
								out = append(out, ReplaceCase{Opt: opt, Len1: l1, Len2: l2, Older: older, Gzip1: g1, Gzip2: g2, Range2: rg, Replace: true})
							}
						}
					}
				}
			}
		}
	}
	return out
}
