// Package c08: static file responses return exactly the requested bytes of files under the root.
// Exhaustive grid: every Range form of a small grammar x every file of a fixed tree x method x
// option combination x route kind, two (or three) consecutive requests on one keep-alive
// connection (cold cache, warm cache, range-then-plain sequences), plus traversal paths;
// the reference is Go slices of the file bytes with RFC 7233 single-range semantics.
package c08

import (
	"bytes"
	"compress/gzip"
	"context"
	"encoding/json"
	"fmt"
	"io"
	"os"
	"path/filepath"
	"strconv"
	"strings"
	"sync"
	"sync/atomic"
	"time"

	"github.com/cloudwego/hertz/pkg/app"

	"verifh/httpref"
	"verifh/mc"
	"verifh/netsim"
	"verifh/srvh"
)

var Check = &mc.Check{
	ID:    "C08",
	Level: "model_checking",
	Rule: "Range forms = {absent} + bytes=<first>-<last> for first,last in {empty,0..6,20-digit number} + malformed forms (no '=', other unit, letters, '--1', '1-2-3', multi-range, blanks); files of length 0..5, 8192, 8193 (small/big-file threshold), 16500, an index file, a sub-directory; methods GET/HEAD; options AcceptByteRange x Compress(+Accept-Encoding: gzip) x IndexNames x GenerateIndexPages; routes StaticFS, ctx.File and ctx.FileFromFS; file names with %, ?, #, blank (a%41.txt next to aA.txt, q?x.txt next to q, ...) requested through their encoded paths; part R: a file served once (plain / gzip) is replaced by contents of another length with an older or newer modification time and requested again (plain / gzip / Range) from a handler with a cold cache - the answer is the file as it is now; " +
		"per connection two consecutive identical requests (cold/warm cache) and, over a reduced set, every ordered pair of different Range forms on the same file; traversal targets; non-trivial = requests with a Range header or a non-regular target",
	Run:    run,
	Replay: replay,
	Assumptions: []string{
		"a syntactically invalid, multi-range, reversed or platform-int-overflowing Range may be ignored (200, whole file) or refused (416): both are accepted; well-formed single ranges are judged strictly",
		"for a suffix range on a zero-length file 416 or 200 with an empty body is accepted",
	},
}

type Req struct {
	Method string `json:"method"`
	Path   string `json:"path"`
	Range  string `json:"range,omitempty"` // "" = no header
	Gzip   bool   `json:"gzip,omitempty"`
	// Name: the file the (percent-encoded) Path names, when the name itself holds '%', '?', '#' or a blank
	Name string `json:"name,omitempty"`
}

type Case struct {
	Opt   int    `json:"opt"`   // bit0 AcceptByteRange, bit1 Compress, bit2 IndexNames, bit3 GenerateIndexPages
	Route string `json:"route"` // static | file
	Reqs  []Req  `json:"reqs"`
}

var fileLens = map[string]int{"f0": 0, "f1": 1, "f2": 2, "f3": 3, "f4": 4, "f5": 5, "small8192": 8192, "big8193": 8193, "big16500": 16500,
	// legal file names that read differently as a request target, each next to the file it would be mistaken for
	"a%41.txt": 6, "aA.txt": 7, "q?x.txt": 8, "q": 9, "h#x.txt": 10, "h": 11, "100%.txt": 12, "sp ace": 13,
	// names so long that the name of the compressed copy (+".hertz.gz", +".hertz.gz.tmp") exceeds NAME_MAX
	longName244: 300, longName250: 301}

var longName244 = strings.Repeat("n", 240) + ".txt"
var longName250 = strings.Repeat("m", 246) + ".txt"

// specialNames: file name -> its encoding as a request path
var specialNames = map[string]string{"a%41.txt": "/a%2541.txt", "q?x.txt": "/q%3Fx.txt", "h#x.txt": "/h%23x.txt", "100%.txt": "/100%25.txt", "sp ace": "/sp%20ace",
	"aA.txt": "/aA.txt", "q": "/q", "h": "/h", "a%2541.txt": "/a%252541.txt", longName244: "/" + longName244, longName250: "/" + longName250}

func content(name string) []byte {
	n, ok := fileLens[name]
	if !ok {
		switch name {
		case "index.html":
			return []byte("<html>index of root</html>")
		case "sub/index.html":
			return []byte("<html>index of sub</html>")
		case "sub/inner.txt":
			return []byte("inner file contents, compressible compressible compressible compressible")
		}
		return nil
	}
	b := make([]byte, n)
	for i := range b {
		b[i] = byte('a' + (i*7+len(name))%26)
	}
	return b
}

const canary = "CANARY-OUTSIDE-THE-ROOT"

type worker struct {
	dir      string
	root     string
	servers  map[string]*srvh.Server
	fileTgt  string
	initOnce sync.Once
}

var baseDir string
var baseOnce sync.Once

func newWorker(id int) *worker {
	baseOnce.Do(func() {
		baseDir, _ = os.MkdirTemp("", "verif-c08-")
	})
	w := &worker{servers: map[string]*srvh.Server{}}
	w.dir = filepath.Join(baseDir, fmt.Sprintf("w%d", id))
	w.root = filepath.Join(w.dir, "root")
	os.MkdirAll(filepath.Join(w.root, "sub"), 0o755)     //nolint:errcheck
	os.MkdirAll(filepath.Join(w.root, "noindex"), 0o755) //nolint:errcheck
	os.MkdirAll(filepath.Join(w.dir, "outside"), 0o755)  //nolint:errcheck
	for name := range fileLens {
		os.WriteFile(filepath.Join(w.root, name), content(name), 0o644) //nolint:errcheck
	}
	for _, n := range []string{"index.html", "sub/index.html", "sub/inner.txt"} {
		os.WriteFile(filepath.Join(w.root, n), content(n), 0o644) //nolint:errcheck
	}
	os.WriteFile(filepath.Join(w.root, "noindex", "x.txt"), []byte("x"), 0o644)        //nolint:errcheck
	os.WriteFile(filepath.Join(w.dir, "outside", "canary.txt"), []byte(canary), 0o644) //nolint:errcheck
	return w
}

func (w *worker) server(opt int, route string) *srvh.Server {
	k := fmt.Sprintf("%d/%s", opt, route)
	if s := w.servers[k]; s != nil {
		return s
	}
	s := srvh.New(srvh.Opts{})
	if route == "static" {
		// a short cache life keeps the number of open files bounded; within one case (microseconds) the cache is still warm
		fs := &app.FS{Root: w.root, AcceptByteRange: opt&1 != 0, Compress: opt&2 != 0, GenerateIndexPages: opt&8 != 0, CacheDuration: 40 * time.Millisecond}
		if opt&4 != 0 {
			fs.IndexNames = []string{"index.htm", "index.html"} // the first name exists nowhere: the lookup has to move on
		}
		s.E.StaticFS("/", fs)
	} else if route == "fromfs" {
		fs := &app.FS{Root: w.root, AcceptByteRange: opt&1 != 0, CacheDuration: 40 * time.Millisecond}
		s.E.Any("/*p", func(c context.Context, ctx *app.RequestContext) {
			// the file is named by the handler, again selected by the (decoded) request path
			ctx.FileFromFS("/"+filepath.Base(string(ctx.Path())), fs)
		})
	} else {
		s.E.Any("/*p", func(c context.Context, ctx *app.RequestContext) {
			// ctx.File serves the named file (the route decides which; the request path is only a selector here)
			ctx.File(filepath.Join(w.root, filepath.Base(string(ctx.Path()))))
		})
	}
	s.Start()
	w.servers[k] = s
	return s
}

// parseRange: strict single-range syntax. kind: "none", "ok", "unsat", "lenient" (either 200-whole or 416 acceptable)
func expectRange(rng string, n int) (kind string, a, b int) {
	if rng == "" {
		return "none", 0, n - 1
	}
	if !strings.HasPrefix(rng, "bytes=") {
		return "lenient", 0, 0
	}
	spec := rng[len("bytes="):]
	i := strings.IndexByte(spec, '-')
	if i < 0 || strings.Count(spec, "-") != 1 {
		return "lenient", 0, 0
	}
	fs, ls := spec[:i], spec[i+1:]
	isNum := func(s string) bool {
		if s == "" {
			return false
		}
		for _, c := range s {
			if c < '0' || c > '9' {
				return false
			}
		}
		return true
	}
	if fs == "" && ls == "" {
		return "lenient", 0, 0
	}
	if (fs != "" && !isNum(fs)) || (ls != "" && !isNum(ls)) {
		return "lenient", 0, 0
	}
	if len(fs) > 15 || len(ls) > 15 {
		return "lenient", 0, 0 // does not fit the platform int
	}
	if fs == "" {
		suffix, _ := strconv.Atoi(ls)
		if suffix == 0 {
			return "unsat", 0, 0
		}
		if n == 0 {
			return "unsat-or-empty", 0, 0
		}
		a = n - suffix
		if a < 0 {
			a = 0
		}
		return "ok", a, n - 1
	}
	a, _ = strconv.Atoi(fs)
	if a >= n {
		return "unsat", 0, 0
	}
	if ls == "" {
		return "ok", a, n - 1
	}
	b, _ = strconv.Atoi(ls)
	if b < a {
		return "lenient", 0, 0
	}
	if b > n-1 {
		b = n - 1
	}
	return "ok", a, b
}

func (w *worker) exec(c *mc.Ctx, cs Case) {
	var in bytes.Buffer
	var methods []string
	// Every case works on its own hard link of the target file, so that the handler's file cache (keyed by path) starts
	// cold for every case: a verdict then depends on the case alone and replays reproduce it.
	tag := fmt.Sprintf("c%d-", atomic.AddInt64(&caseSeq, 1))
	linked := map[string]bool{}
	wirePath := func(p string) string {
		rel := strings.TrimPrefix(p, "/")
		if content(rel) == nil || (cs.Route == "file" && len(cs.Reqs) < 3) {
			return p
		}
		dir, base := filepath.Split(rel)
		if !linked[rel] {
			linked[rel] = true
			os.Link(filepath.Join(w.root, rel), filepath.Join(w.root, dir, tag+base)) //nolint:errcheck
		}
		return "/" + dir + tag + base
	}
	for _, r := range cs.Reqs {
		fmt.Fprintf(&in, "%s %s HTTP/1.1\r\nHost: h\r\n", r.Method, wirePath(r.Path))
		if r.Range != "" {
			fmt.Fprintf(&in, "Range: %s\r\n", r.Range)
		}
		if r.Gzip {
			in.WriteString("Accept-Encoding: gzip\r\n")
		}
		in.WriteString("\r\n")
		methods = append(methods, r.Method)
	}
	res := w.server(cs.Opt, cs.Route).Run([][]byte{in.Bytes()}, netsim.EndEOF, nil)
	fail := func(i int, kind, msg string) {
		r := cs.Reqs[i]
		rk, _, _ := expectRange(r.Range, 1)
		c.Violate(fmt.Sprintf("%s|route=%s|opt=%d|range-kind=%s|req#%d|%s", kind, cs.Route, cs.Opt, rk, i, r.Method),
			fmt.Sprintf("request %d (%s %s Range=%q gzip=%v, options=%04b, route=%s): %s\nrequests=%+v", i, r.Method, r.Path, r.Range, r.Gzip, cs.Opt, cs.Route, msg, cs.Reqs), cs)
	}
	if res.Panic != nil {
		c.Violate("panic|"+cs.Route, fmt.Sprintf("panic: %v\n%s\nrequests=%+v", res.Panic, res.Stack, cs.Reqs), cs)
		return
	}
	ms, err := httpref.ParseResponses(res.Out, methods, true)
	if err != nil {
		fail(len(ms), "malformed", fmt.Sprintf("output is not well-formed: %v; %q", err, clip(res.Out)))
		return
	}
	if len(ms) != len(cs.Reqs) {
		fail(len(ms)-0, "count", fmt.Sprintf("%d responses for %d requests: %q", len(ms), len(cs.Reqs), clip(res.Out)))
		return
	}
	acceptRange := cs.Opt&1 != 0 || cs.Route == "file"
	for i, m := range ms {
		ce, _ := m.Get("Content-Encoding")
		c.Distinct("outcomes", fmt.Sprintf("%d|body=%d|enc=%s", m.Status, len(m.Body), ce))
		r := cs.Reqs[i]
		if bytes.Contains(m.Body, []byte(canary)) {
			fail(i, "outside-root", "the response carries the contents of a file outside the root")
			return
		}
		// which file does the target name?
		rel := strings.TrimPrefix(r.Path, "/")
		if r.Name != "" {
			rel = r.Name
		}
		data := content(rel)
		isDir := rel == "" || rel == "sub" || rel == "sub/" || rel == "noindex" || rel == "noindex/"
		// any target that is not in plain normal form: judged only by "whatever is served is a file under the root"
		traversal := strings.Contains(r.Path, "..") || strings.ContainsAny(r.Path, "%\\") || strings.Contains(r.Path, "outside") || strings.Contains(r.Path, "//") || strings.Contains(r.Path, "/.") || (len(r.Path) > 1 && strings.HasSuffix(r.Path, "/") && !isDirPath(r.Path))
		if cs.Route == "file" || cs.Route == "fromfs" {
			isDir, traversal = false, false
			data = content(filepath.Base(rel))
		}
		if r.Name != "" {
			isDir, traversal = false, false
		}
		switch {
		case traversal:
			if m.Status == 200 || m.Status == 206 {
				// a normalised path may legitimately resolve to something under the root; it must then be that file
				if !knownBody(m.Body) {
					fail(i, "traversal", fmt.Sprintf("status %d with a body that is no file under the root: %q", m.Status, clip(m.Body)))
					return
				}
			}
			continue
		case isDir:
			// a directory named with its trailing slash: with index names configured and an index file present the
			// answer is that file; with generated index pages (and no index file to serve) it is the listing
			if cs.Route == "static" && r.Method == "GET" && r.Range == "" && strings.HasSuffix(r.Path, "/") {
				hasIndex := cs.Opt&4 != 0 && (rel == "" || strings.HasPrefix(rel, "sub"))
				switch {
				case hasIndex && m.Status != 200:
					fail(i, "index-status", fmt.Sprintf("status %d for a directory whose configured index file exists, expected 200 with that file", m.Status))
					return
				case !hasIndex && cs.Opt&8 != 0:
					got := m.Body
					if v, _ := m.Get("Content-Encoding"); v == "gzip" {
						got = gunzip(got)
					}
					if m.Status != 200 || !bytes.Contains(got, []byte("<html>")) || (strings.HasPrefix(rel, "noindex") && !bytes.Contains(got, []byte("x.txt"))) {
						fail(i, "generated-index", fmt.Sprintf("status %d, body %q: expected the generated index page of the directory", m.Status, clip(got)))
						return
					}
				}
			}
			if m.Status == 200 && cs.Opt&4 != 0 && cs.Route == "static" && (rel == "" || strings.HasPrefix(rel, "sub")) && r.Method == "GET" {
				want := content("index.html")
				if strings.HasPrefix(rel, "sub") {
					want = content("sub/index.html")
				}
				got := m.Body
				if v, _ := m.Get("Content-Encoding"); v == "gzip" {
					got = gunzip(got)
				}
				if r.Range == "" && !bytes.Equal(got, want) {
					fail(i, "index", fmt.Sprintf("directory index differs from the index file: %q", clip(got)))
					return
				}
			}
			continue
		case data == nil:
			if m.Status != 404 {
				fail(i, "missing-file", fmt.Sprintf("no such file, but status %d", m.Status))
				return
			}
			continue
		}
		n := len(data)
		kind, a, b := expectRange(r.Range, n)
		if !acceptRange {
			kind, a, b = "none", 0, n-1
		}
		whole := func() string {
			if m.Status != 200 {
				return fmt.Sprintf("status %d, expected 200 with the whole file", m.Status)
			}
			got := m.Body
			if v, _ := m.Get("Content-Encoding"); v == "gzip" {
				if !(cs.Opt&2 != 0 || cs.Route == "file") || !r.Gzip {
					return "gzip content encoding although compression was not negotiated"
				}
				if r.Method == "HEAD" {
					return ""
				}
				got = gunzip(got)
			} else if r.Method == "HEAD" {
				if cl, _ := m.Get("Content-Length"); cl != strconv.Itoa(n) {
					return fmt.Sprintf("HEAD: Content-Length %s, file has %d bytes", cl, n)
				}
				return ""
			}
			if !bytes.Equal(got, data) {
				return fmt.Sprintf("body has %d bytes and differs from the %d-byte file (first difference at %d)", len(got), n, firstDiff(got, data))
			}
			return ""
		}
		unsat := func() string {
			if m.Status != 416 {
				return fmt.Sprintf("status %d, expected 416 (range unsatisfiable for a %d-byte file)", m.Status, n)
			}
			return ""
		}
		partial := func() string {
			if m.Status != 206 {
				return fmt.Sprintf("status %d, expected 206 with bytes %d-%d of %d", m.Status, a, b, n)
			}
			if v, ok := m.Get("Content-Encoding"); ok && v != "" {
				return "a partial response carries Content-Encoding " + v + " (slice of the compressed representation, not of the file)"
			}
			if cr, _ := m.Get("Content-Range"); cr != fmt.Sprintf("bytes %d-%d/%d", a, b, n) {
				return fmt.Sprintf("Content-Range %q, expected %q", cr, fmt.Sprintf("bytes %d-%d/%d", a, b, n))
			}
			if cl, _ := m.Get("Content-Length"); cl != strconv.Itoa(b-a+1) {
				return fmt.Sprintf("Content-Length %s, expected %d", cl, b-a+1)
			}
			if r.Method != "HEAD" && !bytes.Equal(m.Body, data[a:b+1]) {
				return fmt.Sprintf("body has %d bytes and is not bytes %d-%d of the file (first difference at %d)", len(m.Body), a, b, firstDiff(m.Body, data[a:b+1]))
			}
			return ""
		}
		var why string
		switch kind {
		case "none":
			why = whole()
		case "ok":
			why = partial()
		case "unsat":
			why = unsat()
		case "unsat-or-empty":
			if w1 := unsat(); w1 != "" {
				if w2 := whole(); w2 != "" {
					why = w1 + " / " + w2
				}
			}
		case "lenient":
			if w1 := unsat(); w1 != "" {
				if w2 := whole(); w2 != "" {
					why = "neither ignored nor refused: " + w1 + " / " + w2
				}
			}
		}
		if why != "" {
			fail(i, "wrong-bytes", why)
			return
		}
		if r.Method == "HEAD" && len(m.Body) != 0 {
			fail(i, "head-body", "HEAD response carries a body")
			return
		}
	}
}

func isDirPath(p string) bool {
	switch strings.Trim(p, "/") {
	case "", "sub", "noindex":
		return true
	}
	return false
}

func knownBody(b []byte) bool {
	if len(b) == 0 {
		return true
	}
	for name := range fileLens {
		d := content(name)
		if bytes.Contains(d, b) {
			return true
		}
	}
	for _, n := range []string{"index.html", "sub/index.html", "sub/inner.txt"} {
		if bytes.Contains(content(n), b) {
			return true
		}
	}
	// generated index pages and gzip bodies are not file slices but cannot contain the canary (checked separately)
	return bytes.Contains(b, []byte("<html>")) || bytes.HasPrefix(b, []byte{0x1f, 0x8b})
}

func gunzip(b []byte) []byte {
	zr, err := gzip.NewReader(bytes.NewReader(b))
	if err != nil {
		return []byte("<<not gzip: " + err.Error() + ">>")
	}
	out, err := io.ReadAll(zr)
	if err != nil {
		return []byte("<<bad gzip: " + err.Error() + ">>")
	}
	return out
}

func firstDiff(a, b []byte) int {
	for i := 0; i < len(a) && i < len(b); i++ {
		if a[i] != b[i] {
			return i
		}
	}
	if len(a) < len(b) {
		return len(a)
	}
	return len(b)
}

func clip(b []byte) string {
	if len(b) > 300 {
		return string(b[:300]) + "..."
	}
	return string(b)
}

func rangeForms() []string {
	nums := []string{"", "0", "1", "2", "3", "4", "5", "6", "99999999999999999999"}
	out := []string{""}
	for _, f := range nums {
		for _, l := range nums {
			out = append(out, "bytes="+f+"-"+l)
		}
	}
	out = append(out, "bytes", "bytes 0-1", "bits=0-1", "bytes=a-b", "bytes=--1", "bytes=1-2-3", "bytes=0-1,3-4", "bytes= 0-1", "bytes=0 -1", "bytes=-", "BYTES=0-1", "bytes=8191-8192", "bytes=8192-", "bytes=-8193", "bytes=4000-9000", "bytes=-16384", "bytes=16499-16499", "bytes=0-0", "bytes=8192-8192")
	return out
}

func run(c *mc.Ctx) {
	forms := rangeForms()
	c.Extra("range_forms", len(forms))
	var files []string
	for f := range fileLens {
		if _, special := specialNames[f]; special {
			continue // requested through their encoded paths below
		}
		files = append(files, f)
	}
	files = append(files, "index.html", "sub/inner.txt", "missing.txt")
	var cases []Case
	// file names with '%', '?', '#', ' ': the encoded request path names exactly that file (or nothing, for the last one)
	for name, path := range specialNames {
		for _, route := range []string{"static", "file", "fromfs"} {
			for _, opt := range []int{0, 1, 2, 3} {
				if route == "file" && opt != 0 {
					continue
				}
				if opt&2 != 0 && (route != "static" || len(name) < 200) {
					continue // compression: only for the names whose compressed copy cannot be created
				}
				for _, rg := range []string{"", "bytes=1-2", "bytes=-1", "bytes=99-"} {
					for _, m := range []string{"GET", "HEAD"} {
						r := Req{Method: m, Path: path, Range: rg, Name: name, Gzip: opt&2 != 0}
						cases = append(cases, Case{Opt: opt, Route: route, Reqs: []Req{r, r}})
					}
				}
			}
		}
	}
	for opt := 0; opt < 16; opt++ {
		for _, route := range []string{"static", "file"} {
			if route == "file" && opt != 0 {
				continue
			}
			for _, f := range files {
				if route == "file" && strings.Contains(f, "/") {
					continue
				}
				for _, rg := range forms {
					for _, m := range []string{"GET", "HEAD"} {
						for _, gz := range []bool{false, true} {
							if gz && opt&2 == 0 && route == "static" {
								continue
							}
							r := Req{Method: m, Path: "/" + f, Range: rg, Gzip: gz}
							cases = append(cases, Case{Opt: opt, Route: route, Reqs: []Req{r, r}})
						}
					}
				}
			}
		}
	}
	// ordered pairs of different requests on the same file (cache / pooled reader interplay)
	red := []string{"", "bytes=0-0", "bytes=1-", "bytes=-1", "bytes=2-3", "bytes=9-", "bytes=8192-", "bytes=-0", "bytes=4000-9000"}
	if c.Thorough() {
		red = append(red, "bytes=0-", "bytes=-5", "bytes=5-5", "bytes=4-2", "bytes=8191-8192", "bytes=-8193", "bytes=16499-", "bytes=99999999999999999999-", "bytes=0-99999999999999999999", "bytes=a-b", "bytes=0-1,3-4", "bits=0-1")
	}
	for _, opt := range []int{1, 3} {
		for _, route := range []string{"static", "file"} {
			if route == "file" && opt != 1 {
				continue
			}
			for _, f := range []string{"f0", "f3", "f5", "small8192", "big8193", "big16500", "sub/inner.txt"} {
				if route == "file" && strings.Contains(f, "/") {
					continue
				}
				for _, r1 := range red {
					for _, r2 := range red {
						for _, m1 := range []string{"GET", "HEAD"} {
							for _, g1 := range []bool{false, true} {
								for _, g2 := range []bool{false, true} {
									if (g1 || g2) && opt&2 == 0 {
										continue
									}
									cases = append(cases, Case{Opt: opt, Route: route, Reqs: []Req{{m1, "/" + f, r1, g1, ""}, {"GET", "/" + f, r2, g2, ""}, {"GET", "/" + f, r1, g1, ""}}})
								}
							}
						}
					}
				}
			}
		}
	}
	// directories and traversal attempts
	targets := []string{"/", "/sub", "/sub/", "/noindex", "/noindex/", "/../outside/canary.txt", "/%2e%2e/outside/canary.txt", "/sub/../../outside/canary.txt", "/sub/%2e%2e/%2e%2e/outside/canary.txt",
		"//outside/canary.txt", "/..%2foutside/canary.txt", "/sub/..%2f..%2foutside%2fcanary.txt", "/%2e%2e%2foutside%2fcanary.txt", "/./f3", "/sub/../f3", "/sub//inner.txt", "/f3/", "/f3/.", "/outside/canary.txt", "/..", "/../", "/%2e%2e", "/\\..\\outside\\canary.txt"}
	for opt := 0; opt < 16; opt++ {
		for _, t := range targets {
			for _, m := range []string{"GET", "HEAD"} {
				for _, rg := range []string{"", "bytes=0-3"} {
					r := Req{Method: m, Path: t, Range: rg, Gzip: opt&2 != 0}
					cases = append(cases, Case{Opt: opt, Route: "static", Reqs: []Req{r, r}})
				}
			}
		}
	}
	rcs := replaceCases(c.Thorough())
	c.Extra("replaced_file_cases", len(rcs))
	c.Extra("cases", len(cases))
	c.Sample(cases[len(cases)/3])
	c.Sample(cases[len(cases)-5])
	ex := c.Counter("executions")
	nt := c.Counter("nontrivial")
	tr := c.Counter("transitions")
	pool := make(chan *worker, 64)
	var nextID int64
	c.ParallelFor(len(cases), func(i int) {
		var w *worker
		select {
		case w = <-pool:
		default:
			w = newWorker(int(atomic.AddInt64(&nextID, 1)))
		}
		if i%128 == 0 {
			fdThrottle()
		}
		w.exec(c, cases[i])
		atomic.AddInt64(ex, 1)
		atomic.AddInt64(tr, int64(len(cases[i].Reqs)))
		if cases[i].Reqs[0].Range != "" || strings.ContainsAny(cases[i].Reqs[0].Path[1:], "/.%\\") {
			atomic.AddInt64(nt, 1)
		}
		pool <- w
	})
	// part R: the file is replaced between two requests
	c.ParallelFor(len(rcs), func(i int) {
		var w *worker
		select {
		case w = <-pool:
		default:
			w = newWorker(int(atomic.AddInt64(&nextID, 1)))
		}
		w.execReplace(c, rcs[i])
		atomic.AddInt64(ex, 1)
		atomic.AddInt64(tr, 2)
		atomic.AddInt64(nt, 1)
		pool <- w
	})
	if baseDir != "" {
		os.RemoveAll(baseDir) //nolint:errcheck
	}
}

// fdThrottle keeps the number of open descriptors bounded: every case opens files under fresh names, and the file
// handler keeps each open until its cache cleaner (period CacheDuration/2) has run. Waiting changes no verdict; without
// it a fast machine can reach the descriptor limit, and an open() failure then shows as a 500 that no replay reproduces.
func fdThrottle() {
	for k := 0; k < 200; k++ {
		ents, err := os.ReadDir("/proc/self/fd")
		if err != nil || len(ents) < 6000 {
			return
		}
		time.Sleep(20 * time.Millisecond)
	}
}

func replay(c *mc.Ctx, raw json.RawMessage) {
	var cs Case
	if json.Unmarshal(raw, &cs) != nil {
		return
	}
	baseOnce = sync.Once{}
	w := newWorker(int(atomic.AddInt64(&replayID, 1)))
	var rc ReplaceCase
	if json.Unmarshal(raw, &rc) == nil && rc.Replace {
		w.execReplace(c, rc)
		os.RemoveAll(baseDir) //nolint:errcheck
		return
	}
	w.exec(c, cs)
	os.RemoveAll(baseDir) //nolint:errcheck
}

var replayID int64 = 1000
var caseSeq int64
