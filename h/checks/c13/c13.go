// Package c13: the buffered connection behaves as a lossless FIFO byte stream.
// Explicit-state breadth-first search over operation sequences on the real standard.Conn
// (hook H1), states deduplicated on the link-buffer layout dump + remaining input + outstanding
// peeked slices; every transition is checked against a byte-FIFO reference model.
package c13

import (
	"bytes"
	"crypto/sha1"
	"encoding/json"
	"errors"
	"fmt"
	"io"
	"strings"
	"sync"

	"github.com/cloudwego/hertz/pkg/network"
	"github.com/cloudwego/hertz/pkg/network/standard"

	"verifh/mc"
	"verifh/netsim"
)

var Check = &mc.Check{
	ID:    "C13",
	Level: "model_checking",
	Rule: "reader: BFS over sequences of {Peek(n), Skip(n), ReadByte, ReadBinary(n), Read(n), Release, Len} with n in {1,2,4095,4096,4097,8192,(524289)} to depth 5 (thorough 7) for each (fragmentation script, initial buffer size), states deduplicated on (link-buffer dump, bytes consumed from the wire, outstanding peeked slices); " +
		"writer: all sequences up to depth 4 (5) over {Malloc(n), WriteBinary(n), Flush, ReadFrom(n)} with n in {0,1,4095,4096,8192} plus Malloc(8193), ReadFrom(20000) and ReadFrom from a source that fails after {0,200,4096} bytes x write-error position {none,1,4096,5000} x {permanent: only a prefix is promised; transient (n>0,err) once: the sequence goes on and the next Flush that returns nil has delivered everything exactly once}; non-trivial = transitions that change the buffer layout",
	Run:    run,
	Replay: replay,
	Assumptions: []string{
		"two histories with equal link-buffer layout, equal remaining input and equal outstanding peeks have the same futures: every method of standard.Conn is a function of exactly these fields (the key includes everything the code reads, so it can only be too fine)",
		"a peeked slice must stay unchanged until the next Release or Read (Read releases internally, as documented)",
	},
}

type Op struct {
	K string `json:"k"` // peek skip byte bin read rel len
	N int    `json:"n,omitempty"`
}

func (o Op) String() string {
	if o.N != 0 {
		return fmt.Sprintf("%s(%d)", o.K, o.N)
	}
	return o.K
}

type Script struct {
	Name string `json:"name"`
	Len  int    `json:"len"`
	Seg  int    `json:"seg"`  // segment size (0 = whole)
	Size int    `json:"size"` // initial buffer size
	Big  bool   `json:"big,omitempty"`
}

type Case struct {
	Side   string `json:"side"` // reader | writer
	Script Script `json:"script"`
	Ops    []Op   `json:"ops"`
	// writer
	FailAt int `json:"fail_at,omitempty"`
	// Transient: the write error happens once (an expired write deadline); the sequence goes on afterwards
	Transient bool `json:"transient,omitempty"`
	// Impl: "" = the buffered connection (standard.Conn); "netw" = network.NewWriter over the same scripted connection, the
	// generic reserve / write / flush buffer that body and compression writers use
	Impl string `json:"impl,omitempty"`
}

var (
	streamMu    sync.Mutex
	streamCache = map[int][]byte{}
)

// stream returns the (shared, read-only) test pattern of length n.
func stream(n int) []byte {
	streamMu.Lock()
	defer streamMu.Unlock()
	if b, ok := streamCache[n]; ok {
		return b
	}
	b := make([]byte, n)
	for i := range b {
		b[i] = byte((i*131 + i/251 + 7) % 251)
	}
	streamCache[n] = b
	return b
}

// segments returns fresh slice headers over the shared data (the scripted conn only re-slices them).
func segments(s Script, data []byte) [][]byte {
	if len(data) == 0 {
		return nil
	}
	if s.Seg <= 0 || s.Seg >= len(data) {
		return [][]byte{data}
	}
	out := make([][]byte, 0, len(data)/s.Seg+1)
	for i := 0; i < len(data); i += s.Seg {
		j := i + s.Seg
		if j > len(data) {
			j = len(data)
		}
		out = append(out, data[i:j])
	}
	return out
}

type peeked struct {
	at   int // stream offset
	data []byte
}

// machine is the real conn plus the reference model.
type machine struct {
	sc    *netsim.ScriptConn
	conn  network.Conn
	data  []byte
	c     int // consumed by the application (model)
	peeks []peeked
}

func newMachine(s Script) *machine {
	d := stream(s.Len)
	sc := netsim.NewScriptConn(segments(s, d), netsim.EndEOF)
	return &machine{sc: sc, conn: netsim.Wrap(sc, s.Size), data: d}
}

func (m *machine) key() string {
	var sb strings.Builder
	sb.WriteString(standard.DumpForVerif(m.conn))
	fmt.Fprintf(&sb, "|wire=%d|c=%d|peeks=", m.sc.Consumed, m.c)
	for _, p := range m.peeks {
		fmt.Fprintf(&sb, "%d+%d,", p.at, len(p.data))
	}
	return sb.String()
}

// step applies one operation to the real conn and judges it against the model. It returns "" or a violation.
func (m *machine) step(o Op) (kind, msg string) {
	defer func() {
		if r := recover(); r != nil {
			kind, msg = "panic", fmt.Sprintf("%v panicked: %v", o, r)
		}
	}()
	remaining := len(m.data) - m.c // bytes the application can still get
	switch o.K {
	case "len":
		if got, want := m.conn.Len(), m.sc.Consumed-m.c; got != want {
			return "len", fmt.Sprintf("Len()=%d but %d bytes were read from the wire and %d consumed (buffered-unconsumed=%d)", got, m.sc.Consumed, m.c, want)
		}
	case "peek":
		p, err := m.conn.Peek(o.N)
		want := o.N
		if want > remaining {
			want = remaining
		}
		if want < o.N {
			if err == nil {
				return "peek-err", fmt.Sprintf("Peek(%d) with only %d bytes left before EOF returned no error", o.N, remaining)
			}
			// a short peek returns what is there (possibly nothing): whatever is returned must be a correct prefix
			if len(p) > want || !bytes.Equal(p, m.data[m.c:m.c+len(p)]) {
				return "peek-data", fmt.Sprintf("short Peek(%d) returned %d bytes that are not the next bytes of the stream", o.N, len(p))
			}
		} else {
			if err != nil {
				return "peek-err", fmt.Sprintf("Peek(%d) failed with %v although %d bytes remain in the stream", o.N, err, remaining)
			}
			if len(p) != o.N || !bytes.Equal(p, m.data[m.c:m.c+o.N]) {
				return "peek-data", fmt.Sprintf("Peek(%d) at stream offset %d returned %d bytes differing from the sent bytes (first difference at %d)", o.N, m.c, len(p), firstDiff(p, m.data[m.c:]))
			}
		}
		if len(p) > 0 {
			m.peeks = append(m.peeks, peeked{m.c, p})
			if len(m.peeks) > 2 { // track the two most recent peeked slices (bounds the state space; dropping one only weakens the check)
				m.peeks = m.peeks[len(m.peeks)-2:]
			}
		}
	case "skip":
		buffered := m.sc.Consumed - m.c
		err := m.conn.Skip(o.N)
		if o.N <= buffered {
			if err != nil {
				return "skip-err", fmt.Sprintf("Skip(%d) failed with %v although %d bytes are buffered", o.N, err, buffered)
			}
			m.c += o.N
		} else if err == nil {
			return "skip-err", fmt.Sprintf("Skip(%d) succeeded although only %d bytes are buffered", o.N, buffered)
		}
	case "byte":
		b, err := m.conn.ReadByte()
		if remaining == 0 {
			if err == nil {
				return "byte-err", "ReadByte at end of stream returned no error"
			}
		} else {
			if err != nil {
				return "byte-err", fmt.Sprintf("ReadByte failed with %v, %d bytes remain", err, remaining)
			}
			if b != m.data[m.c] {
				return "byte-data", fmt.Sprintf("ReadByte at offset %d returned %#x, sent %#x", m.c, b, m.data[m.c])
			}
			m.c++
		}
	case "bin":
		p, err := m.conn.ReadBinary(o.N)
		if o.N > remaining {
			if err == nil {
				return "bin-err", fmt.Sprintf("ReadBinary(%d) with %d bytes left returned no error", o.N, remaining)
			}
		} else {
			if err != nil {
				return "bin-err", fmt.Sprintf("ReadBinary(%d) failed with %v, %d bytes remain", o.N, err, remaining)
			}
			if !bytes.Equal(p, m.data[m.c:m.c+o.N]) {
				return "bin-data", fmt.Sprintf("ReadBinary(%d) at offset %d returned wrong bytes (first difference at %d)", o.N, m.c, firstDiff(p, m.data[m.c:]))
			}
			m.c += o.N
		}
	case "read":
		buf := make([]byte, o.N)
		k, err := m.conn.Read(buf)
		m.peeks = nil // Read releases internally: peeked slices are no longer valid
		if remaining == 0 {
			if k != 0 || err == nil {
				return "read-err", fmt.Sprintf("Read(%d) at end of stream returned (%d, %v)", o.N, k, err)
			}
		} else {
			if k == 0 {
				return "read-err", fmt.Sprintf("Read(%d) returned (0, %v) with %d bytes remaining", o.N, err, remaining)
			}
			if k > o.N || k > remaining || !bytes.Equal(buf[:k], m.data[m.c:m.c+k]) {
				return "read-data", fmt.Sprintf("Read(%d) at offset %d returned %d bytes differing from the sent bytes (first difference at %d)", o.N, m.c, k, firstDiff(buf[:k], m.data[m.c:]))
			}
			m.c += k
			if m.sc.Consumed < m.c {
				// Read may bypass the buffer for large reads: the wire counter accounts for it
				return "read-model", "harness: consumed more than was read from the wire"
			}
		}
	case "rel":
		if err := m.conn.Release(); err != nil {
			return "release-err", fmt.Sprintf("Release failed: %v", err)
		}
		m.peeks = nil
	}
	// every slice peeked since the last release must be unchanged
	for _, p := range m.peeks {
		if !bytes.Equal(p.data, m.data[p.at:p.at+len(p.data)]) {
			return "peek-stability", fmt.Sprintf("after %v a slice returned by an earlier Peek (stream offset %d, %d bytes) has changed before any Release (first difference at %d)", o, p.at, len(p.data), firstDiff(p.data, m.data[p.at:]))
		}
	}
	if got, want := m.conn.Len(), m.sc.Consumed-m.c; got != want {
		return "len", fmt.Sprintf("after %v: Len()=%d, buffered-but-unconsumed=%d", o, got, want)
	}
	return "", ""
}

func firstDiff(a, b []byte) int {
	for i := 0; i < len(a) && i < len(b); i++ {
		if a[i] != b[i] {
			return i
		}
	}
	if len(a) < len(b) {
		return len(a)
	}
	return len(b)
}

func opsFor(s Script) []Op {
	ns := []int{1, 2, 4095, 4096, 4097, 8192}
	if s.Big {
		ns = []int{1, 4096, 8192, 524289}
	}
	ops := []Op{{K: "rel"}, {K: "byte"}} // Len() is compared with the model after every operation
	for _, n := range ns {
		ops = append(ops, Op{"peek", n}, Op{"skip", n}, Op{"bin", n}, Op{"read", n})
	}
	return ops
}

func scripts(thorough bool) []Script {
	var out []Script
	for _, size := range []int{4096, 8192} {
		if size == 8192 && !thorough {
			out = append(out, Script{"whole10000", 10000, 0, size, false}, Script{"seg4096x3", 12288, 4096, size, false}, Script{"exact4097", 4097, 4096, size, false})
			continue
		}
		out = append(out,
			Script{"whole10000", 10000, 0, size, false},
			Script{"bytewise9000", 9000, 1, size, false},
			Script{"seg4096x3", 12288, 4096, size, false},
			Script{"seg4000+", 8500, 4000, size, false},
			Script{"seg20k", 45000, 20480, size, false},
			Script{"exact4096", 4096, 0, size, false},
			Script{"exact4097", 4097, 4096, size, false},
			Script{"empty", 0, 0, size, false},
			Script{"tiny3", 3, 2, size, false},
		)
	}
	out = append(out, Script{"big600k", 600000, 0, 4096, true}, Script{"big600k-seg", 600000, 65536, 4096, true})
	return out
}

func runPath(s Script, path []Op) (*machine, string, string) {
	m := newMachine(s)
	for _, o := range path {
		if k, msg := m.step(o); k != "" {
			return m, k, msg
		}
	}
	return m, "", ""
}

func bfs(c *mc.Ctx, s Script, depth int) {
	ops := opsFor(s)
	type node struct{ path []Op }
	var smu sync.Mutex
	// visited set on a 16-byte hash of the canonical key (a collision could only drop a state, never raise an alarm)
	h16 := func(k string) [16]byte {
		sum := sha1.Sum([]byte(k))
		var o [16]byte
		copy(o[:], sum[:16])
		return o
	}
	seen := map[[16]byte]struct{}{}
	m0 := newMachine(s)
	seen[h16(m0.key())] = struct{}{}
	frontier := []node{{nil}}
	var states, transitions, layoutChanges int64 = 1, 0, 0
	completed := 0
	for d := 0; d < depth && len(frontier) > 0; d++ {
		var next []node
		capped := false
		c.ParallelFor(len(frontier), func(fi int) {
			nd := frontier[fi]
			var tr, lc int64
			for _, o := range ops {
				m, k, msg := runPath(s, nd.path)
				if k != "" {
					continue // already reported when this path was first extended
				}
				before := m.key()
				k, msg = m.step(o)
				tr++
				if k != "" {
					full := append(append([]Op{}, nd.path...), o)
					c.Violate(fmt.Sprintf("reader|%s|%s", k, o.K), fmt.Sprintf("script %s (len %d, segment %d, buffer %d), operations %v: %s", s.Name, s.Len, s.Seg, s.Size, full, msg), Case{Side: "reader", Script: s, Ops: full})
					continue
				}
				key := m.key()
				if key != before {
					lc++
				}
				m.peeks = nil
				netsim.Release(m.conn)
				hk := h16(key)
				smu.Lock()
				if _, ok := seen[hk]; !ok {
					seen[hk] = struct{}{}
					states++
					next = append(next, node{append(append([]Op{}, nd.path...), o)})
				}
				smu.Unlock()
			}
			smu.Lock()
			transitions += tr
			layoutChanges += lc
			smu.Unlock()
		})
		if c.Expired() || states > maxStatesPerScript {
			capped = true
			c.Cap(fmt.Sprintf("%s/%d stopped inside depth %d with %d states", s.Name, s.Size, d+1, states))
		}
		if capped {
			c.Extra("capped_"+s.Name+fmt.Sprint(s.Size), fmt.Sprintf("stopped inside depth %d", d+1))
			break
		}
		completed = d + 1
		frontier = next
	}
	c.Add("states", states)
	c.Add("transitions", transitions)
	c.Add("executions", transitions)
	c.Add("nontrivial", layoutChanges)
	mu.Lock()
	perScript[fmt.Sprintf("%s/%d", s.Name, s.Size)] = states
	depthDone[fmt.Sprintf("%s/%d", s.Name, s.Size)] = completed
	mu.Unlock()
}

// memory bound of one BFS: the frontier holds one operation path per state
const maxStatesPerScript = 6000000

var (
	mu        sync.Mutex
	perScript = map[string]int64{}
	depthDone = map[string]int{}
)

// ---- writer ------------------------------------------------------------------------------

type wop struct {
	K string `json:"k"` // malloc wbin flush readfrom
	N int    `json:"n"`
}

type errAfterReader struct {
	b   []byte
	end error // nil = io.EOF
	// together: the last piece of data is returned with the end (n > 0, err != nil) as io.Reader allows
	together bool
}

var errSource = errors.New("harness: the source of ReadFrom fails")

func (r *errAfterReader) Read(p []byte) (int, error) {
	if len(r.b) == 0 {
		if r.end != nil {
			return 0, r.end
		}
		return 0, io.EOF
	}
	n := copy(p, r.b)
	r.b = r.b[n:]
	if r.together && len(r.b) == 0 {
		if r.end != nil {
			return n, r.end
		}
		return n, io.EOF
	}
	return n, nil
}

func runWriter(c *mc.Ctx, ops []Op, failAt int, transient, report bool, impl string) {
	sc := netsim.NewScriptConn(nil, netsim.EndEOF)
	sc.WriteFailAt = failAt
	sc.WriteFailOnce = transient
	var conn network.Writer = netsim.Wrap(sc, 4096)
	if impl == "netw" {
		conn = network.NewWriter(sc)
	}
	var want []byte
	var keep [][]byte // buffers handed to WriteBinary must stay valid until Flush
	seq := byte(1)
	failed := false
	fail := func(kind, msg string) {
		if report {
			c.Violate("writer"+impl+"|"+kind, fmt.Sprintf("operations %v (write error at %d, transient=%v): %s", ops, failAt, transient, msg), Case{Side: "writer", Ops: ops, FailAt: failAt, Transient: transient, Impl: impl})
		}
	}
	defer func() {
		if r := recover(); r != nil {
			fail("panic", fmt.Sprintf("panic: %v", r))
		}
	}()
	for i, o := range ops {
		fill := func(n int) []byte {
			b := make([]byte, n)
			for j := range b {
				b[j] = seq + byte(j%200)
			}
			seq += 17
			return b
		}
		switch o.K {
		case "malloc":
			buf, err := conn.Malloc(o.N)
			if err != nil {
				fail("malloc-err", err.Error())
				return
			}
			if len(buf) != o.N {
				fail("malloc-len", fmt.Sprintf("Malloc(%d) returned %d bytes", o.N, len(buf)))
				return
			}
			d := fill(o.N)
			copy(buf, d)
			want = append(want, d...)
		case "wbin":
			d := fill(o.N)
			keep = append(keep, d)
			n, err := conn.WriteBinary(d)
			if err != nil || n != o.N {
				fail("wbin", fmt.Sprintf("WriteBinary(%d) returned (%d, %v)", o.N, n, err))
				return
			}
			want = append(want, d...)
		case "readfrom", "readfromerr", "readfromtog":
			d := fill(o.N)
			rf, ok := conn.(io.ReaderFrom)
			if !ok {
				continue
			}
			src := &errAfterReader{b: append([]byte(nil), d...)}
			if o.K == "readfromerr" {
				src.end = errSource
			}
			if o.K == "readfromtog" {
				src.together = true
			}
			n, err := rf.ReadFrom(src)
			if o.K == "readfromerr" && err == nil {
				fail("readfrom-source-error-lost", fmt.Sprintf("operation %d: ReadFrom from a source that fails after %d bytes returned (%d, nil)", i, o.N, n))
				return
			}
			if err != nil && (errors.Is(err, errSource) || transient) {
				// the copy stopped (source error, or the one transient write error): the n bytes it reports are written
				// data like any other, and the connection goes on working
				if n < 0 || int(n) > o.N {
					fail("readfrom-n", fmt.Sprintf("ReadFrom of %d bytes returned %d", o.N, n))
					return
				}
				want = append(want, d[:n]...)
				break
			}
			if err != nil {
				if failAt == 0 {
					fail("readfrom-error", fmt.Sprintf("operation %d: ReadFrom of %d bytes from a reader that does not fail, over a connection that does not fail, returned (%d, %v)", i, o.N, n, err))
					return
				}
				failed = true // the underlying write failed: only "the peer holds a prefix" is promised afterwards
				want = append(want, d...)
				break
			}
			if int(n) != o.N {
				fail("readfrom-n", fmt.Sprintf("ReadFrom of %d bytes returned %d", o.N, n))
				return
			}
			want = append(want, d...)
		case "flush":
			err := conn.Flush()
			if err != nil && transient {
				// the peer holds a prefix; a later Flush has to deliver the rest, once
				if !bytes.HasPrefix(want, sc.Out) {
					fail("prefix", fmt.Sprintf("after a write error the peer holds %d bytes that are not a prefix of the written data (first difference at %d)", len(sc.Out), firstDiff(sc.Out, want)))
					return
				}
				break
			}
			if err != nil {
				failed = true
				break
			}
			if !bytes.Equal(sc.Out, want) {
				fail("flush-data", fmt.Sprintf("after operation %d (Flush returned nil) the peer has %d bytes, %d were written (first difference at %d)", i, len(sc.Out), len(want), firstDiff(sc.Out, want)))
				return
			}
		}
		if failed {
			// the peer must have received a prefix of what was written
			if !bytes.HasPrefix(want, sc.Out) {
				fail("prefix", fmt.Sprintf("after a write error the peer holds %d bytes that are not a prefix of the written data (first difference at %d)", len(sc.Out), firstDiff(sc.Out, want)))
			}
			return
		}
	}
	_ = keep
}

func writerSeqs(depth int) [][]Op {
	ns := []int{0, 1, 4095, 4096, 8192}
	var al []Op
	for _, n := range ns {
		al = append(al, Op{"malloc", n}, Op{"wbin", n}, Op{"readfrom", n})
	}
	// a reservation just above the recyclable node size, and a copy longer than the node that reservation leaves behind
	al = append(al, Op{"malloc", 8193}, Op{"readfrom", 20000})
	// copies whose source fails after some bytes
	al = append(al, Op{"readfromerr", 0}, Op{"readfromerr", 200}, Op{"readfromerr", 4096})
	// a source that hands over its last piece together with io.EOF
	al = append(al, Op{"readfromtog", 1}, Op{"readfromtog", 5000})
	al = append(al, Op{K: "flush"})
	var out [][]Op
	var rec func(p []Op)
	rec = func(p []Op) {
		if len(p) > 0 {
			out = append(out, append([]Op{}, p...))
		}
		if len(p) == depth {
			return
		}
		for _, o := range al {
			rec(append(p, o))
		}
	}
	rec(nil)
	return out
}

func run(c *mc.Ctx) {
	depth, wdepth := 5, 4
	if c.Thorough() {
		depth, wdepth = 7, 5
	}
	c.Extra("reader_depth", depth)
	c.Extra("writer_depth", wdepth)
	ss := scripts(c.Thorough())
	c.Sample(Case{Side: "reader", Script: ss[2], Ops: []Op{{"peek", 4097}, {"skip", 4096}, {K: "rel"}, {"bin", 100}}})
	for i := range ss {
		d := depth
		if ss[i].Big {
			d = depth - 2
		}
		if ss[i].Seg == 1 {
			d = depth - 1
		}
		bfs(c, ss[i], d)
	}
	c.Extra("states_per_script", perScript)
	c.Extra("depth_completed_per_script", depthDone)
	// writer: every sequence, with and without a write error
	seqs := writerSeqs(wdepth)
	c.Extra("writer_sequences", len(seqs))
	c.Sample(Case{Side: "writer", Ops: []Op{{"wbin", 4096}, {"malloc", 1}, {K: "flush"}}})
	c.ParallelFor(len(seqs), func(i int) {
		for _, fa := range []int{0, 1, 4096, 5000} {
			// a final flush is appended so that every sequence is judged
			// (two of them: after a transient write error the first may fail, the second has to deliver)
			ops := append(append([]Op{}, seqs[i]...), Op{K: "flush"}, Op{K: "flush"})
			for _, tr := range []bool{false, true} {
				if tr && fa == 0 {
					continue
				}
				runWriter(c, ops, fa, tr, true, "")
				c.Add("executions", 1)
				c.Add("transitions", int64(len(ops)))
			}
			// the generic writer: no ReadFrom, and a failed Flush drops what was buffered (no transient mode)
			hasRF := false
			for _, o := range ops {
				hasRF = hasRF || strings.HasPrefix(o.K, "readfrom")
			}
			if !hasRF {
				runWriter(c, ops, fa, false, true, "netw")
				c.Add("executions", 1)
				c.Add("transitions", int64(len(ops)))
			}
		}
	})
}

func replay(c *mc.Ctx, raw json.RawMessage) {
	var cs Case
	if json.Unmarshal(raw, &cs) != nil {
		return
	}
	if cs.Side == "writer" {
		runWriter(c, cs.Ops, cs.FailAt, cs.Transient, true, cs.Impl)
		return
	}
	_, k, msg := runPath(cs.Script, cs.Ops)
	if k != "" {
		c.Violate("reader|"+k, msg, cs)
	}
}
