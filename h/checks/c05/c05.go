// Package c05: header-setting APIs cannot be used to inject lines into a message.
// Entry-point table x argument slot x every hostile payload (all strings of length <=3 over
// {a, CR, LF, NUL, ':', SP} as prefix / infix / suffix of a benign token), serialised by the
// real client (HostClient.Do) and the real server (Engine.Serve); a line-level reader checks
// the wire bytes.
package c05

import (
	"bytes"
	"context"
	"encoding/json"
	"fmt"
	"io"
	"os"
	"path/filepath"
	"strings"
	"sync"
	"sync/atomic"

	"github.com/cloudwego/hertz/pkg/app"
	"github.com/cloudwego/hertz/pkg/protocol"

	"verifh/clih"
	"verifh/mc"
	"verifh/netsim"
	"verifh/srvh"
)

var Check = &mc.Check{
	ID:    "C05",
	Level: "model_checking",
	Rule: "entry points (request: RequestHeader/Request setters incl. cookies, content type, host, user agent, auth, trailer; response: ResponseHeader setters, RequestContext.Header/SetCookie/Redirect/SetContentType/FileAttachment, Cookie attributes, trailer) x slot (name/value/attribute) x payload (every string of length <=3 (thorough 4) over {a,CR,LF,NUL,':',SP} placed before, inside and after a benign token); " +
		"non-trivial = payloads containing CR or LF",
	Run:         run,
	Replay:      replay,
	Assumptions: []string{"method, request URI and protocol setters (start-line components) and SetRawHeaders are not header-field setters and are not in the table", "the reader accepts any octet except CR/LF inside a line (NUL etc. are not line breaks)"},
}

type Case struct {
	Side    string `json:"side"` // request | response
	Entry   string `json:"entry"`
	Payload string `json:"payload"`
	// Prior: the entry is first applied with a benign argument, then neighbours are added (another cookie, another
	// field), then the entry is applied with the payload: the setters' update-in-place paths, not only their append paths.
	Prior bool `json:"prior,omitempty"`
	// Proxy: the request is written by a client configured with an HTTP proxy (absolute-form request target,
	// built from the Host the application set)
	Proxy bool `json:"proxy,omitempty"`
}

func merge(a, b map[string]int) map[string]int {
	out := map[string]int{}
	for k, v := range a {
		out[k] += v
	}
	for k, v := range b {
		out[k] += v
	}
	return out
}

// An entry applies payload p and returns the field names that may legitimately appear because of it
// (lower-case), each at most the given number of times.
type reqEntry struct {
	name  string
	apply func(r *protocol.Request, p string) map[string]int
	chunk bool // needs a chunked body (trailers)
}

type respEntry struct {
	name  string
	apply func(ctx *app.RequestContext, p string) map[string]int
	chunk bool
}

func keyOf(p string) string { return strings.ToLower(p) }

// trailerNames: a Trailer header declares a comma-separated list of field names, each of which may then appear once
func trailerNames(p string) map[string]int {
	m := map[string]int{}
	for _, t := range strings.Split(p, ",") {
		m[strings.ToLower(strings.Trim(t, " "))]++
	}
	return m
}

var reqEntries = []reqEntry{
	{"RequestHeader.Set/value", func(r *protocol.Request, p string) map[string]int {
		r.Header.Set("X-K", p)
		return map[string]int{"x-k": 1}
	}, false},
	{"RequestHeader.Set/name", func(r *protocol.Request, p string) map[string]int {
		r.Header.Set(p, "v")
		return map[string]int{keyOf(p): 1}
	}, false},
	{"RequestHeader.Add/value", func(r *protocol.Request, p string) map[string]int {
		r.Header.Add("X-K", p)
		return map[string]int{"x-k": 1}
	}, false},
	{"RequestHeader.Add/name", func(r *protocol.Request, p string) map[string]int {
		r.Header.Add(p, "v")
		return map[string]int{keyOf(p): 1}
	}, false},
	{"RequestHeader.SetBytesKV/value", func(r *protocol.Request, p string) map[string]int {
		r.Header.SetBytesKV([]byte("X-K"), []byte(p))
		return map[string]int{"x-k": 1}
	}, false},
	{"RequestHeader.SetBytesKV/name", func(r *protocol.Request, p string) map[string]int {
		r.Header.SetBytesKV([]byte(p), []byte("v"))
		return map[string]int{keyOf(p): 1}
	}, false},
	{"RequestHeader.SetCanonical/value", func(r *protocol.Request, p string) map[string]int {
		r.Header.SetCanonical([]byte("X-K"), []byte(p))
		return map[string]int{"x-k": 1}
	}, false},
	{"RequestHeader.SetCanonical/name", func(r *protocol.Request, p string) map[string]int {
		r.Header.SetCanonical([]byte(p), []byte("v"))
		return map[string]int{keyOf(p): 1}
	}, false},
	{"RequestHeader.SetArgBytes/value", func(r *protocol.Request, p string) map[string]int {
		r.Header.SetArgBytes([]byte("X-K"), []byte(p), false)
		return map[string]int{"x-k": 1}
	}, false},
	{"RequestHeader.AddArgBytes/name", func(r *protocol.Request, p string) map[string]int {
		r.Header.AddArgBytes([]byte(p), []byte("v"), false)
		return map[string]int{keyOf(p): 1}
	}, false},
	{"RequestHeader.SetContentTypeBytes", func(r *protocol.Request, p string) map[string]int {
		r.Header.SetContentTypeBytes([]byte(p))
		return nil
	}, false},
	{"RequestHeader.SetUserAgentBytes", func(r *protocol.Request, p string) map[string]int { r.Header.SetUserAgentBytes([]byte(p)); return nil }, false},
	{"RequestHeader.SetHost", func(r *protocol.Request, p string) map[string]int { r.Header.SetHost(p); return nil }, false},
	{"Request.SetHost", func(r *protocol.Request, p string) map[string]int { r.SetHost(p); return nil }, false},
	{"RequestHeader.SetCookie/value", func(r *protocol.Request, p string) map[string]int { r.Header.SetCookie("ck", p); return nil }, false},
	{"RequestHeader.SetCookie/name", func(r *protocol.Request, p string) map[string]int { r.Header.SetCookie(p, "cv"); return nil }, false},
	{"Request.SetCookie/value", func(r *protocol.Request, p string) map[string]int { r.SetCookie("ck", p); return nil }, false},
	{"Request.SetCookies/name", func(r *protocol.Request, p string) map[string]int {
		r.SetCookies(map[string]string{p: "cv"})
		return nil
	}, false},
	{"RequestHeader.Set(Cookie)", func(r *protocol.Request, p string) map[string]int { r.Header.Set("Cookie", p); return nil }, false},
	{"RequestHeader.SetMultipartFormBoundary", func(r *protocol.Request, p string) map[string]int { r.Header.SetMultipartFormBoundary(p); return nil }, false},
	{"RequestHeader.SetContentLengthBytes", func(r *protocol.Request, p string) map[string]int {
		r.Header.SetContentLengthBytes([]byte(p))
		return nil
	}, false},
	{"Request.SetHeader/value", func(r *protocol.Request, p string) map[string]int {
		r.SetHeader("X-K", p)
		return map[string]int{"x-k": 1}
	}, false},
	{"Request.SetHeader/name", func(r *protocol.Request, p string) map[string]int {
		r.SetHeader(p, "v")
		return map[string]int{keyOf(p): 1}
	}, false},
	{"Request.SetHeaders/name", func(r *protocol.Request, p string) map[string]int {
		r.SetHeaders(map[string]string{p: "v"})
		return map[string]int{keyOf(p): 1}
	}, false},
	{"Request.SetAuthToken", func(r *protocol.Request, p string) map[string]int {
		r.SetAuthToken(p)
		return map[string]int{"authorization": 1}
	}, false},
	{"Request.SetAuthSchemeToken/scheme", func(r *protocol.Request, p string) map[string]int {
		r.SetAuthSchemeToken(p, "t")
		return map[string]int{"authorization": 1}
	}, false},
	{"Request.SetBasicAuth/user", func(r *protocol.Request, p string) map[string]int {
		r.SetBasicAuth(p, "pw")
		return map[string]int{"authorization": 1}
	}, false},
	{"RequestHeader.Set(Trailer)", func(r *protocol.Request, p string) map[string]int { r.Header.Set("Trailer", p); return trailerNames(p) }, true},
	{"RequestTrailer.Set/value", func(r *protocol.Request, p string) map[string]int {
		r.Header.Trailer().Set("X-Tr", p) //nolint:errcheck
		return map[string]int{"x-tr": 1}
	}, true},
	{"RequestTrailer.Set/name", func(r *protocol.Request, p string) map[string]int {
		r.Header.Trailer().Set(p, "tv") //nolint:errcheck
		return map[string]int{keyOf(p): 1}
	}, true},
	{"RequestTrailer.Add/name", func(r *protocol.Request, p string) map[string]int {
		r.Header.Trailer().Add(p, "tv") //nolint:errcheck
		return map[string]int{keyOf(p): 1}
	}, true},
}

var (
	attachMu   sync.Mutex
	attachDir  string
	attachPath string
)

// attachFile: the one-byte file of the FileAttachment entry, created at its first use (not at program start: the
// binary also runs as the short-lived worker process of other checks) and removed when the run or replay ends
func attachFile() string {
	attachMu.Lock()
	defer attachMu.Unlock()
	if attachPath == "" {
		dir, err := os.MkdirTemp("", "verif-c05-")
		if err == nil {
			attachDir = dir
			attachPath = filepath.Join(dir, "f.txt")
			os.WriteFile(attachPath, []byte("x"), 0o644) //nolint:errcheck
		}
	}
	return attachPath
}

func removeAttachFile() {
	attachMu.Lock()
	defer attachMu.Unlock()
	if attachDir != "" {
		os.RemoveAll(attachDir) //nolint:errcheck
		attachDir, attachPath = "", ""
	}
}

// the framing and default fields addressed by their names through the generic setters: the value the application hands
// over is taken over, replaced or dropped, but the field never appears twice and never opens a line of its own
func init() {
	for _, n := range []string{"Content-Length", "Transfer-Encoding", "Connection", "Content-Type", "Content-Encoding"} {
		n := n
		respEntries = append(respEntries,
			respEntry{"ResponseHeader.Set(" + n + ")", func(ctx *app.RequestContext, p string) map[string]int { ctx.Response.Header.Set(n, p); return nil }, false},
			respEntry{"ResponseHeader.Add(" + n + ")", func(ctx *app.RequestContext, p string) map[string]int { ctx.Response.Header.Add(n, p); return nil }, false},
			respEntry{"ResponseHeader.SetCanonical(" + n + ")", func(ctx *app.RequestContext, p string) map[string]int {
				ctx.Response.Header.SetCanonical([]byte(n), []byte(p))
				return nil
			}, false},
			respEntry{"RequestContext.Header(" + n + ")", func(ctx *app.RequestContext, p string) map[string]int { ctx.Header(n, p); return nil }, false})
	}
	for _, n := range []string{"Content-Length", "Transfer-Encoding", "Connection", "Content-Type", "Host", "User-Agent"} {
		n := n
		reqEntries = append(reqEntries,
			reqEntry{"RequestHeader.Set(" + n + ")", func(r *protocol.Request, p string) map[string]int { r.Header.Set(n, p); return nil }, false},
			reqEntry{"RequestHeader.Add(" + n + ")", func(r *protocol.Request, p string) map[string]int { r.Header.Add(n, p); return nil }, false},
			reqEntry{"RequestHeader.SetCanonical(" + n + ")", func(r *protocol.Request, p string) map[string]int {
				r.Header.SetCanonical([]byte(n), []byte(p))
				return nil
			}, false})
	}
}

var respEntries = []respEntry{
	{"RequestContext.Header/value", func(ctx *app.RequestContext, p string) map[string]int {
		ctx.Header("X-K", p)
		return map[string]int{"x-k": 1}
	}, false},
	{"RequestContext.Header/name", func(ctx *app.RequestContext, p string) map[string]int {
		ctx.Header(p, "v")
		return map[string]int{keyOf(p): 1}
	}, false},
	{"ResponseHeader.Set/value", func(ctx *app.RequestContext, p string) map[string]int {
		ctx.Response.Header.Set("X-K", p)
		return map[string]int{"x-k": 1}
	}, false},
	{"ResponseHeader.Set/name", func(ctx *app.RequestContext, p string) map[string]int {
		ctx.Response.Header.Set(p, "v")
		return map[string]int{keyOf(p): 1}
	}, false},
	{"ResponseHeader.Add/value", func(ctx *app.RequestContext, p string) map[string]int {
		ctx.Response.Header.Add("X-K", p)
		return map[string]int{"x-k": 1}
	}, false},
	{"ResponseHeader.Add/name", func(ctx *app.RequestContext, p string) map[string]int {
		ctx.Response.Header.Add(p, "v")
		return map[string]int{keyOf(p): 1}
	}, false},
	{"ResponseHeader.SetCanonical/value", func(ctx *app.RequestContext, p string) map[string]int {
		ctx.Response.Header.SetCanonical([]byte("X-K"), []byte(p))
		return map[string]int{"x-k": 1}
	}, false},
	{"ResponseHeader.SetCanonical/name", func(ctx *app.RequestContext, p string) map[string]int {
		ctx.Response.Header.SetCanonical([]byte(p), []byte("v"))
		return map[string]int{keyOf(p): 1}
	}, false},
	{"ResponseHeader.SetBytesV", func(ctx *app.RequestContext, p string) map[string]int {
		ctx.Response.Header.SetBytesV("X-K", []byte(p))
		return map[string]int{"x-k": 1}
	}, false},
	{"ResponseHeader.SetArgBytes/value", func(ctx *app.RequestContext, p string) map[string]int {
		ctx.Response.Header.SetArgBytes([]byte("X-K"), []byte(p), false)
		return map[string]int{"x-k": 1}
	}, false},
	{"ResponseHeader.AddArgBytes/name", func(ctx *app.RequestContext, p string) map[string]int {
		ctx.Response.Header.AddArgBytes([]byte(p), []byte("v"), false)
		return map[string]int{keyOf(p): 1}
	}, false},
	{"RequestContext.SetContentType", func(ctx *app.RequestContext, p string) map[string]int { ctx.SetContentType(p); return nil }, false},
	{"RequestContext.SetContentTypeBytes", func(ctx *app.RequestContext, p string) map[string]int { ctx.SetContentTypeBytes([]byte(p)); return nil }, false},
	{"ResponseHeader.SetContentEncoding", func(ctx *app.RequestContext, p string) map[string]int {
		ctx.Response.Header.SetContentEncoding(p)
		return nil
	}, false},
	{"ResponseHeader.SetServerBytes", func(ctx *app.RequestContext, p string) map[string]int {
		ctx.Response.Header.SetServerBytes([]byte(p))
		return nil
	}, false},
	{"ResponseHeader.Set(Server)", func(ctx *app.RequestContext, p string) map[string]int {
		ctx.Response.Header.Set("sErVeR", p)
		return nil
	}, false},
	{"ResponseHeader.Set(Date)", func(ctx *app.RequestContext, p string) map[string]int { ctx.Response.Header.Set("Date", p); return nil }, false},
	{"ResponseHeader.Set(Set-Cookie)", func(ctx *app.RequestContext, p string) map[string]int {
		ctx.Response.Header.Set("Set-Cookie", p)
		return map[string]int{"set-cookie": 1}
	}, false},
	{"ResponseHeader.SetContentLengthBytes", func(ctx *app.RequestContext, p string) map[string]int {
		ctx.Response.Header.SetContentLengthBytes([]byte(p))
		return nil
	}, false},
	{"RequestContext.SetCookie/name", func(ctx *app.RequestContext, p string) map[string]int {
		ctx.SetCookie(p, "cv", 10, "/", "d", protocol.CookieSameSiteLaxMode, true, true)
		return map[string]int{"set-cookie": 1}
	}, false},
	{"RequestContext.SetCookie/value", func(ctx *app.RequestContext, p string) map[string]int {
		ctx.SetCookie("ck", p, 10, "/", "d", protocol.CookieSameSiteLaxMode, true, true)
		return map[string]int{"set-cookie": 1}
	}, false},
	{"RequestContext.SetCookie/path", func(ctx *app.RequestContext, p string) map[string]int {
		ctx.SetCookie("ck", "cv", 10, p, "d", protocol.CookieSameSiteLaxMode, true, true)
		return map[string]int{"set-cookie": 1}
	}, false},
	{"RequestContext.SetCookie/domain", func(ctx *app.RequestContext, p string) map[string]int {
		ctx.SetCookie("ck", "cv", 10, "/", p, protocol.CookieSameSiteLaxMode, true, true)
		return map[string]int{"set-cookie": 1}
	}, false},
	{"RequestContext.SetPartitionedCookie/value", func(ctx *app.RequestContext, p string) map[string]int {
		ctx.SetPartitionedCookie("ck", p, 10, "/", "d", protocol.CookieSameSiteNoneMode, true, true)
		return map[string]int{"set-cookie": 1}
	}, false},
	{"Cookie.SetKey", func(ctx *app.RequestContext, p string) map[string]int {
		var ck protocol.Cookie
		ck.SetKey(p)
		ck.SetValue("cv")
		ctx.Response.Header.SetCookie(&ck)
		return map[string]int{"set-cookie": 1}
	}, false},
	{"Cookie.SetValueBytes", func(ctx *app.RequestContext, p string) map[string]int {
		var ck protocol.Cookie
		ck.SetKey("ck")
		ck.SetValueBytes([]byte(p))
		ctx.Response.Header.SetCookie(&ck)
		return map[string]int{"set-cookie": 1}
	}, false},
	{"Cookie.SetDomain", func(ctx *app.RequestContext, p string) map[string]int {
		var ck protocol.Cookie
		ck.SetKey("ck")
		ck.SetDomain(p)
		ctx.Response.Header.SetCookie(&ck)
		return map[string]int{"set-cookie": 1}
	}, false},
	{"Cookie.SetPathBytes", func(ctx *app.RequestContext, p string) map[string]int {
		var ck protocol.Cookie
		ck.SetKey("ck")
		ck.SetPathBytes([]byte(p))
		ctx.Response.Header.SetCookie(&ck)
		return map[string]int{"set-cookie": 1}
	}, false},
	{"RequestContext.Redirect", func(ctx *app.RequestContext, p string) map[string]int {
		ctx.Redirect(302, []byte(p))
		return map[string]int{"location": 1}
	}, false},
	{"RequestContext.Redirect/absolute", func(ctx *app.RequestContext, p string) map[string]int {
		ctx.Redirect(302, []byte("http://other/"+p))
		return map[string]int{"location": 1}
	}, false},
	{"RequestContext.FileAttachment/filename", func(ctx *app.RequestContext, p string) map[string]int {
		ctx.FileAttachment(attachFile(), p)
		return map[string]int{"content-disposition": 1, "last-modified": 1, "accept-ranges": 1}
	}, false},
	{"ResponseHeader.Set(Trailer)", func(ctx *app.RequestContext, p string) map[string]int {
		ctx.Response.Header.Set("Trailer", p)
		return trailerNames(p)
	}, true},
	{"ResponseTrailer.Set/value", func(ctx *app.RequestContext, p string) map[string]int {
		ctx.Response.Header.Trailer().Set("X-Tr", p) //nolint:errcheck
		return map[string]int{"x-tr": 1}
	}, true},
	{"ResponseTrailer.Set/name", func(ctx *app.RequestContext, p string) map[string]int {
		ctx.Response.Header.Trailer().Set(p, "tv") //nolint:errcheck
		return map[string]int{keyOf(p): 1}
	}, true},
}

var defaults = map[string]bool{"host": true, "user-agent": true, "content-type": true, "content-length": true, "connection": true,
	"cookie": true, "trailer": true, "transfer-encoding": true, "server": true, "date": true, "content-encoding": true}

// judgeBlock checks a header (or trailer) block given as the bytes between the start line and the blank line.
func judgeLines(lines []string, allowed map[string]int, allowDefaults bool) string {
	seen := map[string]int{}
	for _, ln := range lines {
		if strings.ContainsAny(ln, "\r\n") {
			return fmt.Sprintf("a raw CR or LF survives inside the line %q", ln)
		}
		if strings.IndexByte(ln, 0) >= 0 {
			return fmt.Sprintf("a raw NUL survives inside the line %q (a strict parser refuses the whole message)", ln)
		}
		i := strings.IndexByte(ln, ':')
		if i <= 0 {
			return fmt.Sprintf("line without a field name: %q", ln)
		}
		if !isToken(ln[:i]) {
			// SP / HTAB at the start of a line continues the previous field for an obs-fold aware reader and is refused by a
			// strict one; any other non-token byte makes the line no field line at all
			return fmt.Sprintf("the field name of the line %q is not a token (a strict parser refuses the message, a lenient one folds it into the previous field)", ln)
		}
		name := strings.ToLower(ln[:i])
		seen[name]++
		if allowDefaults && defaults[name] {
			if seen[name] > 1 {
				return fmt.Sprintf("field %q appears %d times", name, seen[name])
			}
			continue
		}
		if seen[name] > allowed[name] {
			return fmt.Sprintf("unexpected header line %q (a field the application did not set)", ln)
		}
	}
	return ""
}

func isToken(s string) bool {
	if s == "" {
		return false
	}
	for i := 0; i < len(s); i++ {
		b := s[i]
		switch {
		case b >= '0' && b <= '9', b >= 'a' && b <= 'z', b >= 'A' && b <= 'Z':
		case strings.IndexByte("!#$%&'*+-.^_`|~", b) >= 0:
		default:
			return false
		}
	}
	return true
}

// judgeMessage: msg must be startLine CRLF fields CRLF CRLF [chunked body "0" CRLF trailer fields CRLF] and nothing else.
func judgeMessage(msg []byte, startLine string, allowed map[string]int, chunked bool) string {
	end := bytes.Index(msg, []byte("\r\n\r\n"))
	if end < 0 {
		return "no end of header block"
	}
	lines := strings.Split(string(msg[:end]), "\r\n")
	// (the request line may be written in absolute form when Host was set explicitly)
	if lines[0] != startLine && lines[0] != strings.Replace(startLine, " /", " http://h/", 1) {
		return fmt.Sprintf("start line is %q, expected %q", lines[0], startLine)
	}
	if why := judgeLines(lines[1:], allowed, true); why != "" {
		return why
	}
	rest := msg[end+4:]
	isChunked := false
	for _, ln := range lines[1:] {
		if strings.HasPrefix(strings.ToLower(ln), "transfer-encoding:") {
			isChunked = true
		}
	}
	if !isChunked {
		if chunked {
			return "harness: expected a chunked message"
		}
		// Content-Length decides: all entries here produce an empty body, except FileAttachment (1 byte)
		if len(rest) > 1 {
			return fmt.Sprintf("%d bytes follow the header block (injected blank line?): %q", len(rest), rest)
		}
		return ""
	}
	// chunked with an empty body: "0\r\n" trailers "\r\n"
	if !bytes.HasPrefix(rest, []byte("0\r\n")) {
		return fmt.Sprintf("chunked body does not start with the terminating chunk: %q", rest)
	}
	rest = rest[3:]
	if !bytes.HasSuffix(rest, []byte("\r\n")) {
		return fmt.Sprintf("trailer section not terminated: %q", rest)
	}
	tr := string(rest[:len(rest)-2])
	if tr == "" {
		return ""
	}
	if !strings.HasSuffix(tr, "\r\n") {
		return fmt.Sprintf("trailer section malformed: %q", rest)
	}
	tl := strings.Split(strings.TrimSuffix(tr, "\r\n"), "\r\n")
	return judgeLines(tl, allowed, false)
}

type worker struct {
	s        *srvh.Server
	cli      *clih.Client
	cliProxy *clih.Client
	cur      *respEntry
	curP     string
	prior    bool
	got      map[string]int
}

type emptyReader struct{}

func (emptyReader) Read(p []byte) (int, error) { return 0, io.EOF }

func newWorker() *worker {
	w := &worker{}
	w.s = srvh.New(srvh.Opts{})
	w.s.Respond = func(ctx *app.RequestContext, sn *srvh.Seen) {
		ctx.SetStatusCode(200)
		if w.cur.chunk {
			ctx.Response.SetBodyStream(emptyReader{}, -1)
		}
		if w.prior {
			m0 := w.cur.apply(ctx, "tok0")
			var ck protocol.Cookie
			ck.SetKey("zz")
			ck.SetValue("1")
			ctx.Response.Header.SetCookie(&ck)
			ctx.Response.Header.Set("X-Zz", "1")
			w.got = merge(merge(m0, w.cur.apply(ctx, w.curP)), map[string]int{"x-zz": 1, "set-cookie": 1})
			return
		}
		w.got = w.cur.apply(ctx, w.curP)
	}
	w.s.E.Any("/*any", w.s.Echo)
	w.s.Start()
	w.cli = clih.New(nil)
	w.cliProxy = clih.New(nil)
	w.cliProxy.HC.ProxyURI = protocol.ParseURI("http://proxy.example:3128")
	return w
}

func (w *worker) exec(c *mc.Ctx, cs Case) {
	fail := func(why string, out []byte) {
		c.Violate(cs.Side+"|"+cs.Entry+map[bool]string{false: "", true: "|after-prior-use"}[cs.Prior]+map[bool]string{false: "", true: "|via-proxy"}[cs.Proxy], fmt.Sprintf("%s with payload %q: %s\nwire=%q", cs.Entry, cs.Payload, why, clip(out)), cs)
	}
	if cs.Side == "request" {
		var e *reqEntry
		for i := range reqEntries {
			if reqEntries[i].name == cs.Entry {
				e = &reqEntries[i]
			}
		}
		if e == nil {
			return
		}
		req := protocol.AcquireRequest()
		defer protocol.ReleaseRequest(req)
		req.SetMethod("POST")
		req.SetRequestURI("http://h/p")
		if e.chunk {
			req.SetBodyStream(emptyReader{}, -1)
		}
		var allowed map[string]int
		var pan interface{}
		func() {
			defer func() { pan = recover() }()
			if cs.Prior {
				m0 := e.apply(req, "tok0")
				req.Header.SetCookie("zz", "1")
				req.Header.Set("X-Zz", "1")
				allowed = merge(merge(m0, e.apply(req, cs.Payload)), map[string]int{"x-zz": 1})
			} else {
				allowed = e.apply(req, cs.Payload)
			}
		}()
		if pan != nil {
			return // the setter refused the argument by panicking: nothing is serialised (crashes are C03's business)
		}
		sc := netsim.NewScriptConn([][]byte{[]byte("HTTP/1.1 200 OK\r\nContent-Length: 0\r\n\r\n")}, netsim.EndEOF)
		cli := w.cli
		if cs.Proxy {
			cli = w.cliProxy
		}
		cli.Reset(sc)
		resp := protocol.AcquireResponse()
		err := cli.HC.Do(context.Background(), req, resp)
		protocol.ReleaseResponse(resp)
		cli.Reset()
		if len(sc.Out) == 0 {
			_ = err
			return // nothing was sent (the client refused the request): dropping is allowed
		}
		c.Distinct("outcomes", fmt.Sprintf("request|%d lines", bytes.Count(sc.Out, []byte("\r\n"))))
		start := "POST /p HTTP/1.1"
		if cs.Proxy {
			// absolute form with whatever host the application named; what matters is that it is ONE line
			// ... "method SP target SP version" with no further SP or control byte in the target
			if i := bytes.Index(sc.Out, []byte("\r\n")); i > 0 && bytes.HasPrefix(sc.Out, []byte("POST ")) && bytes.HasSuffix(sc.Out[:i], []byte(" HTTP/1.1")) && !bytes.ContainsAny(sc.Out[:i], "\r\n") &&
				bytes.Count(sc.Out[:i], []byte(" ")) == 2 && bytes.IndexFunc(sc.Out[:i], func(r rune) bool { return r < ' ' || r == 0x7f }) < 0 {
				start = string(sc.Out[:i])
			}
			allowed = merge(allowed, map[string]int{"proxy-connection": 1, "proxy-authorization": 1})
		}
		if why := judgeMessage(sc.Out, start, allowed, e.chunk); why != "" {
			fail(why, sc.Out)
		}
		return
	}
	var e *respEntry
	for i := range respEntries {
		if respEntries[i].name == cs.Entry {
			e = &respEntries[i]
		}
	}
	if e == nil {
		return
	}
	w.cur, w.curP, w.got, w.prior = e, cs.Payload, nil, cs.Prior
	res := w.s.Run([][]byte{[]byte("GET /r HTTP/1.1\r\nHost: h\r\n\r\n")}, netsim.EndEOF, nil)
	if res.Panic != nil {
		return // a setter that panics inside a handler is recovered/propagated like any handler panic; not an injection
	}
	start := "HTTP/1.1 200 OK"
	if strings.HasPrefix(e.name, "RequestContext.Redirect") {
		start = "HTTP/1.1 302 Found"
	}
	c.Distinct("outcomes", fmt.Sprintf("response|%d lines", bytes.Count(res.Out, []byte("\r\n"))))
	if why := judgeMessage(res.Out, start, w.got, e.chunk); why != "" {
		fail(why, res.Out)
	}
}

func clip(b []byte) string {
	if len(b) > 500 {
		return string(b[:500]) + "..."
	}
	return string(b)
}

func payloads(maxLen int) []string {
	al := []string{"a", "\r", "\n", "\x00", ":", " "}
	strs := []string{""} // the empty name / value
	var rec func(s string)
	rec = func(s string) {
		if s != "" {
			strs = append(strs, s)
		}
		if len(s) == maxLen {
			return
		}
		for _, x := range al {
			rec(s + x)
		}
	}
	rec("")
	var out []string
	seen := map[string]bool{}
	for _, s := range strs {
		for _, p := range []string{s + "tok", "to" + s + "k", "tok" + s, s} {
			if !seen[p] {
				seen[p] = true
				out = append(out, p)
			}
		}
	}
	// the classic probes
	for _, p := range []string{"v\r\nX-Injected: 1", "v\nX-Injected: 1", "v\rX-Injected: 1", "v\r\n\r\nGET /evil HTTP/1.1\r\nHost: e\r\n\r\n", "v\n\nbody", "X-Injected: 1\r\nX-K"} {
		out = append(out, p)
	}
	return out
}

func run(c *mc.Ctx) {
	defer removeAttachFile()
	n := 3
	if c.Thorough() {
		n = 4
	}
	ps := payloads(n)
	c.Extra("payloads", len(ps))
	c.Extra("request_entries", len(reqEntries))
	c.Extra("response_entries", len(respEntries))
	var cases []Case
	for _, e := range reqEntries {
		for _, p := range ps {
			if strings.Contains(e.name, "Host") {
				cases = append(cases, Case{Side: "request", Entry: e.name, Payload: p, Proxy: true})
			}
			cases = append(cases, Case{Side: "request", Entry: e.name, Payload: p}, Case{Side: "request", Entry: e.name, Payload: p, Prior: true})
		}
	}
	for _, e := range respEntries {
		for _, p := range ps {
			cases = append(cases, Case{Side: "response", Entry: e.name, Payload: p}, Case{Side: "response", Entry: e.name, Payload: p, Prior: true})
		}
	}
	c.Sample(Case{Side: "response", Entry: "RequestContext.Header/value", Payload: "to\r\n:k"})
	c.Sample(Case{Side: "request", Entry: "RequestHeader.SetCookie/value", Payload: "tok\r\na", Prior: true})
	ex := c.Counter("executions")
	nt := c.Counter("nontrivial")
	pool := make(chan *worker, 64)
	c.ParallelFor(len(cases), func(i int) {
		var w *worker
		select {
		case w = <-pool:
		default:
			w = newWorker()
		}
		w.exec(c, cases[i])
		atomic.AddInt64(ex, 1)
		if strings.ContainsAny(cases[i].Payload, "\r\n") {
			atomic.AddInt64(nt, 1)
		}
		pool <- w
	})
	c.Add("transitions", c.Get("executions"))
}

func replay(c *mc.Ctx, raw json.RawMessage) {
	defer removeAttachFile()
	var cs Case
	if json.Unmarshal(raw, &cs) != nil {
		return
	}
	newWorker().exec(c, cs)
}
