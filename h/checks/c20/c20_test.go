package c20

import "testing"

// Fixed expectations for the reference (exprref) itself and the printer/parser round trip.
func TestReference(t *testing.T) {
	for _, c := range []struct {
		expr string
		f    val
		want string
	}{
		{"1+2*3==7", num(0), "accept"},
		{"2-1-1==0", num(0), "accept"},
		{"8/2/2==2", num(0), "accept"},
		{"1<2==true", num(0), "accept"},
		{"true||false&&false", num(0), "accept"},
		{"(true||false)&&false", num(0), "reject"},
		{"!(1<2)", num(0), "reject"},
		{"-(1+2)==-3", num(0), "accept"},
		{"2*-$==-6", num(3), "accept"},
		{"7%3==1", num(0), "accept"},
		{"-7%3==-1", num(0), "accept"},
		{"$%0==$%0", num(1), "reject"},
		{"1/$>5", num(0), "undetermined"},
		{"1%$==0", num(0.5), "undetermined"},
		{"$==nil||$>0", val{t: vNil}, "accept"},
		{"$>0||$==nil", val{t: vNil}, "undetermined"},
		{"$!=nil", num(0), "accept"},
		{"'a'+$=='ab'", val{t: vStr, s: "b"}, "accept"},
		{"''<$", val{t: vStr, s: "a"}, "accept"},
		{"len( $ )>1&&regexp( '^a' , $ )", val{t: vStr, s: "ab"}, "accept"},
		{"in( $ , 1 ,2)", num(2), "accept"},
		{"in($,1,2)", val{t: vNil}, "reject"},
		{"len($)==0", val{t: vSlice}, "accept"},
	} {
		n, err := RefParse(c.expr)
		if err != nil {
			t.Fatalf("%q: %v", c.expr, err)
		}
		if got := refVerdict(n, c.f); got != c.want {
			t.Errorf("%q: got %s want %s (%s)", c.expr, got, c.want, canon(n))
		}
	}
	for _, th := range []bool{false, true} {
		for _, f := range families(th) {
			g := newGrammar(f.Field, f.Alpha)
			n := f.items(g)
			step := n/500 + 1
			for i := int64(0); i < n; i += step {
				itemCase(f, g, i) // panics if a printing does not parse back to the tree
			}
		}
	}
}
