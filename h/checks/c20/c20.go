// Package c20: validation expressions follow the documented operator precedence and typing.
//
// Bounded-exhaustive enumeration of well-typed expression trees (all shapes with <= k binary
// operators over small leaf alphabets, optional unary '!' / '-'), each printed three ways
// (minimal parentheses, fully parenthesised, redundant parentheses + irregular spacing) and
// installed as the `vd` tag of a fresh reflect.StructOf type, so hertz compiles every
// expression anew; every field value of a small domain is validated and the accept/reject
// answer is compared with an independent precedence-climbing parser + evaluator (exprref).
//
// reflect.StructOf types are never freed, therefore the enumeration runs in short-lived
// worker processes (the verif binary re-executed with VERIF_C20_JOB set); this also lets the
// check survive - and report - unrecoverable crashes and hangs of the engine.
package c20

import (
	"bytes"
	"encoding/json"
	"fmt"
	"io"
	"math"
	"os"
	"os/exec"
	"reflect"
	"regexp"
	"runtime/debug"
	"sort"
	"strconv"
	"strings"
	"sync"
	"sync/atomic"
	"time"

	"github.com/cloudwego/hertz/pkg/app/server/binding"
	"github.com/cloudwego/hertz/pkg/common/hlog"

	"verifh/mc"
)

const envJob = "VERIF_C20_JOB"

func init() {
	hlog.SetOutput(io.Discard)
	hlog.SetLevel(hlog.LevelFatal)
	if os.Getenv(envJob) != "" {
		workerMain()
		os.Exit(0)
	}
}

var Check = &mc.Check{
	ID:    "C20",
	Level: "model_checking",
	Rule: "every well-typed boolean expression tree with exactly k binary operators (all Catalan shapes) over the 13 binary operators, optional unary !/- on operands, and a leaf alphabet " +
		"(full = {$, 0,1,2,-1,2.5, '', 'a', true,false, nil, len($), regexp('^a',$), in($,..)}, reduced = {$,1,2,'a',true,false,funcs}, tiny = {$,2,'a',true,funcs}); " +
		"quick: k<=1 full/any unary subset and k=2 full/<=1 unary on all 6 field types, k=2 reduced/any unary subset (int,bool), k=3 reduced/no unary (int,string,bool), k=3 tiny/<=1 unary (int,bool); " +
		"thorough: k<=2 full/any unary subset and k=3 full/no unary on all field types, k=3 reduced/<=1 unary and k=4 tiny/no unary (int,string,bool,*int), k=4 tiny/<=1 unary (bool), k=4 reduced/no unary (int); " +
		"every tree printed 3 ways (minimal parentheses without spaces, fully parenthesised, redundant parentheses + irregular spacing/tabs), each printing compiled as the vd tag of a fresh reflect.StructOf type " +
		"and validated for every value of the field domain (int {0,1,2,-1,3}, float64 {0,0.5,-1.5,2.5}, string {'',a,ab,b,0}, bool, *int {nil,0,2,-1}, []int {nil,[],[7],[1,2]}), first call cold, later calls on the cached compilation; " +
		"non-trivial = evaluations of trees in which some binary operator has a binary right operand, a lower-precedence binary left operand, or a unary applied to a binary operand " +
		"(hertz's initial flat left-to-right chain has to be re-associated or grouped) and whose verdict the reference determines",
	Run:    run,
	Replay: replay,
	Assumptions: []string{
		"binding.NewValidator(binding.NewValidateConfig()) is the construction of binding.DefaultValidator(); workers use fresh validators so compiled types can be collected",
		"expressions are well-typed (number/string/bool operands where documented); an operand that is nil at run time (nil *int), x/0 (hertz: NaN, IEEE: +-Inf) and x%y with int64(y)==0 make the verdict undetermined: then only no-panic and agreement of the three printings are demanded",
		"x%0 is NaN (hertz guard), % is float64(int64(a)%int64(b)) as documented",
		"unary operators are applied at most once per operand and written without a space before the operand",
	},
}

// ---------------------------------------------------------------------------------------
// expression trees
// ---------------------------------------------------------------------------------------

type kind uint8

const (
	kNum kind = iota
	kStr
	kBool
	kNil
	kField
	kLen    // len(x)
	kRegexp // regexp('pattern', x)
	kIn     // in(x, e1, ...)
	kNeg
	kNot
	kBin
)

// static types of generated trees
type ty uint8

const (
	tN  ty = iota // number
	tS            // string
	tB            // bool
	tP            // nullable field reference (only as operand of ==/!= against nil)
	tZ            // the nil literal
	nTy = 5
)

type node struct {
	k   kind
	f   float64
	s   string // string literal / regexp pattern / binary operator
	b   bool
	a   []*node
	typ ty // set by the generator only
}

// prec is the documented priority table (high binds tighter); unary operators bind tighter than all.
func prec(op string) int {
	switch op {
	case "*", "/", "%":
		return 6
	case "+", "-":
		return 5
	case "<", "<=", ">", ">=":
		return 4
	case "==", "!=":
		return 3
	case "&&":
		return 2
	case "||":
		return 1
	}
	return 0
}

func opClass(op string) string {
	switch prec(op) {
	case 6:
		return "mul"
	case 5:
		return "add"
	case 4:
		return "cmp"
	case 3:
		return "eq"
	case 2:
		return "and"
	case 1:
		return "or"
	}
	return "?"
}

func fmtLit(f float64) string { return strconv.FormatFloat(f, 'f', -1, 64) }

// normalize folds a unary minus applied to a numeric literal into the literal.
func normalize(n *node) *node {
	if len(n.a) == 0 {
		return n
	}
	m := *n
	m.a = make([]*node, len(n.a))
	for i, x := range n.a {
		m.a[i] = normalize(x)
	}
	if m.k == kNeg && m.a[0].k == kNum {
		return &node{k: kNum, f: -m.a[0].f}
	}
	return &m
}

func canon(n *node) string { return canon1(normalize(n)) }

func canon1(n *node) string {
	switch n.k {
	case kNum:
		return "#" + strconv.FormatFloat(n.f, 'g', -1, 64)
	case kStr:
		return strconv.Quote(n.s)
	case kBool:
		return strconv.FormatBool(n.b)
	case kNil:
		return "nil"
	case kField:
		return "$"
	case kLen:
		return "len(" + canon1(n.a[0]) + ")"
	case kRegexp:
		return "regexp(" + strconv.Quote(n.s) + "," + canon1(n.a[0]) + ")"
	case kIn:
		p := make([]string, len(n.a))
		for i, x := range n.a {
			p[i] = canon1(x)
		}
		return "in(" + strings.Join(p, ",") + ")"
	case kNeg:
		return "neg(" + canon1(n.a[0]) + ")"
	case kNot:
		return "not(" + canon1(n.a[0]) + ")"
	case kBin:
		return "(" + canon1(n.a[0]) + " " + n.s + " " + canon1(n.a[1]) + ")"
	}
	return "?"
}

func dependsOnField(n *node) bool {
	if n.k == kField {
		return true
	}
	for _, x := range n.a {
		if dependsOnField(x) {
			return true
		}
	}
	return false
}

// needsRegrouping: hertz first builds a flat left-leaning chain; this tree is not such a chain.
func needsRegrouping(n *node) bool {
	switch n.k {
	case kNeg, kNot:
		if n.a[0].k == kBin {
			return true
		}
	case kBin:
		l, r := n.a[0], n.a[1]
		if r.k == kBin {
			return true
		}
		if l.k == kBin && prec(l.s) < prec(n.s) {
			return true
		}
	}
	for _, x := range n.a {
		if needsRegrouping(x) {
			return true
		}
	}
	return false
}

// opSeq: operator classes in textual order, "u" for a unary operator.
func opSeq(n *node) string {
	var out []string
	var walk func(n *node)
	walk = func(n *node) {
		switch n.k {
		case kNeg, kNot:
			out = append(out, "u")
			walk(n.a[0])
		case kBin:
			walk(n.a[0])
			out = append(out, opClass(n.s))
			walk(n.a[1])
		}
	}
	walk(n)
	return strings.Join(out, ",")
}

// ---------------------------------------------------------------------------------------
// printers
// ---------------------------------------------------------------------------------------

const (
	stMin   = 0 // minimal parentheses, no spaces
	stFull  = 1 // every binary node parenthesised, single spaces
	stMixed = 2 // redundant parentheses on left operands and on some leaves, irregular spacing
)

var styleName = []string{"min-parens", "full-parens", "mixed-parens-spacing"}

type printer struct {
	style int
	idx   int
}

func printExpr(n *node, style int) string {
	p := &printer{style: style}
	s := p.pr(n)
	if style == stMixed {
		if n.k == kBin && p.idx%2 == 0 {
			s = "(" + s + ")"
		}
		switch p.idx % 3 {
		case 1:
			s = " " + s + "  "
		case 2:
			s = s + " "
		}
	}
	return s
}

func (p *printer) pr(n *node) string {
	my := p.idx
	p.idx++
	switch n.k {
	case kNeg, kNot:
		sym := "-"
		if n.k == kNot {
			sym = "!"
		}
		x := n.a[0]
		inner := p.pr(x)
		if x.k == kBin {
			if p.style == stFull {
				return sym + inner // already parenthesised
			}
			return sym + "(" + inner + ")"
		}
		if x.k == kNeg || x.k == kNot || strings.HasPrefix(inner, "-") || strings.HasPrefix(inner, "!") {
			return sym + "(" + inner + ")"
		}
		return sym + inner
	case kBin:
		l, r := n.a[0], n.a[1]
		ls := p.pr(l)
		rs := p.pr(r)
		needL := l.k == kBin && prec(l.s) < prec(n.s)
		needR := r.k == kBin && prec(r.s) <= prec(n.s)
		switch p.style {
		case stMin:
			if needL {
				ls = "(" + ls + ")"
			}
			if needR {
				rs = "(" + rs + ")"
			}
			return ls + n.s + rs
		case stFull:
			return "(" + ls + " " + n.s + " " + rs + ")"
		default:
			if l.k == kBin {
				if my%2 == 0 {
					ls = "( " + ls + " )"
				} else {
					ls = "(" + ls + ")"
				}
			}
			if needR {
				if my%2 == 0 {
					rs = "(" + rs + ")"
				} else {
					rs = "((" + rs + " ))"
				}
			}
			switch my % 4 {
			case 0:
				return ls + " " + n.s + " " + rs
			case 1:
				return ls + "  " + n.s + rs
			case 2:
				return ls + n.s + "\t" + rs
			default:
				return ls + " " + n.s + "  " + rs
			}
		}
	}
	return p.leaf(n, my)
}

func (p *printer) leaf(n *node, my int) string {
	sp := p.style == stMixed
	arg := func(x *node) string { return printExpr(x, stMin) }
	var s string
	switch n.k {
	case kNum:
		s = fmtLit(n.f)
	case kStr:
		s = "'" + n.s + "'"
	case kBool:
		s = strconv.FormatBool(n.b)
	case kNil:
		s = "nil"
	case kField:
		s = "$"
	case kLen:
		if sp {
			s = "len( " + arg(n.a[0]) + " )"
		} else {
			s = "len(" + arg(n.a[0]) + ")"
		}
	case kRegexp:
		if sp {
			s = "regexp( '" + n.s + "' , " + arg(n.a[0]) + " )"
		} else {
			s = "regexp('" + n.s + "'," + arg(n.a[0]) + ")"
		}
	case kIn:
		parts := make([]string, len(n.a))
		for i, x := range n.a {
			parts[i] = arg(x)
		}
		if sp {
			s = "in( " + strings.Join(parts, " , ") + ")"
		} else {
			s = "in(" + strings.Join(parts, ",") + ")"
		}
	}
	if sp && my%2 == 1 {
		if my%4 == 1 {
			s = "(" + s + ")"
		} else {
			s = "( " + s + " )"
		}
	}
	return s
}

// ---------------------------------------------------------------------------------------
// exprref: independent precedence-climbing parser
// ---------------------------------------------------------------------------------------

type token struct {
	t string // "num", "str", "id", "op", "end"
	s string
	f float64
}

func lex(src string) ([]token, error) {
	var out []token
	i := 0
	for i < len(src) {
		c := src[i]
		switch {
		case c == ' ' || c == '\t':
			i++
		case c >= '0' && c <= '9':
			j := i
			for j < len(src) && (src[j] >= '0' && src[j] <= '9' || src[j] == '.') {
				j++
			}
			f, err := strconv.ParseFloat(src[i:j], 64)
			if err != nil {
				return nil, fmt.Errorf("bad number %q", src[i:j])
			}
			out = append(out, token{t: "num", f: f})
			i = j
		case c == '\'':
			j := strings.IndexByte(src[i+1:], '\'')
			if j < 0 {
				return nil, fmt.Errorf("unclosed string")
			}
			out = append(out, token{t: "str", s: src[i+1 : i+1+j]})
			i += j + 2
		case c >= 'a' && c <= 'z':
			j := i
			for j < len(src) && src[j] >= 'a' && src[j] <= 'z' {
				j++
			}
			out = append(out, token{t: "id", s: src[i:j]})
			i = j
		default:
			if i+1 < len(src) {
				switch src[i : i+2] {
				case "||", "&&", "==", "!=", "<=", ">=":
					out = append(out, token{t: "op", s: src[i : i+2]})
					i += 2
					continue
				}
			}
			if strings.IndexByte("+-*/%<>!(),$", c) < 0 {
				return nil, fmt.Errorf("unexpected %q", c)
			}
			out = append(out, token{t: "op", s: string(c)})
			i++
		}
	}
	return append(out, token{t: "end"}), nil
}

type refParser struct {
	toks []token
	pos  int
}

func (p *refParser) peek() token { return p.toks[p.pos] }
func (p *refParser) next() token { t := p.toks[p.pos]; p.pos++; return t }
func (p *refParser) expect(op string) error {
	t := p.next()
	if t.t != "op" || t.s != op {
		return fmt.Errorf("expected %q", op)
	}
	return nil
}

// RefParse parses an expression with the documented priorities, left-associative.
func RefParse(src string) (*node, error) {
	toks, err := lex(src)
	if err != nil {
		return nil, err
	}
	p := &refParser{toks: toks}
	n, err := p.expr(1)
	if err != nil {
		return nil, err
	}
	if p.peek().t != "end" {
		return nil, fmt.Errorf("trailing input")
	}
	return n, nil
}

func (p *refParser) expr(minPrec int) (*node, error) {
	lhs, err := p.unary()
	if err != nil {
		return nil, err
	}
	for {
		t := p.peek()
		if t.t != "op" {
			return lhs, nil
		}
		pr := prec(t.s)
		if pr == 0 || pr < minPrec {
			return lhs, nil
		}
		p.next()
		rhs, err := p.expr(pr + 1)
		if err != nil {
			return nil, err
		}
		lhs = &node{k: kBin, s: t.s, a: []*node{lhs, rhs}}
	}
}

func (p *refParser) unary() (*node, error) {
	t := p.peek()
	if t.t == "op" && (t.s == "-" || t.s == "!") {
		p.next()
		x, err := p.unary()
		if err != nil {
			return nil, err
		}
		if t.s == "-" {
			return &node{k: kNeg, a: []*node{x}}, nil
		}
		return &node{k: kNot, a: []*node{x}}, nil
	}
	return p.primary()
}

func (p *refParser) primary() (*node, error) {
	t := p.next()
	switch t.t {
	case "num":
		return &node{k: kNum, f: t.f}, nil
	case "str":
		return &node{k: kStr, s: t.s}, nil
	case "id":
		switch t.s {
		case "true":
			return &node{k: kBool, b: true}, nil
		case "false":
			return &node{k: kBool, b: false}, nil
		case "nil":
			return &node{k: kNil}, nil
		case "len", "in", "regexp":
			if err := p.expect("("); err != nil {
				return nil, err
			}
			var args []*node
			for {
				x, err := p.expr(1)
				if err != nil {
					return nil, err
				}
				args = append(args, x)
				if q := p.peek(); q.t == "op" && q.s == "," {
					p.next()
					continue
				}
				break
			}
			if err := p.expect(")"); err != nil {
				return nil, err
			}
			switch t.s {
			case "len":
				if len(args) != 1 {
					return nil, fmt.Errorf("len: one argument")
				}
				return &node{k: kLen, a: args}, nil
			case "in":
				if len(args) < 2 {
					return nil, fmt.Errorf("in: two arguments at least")
				}
				return &node{k: kIn, a: args}, nil
			default:
				if len(args) != 2 || args[0].k != kStr {
					return nil, fmt.Errorf("regexp: ('pattern', x)")
				}
				return &node{k: kRegexp, s: args[0].s, a: args[1:]}, nil
			}
		}
		return nil, fmt.Errorf("unknown identifier %q", t.s)
	case "op":
		switch t.s {
		case "$":
			return &node{k: kField}, nil
		case "(":
			x, err := p.expr(1)
			if err != nil {
				return nil, err
			}
			if err := p.expect(")"); err != nil {
				return nil, err
			}
			return x, nil
		}
	}
	return nil, fmt.Errorf("unexpected token %q", t.s)
}

// ---------------------------------------------------------------------------------------
// exprref: evaluator
// ---------------------------------------------------------------------------------------

type vt uint8

const (
	vPoison vt = iota // the documentation does not determine the value
	vNum
	vStr
	vBool
	vNil
	vSlice
)

type val struct {
	t vt
	f float64 // number, or length of a slice
	s string
	b bool
}

var poison = val{}

func num(f float64) val  { return val{t: vNum, f: f} }
func boolean(b bool) val { return val{t: vBool, b: b} }

type evaluator struct {
	field val
	ieee  bool // x/0 is +-Inf/NaN (IEEE) instead of NaN (hertz guard)
}

var reCache sync.Map

func compileRe(p string) *regexp.Regexp {
	if r, ok := reCache.Load(p); ok {
		return r.(*regexp.Regexp)
	}
	r, err := regexp.Compile(p)
	if err != nil {
		return nil
	}
	reCache.Store(p, r)
	return r
}

func (e *evaluator) eval(n *node) val {
	switch n.k {
	case kNum:
		return num(n.f)
	case kStr:
		return val{t: vStr, s: n.s}
	case kBool:
		return boolean(n.b)
	case kNil:
		return val{t: vNil}
	case kField:
		return e.field
	case kLen:
		x := e.eval(n.a[0])
		switch x.t {
		case vStr:
			return num(float64(len(x.s)))
		case vSlice:
			return num(x.f)
		}
		return poison
	case kRegexp:
		x := e.eval(n.a[0])
		if x.t != vStr {
			return poison
		}
		re := compileRe(n.s)
		if re == nil {
			return poison
		}
		return boolean(re.MatchString(x.s))
	case kIn:
		x := e.eval(n.a[0])
		if x.t != vNum && x.t != vStr && x.t != vNil {
			return poison
		}
		found := false
		for _, a := range n.a[1:] {
			y := e.eval(a)
			if y.t != vNum && y.t != vStr {
				return poison
			}
			if x.t == vNil {
				continue // a nil pointer is none of the enumerated values
			}
			if y.t != x.t {
				return poison
			}
			if (x.t == vNum && x.f == y.f) || (x.t == vStr && x.s == y.s) {
				found = true
			}
		}
		return boolean(found)
	case kNeg:
		x := e.eval(n.a[0])
		if x.t != vNum {
			return poison
		}
		return num(-x.f)
	case kNot:
		// "If the expression value is not 0, '' or nil" it counts as true (tagexpr's documented rule for using a
		// value as a boolean); '!' negates that
		x := e.eval(n.a[0])
		switch x.t {
		case vBool:
			return boolean(!x.b)
		case vNum:
			return boolean(!(x.f != 0))
		case vStr:
			return boolean(!(x.s != ""))
		case vNil:
			return boolean(true)
		case vSlice:
			return boolean(x.s == "nil") // a nil slice is nil; any other slice (also an empty one) is "not 0, '' or nil"
		}
		return poison
	case kBin:
		return e.bin(n)
	}
	return poison
}

func (e *evaluator) bin(n *node) val {
	op := n.s
	if op == "&&" || op == "||" {
		l := e.eval(n.a[0])
		if l.t != vBool {
			return poison
		}
		if (op == "&&" && !l.b) || (op == "||" && l.b) {
			return l
		}
		r := e.eval(n.a[1])
		if r.t != vBool {
			return poison
		}
		return r
	}
	l := e.eval(n.a[0])
	r := e.eval(n.a[1])
	if l.t == vPoison || r.t == vPoison {
		return poison
	}
	switch op {
	case "+":
		if l.t == vStr && r.t == vStr {
			return val{t: vStr, s: l.s + r.s}
		}
		fallthrough
	case "-", "*", "/", "%":
		if l.t != vNum || r.t != vNum {
			return poison
		}
		a, b := l.f, r.f
		switch op {
		case "+":
			return num(a + b)
		case "-":
			return num(a - b)
		case "*":
			return num(a * b)
		case "/":
			if b == 0 && !e.ieee {
				return num(math.NaN())
			}
			return num(a / b)
		default:
			if b == 0 {
				return num(math.NaN())
			}
			const lim = 9.0e18
			if math.IsNaN(a) || math.IsNaN(b) {
				return num(math.NaN()) // float64 arithmetic: an undefined operand (x/0) gives an undefined remainder
			}
			if math.Abs(a) > lim || math.Abs(b) > lim {
				return poison // int64 conversion is implementation-defined
			}
			ib := int64(b)
			if ib == 0 {
				return poison // documented formula float64(int64(a)%int64(b)) has no value
			}
			return num(float64(int64(a) % ib))
		}
	case "<", "<=", ">", ">=":
		var c int
		switch {
		case l.t == vNum && r.t == vNum:
			a, b := l.f, r.f
			if math.IsNaN(a) || math.IsNaN(b) {
				return boolean(false)
			}
			c = cmpF(a, b)
		case l.t == vStr && r.t == vStr:
			c = strings.Compare(l.s, r.s)
		default:
			return poison
		}
		switch op {
		case "<":
			return boolean(c < 0)
		case "<=":
			return boolean(c <= 0)
		case ">":
			return boolean(c > 0)
		}
		return boolean(c >= 0)
	case "==", "!=":
		var eq bool
		switch {
		case l.t == vSlice || r.t == vSlice:
			return poison
		case l.t == vNil || r.t == vNil:
			eq = l.t == vNil && r.t == vNil
		case l.t != r.t:
			return poison
		case l.t == vNum:
			eq = l.f == r.f // NaN is not equal to itself
		case l.t == vStr:
			eq = l.s == r.s
		case l.t == vBool:
			eq = l.b == r.b
		default:
			return poison
		}
		if op == "!=" {
			eq = !eq
		}
		return boolean(eq)
	}
	return poison
}

func cmpF(a, b float64) int {
	switch {
	case a < b:
		return -1
	case a > b:
		return 1
	}
	return 0
}

// verdict: "accept", "reject" or "undetermined".
func refVerdict(n *node, field val) string {
	a := (&evaluator{field: field}).eval(n)
	b := (&evaluator{field: field, ieee: true}).eval(n)
	if a.t != vBool || b.t != vBool || a.b != b.b {
		return "undetermined"
	}
	if a.b {
		return "accept"
	}
	return "reject"
}

// ---------------------------------------------------------------------------------------
// field types and values
// ---------------------------------------------------------------------------------------

type fieldKind struct {
	name string
	typ  reflect.Type
	vals []string
}

var fieldKinds = []*fieldKind{
	{"int", reflect.TypeOf(int(0)), []string{"0", "1", "2", "-1", "3"}},
	{"float64", reflect.TypeOf(float64(0)), []string{"0", "0.5", "-1.5", "2.5"}},
	{"string", reflect.TypeOf(""), []string{"", "a", "ab", "b", "0"}},
	{"bool", reflect.TypeOf(false), []string{"false", "true"}},
	{"*int", reflect.TypeOf((*int)(nil)), []string{"nil", "0", "2", "-1"}},
	{"[]int", reflect.TypeOf([]int(nil)), []string{"nil", "[]", "[7]", "[1,2]"}},
}

func kindByName(name string) *fieldKind {
	for _, fk := range fieldKinds {
		if fk.name == name {
			return fk
		}
	}
	return nil
}

// setField stores the value described by v into the struct field and returns the reference view of it.
func (fk *fieldKind) setField(f reflect.Value, v string) (val, error) {
	switch fk.name {
	case "int":
		i, err := strconv.ParseInt(v, 10, 64)
		if err != nil {
			return poison, err
		}
		f.SetInt(i)
		return num(float64(i)), nil
	case "float64":
		x, err := strconv.ParseFloat(v, 64)
		if err != nil {
			return poison, err
		}
		f.SetFloat(x)
		return num(x), nil
	case "string":
		f.SetString(v)
		return val{t: vStr, s: v}, nil
	case "bool":
		b := v == "true"
		f.SetBool(b)
		return boolean(b), nil
	case "*int":
		if v == "nil" {
			return val{t: vNil}, nil
		}
		i, err := strconv.Atoi(v)
		if err != nil {
			return poison, err
		}
		f.Set(reflect.ValueOf(&i))
		return num(float64(i)), nil
	case "[]int":
		if v == "nil" {
			return val{t: vSlice, s: "nil"}, nil
		}
		var s []int
		if err := json.Unmarshal([]byte(v), &s); err != nil {
			return poison, err
		}
		if s == nil {
			s = []int{}
		}
		f.Set(reflect.ValueOf(s))
		return val{t: vSlice, f: float64(len(s))}, nil
	}
	return poison, fmt.Errorf("unknown field kind %q", fk.name)
}

// ---------------------------------------------------------------------------------------
// leaf alphabets, counting and unranking of typed trees
// ---------------------------------------------------------------------------------------

const (
	alFull    = 0
	alReduced = 1
	alTiny    = 2
)

var alphaName = []string{"full", "reduced", "tiny"}

func lit(f float64) *node   { return &node{k: kNum, f: f, typ: tN} }
func strl(s string) *node   { return &node{k: kStr, s: s, typ: tS} }
func booll(b bool) *node    { return &node{k: kBool, b: b, typ: tB} }
func fieldRef(t ty) *node   { return &node{k: kField, typ: t} }
func lenOf(x *node) *node   { return &node{k: kLen, a: []*node{x}, typ: tN} }
func inOf(a ...*node) *node { return &node{k: kIn, a: a, typ: tB} }

func alphabet(field string, level int) [nTy][]*node {
	var l [nTy][]*node
	switch level {
	case alFull:
		l[tN] = []*node{lit(0), lit(1), lit(2), lit(-1), lit(2.5)}
		l[tS] = []*node{strl(""), strl("a")}
		l[tB] = []*node{booll(true), booll(false)}
	case alReduced:
		l[tN] = []*node{lit(1), lit(2)}
		l[tB] = []*node{booll(true), booll(false)}
		if field == "string" {
			l[tS] = []*node{strl("a")}
		}
	default:
		l[tN] = []*node{lit(2)}
		l[tB] = []*node{booll(true)}
		if field == "string" {
			l[tS] = []*node{strl("a")}
		}
	}
	switch field {
	case "int", "float64", "*int":
		l[tN] = append([]*node{fieldRef(tN)}, l[tN]...)
		l[tB] = append(l[tB], inOf(fieldRef(tN), lit(1), lit(2)))
		if field == "*int" {
			l[tP] = []*node{fieldRef(tP)}
			l[tZ] = []*node{{k: kNil, typ: tZ}}
		}
	case "string":
		l[tS] = append([]*node{fieldRef(tS)}, l[tS]...)
		l[tN] = append(l[tN], lenOf(fieldRef(tS)))
		l[tB] = append(l[tB], &node{k: kRegexp, s: "^a", a: []*node{fieldRef(tS)}, typ: tB})
		if level == alFull {
			l[tB] = append(l[tB], inOf(fieldRef(tS), strl("a"), strl("b")))
		}
	case "bool":
		l[tB] = append([]*node{fieldRef(tB)}, l[tB]...)
	case "[]int":
		l[tN] = append(l[tN], lenOf(fieldRef(tN)))
	}
	return l
}

type production struct {
	res  ty
	op   string
	l, r ty
}

var productions = func() []production {
	var ps []production
	for _, op := range []string{"*", "/", "%", "+", "-"} {
		ps = append(ps, production{tN, op, tN, tN})
	}
	ps = append(ps, production{tS, "+", tS, tS})
	for _, op := range []string{"<", "<=", ">", ">="} {
		ps = append(ps, production{tB, op, tN, tN}, production{tB, op, tS, tS})
	}
	for _, op := range []string{"==", "!="} {
		ps = append(ps, production{tB, op, tN, tN}, production{tB, op, tS, tS}, production{tB, op, tB, tB},
			production{tB, op, tP, tZ}, production{tB, op, tZ, tP})
	}
	for _, op := range []string{"&&", "||"} {
		ps = append(ps, production{tB, op, tB, tB})
	}
	return ps
}()

const maxK = 4

type grammar struct {
	leaves [nTy][]*node
	cnt    [nTy][maxK + 1]int64
}

func newGrammar(field string, level int) *grammar {
	g := &grammar{leaves: alphabet(field, level)}
	for t := 0; t < nTy; t++ {
		g.cnt[t][0] = int64(len(g.leaves[t]))
	}
	for k := 1; k <= maxK; k++ {
		for _, p := range productions {
			for i := 0; i < k; i++ {
				g.cnt[p.res][k] += g.cnt[p.l][i] * g.cnt[p.r][k-1-i]
			}
		}
	}
	return g
}

// unrank returns the idx-th tree of static type t with exactly k binary operators.
func (g *grammar) unrank(t ty, k int, idx int64) *node {
	if k == 0 {
		return g.leaves[t][idx]
	}
	for _, p := range productions {
		if p.res != t {
			continue
		}
		for i := 0; i < k; i++ {
			cr := g.cnt[p.r][k-1-i]
			block := g.cnt[p.l][i] * cr
			if idx < block {
				return &node{k: kBin, s: p.op, typ: t, a: []*node{g.unrank(p.l, i, idx/cr), g.unrank(p.r, k-1-i, idx%cr)}}
			}
			idx -= block
		}
	}
	panic("c20: unrank out of range")
}

// unary modes
const (
	unNone = 0 // no unary operator
	unOne  = 1 // at most one node carries a unary operator
	unAny  = 2 // every subset of nodes
)

var unaryName = []string{"no-unary", "<=1-unary", "any-unary-subset"}

func maskCount(k, mode int) int64 {
	nodes := 2*k + 1
	switch mode {
	case unOne:
		return int64(nodes + 1)
	case unAny:
		return int64(1) << uint(nodes)
	}
	return 1
}

// applyUnary wraps the nodes selected by m (preorder numbering); ok=false if a selected node cannot carry one.
func applyUnary(n *node, k, mode int, m int64) (*node, bool) {
	if mode == unNone || m == 0 {
		return n, true
	}
	var bits int64
	if mode == unOne {
		bits = int64(1) << uint(m-1)
	} else {
		bits = m
	}
	idx := 0
	ok := true
	var walk func(n *node) *node
	walk = func(n *node) *node {
		my := idx
		idx++
		out := n
		if n.k == kBin {
			c := *n
			c.a = []*node{walk(n.a[0]), walk(n.a[1])}
			out = &c
		}
		if bits&(int64(1)<<uint(my)) != 0 {
			switch n.typ {
			case tN:
				return &node{k: kNeg, a: []*node{out}, typ: tN}
			case tB:
				return &node{k: kNot, a: []*node{out}, typ: tB}
			default:
				ok = false
			}
		}
		return out
	}
	r := walk(n)
	return r, ok
}

// family: one completely enumerated set of (tree, unary mask) items for one field type.
type family struct {
	Field string
	K     int
	Alpha int
	Unary int
	// Text: the items are expression texts built from templates around the grammar's trees instead of (tree, mask) pairs:
	// "funcargs" - every numeric / string tree with K operators as an argument of in(...) and len(...);
	// "unary-chain" - runs of 2 and 3 adjacent '!' (and '-') in front of every leaf and every parenthesised tree with K operators
	Text string
}

func (f family) name() string {
	if f.Text != "" {
		return fmt.Sprintf("%s/k=%d/%s/%s", f.Field, f.K, alphaName[f.Alpha], f.Text)
	}
	return fmt.Sprintf("%s/k=%d/%s/%s", f.Field, f.K, alphaName[f.Alpha], unaryName[f.Unary])
}

func (f family) items(g *grammar) int64 {
	if f.Text != "" {
		return int64(len(f.texts(g)))
	}
	return g.cnt[tB][f.K] * maskCount(f.K, f.Unary)
}

var textCache = map[string][]string{}

func (f family) texts(g *grammar) []string {
	if t, ok := textCache[f.name()]; ok {
		return t
	}
	var out []string
	all := func(t ty, k int) []string {
		var l []string
		for i := int64(0); i < g.cnt[t][k]; i++ {
			l = append(l, printExpr(g.unrank(t, k, i), stMin))
		}
		return l
	}
	switch f.Text {
	case "funcargs":
		for _, e := range all(tN, f.K) {
			out = append(out, "in("+e+",0,1,2,3,4,5,6)", "in(3,"+e+")", "in($,"+e+",1)", "in( "+e+" , 2, 4 )")
		}
		for _, e := range all(tS, f.K) {
			out = append(out, "in("+e+",'a','aa','ab')", "len("+e+")==2", "in('aa',"+e+")")
		}
	case "slice-truth":
		out = append(out, "!$", "!!$", "!!!$", "!$==true", "!!$&&true", "false||!$")
	case "regexp-nonstring":
		// regexp on an operand that is not a string never matches; a leading '!' negates that like any other result, with
		// or without parentheses around the call (two printings of one tree, "\x00"-separated)
		out = append(out, "!regexp('^a',$)\x00!(regexp('^a',$))", "!regexp('^a',$)&&true\x00(!(regexp('^a',$)))&&true", "true&&!regexp('^a',$)\x00true&&!(regexp('^a',$))")
	case "self-compare":
		// the field on both sides (for slice fields the operands are not comparable Go values: no verdict is demanded,
		// but evaluation must not panic)
		out = append(out, "$==$", "$!=$", "in($,$)", "!($==$)", "$==$&&true", "in($,$,$)", "len($)==len($)||$==$")
	case "unary-chain":
		var ops []string
		for t := ty(0); t < nTy; t++ {
			if t == tZ {
				continue
			}
			if f.K == 0 {
				ops = append(ops, all(t, 0)...)
			} else {
				for _, e := range all(t, f.K) {
					ops = append(ops, "("+e+")")
				}
			}
		}
		for _, o := range ops {
			if strings.HasPrefix(o, "-") {
				o = "(" + o + ")"
			}
			for _, ch := range []string{"!!", "!!!"} {
				x := ch + o
				out = append(out, x, x+"==true", x+"!=false", "false=="+x, x+"&&true", "false||"+x, "("+x+")==true")
			}
		}
		for _, o := range ops {
			// (a run of '-' directly in front of a digit is not in hertz's syntax: the sign belongs to the literal)
			if strings.HasPrefix(o, "-") || (o[0] >= '0' && o[0] <= '9') || strings.HasPrefix(o, "'") || o == "true" || o == "false" || strings.HasPrefix(o, "in(") || strings.HasPrefix(o, "regexp(") {
				continue
			}
			for _, ch := range []string{"--", "---"} {
				out = append(out, ch+o+"+1>0", ch+o+"==2", "1-"+ch+o+"<0")
			}
		}
	}
	textCache[f.name()] = out
	return out
}

func (f family) item(g *grammar, idx int64) (*node, bool) {
	mc := maskCount(f.K, f.Unary)
	base := g.unrank(tB, f.K, idx/mc)
	return applyUnary(base, f.K, f.Unary, idx%mc)
}

var allFields = []string{"int", "float64", "string", "bool", "*int", "[]int"}

// families lists the enumerated space of a tier, small operator counts first.
func families(thorough bool) []family {
	var fs []family
	add := func(fields []string, k, alpha, unary int) {
		for _, f := range fields {
			fs = append(fs, family{Field: f, K: k, Alpha: alpha, Unary: unary})
		}
	}
	deep := []string{"int", "string", "bool", "*int"}
	if !thorough {
		add(allFields, 0, alFull, unAny)
		add(allFields, 1, alFull, unAny)
		add(allFields, 2, alFull, unOne)
		add([]string{"int", "bool"}, 2, alReduced, unAny)
		add([]string{"int", "string", "bool"}, 3, alReduced, unNone)
		add([]string{"int", "bool"}, 3, alTiny, unOne)
		addText(fs0, &fs)
		return fs
	}
	add(allFields, 0, alFull, unAny)
	add(allFields, 1, alFull, unAny)
	add(allFields, 2, alFull, unAny)
	add(deep, 3, alReduced, unOne)
	add(allFields, 3, alFull, unNone)
	add(deep, 4, alTiny, unNone)
	add([]string{"bool"}, 4, alTiny, unOne)
	add([]string{"int"}, 4, alReduced, unNone)
	addText(fs0, &fs)
	for _, f := range []string{"int", "string", "*int"} {
		fs = append(fs, family{Field: f, K: 3, Alpha: alReduced, Text: "funcargs"}, family{Field: f, K: 2, Alpha: alReduced, Text: "unary-chain"})
	}
	return fs
}

// addText appends the text families of both tiers.
func addText(_ int, fs *[]family) {
	for _, f := range []string{"int", "float64", "string", "bool", "*int"} {
		*fs = append(*fs, family{Field: f, K: 0, Alpha: alFull, Text: "unary-chain"}, family{Field: f, K: 1, Alpha: alReduced, Text: "unary-chain"})
	}
	*fs = append(*fs, family{Field: "[]int", K: 0, Alpha: alFull, Text: "slice-truth"})
	for _, f := range []string{"int", "bool", "*int", "float64"} {
		*fs = append(*fs, family{Field: f, K: 0, Alpha: alFull, Text: "regexp-nonstring"})
	}
	for _, f := range allFields {
		*fs = append(*fs, family{Field: f, K: 0, Alpha: alFull, Text: "self-compare"})
	}
	for _, f := range []string{"int", "string", "*int"} {
		*fs = append(*fs, family{Field: f, K: 1, Alpha: alFull, Text: "funcargs"}, family{Field: f, K: 2, Alpha: alReduced, Text: "funcargs"})
	}
}

const fs0 = 0

// ---------------------------------------------------------------------------------------
// running hertz on one expression
// ---------------------------------------------------------------------------------------

// Case is a replayable case: the printings of one tree, one field type, one or more values.
type Case struct {
	Field  string   `json:"field"`
	Values []string `json:"values"`
	Exprs  []string `json:"exprs"`            // printings of the same tree (1..3)
	Styles []string `json:"styles,omitempty"` // names of the printings
	Sub    bool     `json:"subprocess,omitempty"`
	// Prior: expressions compiled and evaluated with the same validator before this case (history-dependent failures only).
	Prior []string `json:"prior,omitempty"`
}

func structFor(fk *fieldKind, expr string) reflect.Type {
	return reflect.StructOf([]reflect.StructField{{
		Name: "F",
		Type: fk.typ,
		Tag:  reflect.StructTag("vd:" + strconv.Quote(expr)),
	}})
}

var progress int64 // bumped before every call into hertz (hang watchdog)

// worker state: expressions compiled by the current validator before the current tree, and the current tree's printings
var history, current []string

// observe validates one value: "accept", "reject", "error: ..." (validation failed for another reason) or "panic: ...".
func observe(vd binding.StructValidator, st reflect.Type, fk *fieldKind, v string) (obs string, ref val) {
	p := reflect.New(st)
	ref, err := fk.setField(p.Elem().Field(0), v)
	if err != nil {
		panic("c20: bad value " + v + ": " + err.Error())
	}
	atomic.AddInt64(&progress, 1)
	defer func() {
		if r := recover(); r != nil {
			obs = "panic: " + fmt.Sprint(r)
		}
	}()
	e := vd.ValidateStruct(p.Interface())
	switch {
	case e == nil:
		return "accept", ref
	case e.Error() == "invalid parameter: F":
		return "reject", ref
	}
	return "error: " + e.Error(), ref
}

type stats struct {
	Exec, NonTrivial, Undetermined, Compiles, Trees, Skipped, Bad int64
	Outcomes                                                      map[string]int64
}

func (s *stats) outcome(k string) {
	if s.Outcomes == nil {
		s.Outcomes = map[string]int64{}
	}
	s.Outcomes[k]++
}

var digits = regexp.MustCompile(`0x[0-9a-f]+|\d+`)

func classOf(msg string) string {
	msg = digits.ReplaceAllString(msg, "N")
	if len(msg) > 90 {
		msg = msg[:90]
	}
	return msg
}

// checkTree runs all printings of one tree on the given values and reports every disagreement with the reference.
func checkTree(vd binding.StructValidator, fk *fieldKind, exprs, styles, values []string, st *stats,
	report func(key, msg string, cs Case)) {
	trees := make([]*node, len(exprs))
	for i, e := range exprs {
		t, err := RefParse(e)
		if err != nil {
			panic(fmt.Sprintf("c20: reference parser rejects generated expression %q: %v", e, err))
		}
		trees[i] = t
	}
	nontrivial := needsRegrouping(normalize(trees[0]))
	seq := opSeq(trees[0])
	types := make([]reflect.Type, len(exprs))
	for i, e := range exprs {
		types[i] = structFor(fk, e)
		st.Compiles++
	}
	styleOf := func(i int) string {
		if i < len(styles) {
			return styles[i]
		}
		return "expr" + strconv.Itoa(i)
	}
	for _, v := range values {
		obs := make([]string, len(exprs))
		want := ""
		for i := range exprs {
			o, ref := observe(vd, types[i], fk, v)
			obs[i] = o
			st.Exec++
			w := refVerdict(trees[i], ref)
			if i == 0 {
				want = w
			} else if w != want {
				panic(fmt.Sprintf("c20: reference gives %s for %q but %s for %q (%s=%s)", want, exprs[0], w, exprs[i], fk.name, v))
			}
			one := Case{Field: fk.name, Values: []string{v}, Exprs: []string{exprs[i]}, Styles: []string{styleOf(i)}}
			switch {
			case strings.HasPrefix(o, "panic: "):
				st.Bad++
				st.outcome(fk.name + ":panic")
				report("panic:"+classOf(o[7:]),
					fmt.Sprintf("vd:%q on field F %s = %s: binding validation panics (%s); reference verdict %s", exprs[i], fk.name, v, o[7:], w), one)
			case strings.HasPrefix(o, "error: "):
				st.Bad++
				st.outcome(fk.name + ":error")
				report("engine-error:"+styleOf(i)+":"+classOf(o[7:]),
					fmt.Sprintf("vd:%q on field F %s = %s: validation returns %q instead of a verdict; reference verdict %s", exprs[i], fk.name, v, o[7:], w), one)
			case w == "undetermined":
				st.Undetermined++
				st.outcome(fk.name + ":undetermined-" + o)
			default:
				st.outcome(fk.name + ":" + o)
				if nontrivial {
					st.NonTrivial++
				}
				if o != w {
					st.Bad++
					report("verdict:"+styleOf(i)+":"+seq,
						fmt.Sprintf("vd:%q on field F %s = %s: hertz %ss, reference (documented precedence, left-assoc, float64) %ss; tree %s",
							exprs[i], fk.name, v, o, w, canon(trees[i])), one)
				}
			}
		}
		if want == "undetermined" {
			for i := 1; i < len(obs); i++ {
				if obs[i] != obs[0] && !strings.HasPrefix(obs[i], "panic") && !strings.HasPrefix(obs[0], "panic") &&
					!strings.HasPrefix(obs[i], "error") && !strings.HasPrefix(obs[0], "error") {
					st.Bad++
					report("printings-disagree:"+styleOf(i)+":"+seq,
						fmt.Sprintf("field F %s = %s: vd:%q %ss but vd:%q %ss; both are printings of %s", fk.name, v, exprs[0], obs[0], exprs[i], obs[i], canon(trees[0])),
						Case{Field: fk.name, Values: []string{v}, Exprs: []string{exprs[0], exprs[i]}, Styles: []string{styleOf(0), styleOf(i)}})
				}
			}
		}
	}
}

func newValidator() binding.StructValidator {
	return binding.NewValidator(binding.NewValidateConfig())
}

// runCase executes a recorded case on a fresh validator, after re-creating its recorded history.
func runCase(cs Case, report func(key, msg string, cs Case)) {
	fk := kindByName(cs.Field)
	vd := newValidator()
	for _, e := range cs.Prior {
		st := structFor(fk, e)
		for _, v := range fk.vals {
			observe(vd, st, fk, v)
		}
	}
	var st stats
	checkTree(vd, fk, cs.Exprs, cs.Styles, cs.Values, &st, func(key, msg string, c Case) {
		c.Prior = cs.Prior
		report(key, msg, c)
	})
}

func reproduces(cs Case, key string) bool {
	hit := false
	runCase(cs, func(k, _ string, _ Case) {
		if k == key {
			hit = true
		}
	})
	return hit
}

// ---------------------------------------------------------------------------------------
// worker process
// ---------------------------------------------------------------------------------------

type job struct {
	Mode     string  `json:"mode"` // "range" or "case"
	Thorough bool    `json:"thorough"`
	Fam      int     `json:"fam"`
	Lo       int64   `json:"lo"`
	Hi       int64   `json:"hi"`
	Skip     []int64 `json:"skip,omitempty"`
	Deadline int64   `json:"deadline"` // unix nanoseconds, 0 = none
	Case     *Case   `json:"case,omitempty"`
}

type violation struct {
	Key  string `json:"key"`
	Msg  string `json:"msg"`
	Case Case   `json:"case"`
}

type result struct {
	Done    int64       `json:"done"` // first item not processed
	Stats   stats       `json:"stats"`
	Viol    []violation `json:"viol"`
	Samples []Case      `json:"samples"`
}

func workerMain() {
	var jb job
	if err := json.Unmarshal([]byte(os.Getenv(envJob)), &jb); err != nil {
		fmt.Fprintln(os.Stderr, "c20 worker: bad job:", err)
		os.Exit(4)
	}
	debug.SetGCPercent(400)
	debug.SetMaxStack(256 << 20)
	// hang watchdog: no call into hertz may last longer than ~10 s
	go func() {
		last, same := int64(-1), 0
		for {
			time.Sleep(2 * time.Second)
			p := atomic.LoadInt64(&progress)
			if p == last {
				same++
			} else {
				last, same = p, 0
			}
			limit := 5
			if jb.Mode == "case" {
				limit = 3
			}
			if same >= limit && p > 0 {
				fmt.Fprintln(os.Stderr, "c20-hang: a call into hertz validation did not return within", 2*limit, "s")
				os.Exit(3)
			}
		}
	}()
	var res result
	seen := map[string]bool{}
	add := func(key, msg string, cs Case) {
		seen[key] = true
		res.Viol = append(res.Viol, violation{key, msg, cs})
	}
	// A failure is recorded as a stand-alone case if it reproduces on a fresh validator; otherwise the
	// shortest recent history (other types validated before with the same validator) that reproduces it is attached.
	report := func(key, msg string, cs Case) {
		hkey := "history-dependent:" + key
		if seen[key] || seen[hkey] || len(res.Viol) >= 60 {
			return
		}
		if jb.Mode == "case" || reproduces(cs, key) {
			add(key, msg, cs)
			return
		}
		hist := append(append([]string{}, history...), current...)
		for n := 1; ; n *= 2 {
			if n > len(hist) {
				n = len(hist)
			}
			cs.Prior = hist[len(hist)-n:]
			if reproduces(cs, key) {
				add(hkey, fmt.Sprintf("after %d other expressions were compiled by the same validator: %s", n, msg), cs)
				return
			}
			if n == len(hist) {
				break
			}
		}
		add(hkey, "(did not reproduce from the recorded history of this worker) "+msg, cs)
	}
	if jb.Mode == "case" {
		runCase(*jb.Case, report)
	} else {
		res.Done = runRange(&jb, &res, report)
	}
	b, _ := json.Marshal(res)
	os.Stdout.WriteString("R " + string(b) + "\n")
}

// itemCase builds the printings of one item; ok=false when the item is skipped.
func itemCase(f family, g *grammar, idx int64) (cs Case, ok bool) {
	if f.Text != "" {
		ps := strings.Split(f.texts(g)[idx], "\x00")
		st := make([]string, len(ps))
		for i := range ps {
			st[i] = fmt.Sprintf("%s#%d", f.Text, i)
		}
		return Case{Field: f.Field, Values: kindByName(f.Field).vals, Exprs: ps, Styles: st}, true
	}
	tree, ok := f.item(g, idx)
	if !ok {
		return cs, false
	}
	fk := kindByName(f.Field)
	values := fk.vals
	if !dependsOnField(tree) {
		if f.Field != "int" {
			return cs, false // constant expressions are run once, on the int field
		}
		values = values[:2]
	}
	cs = Case{Field: f.Field, Values: values}
	want := canon(tree)
	for s := stMin; s <= stMixed; s++ {
		e := printExpr(tree, s)
		back, err := RefParse(e)
		if err != nil || canon(back) != want {
			got := "<error>"
			if err == nil {
				got = canon(back)
			}
			panic(fmt.Sprintf("c20: printer/parser self-check failed: tree %s printed (%s) as %q parses as %s (%v)", want, styleName[s], e, got, err))
		}
		cs.Exprs = append(cs.Exprs, e)
		cs.Styles = append(cs.Styles, styleName[s])
	}
	return cs, true
}

func runRange(jb *job, res *result, report func(key, msg string, cs Case)) int64 {
	f := families(jb.Thorough)[jb.Fam]
	g := newGrammar(f.Field, f.Alpha)
	fk := kindByName(f.Field)
	skip := map[int64]bool{}
	for _, s := range jb.Skip {
		skip[s] = true
	}
	vd := newValidator()
	sinceNew := 0
	var marker []byte
	for idx := jb.Lo; idx < jb.Hi; idx++ {
		if idx&255 == 0 && jb.Deadline != 0 && time.Now().UnixNano() > jb.Deadline {
			return idx
		}
		if skip[idx] {
			continue
		}
		cs, ok := itemCase(f, g, idx)
		if !ok {
			res.Stats.Skipped++
			continue
		}
		marker = strconv.AppendInt(append(marker[:0], '@'), idx, 10)
		os.Stdout.Write(append(marker, '\n'))
		if sinceNew += len(cs.Exprs); sinceNew >= 2048 {
			vd, sinceNew = newValidator(), 0
			history = history[:0]
		}
		res.Stats.Trees++
		current = cs.Exprs
		checkTree(vd, fk, cs.Exprs, cs.Styles, cs.Values, &res.Stats, report)
		history = append(history, cs.Exprs...)
		if len(res.Samples) < 1 && idx%997 == 3 && len(cs.Exprs[0]) > 8 {
			res.Samples = append(res.Samples, cs)
		}
	}
	return jb.Hi
}

// spawn runs one job in a worker process. crashed=true: the process died; lastItem is the item it was working on.
func spawn(exe string, jb *job) (res *result, crashed bool, lastItem int64, diag string) {
	b, _ := json.Marshal(jb)
	cmd := exec.Command(exe)
	cmd.Env = append(os.Environ(), envJob+"="+string(b), "GOMAXPROCS=2")
	var stderr bytes.Buffer
	cmd.Stderr = &stderr
	out, err := cmd.Output()
	lastItem = -1
	var rline []byte
	for len(out) > 0 {
		line := out
		if i := bytes.IndexByte(out, '\n'); i >= 0 {
			line, out = out[:i], out[i+1:]
		} else {
			out = nil
		}
		if len(line) > 1 && line[0] == '@' {
			if n, e := strconv.ParseInt(string(line[1:]), 10, 64); e == nil {
				lastItem = n
			}
		} else if len(line) > 2 && line[0] == 'R' {
			rline = line[2:]
		}
	}
	if rline != nil {
		res = &result{}
		if e := json.Unmarshal(rline, res); e == nil {
			return res, false, lastItem, ""
		}
	}
	diag = strings.TrimSpace(stderr.String())
	if len(diag) > 600 {
		diag = diag[:600]
	}
	if err != nil {
		diag = err.Error() + ": " + diag
	}
	return nil, true, lastItem, diag
}

func crashClass(diag string) string {
	lines := strings.Split(diag, "\n")
	for _, l := range lines {
		if strings.Contains(l, "c20-hang") {
			return "hang"
		}
	}
	for _, l := range lines {
		if l = strings.TrimSpace(l); strings.HasPrefix(l, "fatal error:") {
			return classOf(l)
		}
	}
	for _, l := range lines {
		if strings.Contains(l, "c20:") || strings.Contains(l, "c20 worker") {
			return "harness"
		}
	}
	for _, l := range lines {
		if l = strings.TrimSpace(l); strings.HasPrefix(l, "panic:") {
			return classOf(l)
		}
	}
	return "exit"
}

// ---------------------------------------------------------------------------------------
// driver
// ---------------------------------------------------------------------------------------

func run(c *mc.Ctx) {
	limit := 75 * time.Second
	if c.Thorough() {
		limit = 13*time.Minute + 30*time.Second
	}
	if d := c.Start.Add(limit); c.Deadline.After(d) {
		c.Deadline = d
	}
	exe, err := os.Executable()
	if err != nil {
		panic("c20: cannot find own executable: " + err.Error())
	}
	fams := families(c.Thorough())
	chunk := int64(6000)
	type famState struct {
		items, done int64
		jobs, ok    int64
	}
	state := make([]*famState, len(fams))
	var jobs []*job
	for fi, f := range fams {
		g := newGrammar(f.Field, f.Alpha)
		n := f.items(g)
		state[fi] = &famState{items: n}
		per := chunk
		if !dependsOnFieldKind(f.Field) {
			per = chunk * 2
		}
		for lo := int64(0); lo < n; lo += per {
			hi := lo + per
			if hi > n {
				hi = n
			}
			jobs = append(jobs, &job{Mode: "range", Thorough: c.Thorough(), Fam: fi, Lo: lo, Hi: hi, Deadline: c.Deadline.UnixNano()})
			state[fi].jobs++
		}
	}
	var mu sync.Mutex
	total := stats{Outcomes: map[string]int64{}}
	merge := func(r *result) {
		mu.Lock()
		defer mu.Unlock()
		s := r.Stats
		total.Exec += s.Exec
		total.NonTrivial += s.NonTrivial
		total.Undetermined += s.Undetermined
		total.Compiles += s.Compiles
		total.Trees += s.Trees
		total.Skipped += s.Skipped
		total.Bad += s.Bad
		for k, v := range s.Outcomes {
			total.Outcomes[k] += v
		}
	}
	var harness atomic.Value
	var crashes int64 // process-killing items reported so far; the run is abandoned after 24 of them
	c.ParallelFor(len(jobs), func(i int) {
		jb := jobs[i]
		fs := state[jb.Fam]
		if c.Expired() || harness.Load() != nil {
			return
		}
		for attempt := 0; attempt < 4; attempt++ {
			if atomic.LoadInt64(&crashes) >= 24 {
				c.Cap("more than 24 items crashed or hung the worker process; remaining chunks abandoned")
				return
			}
			res, crashed, last, diag := spawn(exe, jb)
			if !crashed {
				merge(res)
				for _, v := range res.Viol {
					c.Violate(v.Key, v.Msg, v.Case)
				}
				for _, s := range res.Samples {
					if c.SampleCount() < 6 {
						c.Sample(s)
					}
				}
				atomic.AddInt64(&fs.done, res.Done-jb.Lo)
				if res.Done == jb.Hi {
					atomic.AddInt64(&fs.ok, 1)
				}
				return
			}
			cls := crashClass(diag)
			if cls == "harness" || last < 0 {
				harness.Store(fmt.Sprintf("worker for %s items [%d,%d) failed: %s", fams[jb.Fam].name(), jb.Lo, jb.Hi, diag))
				return
			}
			// the engine took the whole process down (or hung) on item `last`: report it, then redo the chunk without it
			f := fams[jb.Fam]
			cs, _ := itemCase(f, newGrammar(f.Field, f.Alpha), last)
			cs.Sub = true
			c.Violate("crash:"+cls, fmt.Sprintf("validating field F %s (values %v) with one of the tags %q kills the process / never returns: %s", cs.Field, cs.Values, cs.Exprs, diag), cs)
			jb.Skip = append(jb.Skip, last)
			atomic.AddInt64(&crashes, 1)
		}
		c.Cap(fmt.Sprintf("gave up on %s items [%d,%d) after repeated worker crashes", fams[jb.Fam].name(), jb.Lo, jb.Hi))
	})
	if h := harness.Load(); h != nil {
		panic("c20: " + h.(string))
	}
	c.Add("executions", total.Exec)
	c.Add("nontrivial", total.NonTrivial)
	c.Add("undetermined_evaluations", total.Undetermined)
	c.Add("types_compiled", total.Compiles)
	c.Add("trees", total.Trees)
	c.Add("items_skipped_constant_or_untypable_unary", total.Skipped)
	c.Add("violating_evaluations", total.Bad)
	c.Add("transitions", total.Exec+total.Compiles)
	keys := make([]string, 0, len(total.Outcomes))
	for k := range total.Outcomes {
		keys = append(keys, k)
	}
	sort.Strings(keys)
	oc := map[string]int64{}
	for _, k := range keys {
		c.Distinct("outcomes", k)
		oc[k] = total.Outcomes[k]
	}
	c.Extra("outcome_counts", oc)
	famRep := map[string]string{}
	const maxK4 = 4
	maxK := map[string]int{}
	complete := true
	for fi, f := range fams {
		fs := state[fi]
		status := "complete"
		if fs.ok != fs.jobs {
			status = "INCOMPLETE"
			complete = false
		}
		famRep[f.name()] = fmt.Sprintf("%d/%d items, %s", fs.done, fs.items, status)
	}
	// per field type: the largest k such that every family of that field with <= k operators was completed
	for _, field := range allFields {
		best := -1
		for k := 0; k <= maxK4; k++ {
			okAll, any := true, false
			for fi, f := range fams {
				if f.Field == field && f.K == k {
					any = true
					okAll = okAll && state[fi].ok == state[fi].jobs
				}
			}
			if !okAll {
				break
			}
			if any {
				best = k
			}
		}
		maxK[field] = best
	}
	c.Extra("families", famRep)
	c.Extra("max_binary_operators_completed_per_field", maxK)
	c.Extra("all_families_complete", complete)
	if !complete {
		c.Cap("internal deadline reached before all families were enumerated; see coverage.families")
	}
}

func dependsOnFieldKind(field string) bool {
	return field == "int" || field == "float64" || field == "*int"
}

func replay(c *mc.Ctx, raw json.RawMessage) {
	var cs Case
	if json.Unmarshal(raw, &cs) != nil {
		return
	}
	fk := kindByName(cs.Field)
	if fk == nil || len(cs.Exprs) == 0 {
		return
	}
	if cs.Sub {
		exe, err := os.Executable()
		if err != nil {
			return
		}
		cc := cs
		_, crashed, _, diag := spawn(exe, &job{Mode: "case", Case: &cc})
		if crashed {
			c.Violate("crash:"+crashClass(diag), fmt.Sprintf("validating field F %s (values %v) with one of the tags %q kills the process / never returns: %s", cs.Field, cs.Values, cs.Exprs, diag), cs)
		}
		return
	}
	runCase(cs, func(key, msg string, v Case) {
		if len(cs.Prior) > 0 {
			key = "history-dependent:" + key
		}
		c.Violate(key, msg, v)
	})
}
