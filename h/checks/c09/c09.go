// Package c09: a recycled context, request or response is indistinguishable from a fresh one.
// The mutator alphabet is every exported method (and exported field) of RequestContext, Request,
// Response, both headers, URI, Args and both trailers, found by reflection and called with
// hostile arguments during request i; then a fixed probe request i+1 dumps, again by reflection,
// everything observable. The dump must equal the dump of the same probe on a fresh engine and
// connection (differential oracle). Histories: every single mutator under several outcomes and
// every ordered pair over a reduced alphabet; placements: same keep-alive connection, and a new
// connection that receives the recycled context from the pool; plus Acquire/Release round trips.
package c09

import (
	"context"
	"encoding/json"
	"fmt"
	"github.com/cloudwego/hertz/pkg/app/server/render"
	"github.com/cloudwego/hertz/pkg/common/config"
	"github.com/cloudwego/hertz/pkg/common/tracer/stats"
	"github.com/cloudwego/hertz/pkg/common/tracer/traceinfo"
	"io"
	"reflect"
	"sort"
	"strings"
	"sync/atomic"
	"time"

	"github.com/cloudwego/hertz/pkg/app"
	"github.com/cloudwego/hertz/pkg/app/middlewares/server/recovery"
	"github.com/cloudwego/hertz/pkg/protocol"
	"github.com/cloudwego/hertz/pkg/protocol/http1/resp"

	"verifh/mc"
	"verifh/netsim"
	"verifh/srvh"
)

var Check = &mc.Check{
	ID:    "C09",
	Level: "model_checking",
	Rule: "mutators = every exported method and exported field of RequestContext/Request/Response/RequestHeader/ResponseHeader/URI/Args(query,post)/Trailer(req,resp) enumerated by reflection (connection-scoped setters and the reset functions themselves excluded by a written list), called with hostile arguments; " +
		"histories = every single mutator x outcome {return, Abort, panic caught by recovery, hijacked chunked writer} x engine {buffered, streaming with the body left unread} and every ordered pair over a reduced alphabet, then a fixed probe request; placements = same keep-alive connection / new connection with the pooled context (pointer identity asserted); plus Acquire->mutate->Release->Acquire for Request, Response, URI, Cookie, Args; " +
		"client part = acquired Request/Response through one client exchange (buffered / stream mode x 6 response shapes x 3 request shapes) x every program of <=2 (thorough 3) application actions on the response x Release before / during the probe, probe = two exchanges alive at once + a third, compared with never-pooled objects; 10 placements of an unrelated thread around GetURL(dst); one process per case; " +
		"non-trivial = histories after which the dirty request's own state differed from a fresh one (i.e. the mutator had an effect that a reset must undo)",
	Run:    run,
	Replay: replay,
	Assumptions: []string{
		"connection-scoped state (conn, TLS flag, trace-info object, binder/validator, client-IP / form-value functions, hijack handler) is excluded from mutators and from the dump, as the property exempts it",
		"histories in which the dirty request ends the connection (so that no probe is served on it) are counted separately, not as passes",
	},
}

type Case struct {
	Ops       []string `json:"ops"` // "Target.Method" or "Target#Field"
	Outcome   string   `json:"outcome"`
	Streaming bool     `json:"streaming"`
	Placement string   `json:"placement"` // keepalive | pool | acquire | client
	Client    *XCase   `json:"client,omitempty"`
}

// targets reachable from a RequestContext
var targetNames = []string{"RequestContext", "Request", "Response", "RequestHeader", "ResponseHeader", "URI", "QueryArgs", "PostArgs", "RequestTrailer", "ResponseTrailer"}

func target(ctx *app.RequestContext, name string) interface{} {
	switch name {
	case "RequestContext":
		return ctx
	case "Request":
		return &ctx.Request
	case "Response":
		return &ctx.Response
	case "RequestHeader":
		return &ctx.Request.Header
	case "ResponseHeader":
		return &ctx.Response.Header
	case "URI":
		return ctx.Request.URI()
	case "QueryArgs":
		return ctx.QueryArgs()
	case "PostArgs":
		return ctx.PostArgs()
	case "RequestTrailer":
		return ctx.Request.Header.Trailer()
	case "ResponseTrailer":
		return ctx.Response.Header.Trailer()
	}
	return nil
}

// Mutators that are NOT part of the alphabet, with the reason.
var excluded = map[string]string{
	"RequestContext.Reset":            "the reset function itself (internal)",
	"RequestContext.ResetWithoutConn": "the reset function itself (internal)",
	"RequestContext.SetConn":          "connection-scoped",
	"RequestContext.SetEnableTrace":   "connection-scoped",
	"RequestContext.Next":             "re-enters the handler chain (the harness handler would recurse)",
	"RequestContext.SetHandlers":      "replaces the chain that is executing (covered by C12)",
	"RequestContext.SetIndex":         "internal cursor of the running chain (covered by C12)",
	"RequestContext.File":             "file serving (C08)",
	"RequestContext.FileFromFS":       "file serving (C08)",
	"RequestContext.FileAttachment":   "file serving (C08)",
	"RequestContext.SaveUploadedFile": "writes to the file system",
	"RequestContext.HTML":             "needs a configured renderer",
	"RequestContext.Render":           "needs a renderer value",
	"Request.SetFile":                 "client-side API reading the file system",
	"Request.SetFiles":                "client-side API reading the file system",
	"Request.SetOptions":              "client-side request options",
	"Response.Hijack":                 "client-side API (upgraded connections)",
}

// Getters / fields that are NOT part of the probe dump.
var dumpDeny = map[string]bool{
	"*.Copy": true, "*.CopyTo": true, "*.String": true,
	"RequestContext.Next": true, "RequestContext.GetConn": true, "RequestContext.GetReader": true, "RequestContext.GetWriter": true,
	"RequestContext.GetTraceInfo": true, "RequestContext.Finished": true, "RequestContext.RemoteAddr": true, "RequestContext.GetHijackHandler": true,
	"RequestContext.Bind": true, "RequestContext.Validate": true, "RequestContext.BindAndValidate": true, "RequestContext.BindQuery": true, "RequestContext.BindHeader": true,
	"RequestContext.BindPath": true, "RequestContext.BindForm": true, "RequestContext.BindJSON": true, "RequestContext.BindProtobuf": true, "RequestContext.BindByContentType": true,
	"RequestContext.SaveUploadedFile": true, "RequestContext.Write": true, "RequestContext.WriteString": true, "RequestContext.Flush": true,
	"RequestContext.Hijacked": false, "RequestContext.Error": true, "RequestContext.AbortWithError": true, "RequestContext.GetRawData": false,
	"RequestContext.Body": false, "RequestContext.RequestBodyStream": true, "RequestContext.Value": true, "RequestContext.ForEachKey": true,
	"RequestContext.GetTime": true, "RequestContext.GetDuration": true, "RequestContext.IsEnableTrace": true, "RequestContext.MultipartForm": true, "RequestContext.FormFile": true,
	"RequestContext#HTMLRender": true,
	"Request.BodyWriter":        true, "Request.BodyStream": true, "Request.BodyWriteTo": true, "Request.CloseBodyStream": true, "Request.Options": true, "Request.URI": true,
	"Request.BodyBuffer": true, "Request.ConstructBodyStream": true, "Request.AppendBody": true, "Request.AppendBodyString": true, "Request.IsURIParsed": false,
	"Request.RemoveMultipartFormFiles": true, "Request.MultipartForm": true, "Request.FormFile": true, "Request.BodyE": false, "Request.SwapBody": true,
	"Response.BodyWriter": true, "Response.BodyStream": true, "Response.BodyWriteTo": true, "Response.CloseBodyStream": true, "Response.BodyBuffer": true,
	"Response.ConstructBodyStream": true, "Response.RemoteAddr": true, "Response.LocalAddr": true, "Response.Hijack": true, "Response.GetHijackWriter": false,
	"Response.AppendBody": true, "Response.AppendBodyString": true, "Response.BodyGunzip": true, "Response.SwapBody": true,
	"RequestHeader.GetBufValue": true, // exported accessor of an internal scratch buffer, not request state
	"RequestHeader.Trailer":     true, "ResponseHeader.Trailer": true, "RequestHeader.AppendBytes": true, "ResponseHeader.AppendBytes": true,
	"RequestHeader.VisitAll": true, "ResponseHeader.VisitAll": true,
	"URI.QueryArgs": true, "URI.AppendBytes": true, "URI.WriteTo": true,
	"QueryArgs.AppendBytes": true, "QueryArgs.WriteTo": true, "PostArgs.AppendBytes": true, "PostArgs.WriteTo": true,
	"RequestTrailer.AppendBytes": true, "ResponseTrailer.AppendBytes": true, "RequestTrailer.GetTrailers": true, "ResponseTrailer.GetTrailers": true,
}

func isMutatorName(n string) bool {
	// everything except obvious pure getters; calling a getter as a "mutator" is harmless, it only adds histories
	return true
}

// alphabet lists all "Target.Method" operations that can be called with generated arguments.
func alphabet() (ops []string, skipped []string) {
	var ctx app.RequestContext
	ctx.Request.SetRequestURI("http://h/x")
	for _, tn := range targetNames {
		obj := target(&ctx, tn)
		t := reflect.TypeOf(obj)
		for i := 0; i < t.NumMethod(); i++ {
			name := tn + "." + t.Method(i).Name
			if _, ex := excluded[name]; ex {
				continue
			}
			mt := t.Method(i).Type
			ok := true
			for j := 1; j < mt.NumIn(); j++ {
				pt := mt.In(j)
				if mt.IsVariadic() && j == mt.NumIn()-1 {
					pt = pt.Elem()
				}
				if _, o := hostile(pt, 0); !o {
					ok = false
				}
			}
			if ok {
				ops = append(ops, name)
				for j := 1; j < mt.NumIn(); j++ {
					if mt.In(j).Kind() == reflect.Func && mt.In(j).NumOut() == 0 {
						ops = append(ops, name+"!panic") // the same call with a callback that panics
						break
					}
				}
			} else {
				skipped = append(skipped, name)
			}
		}
		// exported fields
		et := t.Elem()
		if et.Kind() == reflect.Struct {
			for i := 0; i < et.NumField(); i++ {
				f := et.Field(i)
				if f.PkgPath != "" || f.Anonymous || (f.Type.Kind() == reflect.Struct && f.Type.PkgPath() != "") {
					continue
				}
				if _, o := hostile(f.Type, 1); o {
					ops = append(ops, tn+"#"+f.Name)
				} else {
					skipped = append(skipped, tn+"#"+f.Name)
				}
			}
		}
	}
	for k := range customOps {
		ops = append(ops, k)
	}
	sort.Strings(ops)
	return
}

// markerRender is an HTML renderer a handler installs for its own response.
type markerRender struct{}

func (markerRender) Instance(string, interface{}) render.Render {
	return render.String{Format: "marker"}
}
func (markerRender) Close() error { return nil }

type nopTracer struct{}

func (nopTracer) Start(ctx context.Context, c *app.RequestContext) context.Context { return ctx }
func (nopTracer) Finish(ctx context.Context, c *app.RequestContext)                {}

// custom operations: arguments the generic generator cannot build (interface-typed)
var customOps = map[string]func(ctx *app.RequestContext){
	"RequestContext#HTMLRender=marker": func(ctx *app.RequestContext) { ctx.HTMLRender = markerRender{} },
	"RequestContext.SetTraceInfo(own)": func(ctx *app.RequestContext) {
		ti := traceinfo.NewTraceInfo()
		ti.Stats().SetSendSize(77)
		ctx.SetTraceInfo(ti)
	},
	"RequestContext.GetTraceInfo().Stats().SetLevel(disabled)": func(ctx *app.RequestContext) {
		if ti := ctx.GetTraceInfo(); ti != nil {
			ti.Stats().SetLevel(stats.LevelDisabled)
		}
	},
}

func applyOp(ctx *app.RequestContext, op string) (panicked interface{}) {
	if f := customOps[op]; f != nil {
		defer func() { panicked = recover() }()
		f(ctx)
		return nil
	}
	if i := strings.IndexByte(op, '#'); i >= 0 {
		obj := target(ctx, op[:i])
		f := reflect.ValueOf(obj).Elem().FieldByName(op[i+1:])
		if f.IsValid() && f.CanSet() {
			if v, ok := hostile(f.Type(), 1); ok {
				f.Set(v)
			}
		}
		return nil
	}
	i := strings.IndexByte(op, '.')
	obj := target(ctx, op[:i])
	_, p := callMethod(obj, op[i+1:])
	return p
}

func dump(ctx *app.RequestContext) []string {
	var out []string
	for _, tn := range targetNames {
		out = append(out, dumpObject(tn, target(ctx, tn), dumpDeny)...)
	}
	// explicit extras that need arguments or iteration
	ctx.Request.Header.VisitAll(func(k, v []byte) { out = append(out, fmt.Sprintf("reqh.VisitAll %q=%q", k, v)) })
	ctx.Response.Header.VisitAll(func(k, v []byte) { out = append(out, fmt.Sprintf("resph.VisitAll %q=%q", k, v)) })
	ctx.Request.Header.VisitAllCookie(func(k, v []byte) { out = append(out, fmt.Sprintf("reqh.Cookie %q=%q", k, v)) })
	ctx.Response.Header.VisitAllCookie(func(k, v []byte) { out = append(out, fmt.Sprintf("resph.Cookie %q=%q", k, v)) })
	ctx.QueryArgs().VisitAll(func(k, v []byte) { out = append(out, fmt.Sprintf("query %q=%q", k, v)) })
	ctx.PostArgs().VisitAll(func(k, v []byte) { out = append(out, fmt.Sprintf("post %q=%q", k, v)) })
	ctx.Request.Header.Trailer().VisitAll(func(k, v []byte) { out = append(out, fmt.Sprintf("reqtr %q=%q", k, v)) })
	ctx.Response.Header.Trailer().VisitAll(func(k, v []byte) { out = append(out, fmt.Sprintf("resptr %q=%q", k, v)) })
	out = append(out, fmt.Sprintf("ctx.Keys=%d Params=%d Errors=%d", len(ctx.Keys), len(ctx.Params), len(ctx.Errors)))
	out = append(out, fmt.Sprintf("ctx.FormValue(a)=%q FormValue(x)=%q", ctx.FormValue("a"), ctx.FormValue("x")))
	out = append(out, fmt.Sprintf("ctx.HTMLRender type=%T", ctx.HTMLRender))
	out = append(out, fmt.Sprintf("ctx.GetTraceInfo()==nil: %v", ctx.GetTraceInfo() == nil))
	if ti := ctx.GetTraceInfo(); ti != nil {
		out = append(out, fmt.Sprintf("trace level=%d", ti.Stats().Level()))
	}
	out = append(out, fmt.Sprintf("header-bytes req=%q", ctx.Request.Header.Header()))
	out = append(out, fmt.Sprintf("header-bytes resp=%q", noDate(string(ctx.Response.Header.Header()))))
	return out
}

// (every list of the dirty request starts with an entry named X-Dirty, the name the generated Del / Set operations use: deleting
// it removes an entry that is not the last of its list)
const dirtyReq = "POST /dirty/7?X-Dirty=0&q=9&x=dq HTTP/1.1\r\nHost: d\r\nX-Dirty: hv\r\nCookie: X-Dirty=1; c=1; dk=2\r\nX-D: 1\r\nUser-Agent: dirty-ua\r\nContent-Type: application/x-www-form-urlencoded\r\nContent-Length: 17\r\n\r\nX-Dirty=1&a=b&x=y"
const dirtyReqClose = "POST /dirty/7?X-Dirty=0&q=9&x=dq HTTP/1.1\r\nHost: d\r\nX-Dirty: hv\r\nCookie: X-Dirty=1; c=1; dk=2\r\nX-D: 1\r\nConnection: close\r\nContent-Type: application/x-www-form-urlencoded\r\nContent-Length: 17\r\n\r\nX-Dirty=1&a=b&x=y"

// the probe deliberately has fewer and shorter fields than the dirty request and key-only last tokens, so that stale
// slots of recycled argument / cookie / header storage become visible
// (the probe fills every list to the length it had in the dirty request; the last entries stay short and key-only)
const probeReq = "POST /probe/p?x=1&m=2&flag HTTP/1.1\r\nHost: h\r\nX-P: 1\r\nX-Q: 22\r\nCookie: pc=1; pm=2; pflag\r\nContent-Type: application/x-www-form-urlencoded\r\nContent-Length: 11\r\n\r\na=1&m=2&pfl"

type worker struct {
	servers   map[bool]*srvh.Server
	cs        *Case
	probe     []string
	probed    bool
	refused   []string
	probeHung bool
	dirtyP    *app.RequestContext
	probeP    *app.RequestContext
	effect    bool
}

func (w *worker) server(streaming bool) *srvh.Server {
	// A fresh engine (and with it a fresh pool of request contexts) for every case: what the probe observes then depends
	// on the case's own history only, and a replay reproduces it. (With one engine per worker a context dirtied by an
	// earlier case could fail a later one - a verdict no replay reproduced.)
	// a tracer is registered so that the pooled contexts carry a trace info (engine configuration: level detailed)
	s := srvh.New(srvh.Opts{Streaming: streaming, Mods: []func(o *config.Options){func(o *config.Options) {
		o.Tracers = append(o.Tracers, nopTracer{})
		o.TraceLevel = stats.LevelDetailed
	}}})
	s.E.Use(recovery.Recovery())
	// engine-level middleware also runs for requests the engine itself refuses (no Host header: 400 before routing); what
	// it sees through the context's installable functions is recorded for the "refused" placement
	s.E.Use(func(c context.Context, ctx *app.RequestContext) {
		if len(ctx.Request.Header.Host()) == 0 {
			w.refused = []string{"mw.ClientIP=" + ctx.ClientIP(), fmt.Sprintf("mw.FormValue(a)=%q", ctx.FormValue("a")), fmt.Sprintf("mw.HTMLRender=%T", ctx.HTMLRender)}
		}
	})
	s.E.POST("/dirty/:id", func(c context.Context, ctx *app.RequestContext) {
		w.dirtyP = ctx
		cs := w.cs
		if cs == nil {
			return
		}
		if cs.Outcome == "hijackwriter" {
			ctx.Response.HijackWriter(resp.NewChunkedBodyWriter(&ctx.Response, ctx.GetWriter()))
		}
		for _, op := range cs.Ops {
			applyOp(ctx, op)
		}
		switch cs.Outcome {
		case "writefail":
			s.Conn.WriteFailAt = len(s.Conn.Out) + 1
		case "abort":
			ctx.Abort()
		case "panic":
			panic("dirty handler panics")
		case "hijackwriter":
			ctx.Write([]byte("x")) //nolint:errcheck
		}
	})
	s.E.POST("/probe/*rest", func(c context.Context, ctx *app.RequestContext) {
		w.probeP = ctx
		w.probe = dump(ctx)
		w.probed = true
		// a write access: it blocks for ever if a lock of the recycled context is still held (readers do not notice)
		done := make(chan struct{})
		go func() { ctx.Set("verif-probe", 1); close(done) }()
		select {
		case <-done:
		case <-time.After(10 * time.Second):
			w.probeHung = true
		}
	})
	s.Start()
	return s
}

func newWorker() *worker { return &worker{servers: map[bool]*srvh.Server{}} }

// reference dumps: probe on a fresh engine and connection
func reference(streaming bool) []string {
	w := newWorker()
	s := w.server(streaming)
	s.Run([][]byte{[]byte(probeReq)}, netsim.EndEOF, nil)
	return w.probe
}

func diff(a, b []string) []string {
	var out []string
	n := len(a)
	if len(b) > n {
		n = len(b)
	}
	for i := 0; i < n; i++ {
		var x, y string
		if i < len(a) {
			x = a[i]
		}
		if i < len(b) {
			y = b[i]
		}
		if x != y {
			out = append(out, fmt.Sprintf("fresh: %s | recycled: %s", x, y))
		}
	}
	return out
}

var refs = map[bool][]string{}

// baseline[placement+streaming] = fields that differ from the fresh dump after a dirty request with an empty handler
var baseline = map[string]map[string]bool{}

func computeBaseline() {
	for _, pl := range []string{"keepalive", "pool"} {
		for _, st := range []bool{false, true} {
			m := map[string]bool{}
			for try := 0; try < 20; try++ {
				w := newWorker()
				s := w.server(st)
				cs := Case{Outcome: "return", Streaming: st, Placement: pl}
				w.cs = &cs
				if pl == "keepalive" {
					s.Run([][]byte{[]byte(dirtyReq + probeReq)}, netsim.EndEOF, nil)
				} else {
					s.Run([][]byte{[]byte(dirtyReqClose)}, netsim.EndEOF, nil)
					s.Run([][]byte{[]byte(probeReq)}, netsim.EndEOF, nil)
					if w.dirtyP != w.probeP {
						continue
					}
				}
				for _, l := range diff(refs[st], w.probe) {
					m[fieldOf(l)] = true
				}
				break
			}
			baseline[pl+fmt.Sprint(st)] = m
		}
	}
}

func fieldOf(line string) string {
	// "fresh: X.Y(k)=... | recycled: ..." -> "X.Y"
	s := strings.TrimPrefix(line, "fresh: ")
	if i := strings.IndexAny(s, "(=# "); i > 0 {
		if s[i] == '#' {
			if j := strings.IndexByte(s, '='); j > 0 {
				return s[:j]
			}
		}
		return s[:i]
	}
	return s
}

func (w *worker) exec(c *mc.Ctx, cs Case) (status string) {
	if cs.Placement == "acquire" {
		return execAcquire(c, cs)
	}
	s := w.server(cs.Streaming)
	w.cs, w.probe, w.probed, w.dirtyP, w.probeP, w.probeHung = &cs, nil, false, nil, nil, false
	if cs.Placement == "refused" {
		if refusedRef == nil {
			refusedRef = refusedReference()
		}
		w.refused = nil
		s.Run([][]byte{[]byte(dirtyReq + refusedProbe)}, netsim.EndEOF, nil)
		w.cs = nil
		if w.refused == nil {
			return "probe-not-reached"
		}
		if d := diff(refusedRef, w.refused); len(d) > 0 {
			c.Violate(fmt.Sprintf("refused|%s|field=%s", strings.Join(cs.Ops, "+"), fieldOf(d[0])), fmt.Sprintf("after history %v the engine-level middleware of a request that the engine refuses (no Host header) on the same keep-alive connection observes state that a fresh context does not show:\n  %s", cs.Ops, strings.Join(d, "\n  ")), cs)
			return "differs"
		}
		return "same"
	}
	switch cs.Placement {
	case "keepalive":
		s.Run([][]byte{[]byte(dirtyReq + probeReq)}, netsim.EndEOF, nil)
	case "pool":
		s.Run([][]byte{[]byte(dirtyReqClose)}, netsim.EndEOF, nil)
		s.Run([][]byte{[]byte(probeReq)}, netsim.EndEOF, nil)
	}
	w.cs = nil
	if w.probeHung {
		c.Violate(fmt.Sprintf("%s|%s|probe-hangs", cs.Placement, strings.Join(cs.Ops, "+")), fmt.Sprintf("after history %v (outcome %s, streaming=%v, placement %s) ctx.Set in the probe request's handler did not return within 10 s: a lock of the recycled context is still held", cs.Ops, cs.Outcome, cs.Streaming, cs.Placement), cs)
		return "differs"
	}
	if !w.probed {
		return "probe-not-reached"
	}
	if cs.Placement == "pool" && w.dirtyP != w.probeP {
		return "pool-miss"
	}
	d := diff(refs[cs.Streaming], w.probe)
	if len(d) > 0 {
		// a field that differs even after a dirty request whose handler did nothing is keyed without the operation
		var always, byOp []string
		for _, l := range d {
			if baseline[cs.Placement+fmt.Sprint(cs.Streaming)][fieldOf(l)] {
				always = append(always, l)
			} else {
				byOp = append(byOp, l)
			}
		}
		var key string
		if len(byOp) == 0 {
			key = fmt.Sprintf("%s|any-history|field=%s", cs.Placement, fieldOf(always[0]))
		} else {
			d = append(byOp, always...)
			key = fmt.Sprintf("%s|%s|field=%s", cs.Placement, strings.Join(cs.Ops, "+"), fieldOf(byOp[0]))
			if len(cs.Ops) > 1 {
				key = fmt.Sprintf("%s|pair|field=%s", cs.Placement, fieldOf(byOp[0]))
			}
		}
		if len(d) > 6 {
			d = append(d[:6], fmt.Sprintf("... %d more differences", len(d)-6))
		}
		c.Violate(key, fmt.Sprintf("after history %v (outcome %s, streaming=%v, placement %s) the probe request observes state that a fresh context does not show:\n  %s", cs.Ops, cs.Outcome, cs.Streaming, cs.Placement, strings.Join(d, "\n  ")), cs)
		return "differs"
	}
	return "same"
}

// ---- Acquire / Release round trips ------------------------------------------------------------

type pooled struct {
	name    string
	acquire func() interface{}
	release func(interface{})
	fresh   func() interface{}
}

var pooledTypes = []pooled{
	{"Request", func() interface{} { return protocol.AcquireRequest() }, func(o interface{}) { protocol.ReleaseRequest(o.(*protocol.Request)) }, func() interface{} { return &protocol.Request{} }},
	{"Response", func() interface{} { return protocol.AcquireResponse() }, func(o interface{}) { protocol.ReleaseResponse(o.(*protocol.Response)) }, func() interface{} { return &protocol.Response{} }},
	{"URI", func() interface{} { return protocol.AcquireURI() }, func(o interface{}) { protocol.ReleaseURI(o.(*protocol.URI)) }, func() interface{} { return &protocol.URI{} }},
	{"Cookie", func() interface{} { return protocol.AcquireCookie() }, func(o interface{}) { protocol.ReleaseCookie(o.(*protocol.Cookie)) }, func() interface{} { return &protocol.Cookie{} }},
}

var acquireDeny = map[string]bool{
	"*.GetBufValue": true, "*.Copy": true, "*.CopyTo": true, "*.String": true, "*.AppendBytes": true, "*.WriteTo": true, "*.BodyWriter": true, "*.BodyStream": true, "*.BodyWriteTo": true,
	"*.CloseBodyStream": true, "*.Options": true, "*.BodyBuffer": true, "*.ConstructBodyStream": true, "*.AppendBody": true, "*.AppendBodyString": true,
	"*.RemoveMultipartFormFiles": true, "*.MultipartForm": true, "*.FormFile": true, "*.SwapBody": true, "*.RemoteAddr": true, "*.LocalAddr": true, "*.Hijack": true,
	"*.BodyGunzip": true, "*.URI": true, "*.QueryArgs": true, "*.Expire": true, "*.GetTrailers": true,
}

var acquireExcluded = map[string]bool{"Reset": true, "ResetSkipHeader": true, "ResetWithoutConn": true, "ResetBody": true, "SetFile": true, "SetFiles": true, "SetOptions": true, "Hijack": true, "CopyTo": true}

func subObjects(name string, o interface{}) map[string]interface{} {
	m := map[string]interface{}{name: o}
	switch x := o.(type) {
	case *protocol.Request:
		m["Request.Header"] = &x.Header
		m["Request.URI"] = x.URI()
		m["Request.PostArgs"] = x.PostArgs()
		m["Request.Header.Trailer"] = x.Header.Trailer()
	case *protocol.Response:
		m["Response.Header"] = &x.Header
		m["Response.Header.Trailer"] = x.Header.Trailer()
	case *protocol.URI:
		m["URI.QueryArgs"] = x.QueryArgs()
	}
	return m
}

func dumpPooled(name string, o interface{}) []string {
	var out []string
	subs := subObjects(name, o)
	var names []string
	for n := range subs {
		names = append(names, n)
	}
	sort.Strings(names)
	for _, n := range names {
		out = append(out, dumpObject(n, subs[n], acquireDeny)...)
	}
	return out
}

func acquireOps() []string {
	var ops []string
	for _, p := range pooledTypes {
		o := p.fresh()
		for sn, so := range subObjects(p.name, o) {
			t := reflect.TypeOf(so)
			for i := 0; i < t.NumMethod(); i++ {
				mn := t.Method(i).Name
				if acquireExcluded[mn] {
					continue
				}
				mt := t.Method(i).Type
				ok := true
				for j := 1; j < mt.NumIn(); j++ {
					pt := mt.In(j)
					if mt.IsVariadic() && j == mt.NumIn()-1 {
						pt = pt.Elem()
					}
					if _, o := hostile(pt, 0); !o {
						ok = false
					}
				}
				if ok {
					ops = append(ops, p.name+"|"+sn+"|"+mn)
				}
			}
		}
	}
	sort.Strings(ops)
	return ops
}

func execAcquire(c *mc.Ctx, cs Case) string {
	parts := strings.Split(cs.Ops[0], "|")
	var p *pooled
	for i := range pooledTypes {
		if pooledTypes[i].name == parts[0] {
			p = &pooledTypes[i]
		}
	}
	if p == nil {
		return "?"
	}
	o := p.acquire()
	for _, op := range cs.Ops {
		ps := strings.Split(op, "|")
		if sub := subObjects(p.name, o)[ps[1]]; sub != nil {
			callMethod(sub, ps[2])
		}
	}
	p.release(o)
	o2 := p.acquire()
	if o2 != o {
		p.release(o2)
		return "pool-miss"
	}
	got := dumpPooled(p.name, o2)
	p.release(o2)
	want := dumpPooled(p.name, p.fresh())
	if d := diff(want, got); len(d) > 0 {
		key := fmt.Sprintf("acquire|%s|field=%s", strings.Join(cs.Ops, "+"), fieldOf(d[0]))
		if len(d) > 6 {
			d = d[:6]
		}
		c.Violate(key, fmt.Sprintf("Acquire -> %v -> Release -> Acquire returns an object that differs from a new one:\n  %s", cs.Ops, strings.Join(d, "\n  ")), cs)
		return "differs"
	}
	return "same"
}

// ---- enumeration ------------------------------------------------------------------------------

func reducedOps(all []string) []string {
	want := []string{
		"RequestContext.SetStatusCode", "RequestContext.Header", "RequestContext.SetCookie", "RequestContext.Set", "RequestContext.Abort", "RequestContext.AbortWithStatus",
		"RequestContext.Error", "RequestContext.SetBodyString", "RequestContext.SetBodyStream", "RequestContext.Redirect", "RequestContext.SetContentType", "RequestContext.SetConnectionClose",
		"RequestContext.PostArgs", "RequestContext.MultipartForm", "RequestContext.SetFullPath", "RequestContext.Exile", "RequestContext.Body", "RequestContext.FormValue", "RequestContext.ForEachKey!panic", "RequestContext.SetClientIPFunc", "RequestContext.SetFormValueFunc", "RequestContext#HTMLRender=marker", "RequestContext.SetTraceInfo(own)", "Request.SetIsTLS",
		"Request.SetBody", "Request.SetBodyStream", "Request.SetRequestURI", "Request.SetHost", "Request.SetMethod", "Request.SetCookie", "Request.SetQueryString", "Request.SetMultipartFormData",
		"Request.SetFormData", "Request.ResetBody", "Request.SetHeader", "Request.SetConnectionClose", "Request.SetMaxKeepBodySize",
		"Response.SetBody", "Response.SetBodyStream", "Response.SetStatusCode", "Response.SetConnectionClose", "Response.HijackWriter", "Response.SetMaxKeepBodySize", "Response.SetBodyRaw",
		"RequestHeader.Set", "RequestHeader.Add", "RequestHeader.SetContentLength", "RequestHeader.DisableNormalizing", "RequestHeader.SetNoDefaultContentType", "RequestHeader.SetProtocol", "RequestHeader.DelCookie",
		"ResponseHeader.Set", "ResponseHeader.Add", "ResponseHeader.SetContentLength", "ResponseHeader.DisableNormalizing", "ResponseHeader.SetNoDefaultContentType", "ResponseHeader.SetNoDefaultDate",
		"ResponseHeader.SetCookie", "ResponseHeader.SetNoHTTP11", "ResponseHeader.SetHeaderLength", "ResponseHeader.SetContentEncoding",
		"URI.SetPath", "URI.SetQueryString", "URI.SetHash", "URI.SetHost", "URI.Update", "QueryArgs.Set", "PostArgs.Set", "RequestTrailer.Set", "ResponseTrailer.Set",
		"RequestContext#Keys", "RequestContext#Params", "RequestContext#Errors", "Response#SkipBody", "Response#ImmediateHeaderFlush", "URI#DisablePathNormalizing",
	}
	have := map[string]bool{}
	for _, o := range all {
		have[o] = true
	}
	var out []string
	for _, o := range want {
		if have[o] {
			out = append(out, o)
		}
	}
	return out
}

func run(c *mc.Ctx) {
	ops, skipped := alphabet()
	c.Extra("mutators", len(ops))
	c.Extra("mutators_skipped_unsupported_argument_type", skipped)
	var exl []string
	for k, v := range excluded {
		exl = append(exl, k+": "+v)
	}
	sort.Strings(exl)
	c.Extra("mutators_excluded", exl)
	for _, st := range []bool{false, true} {
		refs[st] = reference(st)
	}
	computeBaseline()
	c.Extra("probe_dump_lines", len(refs[false]))
	var cases []Case
	for _, op := range ops {
		for _, pl := range []string{"keepalive", "pool"} {
			for _, oc := range []string{"return", "abort", "panic", "hijackwriter", "writefail"} {
				for _, st := range []bool{false, true} {
					if st && oc != "return" && oc != "panic" {
						continue
					}
					if oc == "writefail" && pl != "pool" {
						continue // the failed write ends the connection: only another connection can receive the context
					}
					cases = append(cases, Case{Ops: []string{op}, Outcome: oc, Streaming: st, Placement: pl})
				}
			}
		}
	}
	for _, op := range ops {
		cases = append(cases, Case{Ops: []string{op}, Outcome: "return", Placement: "refused"})
	}
	red := reducedOps(ops)
	if c.Thorough() {
		// every third operation of the full alphabet joins the pair alphabet
		have := map[string]bool{}
		for _, o := range red {
			have[o] = true
		}
		for i, o := range ops {
			if i%3 == 0 && !have[o] {
				red = append(red, o)
			}
		}
	}
	c.Extra("reduced_alphabet", len(red))
	for _, a := range red {
		for _, b := range red {
			if a == b {
				continue
			}
			for _, pl := range []string{"keepalive", "pool"} {
				cases = append(cases, Case{Ops: []string{a, b}, Outcome: "return", Placement: pl})
			}
		}
	}
	aops := acquireOps()
	c.Extra("acquire_mutators", len(aops))
	for _, a := range aops {
		cases = append(cases, Case{Ops: []string{a}, Placement: "acquire"})
	}
	if c.Thorough() {
		// pairs of acquire mutators on the same pooled type
		for _, a := range aops {
			for _, b := range aops {
				if a != b && strings.Split(a, "|")[0] == strings.Split(b, "|")[0] {
					cases = append(cases, Case{Ops: []string{a, b}, Placement: "acquire"})
				}
			}
		}
	}
	c.Sample(Case{Ops: []string{"RequestContext.SetCookie"}, Outcome: "panic", Placement: "keepalive"})
	c.Sample(Case{Ops: []string{"Request.SetBodyStream", "Response.HijackWriter"}, Outcome: "return", Placement: "pool"})
	ex := c.Counter("executions")
	tr := c.Counter("transitions")
	// the schedule-independent part runs on one goroutine per worker; pooled placement needs Put/Get on the same P,
	// which sync.Pool gives as long as the goroutine is not migrated: misses are counted, never passed
	pool := make(chan *worker, 64)
	c.ParallelFor(len(cases), func(i int) {
		var w *worker
		select {
		case w = <-pool:
		default:
			w = newWorker()
		}
		st := w.exec(c, cases[i])
		atomic.AddInt64(ex, 1)
		atomic.AddInt64(tr, int64(len(cases[i].Ops)+1))
		c.Add("status_"+st, 1)
		pool <- w
	})
	runClientPart(c)
	c.Add("nontrivial", c.Get("status_same")+c.Get("status_differs")+c.Get("client_status_same")+c.Get("client_status_differs"))
	_ = io.Discard
}

func replay(c *mc.Ctx, raw json.RawMessage) {
	var cs Case
	if json.Unmarshal(raw, &cs) != nil {
		return
	}
	if cs.Placement == "client" && cs.Client != nil {
		replayClient(c, *cs.Client)
		return
	}
	if len(refs[false]) == 0 {
		for _, st := range []bool{false, true} {
			refs[st] = reference(st)
		}
		computeBaseline()
	}
	// a pool miss makes the pooled placement vacuous: retry a few times
	for i := 0; i < 20; i++ {
		if st := newWorker().exec(c, cs); st != "pool-miss" {
			return
		}
	}
}

// Exported for the schedule part (sched/c09s), which serves the same dirty / probe requests on several
// connections of one engine under the controlled scheduler.
const DirtyReq, DirtyReqClose, ProbeReq = dirtyReq, dirtyReqClose, probeReq

// refusedProbe is a request the engine answers 400 itself (HTTP/1.1 without Host); engine-level middleware still runs for it.
const refusedProbe = "POST /probe/p?x=1 HTTP/1.1\r\nX-P: 1\r\nContent-Type: application/x-www-form-urlencoded\r\nContent-Length: 3\r\n\r\na=1"

var refusedRef []string

func refusedReference() []string {
	w := newWorker()
	s := w.server(false)
	s.Run([][]byte{[]byte(refusedProbe)}, netsim.EndEOF, nil)
	return w.refused
}

func Dump(ctx *app.RequestContext) []string      { return dump(ctx) }
func ApplyOp(ctx *app.RequestContext, op string) { applyOp(ctx, op) }
func Diff(a, b []string) []string                { return diff(a, b) }
func ReducedOps() []string {
	ops, _ := alphabet()
	return reducedOps(ops)
}
