package c09

import (
	"context"
	"errors"
	"fmt"
	"io"
	"mime/multipart"
	"net/url"
	"reflect"
	"regexp"
	"sort"
	"strings"
	"time"

	"github.com/cloudwego/hertz/pkg/protocol"
)

// ---- building hostile argument values by type --------------------------------------------

var (
	tErr     = reflect.TypeOf((*error)(nil)).Elem()
	tReader  = reflect.TypeOf((*io.Reader)(nil)).Elem()
	tWriter  = reflect.TypeOf((*io.Writer)(nil)).Elem()
	tCtx     = reflect.TypeOf((*context.Context)(nil)).Elem()
	tAny     = reflect.TypeOf((*interface{})(nil)).Elem()
	tTime    = reflect.TypeOf(time.Time{})
	tCookieP = reflect.TypeOf(&protocol.Cookie{})
	tFormP   = reflect.TypeOf(&multipart.Form{})
	tValues  = reflect.TypeOf(url.Values{})
)

type failingCloser struct{ *strings.Reader }

func (failingCloser) Close() error { return errors.New("dirty-close-error") }

// hostile returns a "dirty" value of type t, or ok=false if the type is not supported.
func hostile(t reflect.Type, variant int) (v reflect.Value, ok bool) {
	pcFlag := variant&4 != 0 // callbacks without results panic (operations named "...!panic")
	variant &= 3
	switch t {
	case tErr:
		return reflect.ValueOf(errors.New("dirty-error")).Convert(t), true
	case tReader:
		if variant == 0 {
			// a stream that is an io.Closer whose Close fails: whoever resets the object must drop it all the same
			return reflect.ValueOf(io.Reader(&failingCloser{strings.NewReader("dirty-stream")})), true
		}
		return reflect.ValueOf(io.Reader(strings.NewReader("dirty-stream"))), true
	case tWriter:
		return reflect.ValueOf(io.Discard).Convert(t), true
	case tCtx:
		return reflect.ValueOf(context.Background()).Convert(t), true
	case tAny:
		return reflect.ValueOf("dirty-any").Convert(t), true
	case tTime:
		return reflect.ValueOf(time.Unix(1700000000, 0).UTC()), true
	case tCookieP:
		c := &protocol.Cookie{}
		c.SetKey("dirtyck")
		c.SetValue("dirtycv")
		c.SetDomain("dirty.example")
		c.SetPath("/dirty")
		c.SetMaxAge(99)
		c.SetHTTPOnly(true)
		c.SetSecure(true)
		return reflect.ValueOf(c), true
	case tFormP:
		return reflect.ValueOf(&multipart.Form{Value: map[string][]string{"dk": {"dv"}}}), true
	case tValues:
		return reflect.ValueOf(url.Values{"dk": {"dv"}}), true
	}
	switch t.Kind() {
	case reflect.String:
		s := "X-Dirty"
		if variant == 1 {
			s = "dirty-v"
		}
		return reflect.ValueOf(s).Convert(t), true
	case reflect.Bool:
		return reflect.ValueOf(true).Convert(t), true
	case reflect.Int, reflect.Int8, reflect.Int16, reflect.Int32, reflect.Int64:
		return reflect.ValueOf(7).Convert(t), true
	case reflect.Uint, reflect.Uint8, reflect.Uint16, reflect.Uint32, reflect.Uint64:
		return reflect.ValueOf(7).Convert(t), true
	case reflect.Float32, reflect.Float64:
		return reflect.ValueOf(7.5).Convert(t), true
	case reflect.Slice:
		if t.Elem().Kind() == reflect.Uint8 {
			s := "X-Dirty"
			if variant == 1 {
				s = "dirty-b"
			}
			return reflect.ValueOf([]byte(s)).Convert(t), true
		}
		e, ok := hostile(t.Elem(), variant)
		if !ok {
			return v, false
		}
		s := reflect.MakeSlice(t, 1, 1)
		s.Index(0).Set(e)
		return s, true
	case reflect.Map:
		k, ok1 := hostile(t.Key(), 0)
		e, ok2 := hostile(t.Elem(), 1)
		if !ok1 || !ok2 {
			return v, false
		}
		m := reflect.MakeMap(t)
		m.SetMapIndex(k, e)
		return m, true
	case reflect.Func:
		// a no-op function returning zero values; with panicCallbacks set (operations named "...!panic") a callback
		// without results panics instead - an application callback may do that, and a recovery middleware catches it
		pc := pcFlag && t.NumOut() == 0
		f := reflect.MakeFunc(t, func(args []reflect.Value) []reflect.Value {
			if pc {
				panic("verif: the application's callback panics")
			}
			out := make([]reflect.Value, t.NumOut())
			for i := range out {
				out[i] = reflect.Zero(t.Out(i))
			}
			return out
		})
		return f, true
	case reflect.Ptr:
		if t.Elem().Kind() == reflect.Struct && t.Elem().PkgPath() != "" && !strings.Contains(t.Elem().PkgPath(), "hertz/pkg/protocol") {
			return v, false
		}
		if t.Elem().Kind() == reflect.Struct {
			return reflect.New(t.Elem()), true
		}
		return v, false
	case reflect.Struct:
		return reflect.Zero(t), true
	}
	return v, false
}

// callMethod calls obj.<name> with hostile arguments. It returns false if an argument type is unsupported.
func callMethod(obj interface{}, name string) (called bool, panicked interface{}) {
	flag := 0
	if strings.HasSuffix(name, "!panic") {
		name = strings.TrimSuffix(name, "!panic")
		flag = 4
	}
	m := reflect.ValueOf(obj).MethodByName(name)
	if !m.IsValid() {
		return false, nil
	}
	mt := m.Type()
	var args []reflect.Value
	for i := 0; i < mt.NumIn(); i++ {
		pt := mt.In(i)
		if mt.IsVariadic() && i == mt.NumIn()-1 {
			e, ok := hostile(pt.Elem(), 1|flag)
			if !ok {
				return false, nil
			}
			args = append(args, e)
			continue
		}
		variant := 0
		if i > 0 {
			variant = 1
		}
		a, ok := hostile(pt, variant|flag)
		if !ok {
			return false, nil
		}
		args = append(args, a)
	}
	defer func() {
		if r := recover(); r != nil {
			panicked = r
			called = true
		}
	}()
	m.Call(args)
	return true, nil
}

// ---- dumping observable state --------------------------------------------------------------

var reDate = regexp.MustCompile(`Date: [^\r\n]*\r\n`)

// noDate drops the wall-clock Date header line from serialised headers: time is not recycled state
func noDate(s string) string { return reDate.ReplaceAllString(s, "") }

func fmtValue(v reflect.Value, depth int) string {
	if !v.IsValid() {
		return "<invalid>"
	}
	if depth > 3 {
		return "<deep>"
	}
	t := v.Type()
	if t == tTime {
		tm := v.Interface().(time.Time)
		return fmt.Sprintf("time(zero=%v)", tm.IsZero())
	}
	switch v.Kind() {
	case reflect.String:
		return fmt.Sprintf("%q", noDate(v.String()))
	case reflect.Bool:
		return fmt.Sprint(v.Bool())
	case reflect.Int, reflect.Int8, reflect.Int16, reflect.Int32, reflect.Int64:
		return fmt.Sprint(v.Int())
	case reflect.Uint, reflect.Uint8, reflect.Uint16, reflect.Uint32, reflect.Uint64:
		return fmt.Sprint(v.Uint())
	case reflect.Float32, reflect.Float64:
		return fmt.Sprint(v.Float())
	case reflect.Slice, reflect.Array:
		if v.Kind() == reflect.Slice && t.Elem().Kind() == reflect.Uint8 {
			// nil and empty byte slices are the same observation
			return fmt.Sprintf("%q", noDate(string(v.Bytes())))
		}
		var parts []string
		for i := 0; i < v.Len() && i < 50; i++ {
			parts = append(parts, fmtValue(v.Index(i), depth+1))
		}
		return fmt.Sprintf("[%d]{%s}", v.Len(), strings.Join(parts, ","))
	case reflect.Map:
		var parts []string
		for _, k := range v.MapKeys() {
			parts = append(parts, fmtValue(k, depth+1)+":"+fmtValue(v.MapIndex(k), depth+1))
		}
		sort.Strings(parts)
		return fmt.Sprintf("map[%d]{%s}", v.Len(), strings.Join(parts, ","))
	case reflect.Interface:
		if v.IsNil() {
			return "nil"
		}
		if e, ok := v.Interface().(error); ok {
			return "error(" + e.Error() + ")"
		}
		return "iface(" + v.Elem().Type().String() + ")"
	case reflect.Ptr, reflect.Func, reflect.Chan, reflect.UnsafePointer:
		if v.IsNil() {
			return "nil"
		}
		return "non-nil " + t.String()
	case reflect.Struct:
		var parts []string
		for i := 0; i < v.NumField(); i++ {
			if t.Field(i).PkgPath != "" {
				continue // unexported
			}
			parts = append(parts, t.Field(i).Name+"="+fmtValue(v.Field(i), depth+1))
		}
		return t.String() + "{" + strings.Join(parts, ",") + "}"
	}
	return "<" + v.Kind().String() + ">"
}

var probeKeys = []string{"X-P", "X-D", "X-Dirty", "x", "q", "a", "c", "id", "dk", "dirty-v", "dirtyck", "Content-Type", "Host", "Set-Cookie", "Trailer"}

// dumpObject calls every eligible getter-like method of obj and returns "name(args)=results" lines.
func dumpObject(prefix string, obj interface{}, deny map[string]bool) []string {
	var out []string
	v := reflect.ValueOf(obj)
	t := v.Type()
	for i := 0; i < t.NumMethod(); i++ {
		name := t.Method(i).Name
		if deny[prefix+"."+name] || deny["*."+name] {
			continue
		}
		m := v.Method(i)
		mt := m.Type()
		if mt.NumOut() == 0 {
			continue
		}
		call := func(args []reflect.Value, label string) {
			var res string
			func() {
				defer func() {
					if r := recover(); r != nil {
						res = fmt.Sprintf("PANIC(%v)", r)
					}
				}()
				outs := m.Call(args)
				var parts []string
				for _, o := range outs {
					parts = append(parts, fmtValue(o, 0))
				}
				res = strings.Join(parts, ";")
			}()
			out = append(out, fmt.Sprintf("%s.%s(%s)=%s", prefix, name, label, res))
		}
		switch {
		case mt.NumIn() == 0:
			call(nil, "")
		case mt.NumIn() == 1 && !mt.IsVariadic() && (mt.In(0).Kind() == reflect.String || (mt.In(0).Kind() == reflect.Slice && mt.In(0).Elem().Kind() == reflect.Uint8)):
			for _, k := range probeKeys {
				var a reflect.Value
				if mt.In(0).Kind() == reflect.String {
					a = reflect.ValueOf(k).Convert(mt.In(0))
				} else {
					a = reflect.ValueOf([]byte(k)).Convert(mt.In(0))
				}
				call([]reflect.Value{a}, k)
			}
		}
	}
	// exported fields
	ev := v
	if ev.Kind() == reflect.Ptr {
		ev = ev.Elem()
	}
	if ev.Kind() == reflect.Struct {
		et := ev.Type()
		for i := 0; i < et.NumField(); i++ {
			f := et.Field(i)
			if f.PkgPath != "" || f.Anonymous {
				continue
			}
			if deny[prefix+"#"+f.Name] {
				continue
			}
			if f.Type.Kind() == reflect.Struct && f.Type.PkgPath() != "" {
				continue // nested objects (Request, Response, Header) are dumped as their own targets
			}
			out = append(out, fmt.Sprintf("%s#%s=%s", prefix, f.Name, fmtValue(ev.Field(i), 0)))
		}
	}
	return out
}
