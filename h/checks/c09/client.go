package c09

// Part X of C09: Request / Response values that went through a *client* exchange before they were released.
//
// A history is: acquire a request and a response, one exchange against a scripted peer (buffered or streamed client),
// a short program of what an application does with the returned response (read, read half, close the stream through the
// io.Closer it got from BodyStream(), CloseBodyStream, SetBody, a second exchange with the same objects), Release.
// The probe acquires two requests and two responses, runs two exchanges whose responses are alive at the same time,
// reads both bodies, closes, releases, and runs a third exchange. Everything observable about the probe (pointer
// identities among the probe's own objects, statuses, headers, bodies, trailers, errors, the request bytes on the wire,
// the connections' fate) must equal what the same probe observes with never-pooled objects and no history.
//
// Part L ("lend"): client.GetURL(dst) on one thread and an unrelated acquired Response on another; every placement of
// the second thread's two steps at the first thread's four points is enumerated; the unrelated response must keep its body.
//
// Both parts run in a child process: hertz sets finalizers on pooled stream objects, and a pool that hands one object to
// two owners ends in a runtime fatal error, which no recover() catches.

import (
	"bytes"
	"context"
	"encoding/json"
	"fmt"
	"io"
	"os"
	"os/exec"
	"runtime"
	"runtime/debug"
	"strconv"
	"strings"
	"time"

	"github.com/cloudwego/hertz/pkg/protocol"
	pclient "github.com/cloudwego/hertz/pkg/protocol/client"
	"github.com/cloudwego/hertz/pkg/protocol/http1"

	"verifh/clih"
	"verifh/mc"
	"verifh/netsim"
)

type XCase struct {
	Stream      bool     `json:"stream"`       // history client reads response bodies as streams
	ProbeStream bool     `json:"probe_stream"` // probe client does
	Resp        string   `json:"resp"`
	Req         string   `json:"req"`
	After       []string `json:"after"`
	LateRelease bool     `json:"late_release"` // the history's objects are released while the probe's responses are alive
	// Lend (part L): positions (0..3) of the second thread's two steps
	Lend []int `json:"lend,omitempty"`
}

func (x XCase) key() string {
	if x.Lend != nil {
		return fmt.Sprintf("lend|%v", x.Lend)
	}
	return fmt.Sprintf("stream=%v|probe_stream=%v|resp=%s|req=%s|after=%s|late=%v", x.Stream, x.ProbeStream, x.Resp, x.Req, strings.Join(x.After, "+"), x.LateRelease)
}

var xResponses = map[string]string{
	"cl":      "HTTP/1.1 200 OK\r\nContent-Length: 9\r\nX-One: 1\r\nSet-Cookie: a=b\r\nServer: dirty\r\n\r\ndirtybody",
	"chunked": "HTTP/1.1 203 X\r\nTransfer-Encoding: chunked\r\nTrailer: X-Tr\r\nContent-Type: text/dirty\r\n\r\n9\r\ndirtybody\r\n0\r\nX-Tr: t\r\n\r\n",
	"close":   "HTTP/1.1 200 OK\r\nConnection: close\r\nContent-Encoding: dirty\r\n\r\ndirtybody",
	"big":     "HTTP/1.1 200 OK\r\nContent-Length: 20000\r\n\r\n" + strings.Repeat("d", 20000),
	"cut":     "HTTP/1.1 200 OK\r\nContent-Length: 9\r\n\r\ndirt",
	"nobody":  "HTTP/1.1 204 No Content\r\nX-One: 1\r\n\r\n",
	// the peer goes away in the middle of a body that is larger than what the client reads ahead
	"bigcut": "HTTP/1.1 200 OK\r\nContent-Length: 20000\r\n\r\n" + strings.Repeat("d", 12000),
}
var xRespNames = []string{"cl", "chunked", "close", "big", "cut", "nobody", "bigcut"}
var xReqNames = []string{"get", "post", "poststream"}
var xAfter = []string{"read", "readhalf", "closer", "CloseBodyStream", "SetBody", "redo"}

func xSetReq(req *protocol.Request, kind, path string) {
	req.SetRequestURI("http://h" + path)
	switch kind {
	case "get":
		req.SetMethod("GET")
	case "post":
		req.SetMethod("POST")
		req.Header.Set("X-Dirty", "1")
		req.Header.SetCookie("c", "d")
		req.SetBodyString("reqbody")
	case "poststream":
		req.SetMethod("POST")
		req.Header.Set("Trailer", "X-Q")
		req.SetBodyStream(strings.NewReader("reqstream"), -1)
	}
}

func xClient(stream bool) *clih.Client {
	return clih.New(func(o *http1.ClientOptions) { o.ResponseBodyStream = stream })
}

func guard(f func()) (p string) {
	defer func() {
		if r := recover(); r != nil {
			p = fmt.Sprint(r)
			if i := strings.IndexByte(p, '\n'); i > 0 {
				p = p[:i]
			}
		}
	}()
	f()
	return ""
}

// xHistory runs the dirty exchange and the application's program; it returns the objects to be released.
func xHistory(cs XCase) (*protocol.Request, *protocol.Response, *clih.Client) {
	req, resp := protocol.AcquireRequest(), protocol.AcquireResponse()
	raw := []byte(xResponses[cs.Resp])
	sc := netsim.NewScriptConn([][]byte{raw}, netsim.EndEOF)
	sc.Next = [][][]byte{{raw}, {raw}}
	sc2 := netsim.NewScriptConn([][]byte{raw}, netsim.EndEOF)
	sc3 := netsim.NewScriptConn([][]byte{raw}, netsim.EndEOF)
	cl := xClient(cs.Stream)
	cl.Reset(sc, sc2, sc3)
	xSetReq(req, cs.Req, "/dirty")
	guard(func() { cl.HC.Do(context.Background(), req, resp) }) //nolint:errcheck
	for _, a := range cs.After {
		a := a
		guard(func() {
			switch a {
			case "read":
				if resp.IsBodyStream() {
					io.Copy(io.Discard, resp.BodyStream()) //nolint:errcheck
				} else {
					_ = resp.Body()
				}
			case "readhalf":
				if resp.IsBodyStream() {
					resp.BodyStream().Read(make([]byte, 4)) //nolint:errcheck
				}
			case "closer":
				// what one does with an io.ReadCloser
				if cl, ok := resp.BodyStream().(io.Closer); ok {
					cl.Close() //nolint:errcheck
				}
			case "CloseBodyStream":
				resp.CloseBodyStream() //nolint:errcheck
			case "SetBody":
				resp.SetBody([]byte("application-body"))
			case "redo":
				if cs.Req == "poststream" {
					req.SetBodyStream(strings.NewReader("reqstream"), -1)
				}
				cl.HC.Do(context.Background(), req, resp) //nolint:errcheck
			}
		})
	}
	return req, resp, cl
}

type xProbeObjs struct {
	qa, qb, qc *protocol.Request
	ra, rb, rc *protocol.Response
}

func xObserveResp(tag string, resp *protocol.Response, err error, p string) []string {
	var o []string
	if p != "" {
		return []string{tag + ".panic=" + p}
	}
	if err != nil {
		return []string{tag + ".err=" + clih.CanonErr(err)}
	}
	o = append(o, fmt.Sprintf("%s.status=%d cl=%d close=%v stream=%v", tag, resp.StatusCode(), resp.Header.ContentLength(), resp.ConnectionClose(), resp.IsBodyStream()))
	resp.Header.VisitAll(func(k, v []byte) {
		if string(k) == "Date" {
			return
		}
		o = append(o, fmt.Sprintf("%s.header %s: %s", tag, k, v))
	})
	o = append(o, fmt.Sprintf("%s.ct=%q server=%q ce=%q", tag, resp.Header.ContentType(), resp.Header.Server(), resp.Header.ContentEncoding()))
	return o
}

func xReadBody(tag string, resp *protocol.Response) []string {
	var body []byte
	var o []string
	p := guard(func() {
		if resp.IsBodyStream() {
			b, err := io.ReadAll(resp.BodyStream())
			body = b
			if err != nil {
				o = append(o, tag+".body_err="+err.Error())
			}
		} else {
			body = append([]byte(nil), resp.Body()...)
		}
	})
	if p != "" {
		o = append(o, tag+".body_panic="+p)
	}
	sum := ""
	if len(body) > 0 {
		sum = fmt.Sprintf("%c..%c uniform=%v", body[0], body[len(body)-1], len(bytes.Trim(body, string(body[:1]))) == 0)
	}
	o = append(o, fmt.Sprintf("%s.body len=%d %s", tag, len(body), sum))
	resp.Header.Trailer().VisitAll(func(k, v []byte) {
		o = append(o, fmt.Sprintf("%s.trailer %s: %s", tag, k, v))
	})
	return o
}

var (
	xRespA = "HTTP/1.1 200 OK\r\nTransfer-Encoding: chunked\r\nTrailer: X-T\r\nX-A: 1\r\n\r\n1388\r\n" + strings.Repeat("A", 5000) + "\r\n0\r\nX-T: a\r\n\r\n"
	xRespB = "HTTP/1.1 201 Created\r\nContent-Length: 6000\r\nX-B: 1\r\n\r\n" + strings.Repeat("B", 6000)
	xRespC = "HTTP/1.1 200 OK\r\nContent-Length: 2\r\n\r\nCC"
)

// xProbe: mid runs after both probe exchanges returned and before their bodies are read. cl is the client of the history
// (nil: a new one): the probe closes its idle connections first and uses scripted connections of its own, so that a client
// whose bookkeeping the history left intact behaves like a new one.
func xProbe(stream bool, objs xProbeObjs, mid func(), cl *clih.Client) []string {
	var o []string
	ca := netsim.NewScriptConn([][]byte{[]byte(xRespA)}, netsim.EndTimeout)
	ca.Next = [][][]byte{{[]byte(xRespC)}}
	cb := netsim.NewScriptConn([][]byte{[]byte(xRespB)}, netsim.EndTimeout)
	cb.Next = [][][]byte{{[]byte(xRespC)}}
	cc := netsim.NewScriptConn([][]byte{[]byte(xRespC)}, netsim.EndTimeout)
	if cl == nil {
		cl = xClient(stream)
	}
	o = append(o, "close-idle="+guard(func() { cl.Reset(ca, cb, cc) }))
	xSetReq(objs.qa, "get", "/a")
	xSetReq(objs.qb, "post", "/b")
	var errA, errB error
	pa := guard(func() { errA = cl.HC.Do(context.Background(), objs.qa, objs.ra) })
	pb := guard(func() { errB = cl.HC.Do(context.Background(), objs.qb, objs.rb) })
	if objs.ra.IsBodyStream() && objs.rb.IsBodyStream() {
		o = append(o, fmt.Sprintf("streams-distinct=%v", objs.ra.BodyStream() != objs.rb.BodyStream()))
	}
	if mid != nil {
		mid()
	}
	o = append(o, xObserveResp("B", objs.rb, errB, pb)...)
	o = append(o, xObserveResp("A", objs.ra, errA, pa)...)
	if errB == nil && pb == "" {
		o = append(o, xReadBody("B", objs.rb)...)
	}
	if errA == nil && pa == "" {
		o = append(o, xReadBody("A", objs.ra)...)
	}
	o = append(o, "closeA="+guard(func() { objs.ra.CloseBodyStream() })) //nolint:errcheck
	o = append(o, "closeB="+guard(func() { objs.rb.CloseBodyStream() })) //nolint:errcheck
	// third exchange: one of the two connections is reused
	xSetReq(objs.qc, "get", "/c")
	var errC error
	pc := guard(func() { errC = cl.HC.Do(context.Background(), objs.qc, objs.rc) })
	o = append(o, xObserveResp("C", objs.rc, errC, pc)...)
	if errC == nil && pc == "" {
		o = append(o, xReadBody("C", objs.rc)...)
	}
	guard(func() { objs.rc.CloseBodyStream() }) //nolint:errcheck
	o = append(o, fmt.Sprintf("dials=%d", cl.D.Dials))
	o = append(o, fmt.Sprintf("wireA=%q closed=%v", ca.Out, ca.Closed))
	o = append(o, fmt.Sprintf("wireB=%q closed=%v", cb.Out, cb.Closed))
	o = append(o, fmt.Sprintf("wireC=%q closed=%v", cc.Out, cc.Closed))
	o = append(o, "close-idle-at-end="+guard(func() { cl.Reset() }))
	st := cl.HC.ConnPoolState()
	o = append(o, fmt.Sprintf("pool at the end: idle=%d total=%d waiting=%d", st.PoolConnNum, st.TotalConnNum, st.WaitConnNum))
	return o
}

var xRefs = map[bool][]string{}

func xReference(stream bool) []string {
	if r, ok := xRefs[stream]; ok {
		return r
	}
	objs := xProbeObjs{&protocol.Request{}, &protocol.Request{}, &protocol.Request{}, &protocol.Response{}, &protocol.Response{}, &protocol.Response{}}
	r := xProbe(stream, objs, nil, nil)
	xRefs[stream] = r
	return r
}

type xResult struct {
	Status string   `json:"status"`
	Key    string   `json:"key,omitempty"`
	Msg    string   `json:"msg,omitempty"`
	Case   *XCase   `json:"case,omitempty"`
	Diff   []string `json:"-"`
}

func xExec(cs XCase) xResult {
	if cs.Lend != nil {
		return lendExec(cs)
	}
	want := xReference(cs.ProbeStream)
	req1, resp1, cl1 := xHistory(cs)
	if cs.Stream != cs.ProbeStream {
		cl1 = nil // the probe needs a client of the other mode
	}
	release := func() {
		guard(func() { protocol.ReleaseResponse(resp1) })
		guard(func() { protocol.ReleaseRequest(req1) })
	}
	var mid func()
	if cs.LateRelease {
		mid = release
	} else {
		release()
	}
	objs := xProbeObjs{protocol.AcquireRequest(), protocol.AcquireRequest(), protocol.AcquireRequest(), protocol.AcquireResponse(), protocol.AcquireResponse(), protocol.AcquireResponse()}
	hit := objs.ra == resp1 || objs.rb == resp1 || objs.rc == resp1
	got := xProbe(cs.ProbeStream, objs, mid, cl1)
	protocol.ReleaseRequest(objs.qa)
	protocol.ReleaseRequest(objs.qb)
	protocol.ReleaseRequest(objs.qc)
	protocol.ReleaseResponse(objs.ra)
	protocol.ReleaseResponse(objs.rb)
	protocol.ReleaseResponse(objs.rc)
	if d := diff(want, got); len(d) > 0 {
		if len(d) > 8 {
			d = d[:8]
		}
		return xResult{Status: "differs", Key: "client|" + cs.key() + "|field=" + fieldOf(d[0]),
			Msg: fmt.Sprintf("objects acquired after a client exchange (%s) and Release behave differently from new ones in the probe exchanges:\n  %s", cs.key(), strings.Join(d, "\n  ")), Case: &cs}
	}
	if !hit && !cs.LateRelease {
		return xResult{Status: "pool-miss"}
	}
	return xResult{Status: "same"}
}

// ---- part L -----------------------------------------------------------------------------------------

// lendExec: thread 1 is GetURL(dst) with points 0 (before the call), 1 (at the dial, i.e. inside Do after the response
// was reset), 2 (at the first read of the answer), 3 (after the call returned and the caller scribbled over dst).
// Thread 2 has two steps: acquire a response and give it a body; read the body back. Lend = positions of the steps.
func lendExec(cs XCase) xResult {
	var other *protocol.Response
	var obs []string
	step := 0
	at := func(pos int) {
		for step < 2 && cs.Lend[step] == pos {
			if step == 0 {
				other = protocol.AcquireResponse()
				other.SetBodyString("precious")
			} else {
				obs = append(obs, fmt.Sprintf("other.body@%d=%q", pos, other.Body()))
			}
			step++
		}
	}
	sc := netsim.NewScriptConn([][]byte{[]byte("HTTP/1.1 200 OK\r\nContent-Length: 7\r\n\r\nfromnet")}, netsim.EndTimeout)
	first := true
	sc.OnRead = func(int) {
		if first {
			first = false
			at(2)
		}
	}
	cl := xClient(false)
	cl.Reset(sc)
	dst := make([]byte, 0, 64)
	at(0)
	d := &lendDoer{cl: cl, at: func() { at(1) }}
	status, body, err := pclient.GetURL(context.Background(), dst, "http://h/x", d)
	obs = append(obs, fmt.Sprintf("get status=%d body=%q err=%v", status, body, err))
	// the caller owns dst again
	full := dst[:cap(dst)]
	for i := range full {
		full[i] = 'Z'
	}
	at(3)
	if other != nil {
		obs = append(obs, fmt.Sprintf("other.body@end=%q", other.Body()))
		protocol.ReleaseResponse(other)
	}
	cl.Reset()
	for _, l := range obs {
		if strings.HasPrefix(l, "other.body") && !strings.HasSuffix(l, `="precious"`) {
			return xResult{Status: "differs", Key: "client|" + cs.key() + "|other-response-body", Msg: "an acquired Response lost its body to an unrelated GetURL(dst) call: " + strings.Join(obs, "; "), Case: &cs}
		}
		if strings.HasPrefix(l, "get ") && l != `get status=200 body="fromnet" err=<nil>` {
			return xResult{Status: "differs", Key: "client|" + cs.key() + "|get-result", Msg: "GetURL(dst) returned " + l + "; " + strings.Join(obs, "; "), Case: &cs}
		}
	}
	return xResult{Status: "same"}
}

type lendDoer struct {
	cl *clih.Client
	at func()
}

func (d *lendDoer) Do(ctx context.Context, req *protocol.Request, resp *protocol.Response) error {
	// the first thing every Do does is resp.Reset(); the point lies right after it
	d.cl.D.OnDial = d.at
	defer func() { d.cl.D.OnDial = nil }()
	return d.cl.HC.Do(ctx, req, resp)
}

// ---- enumeration and the child process ----------------------------------------------------------------

func xCases(thorough bool) []XCase {
	var out []XCase
	var progs [][]string
	progs = append(progs, nil)
	for _, a := range xAfter {
		progs = append(progs, []string{a})
	}
	for _, a := range xAfter {
		for _, b := range xAfter {
			progs = append(progs, []string{a, b})
		}
	}
	if thorough {
		for _, a := range xAfter {
			for _, b := range xAfter {
				for _, c := range xAfter {
					progs = append(progs, []string{a, b, c})
				}
			}
		}
	}
	for _, st := range []bool{true, false} {
		for _, pst := range []bool{true, false} {
			if !thorough && st != pst {
				continue
			}
			for _, rn := range xRespNames {
				for _, qn := range xReqNames {
					if !thorough && qn != "get" && rn != "cl" && rn != "chunked" {
						continue
					}
					for _, pr := range progs {
						for _, late := range []bool{false, true} {
							if late && !st {
								continue
							}
							out = append(out, XCase{Stream: st, ProbeStream: pst, Resp: rn, Req: qn, After: pr, LateRelease: late})
						}
					}
				}
			}
		}
	}
	for i := 0; i < 4; i++ {
		for j := i; j < 4; j++ {
			out = append(out, XCase{Lend: []int{i, j}})
		}
	}
	return out
}

// child mode: VERIF_C09_CLIENT=<tier>:<from> runs the cases from index <from>, printing "AT <i>" before each and
// one "XRES <json>" line per violation; VERIF_C09_CLIENT_ONE=<json> runs one case.
func init() {
	one := os.Getenv("VERIF_C09_CLIENT_ONE")
	spec := os.Getenv("VERIF_C09_CLIENT")
	if one == "" && spec == "" {
		return
	}
	// one P and no collection: what a sync.Pool returns is then a function of the Puts and Gets alone
	runtime.GOMAXPROCS(1)
	debug.SetGCPercent(-1)
	w := os.Stdout
	emit := func(r xResult) {
		if r.Status == "differs" {
			b, _ := json.Marshal(r)
			fmt.Fprintf(w, "XRES %s\n", b)
		}
		fmt.Fprintf(w, "ST %s\n", r.Status)
	}
	if one != "" {
		var cs XCase
		if json.Unmarshal([]byte(one), &cs) != nil {
			os.Exit(3)
		}
		fmt.Fprintln(w, "AT 0")
		emit(xExec(cs))
		fmt.Fprintln(w, "XDONE")
		os.Exit(0)
	}
	parts := strings.SplitN(spec, ":", 2)
	from, _ := strconv.Atoi(parts[1])
	cases := xCases(parts[0] == "thorough")
	deadline := time.Now().Add(10 * time.Minute)
	for i := from; i < len(cases); i++ {
		if time.Now().After(deadline) {
			fmt.Fprintf(w, "XCAP %d\n", i)
			os.Exit(0)
		}
		fmt.Fprintf(w, "AT %d\n", i)
		emit(xExec(cases[i]))
	}
	fmt.Fprintln(w, "XDONE")
	os.Exit(0)
}

func crashLine(out string) string {
	for _, ln := range strings.Split(out, "\n") {
		if strings.HasPrefix(ln, "fatal error") || strings.HasPrefix(ln, "panic:") || strings.HasPrefix(ln, "runtime:") {
			return ln
		}
	}
	return ""
}

func xAbsorb(c *mc.Ctx, out string) (at int, done, capped bool) {
	at = -1
	for _, ln := range strings.Split(out, "\n") {
		switch {
		case strings.HasPrefix(ln, "AT "):
			at, _ = strconv.Atoi(ln[3:])
		case strings.HasPrefix(ln, "ST "):
			c.Add("client_status_"+ln[3:], 1)
			c.Add("executions", 1)
			c.Add("transitions", 4)
		case strings.HasPrefix(ln, "XRES "):
			var r xResult
			if json.Unmarshal([]byte(ln[5:]), &r) == nil && r.Case != nil {
				c.Violate(r.Key, r.Msg, Case{Placement: "client", Client: r.Case})
			}
		case ln == "XDONE":
			done = true
		case strings.HasPrefix(ln, "XCAP "):
			capped = true
		}
	}
	return
}

// runClientPart runs parts X and L, every case in a process of its own (the pools are process-wide: a history that
// leaves one of them damaged must not be blamed on a later case); a process that dies is a violation of its case.
func runClientPart(c *mc.Ctx) {
	cases := xCases(c.Thorough())
	c.Extra("client_exchange_cases", len(cases))
	c.ParallelFor(len(cases), func(i int) {
		replayClient(c, cases[i])
	})
}

func replayClient(c *mc.Ctx, cs XCase) {
	b, _ := json.Marshal(cs)
	ctx, cancel := context.WithTimeout(context.Background(), 3*time.Minute)
	defer cancel()
	cmd := exec.CommandContext(ctx, os.Args[0], "list")
	cmd.Env = append(os.Environ(), "VERIF_C09_CLIENT_ONE="+string(b))
	outB, err := cmd.CombinedOutput()
	at, done, _ := xAbsorb(c, string(outB))
	if done {
		return
	}
	if at < 0 {
		// the worker never reached the case (it could not be started): nothing was observed about hertz
		c.Note(fmt.Sprintf("client-exchange part: a worker process did not start (%v)", err))
		c.Cap("client-exchange part: worker process did not start")
		return
	}
	what := "died (not a recoverable panic)"
	if ctx.Err() != nil {
		what = "hung for three minutes"
	}
	c.ViolateObserved("client|process-crash|"+cs.key(), fmt.Sprintf("the process %s in the probe exchanges after the history %s: %v; %s", what, cs.key(), err, crashLine(string(outB))), Case{Placement: "client", Client: &cs})
}
