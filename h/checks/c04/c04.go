// Package c04: every response put on the wire is one well-formed, correctly framed message.
// Enumerates handler programs (status x body API x size x reader behaviour x chunked-writer
// patterns x trailers x ImmediateHeaderFlush) x request kinds, singly and in ordered pairs on one
// keep-alive connection, on the real engine; an independent strict reader (httpref) decodes the output.
package c04

import (
	"bytes"
	"encoding/json"
	"errors"
	"fmt"
	"io"
	"strconv"
	"strings"
	"sync/atomic"

	"github.com/cloudwego/hertz/pkg/app"
	"github.com/cloudwego/hertz/pkg/protocol/consts"
	"github.com/cloudwego/hertz/pkg/protocol/http1/resp"

	"verifh/httpref"
	"verifh/mc"
	"verifh/netsim"
	"verifh/srvh"
)

var Check = &mc.Check{
	ID:    "C04",
	Level: "model_checking",
	Rule: "handler programs = status{101,200,204,206,301,304,404,500} x body API{none, SetBody, Append+Write, SetBodyStream(len), SetBodyStream(-1), SetBodyRaw, SetBodyStream(LimitedReader,-1) with readers delivering all/1-byte/4096, hijacked chunked writer with every pattern of <=3 ops over {Write0,Write1,Write4096,Flush}} x size{0,1,4095,4096,4097,8191,8192,8193} x trailer x ImmediateHeaderFlush x handler SetConnectionClose; ; a body API called first and then overridden by another one (SetBody / SetBodyRaw / stream of known / unknown length before any body API); all ordered triples over 7 small programs on one keep-alive connection with GET or HEAD last" +
		"requests = method{GET,POST,HEAD} x {1.1, 1.1+close, 1.0, 1.0+keep-alive}; singles: full product (pruned of meaningless combinations); pairs: all ordered pairs over a reduced program set on one connection; " +
		"non-trivial = programs with a body API other than none",
	Run:         run,
	Replay:      replay,
	Assumptions: []string{"documented exclusion honoured: the hijacked chunked writer is not installed for HEAD requests or bodiless statuses", "status 100 as a final status is excluded (a client must treat it as interim)"},
}

// body APIs
const (
	BNone = iota
	BSetBody
	BAppendWrite
	BStreamLen
	BStreamChunked
	BStreamLimited
	BHijack
	// convenience APIs of RequestContext; the first two start by resetting the response
	BAbortMsg // ctx.AbortWithMsg(body, status)
	BNotFound // ctx.NotFound() (status 404, fixed body)
	BString   // ctx.String(status, "%s", body)
	BData     // ctx.Data(status, type, body)
	BRaw      // ctx.Response.SetBodyRaw(body): the response refers to the handler's slice
)

// framing header fields a handler may (mistakenly, or when relaying another server's header) set itself
const (
	TENone       = iota
	TESetCanon   // Header.Set("Transfer-Encoding", "chunked")
	TESetLower   // Header.Set("transfer-encoding", "chunked")
	TEAddLower   // Header.Add("transfer-encoding", "chunked")
	TESetLowerNN // the same with header-name normalising disabled on the response
	TEAddLowerNN
	TECLCorrect // Header.Set("Content-Length", <the length of the body>) after the body API
	TEDelCL     // Header.Del("Content-Length") after the body API
	TEEmptyCL   // Header.Set("Content-Length", "") after the body API
	nTE
)

// reader behaviours
const (
	RAll = iota
	ROne
	R4096
)

type Prog struct {
	Status  int    `json:"status"`
	Body    int    `json:"body"`
	Size    int    `json:"size"`
	Reader  int    `json:"reader,omitempty"`
	Ops     string `json:"ops,omitempty"` // hijack writer ops: '0' Write(0 bytes) '1' Write(1) 'k' Write(4096) 'f' Flush
	Trailer bool   `json:"trailer,omitempty"`
	IHF     bool   `json:"ihf,omitempty"`
	Close   bool   `json:"close,omitempty"` // handler calls SetConnectionClose
	TE      int    `json:"te,omitempty"`    // the handler sets a Transfer-Encoding field itself (TE* constants)
	// StatusLast: the status code is set after the body API instead of before it
	StatusLast bool `json:"status_last,omitempty"`
	// LimitExtra: BStreamLimited only - the LimitedReader's N is Size+LimitExtra ("at most N"), the reader ends after Size bytes
	LimitExtra int `json:"limit_extra,omitempty"`
	// Pre: a body API the handler calls first (with other data) and then overrides with Body - a handler that changes its
	// mind, e.g. an error after the stream was set up. One of BSetBody, BRaw, BStreamLen, BStreamChunked; 0 = none.
	Pre int `json:"pre,omitempty"`
	// PreCloseErr: the stream set first (Pre = BStreamLen / BStreamChunked) is an io.Closer whose Close reports an error (an
	// upstream that is already gone); the override has to get rid of it all the same
	PreCloseErr bool `json:"pre_close_err,omitempty"`
	// BigHead: the handler sets a 5000-byte header field first, so that the response head does not fit a 4 KiB buffer node
	BigHead bool `json:"big_head,omitempty"`
}

type Req struct {
	Method string `json:"method"`
	V10    bool   `json:"v10,omitempty"`
	KA10   bool   `json:"ka10,omitempty"`
	Close  bool   `json:"close,omitempty"`
	// Expect: the (POST) request carries Expect: 100-continue
	Expect bool `json:"expect,omitempty"`
	// NoRoute: the request path matches no route: the program runs as the engine's NoRoute handler
	NoRoute bool `json:"no_route,omitempty"`
}

type Case struct {
	Reqs  []Req  `json:"reqs"`
	Progs []Prog `json:"progs"`
}

var pattern = []byte("\r\n0\r\n\r\nHTTP/1.1 200 OK\r\nContent-Length: 5\r\n\r\nhello")

func payload(n int, salt byte) []byte {
	b := make([]byte, n)
	for i := range b {
		b[i] = pattern[i%len(pattern)]
	}
	if n > 0 {
		b[0] = 'A' + salt%26
	}
	return b
}

type chunkReader struct {
	b    []byte
	mode int
}

func (r *chunkReader) Read(p []byte) (int, error) {
	if len(r.b) == 0 {
		return 0, io.EOF
	}
	n := len(p)
	switch r.mode {
	case ROne:
		n = 1
	case R4096:
		if n > 4096 {
			n = 4096
		}
	}
	if n > len(r.b) {
		n = len(r.b)
	}
	copy(p, r.b[:n])
	r.b = r.b[n:]
	return n, nil
}

// failCloser: a body stream whose Close fails.
type failCloser struct{ io.Reader }

func (failCloser) Close() error { return errors.New("upstream already gone") }

func (p Prog) want(salt byte) []byte {
	switch p.Body {
	case BNone:
		return nil
	case BNotFound:
		return []byte(consts.StatusMessage(404))
	case BHijack:
		var b []byte
		nr := 0
		for _, o := range p.Ops {
			switch o {
			case '1':
				b = append(b, payload(1, salt)...)
			case 'k':
				b = append(b, payload(4096, salt)...)
			case 'r':
				nr++
				b = append(b, payload(4096, salt+byte(31*nr))...)
			}
		}
		return b
	}
	return payload(p.Size, salt)
}

func (p Prog) run(ctx *app.RequestContext, salt byte) {
	switch p.Body { // these reset the response: headers are set after them
	case BAbortMsg:
		ctx.AbortWithMsg(string(payload(p.Size, salt)), p.Status)
	case BNotFound:
		ctx.NotFound()
	}
	if !p.StatusLast {
		ctx.SetStatusCode(p.Status)
	}
	ctx.Response.Header.Set("X-H", "v")
	if p.BigHead {
		ctx.Response.Header.Set("X-Big", strings.Repeat("b", 5000))
	}
	if p.Close {
		ctx.SetConnectionClose()
	}
	if p.IHF {
		ctx.Response.ImmediateHeaderFlush = true
	}
	if p.Trailer {
		ctx.Response.Header.Set("Trailer", "X-Tr")
		ctx.Response.Header.Trailer().Set("X-Tr", "tv") //nolint:errcheck
	}
	data := payload(p.Size, salt)
	defer func() {
		switch p.TE {
		case TESetCanon:
			ctx.Response.Header.Set("Transfer-Encoding", "chunked")
		case TESetLower:
			ctx.Response.Header.Set("transfer-encoding", "chunked")
		case TEAddLower:
			ctx.Response.Header.Add("transfer-encoding", "chunked")
		case TESetLowerNN:
			ctx.Response.Header.DisableNormalizing()
			ctx.Response.Header.Set("transfer-encoding", "chunked")
		case TEAddLowerNN:
			ctx.Response.Header.DisableNormalizing()
			ctx.Response.Header.Add("transfer-encoding", "chunked")
		case TECLCorrect:
			ctx.Response.Header.Set("Content-Length", strconv.Itoa(len(data)))
		case TEDelCL:
			ctx.Response.Header.Del("Content-Length")
		case TEEmptyCL:
			ctx.Response.Header.Set("Content-Length", "")
		}
		if p.StatusLast {
			ctx.SetStatusCode(p.Status)
		}
	}()
	if p.Pre != 0 {
		other := payload(p.Size+9, salt+77)
		switch p.Pre {
		case BSetBody:
			ctx.Response.SetBody(other)
		case BRaw:
			ctx.Response.SetBodyRaw(other)
		case BStreamLen, BStreamChunked:
			var r io.Reader = &chunkReader{b: other}
			if p.PreCloseErr {
				r = failCloser{r}
			}
			n := len(other)
			if p.Pre == BStreamChunked {
				n = -1
			}
			ctx.SetBodyStream(r, n)
		}
	}
	switch p.Body {
	case BString:
		ctx.String(p.Status, "%s", data)
	case BData:
		ctx.Data(p.Status, "application/octet-stream", data)
	case BSetBody:
		ctx.Response.SetBody(data)
	case BRaw:
		ctx.Response.SetBodyRaw(data)
	case BAppendWrite:
		h := len(data) / 2
		ctx.Response.AppendBody(data[:h])
		ctx.Write(data[h:]) //nolint:errcheck
	case BStreamLen:
		ctx.SetBodyStream(&chunkReader{b: data, mode: p.Reader}, len(data))
	case BStreamChunked:
		ctx.SetBodyStream(&chunkReader{b: data, mode: p.Reader}, -1)
	case BStreamLimited:
		ctx.SetBodyStream(&io.LimitedReader{R: &chunkReader{b: data, mode: p.Reader}, N: int64(len(data) + p.LimitExtra)}, -1)
	case BHijack:
		ctx.Response.HijackWriter(resp.NewChunkedBodyWriter(&ctx.Response, ctx.GetWriter()))
		var reuse []byte
		nr := 0
		for _, o := range p.Ops {
			switch o {
			case '0':
				ctx.Write(nil) //nolint:errcheck
			case '1':
				ctx.Write(payload(1, salt)) //nolint:errcheck
			case 'k':
				ctx.Write(payload(4096, salt)) //nolint:errcheck
			case 'r':
				if reuse == nil {
					reuse = make([]byte, 4096)
				}
				nr++
				copy(reuse, payload(4096, salt+byte(31*nr)))
				ctx.Write(reuse) //nolint:errcheck
			case 'f':
				ctx.Flush() //nolint:errcheck
			case 'H':
				// a header is set after the head has been handed to the connection (too late to be sent, but it must not
				// disturb what is being sent either)
				ctx.Response.Header.Set("X-Late", "late")
			case 'a':
				ctx.AbortWithMsg("backend failed", 500)
			}
		}
	}
}

type worker struct {
	s     *srvh.Server
	progs []Prog
}

func newWorker() *worker {
	w := &worker{}
	w.s = srvh.New(srvh.Opts{})
	w.s.Respond = func(ctx *app.RequestContext, sn *srvh.Seen) {
		i := len(w.s.Log) - 1
		if i < len(w.progs) {
			w.progs[i].run(ctx, byte(i))
		}
	}
	// a real route (not NoRoute: the 404 path adds a default body of its own)
	w.s.E.Any("/r/*any", w.s.Echo)
	// and the same programs as the NoRoute handler (only programs that send a body: for an empty one the engine adds its text)
	w.s.E.NoRoute(w.s.Echo)
	w.s.Start()
	return w
}

func bodiless(status int) bool { return status/100 == 1 || status == 204 || status == 304 }

func (w *worker) exec(c *mc.Ctx, cs Case) {
	var in bytes.Buffer
	var methods []string
	served := len(cs.Reqs)
	for i, r := range cs.Reqs {
		ver := "HTTP/1.1"
		if r.V10 {
			ver = "HTTP/1.0"
		}
		path := fmt.Sprintf("/r/%d", i)
		if r.NoRoute {
			path = fmt.Sprintf("/nr%d", i)
		}
		fmt.Fprintf(&in, "%s %s %s\r\nHost: h\r\n", r.Method, path, ver)
		if r.Expect {
			in.WriteString("Expect: 100-continue\r\n")
		}
		if r.V10 && r.KA10 {
			in.WriteString("Connection: keep-alive\r\n")
		}
		if r.Close {
			in.WriteString("Connection: close\r\n")
		}
		if r.Method == "POST" {
			in.WriteString("Content-Length: 2\r\n\r\nhi")
		} else {
			in.WriteString("\r\n")
		}
		methods = append(methods, r.Method)
		if served == len(cs.Reqs) && (r.Close || (r.V10 && !r.KA10) || cs.Progs[i].Close) {
			served = i + 1
		}
	}
	w.progs = cs.Progs
	res := w.s.Run([][]byte{in.Bytes()}, netsim.EndEOF, nil)
	fail := func(kind, msg string) {
		p := cs.Progs[0]
		if len(cs.Progs) > 1 {
			p = cs.Progs[len(cs.Progs)-1]
		}
		key := fmt.Sprintf("%s|n=%d|body=%d|status=%d|method=%s", kind, len(cs.Reqs), p.Body, p.Status, cs.Reqs[len(cs.Reqs)-1].Method)
		if p.Body == BHijack {
			key += fmt.Sprintf("|write0=%v|flush=%v", strings.Contains(p.Ops, "0"), strings.Contains(p.Ops, "f"))
		}
		c.Violate(key, msg+fmt.Sprintf("\noutput=%q", clip(res.Out)), cs)
	}
	c.Distinct("outcomes", fmt.Sprintf("out=%dB|closed=%v|err=%v", len(res.Out), res.Closed, res.Err != nil))
	if res.Panic != nil {
		fail("panic", fmt.Sprintf("panic: %v\n%s", res.Panic, res.Stack))
		return
	}
	ms, err := httpref.ParseResponses(res.Out, methods, true)
	if err != nil {
		fail("malformed", fmt.Sprintf("output is not a sequence of well-formed responses: %v", err))
		return
	}
	fin := httpref.Finals(ms)
	nExpect := 0
	for _, r := range cs.Reqs {
		if r.Expect && !r.V10 {
			nExpect++ // an HTTP/1.1 client that announced Expect: 100-continue may be sent the interim response; an HTTP/1.0 client never
		}
	}
	if len(ms)-len(fin) > nExpect {
		fail("interim", fmt.Sprintf("%d interim response(s) on the wire, %d request(s) of an HTTP/1.1 client asked for one", len(ms)-len(fin), nExpect))
		return
	}
	if len(fin) != served {
		fail("count", fmt.Sprintf("%d responses on the wire for %d requests to serve", len(fin), served))
		return
	}
	for i, m := range fin {
		p, r := cs.Progs[i], cs.Reqs[i]
		if p.Body == BHijack && strings.Contains(p.Ops, "a") {
			continue // an abort in the middle of the response: only "one well-formed message, the next one starts where it ends" is demanded
		}
		if p.Body == BNotFound {
			p.Status = 404
		}
		if m.Status != p.Status {
			fail("status", fmt.Sprintf("response %d decodes to status %d, handler set %d", i, m.Status, p.Status))
			return
		}
		want := p.want(byte(i))
		if r.Method == "HEAD" || bodiless(p.Status) {
			want = nil
		}
		if !bytes.Equal(m.Body, want) {
			fail("body", fmt.Sprintf("response %d: decoded body has %d bytes, handler produced %d (first difference at %d)", i, len(m.Body), len(want), firstDiff(m.Body, want)))
			return
		}
		if v, ok := m.Get("X-H"); !ok || v != "v" {
			fail("header", fmt.Sprintf("response %d: header X-H set by the handler is missing", i))
			return
		}
		if m.Chunked && p.Trailer && r.Method != "HEAD" && !bodiless(p.Status) {
			found := false
			for _, t := range m.Trailers {
				if strings.EqualFold(t.Name, "X-Tr") && t.Value == "tv" {
					found = true
				}
			}
			if !found {
				fail("trailer", fmt.Sprintf("response %d is chunked and the handler set trailer X-Tr, but the decoded trailers are %v", i, m.Trailers))
				return
			}
		}
		if p.Status/100 == 1 || p.Status == 204 {
			// framing matching the bytes sent: a response that cannot have a body announces none (RFC 7230 3.3.1, 3.3.2)
			if v, ok := m.Get("Transfer-Encoding"); ok {
				fail("bodiless-announces-body", fmt.Sprintf("response %d has status %d and carries Transfer-Encoding: %s", i, p.Status, v))
				return
			}
			if v, ok := m.Get("Content-Length"); ok && v != "0" {
				fail("bodiless-announces-body", fmt.Sprintf("response %d has status %d and carries Content-Length: %s", i, p.Status, v))
				return
			}
		}
		if len(m.GetAll("Content-Length")) > 1 {
			fail("dup-cl", fmt.Sprintf("response %d carries %d Content-Length fields", i, len(m.GetAll("Content-Length"))))
			return
		}
		// only what the handler itself set is demanded (the property does not require the server to announce its own close)
		last := p.Close
		if last && !m.ToClose {
			fail("close-not-announced", fmt.Sprintf("response %d: the handler called SetConnectionClose but the response does not carry Connection: close", i))
			return
		}
	}
}

func firstDiff(a, b []byte) int {
	for i := 0; i < len(a) && i < len(b); i++ {
		if a[i] != b[i] {
			return i
		}
	}
	if len(a) < len(b) {
		return len(a)
	}
	return len(b)
}

func clip(b []byte) string {
	if len(b) > 400 {
		return string(b[:400]) + "..."
	}
	return string(b)
}

var statuses = []int{101, 200, 204, 206, 301, 304, 404, 500}
var sizes = []int{0, 1, 4095, 4096, 4097, 8191, 8192, 8193}

func hijackOps() []string {
	al := "01kfra" // 'a': ctx.AbortWithMsg in the middle of the hijacked response (an error after part of the body went out) // 'r': Write(4096) from ONE buffer the handler refills before every such write (io.Copy does that)
	var out []string
	var rec func(s string)
	rec = func(s string) {
		out = append(out, s)
		if len(s) == 3 {
			return
		}
		for _, ch := range al {
			rec(s + string(ch))
		}
	}
	rec("")
	return out
}

func programs(thorough bool) []Prog {
	var out []Prog
	for _, st := range statuses {
		for _, cl := range []bool{false, true} {
			out = append(out, Prog{Status: st, Body: BNone, Close: cl})
			for _, n := range sizes {
				out = append(out, Prog{Status: st, Body: BSetBody, Size: n, Close: cl}, Prog{Status: st, Body: BAppendWrite, Size: n, Close: cl})
				for _, b := range []int{BStreamLen, BStreamChunked, BStreamLimited} {
					for _, rd := range []int{RAll, ROne, R4096} {
						if rd == ROne && n > 4097 && !thorough {
							continue
						}
						for _, ihf := range []bool{false, true} {
							for _, tr := range []bool{false, true} {
								if tr && b != BStreamChunked {
									continue
								}
								out = append(out, Prog{Status: st, Body: b, Size: n, Reader: rd, IHF: ihf, Trailer: tr, Close: cl})
							}
						}
					}
				}
			}
			for _, n := range []int{0, 1, 4097} {
				for _, b := range []int{BAbortMsg, BString, BData, BRaw} {
					out = append(out, Prog{Status: st, Body: b, Size: n, Close: cl})
				}
			}
			if st == 404 {
				out = append(out, Prog{Status: st, Body: BNotFound, Close: cl})
			}
			for _, pre := range []int{BSetBody, BRaw, BStreamLen, BStreamChunked} {
				for _, b := range []int{BSetBody, BRaw, BString, BData, BStreamLen, BStreamChunked, BAppendWrite} {
					if (b == BAppendWrite || b == BString || b == BData) && (pre == BSetBody || pre == BRaw) {
						continue // these append (ctx.Write underneath): appending to a body is not overriding it
					}
					for _, n := range []int{0, 5, 4097} {
						out = append(out, Prog{Status: st, Body: b, Size: n, Close: cl, Pre: pre})
						// (for a status without a body String / Data leave the stream in place; a stream that stays the body and
						// whose Close fails makes the write fail - the application's own error, not an override)
						if (pre == BStreamLen || pre == BStreamChunked) && n != 0 && st >= 200 && st != 204 && st != 304 {
							out = append(out, Prog{Status: st, Body: b, Size: n, Close: cl, Pre: pre, PreCloseErr: true})
						}
					}
				}
			}
			for _, n := range []int{0, 1, 5, 4097} {
				for _, b := range []int{BSetBody, BAppendWrite, BStreamLen, BStreamChunked, BStreamLimited} {
					out = append(out, Prog{Status: st, Body: b, Size: n, Close: cl, StatusLast: true})
				}
			}
			for _, n := range []int{0, 5, 4097} {
				for _, rd := range []int{RAll, R4096} {
					out = append(out, Prog{Status: st, Body: BStreamLimited, Size: n, Reader: rd, Close: cl, LimitExtra: 1019})
				}
			}
			if st == 200 || st == 204 {
				for te := 1; te < nTE; te++ {
					for _, n := range []int{0, 1, 4097} {
						out = append(out, Prog{Status: st, Body: BSetBody, Size: n, Close: cl, TE: te}, Prog{Status: st, Body: BStreamLen, Size: n, Close: cl, TE: te},
							Prog{Status: st, Body: BStreamChunked, Size: n, Close: cl, TE: te})
					}
				}
			}
			if !bodiless(st) {
				for _, ops := range hijackOps() {
					for _, tr := range []bool{false, true} {
						out = append(out, Prog{Status: st, Body: BHijack, Ops: ops, Trailer: tr, Close: cl})
					}
				}
			}
		}
	}
	return out
}

var reqKinds = []Req{
	{Method: "GET"}, {Method: "POST"}, {Method: "HEAD"},
	{Method: "GET", Close: true}, {Method: "HEAD", Close: true},
	{Method: "GET", V10: true}, {Method: "GET", V10: true, KA10: true}, {Method: "HEAD", V10: true, KA10: true}, {Method: "POST", V10: true},
}

func reducedProgs() []Prog {
	return []Prog{
		{Status: 200, Body: BNone},
		{Status: 204, Body: BNone},
		{Status: 304, Body: BSetBody, Size: 5},
		{Status: 200, Body: BSetBody, Size: 0},
		{Status: 200, Body: BSetBody, Size: 1},
		{Status: 200, Body: BSetBody, Size: 4096},
		{Status: 404, Body: BAppendWrite, Size: 4097},
		{Status: 200, Body: BStreamLen, Size: 1},
		{Status: 200, Body: BStreamLen, Size: 8193, Reader: R4096},
		{Status: 200, Body: BStreamLen, Size: 4096, Reader: ROne, IHF: true},
		{Status: 200, Body: BStreamChunked, Size: 0},
		{Status: 200, Body: BStreamChunked, Size: 1, Trailer: true},
		{Status: 200, Body: BStreamChunked, Size: 4097, Reader: R4096},
		{Status: 500, Body: BStreamChunked, Size: 8192, IHF: true, Trailer: true},
		{Status: 200, Body: BStreamLimited, Size: 4095},
		{Status: 200, Body: BStreamLimited, Size: 8193, Reader: R4096},
		{Status: 200, Body: BHijack, Ops: ""},
		{Status: 200, Body: BHijack, Ops: "1"},
		{Status: 200, Body: BHijack, Ops: "1f1"},
		{Status: 200, Body: BHijack, Ops: "kfk", Trailer: true},
		{Status: 200, Body: BHijack, Ops: "01"},
		{Status: 206, Body: BSetBody, Size: 2},
		{Status: 301, Body: BNone},
		{Status: 101, Body: BNone},
		{Status: 204, Body: BStreamChunked, Size: 3},
		{Status: 200, Body: BStreamLen, Size: 0},
		{Status: 403, Body: BAbortMsg, Size: 6},
		{Status: 404, Body: BNotFound},
		{Status: 200, Body: BString, Size: 1},
		{Status: 200, Body: BStreamLen, Size: 1, TE: TEAddLower},
		{Status: 200, Body: BSetBody, Size: 3, TE: TESetLowerNN},
		{Status: 200, Body: BStreamChunked, Size: 5, TE: TECLCorrect},
		{Status: 204, Body: BStreamLen, Size: 5, StatusLast: true},
		{Status: 200, Body: BHijack, Ops: "rr"},
		{Status: 200, Body: BRaw, Size: 23},
		{Status: 404, Body: BHijack, Ops: "1f1"},
		{Status: 200, Body: BHijack, Ops: "1H1"},
		{Status: 200, Body: BHijack, Ops: "kHf1"},
		{Status: 200, Body: BSetBody, Size: 5, Pre: BStreamChunked},
		{Status: 200, Body: BStreamLen, Size: 3, Pre: BStreamChunked},
	}
}

func run(c *mc.Ctx) {
	ex := c.Counter("executions")
	nt := c.Counter("nontrivial")
	tr := c.Counter("transitions")
	progs := programs(c.Thorough())
	c.Extra("programs", len(progs))
	c.Extra("request_kinds", len(reqKinds))
	pool := make(chan *worker, 64)
	getW := func() *worker {
		select {
		case w := <-pool:
			return w
		default:
			return newWorker()
		}
	}
	c.Sample(Case{Reqs: []Req{{Method: "GET"}}, Progs: []Prog{{Status: 200, Body: BHijack, Ops: "1f0"}}})
	// singles
	c.ParallelFor(len(progs), func(i int) {
		w := getW()
		defer func() { pool <- w }()
		p := progs[i]
		for _, r := range reqKinds {
			if p.Body == BHijack && r.Method == "HEAD" {
				continue // documented exclusion
			}
			w.exec(c, Case{Reqs: []Req{r}, Progs: []Prog{p}})
			atomic.AddInt64(ex, 1)
			atomic.AddInt64(tr, 1)
			if p.Body != BNone {
				atomic.AddInt64(nt, 1)
			}
		}
	})
	// further request kinds on a reduced program list: Expect: 100-continue from HTTP/1.1 and HTTP/1.0 clients, and the
	// programs run as the NoRoute handler; heads above 4 KiB through every body API
	extraReqs := []Req{{Method: "POST", Expect: true}, {Method: "POST", V10: true, KA10: true, Expect: true}, {Method: "POST", V10: true, Expect: true},
		{Method: "GET", NoRoute: true}, {Method: "HEAD", NoRoute: true}}
	rp0 := reducedProgs()
	c.ParallelFor(len(rp0), func(i int) {
		w := getW()
		defer func() { pool <- w }()
		for _, big := range []bool{false, true} {
			p := rp0[i]
			p.BigHead = big
			reqs := extraReqs
			if big {
				reqs = append([]Req{{Method: "GET"}, {Method: "HEAD"}}, extraReqs...)
			}
			for _, r := range reqs {
				if p.Body == BHijack && r.Method == "HEAD" {
					continue
				}
				if r.NoRoute && (p.Body == BNone || p.Body == BNotFound || p.Size == 0 && p.Body != BHijack || p.Body == BHijack && !strings.ContainsAny(p.Ops, "1kr") || bodiless(p.Status)) {
					continue // no body sent: the engine supplies its default text
				}
				w.exec(c, Case{Reqs: []Req{r, {Method: "GET"}}, Progs: []Prog{p, {Status: 200, Body: BSetBody, Size: 3}}})
				atomic.AddInt64(ex, 1)
				atomic.AddInt64(tr, 2)
				atomic.AddInt64(nt, 1)
			}
		}
	})
	// pairs on one keep-alive connection
	rp := reducedProgs()
	if c.Thorough() {
		// pairs over every program of the full list with a boundary-relevant size and no handler-side close
		seen := map[string]bool{}
		for _, p := range progs {
			if p.Close || !(p.Size == 0 || p.Size == 1 || p.Size == 4097 || p.Size == 8193) || (p.Body == BHijack && len(p.Ops) > 2) {
				continue
			}
			if p.Status != 200 && p.Status != 204 && p.Status != 304 && p.Status != 404 {
				continue
			}
			k := fmt.Sprintf("%+v", p)
			if !seen[k] {
				seen[k] = true
				rp = append(rp, p)
			}
		}
	}
	c.Extra("reduced_programs", len(rp))
	firstReqs := []Req{{Method: "GET"}, {Method: "HEAD"}, {Method: "POST"}, {Method: "GET", V10: true, KA10: true}}
	secondReqs := []Req{{Method: "GET"}, {Method: "HEAD"}, {Method: "GET", Close: true}}
	n := len(rp)
	c.Sample(Case{Reqs: []Req{{Method: "HEAD"}, {Method: "GET"}}, Progs: []Prog{rp[8], rp[12]}})
	c.ParallelFor(n*n, func(i int) {
		w := getW()
		defer func() { pool <- w }()
		a, b := rp[i/n], rp[i%n]
		for _, r1 := range firstReqs {
			for _, r2 := range secondReqs {
				if (a.Body == BHijack && r1.Method == "HEAD") || (b.Body == BHijack && r2.Method == "HEAD") {
					continue
				}
				w.exec(c, Case{Reqs: []Req{r1, r2}, Progs: []Prog{a, b}})
				atomic.AddInt64(ex, 1)
				atomic.AddInt64(tr, 2)
				atomic.AddInt64(nt, 1)
			}
		}
	})
	// triples over a tiny set: what a response leaves on the recycled context (buffers, raw body, stream) meets a later
	// response that sets no body or another kind of body
	tiny := []Prog{{Status: 200, Body: BSetBody, Size: 5}, {Status: 200, Body: BRaw, Size: 23}, {Status: 200, Body: BNone}, {Status: 200, Body: BStreamLen, Size: 3},
		{Status: 200, Body: BStreamChunked, Size: 2}, {Status: 301, Body: BNone}, {Status: 200, Body: BAppendWrite, Size: 4}}
	nt3 := len(tiny)
	c.ParallelFor(nt3*nt3*nt3, func(i int) {
		w := getW()
		defer func() { pool <- w }()
		for _, last := range []string{"GET", "HEAD"} {
			w.exec(c, Case{Reqs: []Req{{Method: "GET"}, {Method: "POST"}, {Method: last}}, Progs: []Prog{tiny[i/(nt3*nt3)], tiny[(i/nt3)%nt3], tiny[i%nt3]}})
			atomic.AddInt64(ex, 1)
			atomic.AddInt64(tr, 3)
			atomic.AddInt64(nt, 1)
		}
	})
	if c.Thorough() {
		// triples over the small reduced set (GET only)
		rp = reducedProgs()
		n = len(rp)
		c.ParallelFor(n*n*n, func(i int) {
			w := getW()
			defer func() { pool <- w }()
			w.exec(c, Case{Reqs: []Req{{Method: "GET"}, {Method: "GET"}, {Method: "GET"}}, Progs: []Prog{rp[i/(n*n)], rp[(i/n)%n], rp[i%n]}})
			atomic.AddInt64(ex, 1)
			atomic.AddInt64(tr, 3)
			atomic.AddInt64(nt, 1)
		})
	}
}

func replay(c *mc.Ctx, raw json.RawMessage) {
	var cs Case
	if json.Unmarshal(raw, &cs) != nil {
		return
	}
	newWorker().exec(c, cs)
}
