// Package c01: the server frames and orders requests on a connection exactly as the wire says.
// Bounded-exhaustive enumeration of request descriptions (singles: full product; pairs and
// triples over a reduced alphabet), each delivered under several segmentations to the real
// Engine.Serve over a scripted connection; the expectation is derived from the description.
package c01

import (
	"bytes"
	"encoding/json"
	"fmt"
	"github.com/cloudwego/hertz/pkg/app"
	"github.com/cloudwego/hertz/pkg/protocol"
	"io"
	"strings"
	"sync/atomic"

	"verifh/httpref"
	"verifh/mc"
	"verifh/netsim"
	"verifh/srvh"
	"verifh/wire"
)

var Check = &mc.Check{
	ID:    "C01",
	Level: "model_checking",
	Rule: "request descriptions = method x version x framing{none,CL,chunked,chunked+trailer,CL+Expect,chunked+Expect} x body length{0,1,2,4095..4097,8191..8193,65537} x chunk partition x CL-name spelling x near-miss framing name x extra header shape{plain,folded,empty,40 headers} x close; " +
		"singles: full (pruned) product; pairs/triples: all ordered tuples over a reduced alphabet; each stream delivered whole, byte-wise and cut at every message boundary -1/0/+1, buffered and streaming; " +
		"non-trivial = streams with a body, a fold, a near-miss name or more than one request",
	Run:    run,
	Replay: replay,
	Assumptions: []string{
		"standard transport only (netpoll not driven, see DESIGN.md section 8)",
		"the expectation is computed from the request description by package wire; httpref splits the response stream",
	},
}

type Case struct {
	Specs     []wire.Spec `json:"specs"`
	Seg       string      `json:"seg"`
	Streaming bool        `json:"streaming"`
}

func segment(stream []byte, bounds []int, seg string) [][]byte {
	switch seg {
	case "bytewise":
		return netsim.Bytewise(stream)
	case "bound-1", "bound0", "bound+1":
		d := map[string]int{"bound-1": -1, "bound0": 0, "bound+1": 1}[seg]
		var cuts []int
		for _, b := range bounds {
			cuts = append(cuts, b+d)
		}
		return netsim.Segment(stream, cuts)
	}
	return [][]byte{append([]byte(nil), stream...)}
}

func headerCount(hs []httpref.Header, name string) (n int, vals []string) {
	for _, h := range hs {
		if asciiEqualFold(h.Name, name) {
			n++
			vals = append(vals, wire.NormVal(h.Value))
		}
	}
	return
}

// asciiEqualFold: field names are compared byte-wise with ASCII letters folded (Unicode folding would equate
// U+017F with 's', which is exactly the confusion a near-miss name probes).
func asciiEqualFold(a, b string) bool {
	if len(a) != len(b) {
		return false
	}
	for i := 0; i < len(a); i++ {
		x, y := a[i], b[i]
		if 'A' <= x && x <= 'Z' {
			x += 'a' - 'A'
		}
		if 'A' <= y && y <= 'Z' {
			y += 'a' - 'A'
		}
		if x != y {
			return false
		}
	}
	return true
}

// Judge compares one execution with the expectations. It returns "" or (kind, message).
func Judge(res *srvh.Result, exps []wire.Expect) (kind, msg string) {
	if res.Panic != nil {
		return "panic", fmt.Sprintf("panic escaped Engine.Serve: %v\n%s", res.Panic, res.Stack)
	}
	// requests the server must serve: up to and including the first one that closes the connection
	served := exps
	for i, e := range exps {
		if e.Close {
			served = exps[:i+1]
			break
		}
	}
	// An invalid field name (bare CR in the name) may be rejected instead: then the prefix is served and a 4xx closes.
	rejectAt := -1
	for i, e := range served {
		if e.Declined {
			// the engine declines to read this body: no handler may be shown the request without the body that belongs to it,
			// the answer is the 4xx (417) with Connection: close, and - the body the client sent anyway being
			// indistinguishable from further requests - nothing after this request is served
			served = served[:i+1]
			rejectAt = i
			break
		}
		if e.InvalidName && len(res.Seen) == i {
			rejectAt = i
			break
		}
	}
	want := served
	if rejectAt >= 0 {
		want = served[:rejectAt]
	}
	if len(res.Seen) != len(want) {
		return "handler-count", fmt.Sprintf("handlers ran %d times, the wire carries %d requests to serve", len(res.Seen), len(want))
	}
	for i, e := range want {
		s := res.Seen[i]
		if s.Method != e.Method || s.URI != e.Target {
			return "request-line", fmt.Sprintf("request %d: handler saw %s %s, wire says %s %s", i, s.Method, s.URI, e.Method, e.Target)
		}
		if e.BodyOpaque || e.Declined {
			s.BodyErr, s.Body = "", e.Body
		}
		if s.BodyErr != "" {
			return "body-error", fmt.Sprintf("request %d: reading the body failed: %s", i, s.BodyErr)
		}
		if !bytes.Equal(s.Body, e.Body) {
			return "body", fmt.Sprintf("request %d: handler saw %d body bytes, wire says %d (first difference at %d)", i, len(s.Body), len(e.Body), firstDiff(s.Body, e.Body))
		}
		for _, h := range e.Custom {
			nw, wv := headerCount(e.Custom, h.Name)
			ng, gv := headerCount(s.Headers, h.Name)
			if nw != ng || strings.Join(wv, "\x00") != strings.Join(gv, "\x00") {
				return "header", fmt.Sprintf("request %d: field %q: handler saw %q, wire says %q", i, h.Name, gv, wv)
			}
		}
		for _, h := range s.Headers {
			if strings.HasPrefix(strings.ToLower(h.Name), "x-") {
				if n, _ := headerCount(e.Custom, h.Name); n == 0 {
					return "foreign-header", fmt.Sprintf("request %d: handler saw field %q: %q that this request does not carry", i, h.Name, h.Value)
				}
			}
		}
		for _, h := range e.Trailers {
			_, wv := headerCount(e.Trailers, h.Name)
			_, gv := headerCount(s.Trailers, h.Name)
			if strings.Join(wv, "\x00") != strings.Join(gv, "\x00") {
				return "trailer", fmt.Sprintf("request %d: trailer %q: handler saw %q, wire says %q", i, h.Name, gv, wv)
			}
		}
	}
	for _, m := range res.SC.EndReadMarks {
		if m == 1 {
			return "handler-blocked", "a handler read blocked waiting for bytes beyond the request body (whole stream already delivered)"
		}
	}
	// responses
	var methods []string
	for _, e := range served {
		methods = append(methods, e.Method)
	}
	ms, err := httpref.ParseResponses(res.Out, methods, true)
	if err != nil {
		return "response-stream", fmt.Sprintf("server output is not a sequence of well-formed responses: %v; output=%q", err, clip(res.Out))
	}
	k := 0
	pendingInterim := 0
	for _, m := range ms {
		if m.Status == 100 {
			pendingInterim++
			continue
		}
		if rejectAt >= 0 && k == rejectAt {
			if m.Status/100 != 4 || !m.ToClose {
				return "reject-discipline", fmt.Sprintf("request %d (invalid field name, or declined Expect) was not handled, but the answer is %d close=%v", k, m.Status, m.ToClose)
			}
			k++
			continue
		}
		if k >= len(want) {
			return "extra-response", fmt.Sprintf("more final responses than requests: extra %d %q", m.Status, clip(m.Body))
		}
		e := want[k]
		if e.Declined {
			if pendingInterim != 0 {
				return "interim", fmt.Sprintf("request %d was declined but got an interim 100 response", k)
			}
			k++
			continue
		}
		if m.Status != 200 {
			return "status", fmt.Sprintf("request %d answered %d instead of 200", k, m.Status)
		}
		wantInterim := 0
		if e.Expect100 {
			wantInterim = 1
		}
		if pendingInterim != wantInterim {
			return "interim", fmt.Sprintf("request %d: %d interim 100 responses, expected %d", k, pendingInterim, wantInterim)
		}
		pendingInterim = 0
		if e.Method != "HEAD" {
			id, _ := headerCount(e.Custom, "X-Id")
			_ = id
			pre := fmt.Sprintf("id=%s;uri=%s;n=%d;", e.Custom[0].Value, e.Target, len(e.Body))
			if e.BodyOpaque { // the echoed length is that of the re-assembled form, not of the wire body
				pre = fmt.Sprintf("id=%s;uri=%s;n=", e.Custom[0].Value, e.Target)
				if i := strings.LastIndex(string(m.Body), "n="); i >= 0 {
					m.Body = m.Body[:i+2]
				}
			}
			if string(m.Body) != pre {
				return "response-order", fmt.Sprintf("response %d is %q, expected the answer to request %d (%q)", k, clip(m.Body), k, pre)
			}
		}
		k++
	}
	wantFinal := len(want)
	if rejectAt >= 0 {
		wantFinal++
	}
	if k != wantFinal {
		return "response-count", fmt.Sprintf("%d final responses for %d requests", k, wantFinal)
	}
	return "", ""
}

func firstDiff(a, b []byte) int {
	for i := 0; i < len(a) && i < len(b); i++ {
		if a[i] != b[i] {
			return i
		}
	}
	if len(a) < len(b) {
		return len(a)
	}
	return len(b)
}

func clip(b []byte) string {
	if len(b) > 300 {
		return string(b[:300]) + "..."
	}
	return string(b)
}

type worker struct {
	buf, str *srvh.Server
}

func newWorker() *worker {
	w := &worker{buf: srvh.New(srvh.Opts{}), str: srvh.New(srvh.Opts{Streaming: true})}
	// the streaming handler reads with changing buffer sizes (the second read spans the end of the 8 KiB the server
	// prefetches; aligned and 1-byte-granular reads follow)
	w.str.BodyReader = func(ctx *app.RequestContext, r io.Reader, sn *srvh.Seen) {
		sizes := []int{5000, 4096, 7, 16384}
		buf := make([]byte, 16384)
		for i := 0; ; i++ {
			n, err := r.Read(buf[:sizes[i%len(sizes)]])
			sn.Body = append(sn.Body, buf[:n]...)
			if err != nil {
				if err != io.EOF {
					sn.BodyErr = err.Error()
				}
				return
			}
			if len(sn.Body) > 1<<24 || i > 1<<20 {
				sn.BodyErr = "harness: body over 16 MiB, giving up"
				return
			}
		}
	}
	for _, s := range []*srvh.Server{w.buf, w.str} {
		s.E.ContinueHandler = func(h *protocol.RequestHeader) bool { return len(h.Peek("X-Decline")) == 0 }
		s.EchoAll()
		s.Start()
	}
	return w
}

func (w *worker) exec(c *mc.Ctx, cs Case) {
	var stream []byte
	var exps []wire.Expect
	var bounds []int
	for _, sp := range cs.Specs {
		b, e := wire.Build(sp)
		stream = append(stream, b...)
		exps = append(exps, e)
		bounds = append(bounds, len(stream))
	}
	bounds = bounds[:len(bounds)-1+1]
	s := w.buf
	if cs.Streaming {
		s = w.str
	}
	res := s.Run(segment(stream, bounds, cs.Seg), netsim.EndEOF, nil)
	kind, msg := Judge(res, exps)
	c.Distinct("outcomes", fmt.Sprintf("handlers=%d|out=%dB|closed=%v|err=%v|%s", len(res.Seen), len(res.Out)/64*64, res.Closed, res.Err != nil, kind))
	if kind != "" {
		f := cs.Specs[0]
		for _, sp := range cs.Specs {
			if sp.NearMiss != 0 || sp.Extra != 0 {
				f = sp
				break
			}
		}
		key := fmt.Sprintf("%s|n=%d|framing=%d|nearmiss=%q|extra=%d|streaming=%v", kind, len(cs.Specs), f.Framing, wire.NearMissNames[f.NearMiss], f.Extra, cs.Streaming)
		c.Violate(key, msg, cs)
	}
}

var bodyLens = []int{0, 1, 2, 4095, 4096, 4097, 8191, 8192, 8193, 65537}

func singles(thorough bool) []wire.Spec {
	var out []wire.Spec
	id := 0
	add := func(s wire.Spec) {
		id++
		s.ID = fmt.Sprintf("s%d", id)
		s.Target = fmt.Sprintf("/p%d?q=%d", id%7, id)
		out = append(out, s)
	}
	nms := len(wire.NearMissNames)
	for _, m := range []string{"GET", "POST", "PUT", "HEAD"} {
		for _, v10 := range []bool{false, true} {
			for nm := 0; nm < nms; nm++ {
				for x := 0; x <= wire.XMany; x++ {
					for _, cl := range []bool{false, true} {
						base := wire.Spec{Method: m, V10: v10, KeepAl10: v10, NearMiss: nm, Extra: x, Close: cl}
						add(base) // no body
						if m == "HEAD" {
							continue
						}
						for _, n := range bodyLens {
							if !thorough && (nm != 0 && x != 0) && n != 1 && n != 4097 {
								continue // quick tier: the three-way product nearmiss x extra x length only at two lengths
							}
							for cn := 0; cn <= wire.NRepeat; cn++ {
								s := base
								s.Framing, s.BodyLen, s.CLName = wire.FCL, n, cn
								add(s)
								if !v10 {
									s.Framing = wire.FCLExpect
									add(s)
								}
							}
							if v10 {
								continue
							}
							for p := 0; p <= wire.PThree; p++ {
								if n == 0 && p > 0 {
									continue
								}
								s := base
								s.Framing, s.BodyLen, s.Part = wire.FChunked, n, p
								add(s)
								s.Framing = wire.FChunkedTrailer
								s.TENameMixed = p == wire.PHexUpper
								add(s)
								if p == wire.POne {
									u := s
									u.TrUnannounced = true
									add(u)
								}
								if p == wire.POne || p == wire.PThree {
									s.Framing = wire.FChunkedExpect
									add(s)
								}
							}
						}
					}
				}
			}
		}
	}
	return out
}

// reduced alphabet for pairs and triples
func reduced() []wire.Spec {
	S := func(m string, f, n int) wire.Spec { return wire.Spec{Method: m, Framing: f, BodyLen: n} }
	rs := []wire.Spec{
		S("GET", wire.FNone, 0),
		S("HEAD", wire.FNone, 0),
		S("POST", wire.FCL, 0),
		S("POST", wire.FCL, 1),
		S("POST", wire.FCL, 4096),
		S("PUT", wire.FCL, 8193),
		S("POST", wire.FCL, 65537),
		S("POST", wire.FChunked, 0),
		S("POST", wire.FChunked, 1),
		S("POST", wire.FChunked, 4097),
		S("PUT", wire.FChunked, 8193),
		S("POST", wire.FChunkedTrailer, 2),
		S("POST", wire.FChunkedTrailer, 8192),
		S("POST", wire.FCLExpect, 4095),
		S("GET", wire.FCL, 2),
		S("POST", wire.FChunkedExpect, 3),
		S("PUT", wire.FChunkedExpect, 8193),
	}
	// trailer field names are tokens: digits, dots and other tchars are as good as letters
	for _, tn := range []string{"0-Trace", "007", "x.y", "a0"} {
		s := S("POST", wire.FChunkedTrailer, 3)
		s.TrName = tn
		rs = append(rs, s)
	}
	with := func(s wire.Spec, f func(*wire.Spec)) wire.Spec { f(&s); return s }
	rs = append(rs,
		with(S("POST", wire.FChunked, 4096), func(s *wire.Spec) { s.Part = wire.PBytes1 }),
		with(S("POST", wire.FChunked, 8193), func(s *wire.Spec) { s.Part = wire.PSplit4096 }),
		with(S("POST", wire.FChunked, 65537), func(s *wire.Spec) { s.Part = wire.PThree }),
		with(S("POST", wire.FChunkedTrailer, 4097), func(s *wire.Spec) { s.Part = wire.PHexUpper; s.TENameMixed = true }),
		with(S("POST", wire.FChunked, 2), func(s *wire.Spec) { s.Part = wire.PLeadZero }),
		with(S("POST", wire.FCL, 2), func(s *wire.Spec) { s.CLName = wire.NMixed }),
		with(S("POST", wire.FCL, 4097), func(s *wire.Spec) { s.CLName = wire.NRepeat }),
		with(S("GET", wire.FNone, 0), func(s *wire.Spec) { s.NearMiss = 1 }),
		with(S("GET", wire.FNone, 0), func(s *wire.Spec) { s.NearMiss = 2 }),
		with(S("POST", wire.FCL, 1), func(s *wire.Spec) { s.NearMiss = 3 }),
		with(S("GET", wire.FNone, 0), func(s *wire.Spec) { s.NearMiss = 4 }),
		with(S("GET", wire.FNone, 0), func(s *wire.Spec) { s.NearMiss = 6 }),
		with(S("GET", wire.FNone, 0), func(s *wire.Spec) { s.NearMiss = 7 }),
		with(S("POST", wire.FCL, 2), func(s *wire.Spec) { s.NearMiss = 8 }),
		with(S("GET", wire.FNone, 0), func(s *wire.Spec) { s.Extra = wire.XFoldSP }),
		with(S("POST", wire.FCL, 2), func(s *wire.Spec) { s.Extra = wire.XFoldTab }),
		with(S("POST", wire.FChunked, 2), func(s *wire.Spec) { s.Extra = wire.XFold2 }),
		with(S("GET", wire.FNone, 0), func(s *wire.Spec) { s.Extra = wire.XEmpty }),
		with(S("POST", wire.FCL, 1), func(s *wire.Spec) { s.Extra = wire.XMany }),
		with(S("GET", wire.FNone, 0), func(s *wire.Spec) { s.Extra = wire.XMany }),
		with(S("GET", wire.FNone, 0), func(s *wire.Spec) { s.Close = true }),
		with(S("POST", wire.FCL, 2), func(s *wire.Spec) { s.V10 = true; s.KeepAl10 = true }),
		with(S("GET", wire.FNone, 0), func(s *wire.Spec) { s.V10 = true }),
		with(S("POST", wire.FChunkedTrailer, 1), func(s *wire.Spec) { s.Close = true }),
		with(S("POST", wire.FCLExpect, 8193), func(s *wire.Spec) { s.Extra = wire.XFoldSP }),
		with(S("POST", wire.FChunkedTrailer, 2), func(s *wire.Spec) { s.TrUnannounced = true }),
		with(S("POST", wire.FChunkedTrailer, 2), func(s *wire.Spec) { s.TrListTab = true }),
		with(S("GET", wire.FNone, 0), func(s *wire.Spec) { s.Extra = wire.XTabOWS }),
		with(S("POST", wire.FCL, 5), func(s *wire.Spec) { s.Extra = wire.XFoldColon }),
		with(S("POST", wire.FCL, 5), func(s *wire.Spec) { s.TabFraming = true }),
		// the framing value starts on a continuation line, every indentation of up to three blanks
		with(S("POST", wire.FCL, 5), func(s *wire.Spec) { s.FoldFraming = 1 }),
		with(S("POST", wire.FCL, 5), func(s *wire.Spec) { s.FoldFraming = 2 }),
		with(S("POST", wire.FCL, 5), func(s *wire.Spec) { s.FoldFraming = 3 }),
		with(S("POST", wire.FCL, 5), func(s *wire.Spec) { s.FoldFraming = 4 }),
		with(S("POST", wire.FCL, 5), func(s *wire.Spec) { s.FoldFraming = 7 }),
		with(S("POST", wire.FChunked, 5), func(s *wire.Spec) { s.FoldFraming = 3 }),
		with(S("POST", wire.FChunked, 5), func(s *wire.Spec) { s.TabFraming = true }),
		with(S("POST", wire.FChunked, 5), func(s *wire.Spec) { s.LongChunkSize = true }),
		with(S("POST", wire.FCLExpect, 5), func(s *wire.Spec) { s.Decline = true }),
		with(S("POST", wire.FChunkedExpect, 3), func(s *wire.Spec) { s.Decline = true }),
		with(S("POST", wire.FCL, 120), func(s *wire.Spec) { s.Multipart = true }),
		with(S("POST", wire.FCL, 5000), func(s *wire.Spec) { s.Multipart = true }),
		with(S("POST", wire.FCL, 8300), func(s *wire.Spec) { s.Multipart = true }),
		with(S("POST", wire.FChunked, 3), func(s *wire.Spec) { s.ChunkExt = true }),
		with(S("POST", wire.FChunkedTrailer, 4097), func(s *wire.Spec) { s.ChunkExt = true; s.Part = wire.PThree }),
		with(S("POST", wire.FChunkedTrailer, 4097), func(s *wire.Spec) { s.TrUnannounced = true; s.TrName = "X-Checksum" }),
	)
	for i := range rs {
		rs[i].ID = fmt.Sprintf("r%d", i)
		rs[i].Target = fmt.Sprintf("/r%d", i)
	}
	return rs
}

func nontrivial(specs []wire.Spec) bool {
	if len(specs) > 1 {
		return true
	}
	s := specs[0]
	return s.Framing != wire.FNone || s.NearMiss != 0 || s.Extra >= wire.XFoldSP
}

func run(c *mc.Ctx) {
	ex := c.Counter("executions")
	nt := c.Counter("nontrivial")
	tr := c.Counter("transitions")
	segsAll := []string{"whole", "bytewise", "bound-1", "bound0", "bound+1"}
	runCases := func(n int, gen func(i int) [][]wire.Spec, segs func(specs []wire.Spec) []string, tag string) {
		workers := make(chan *worker, 64)
		c.ParallelFor(n, func(i int) {
			var w *worker
			select {
			case w = <-workers:
			default:
				w = newWorker()
			}
			for _, specs := range gen(i) {
				for _, streaming := range []bool{false, true} {
					for _, seg := range segs(specs) {
						cs := Case{Specs: specs, Seg: seg, Streaming: streaming}
						w.exec(c, cs)
						atomic.AddInt64(ex, 1)
						atomic.AddInt64(tr, int64(len(specs)))
						if nontrivial(specs) {
							atomic.AddInt64(nt, 1)
						}
					}
				}
			}
			workers <- w
		})
		c.Extra("completed_"+tag, !c.Expired())
	}
	// singles
	ss := singles(c.Thorough())
	c.Extra("singles", len(ss))
	c.Sample(Case{Specs: []wire.Spec{ss[len(ss)/3]}, Seg: "bytewise", Streaming: true})
	runCases(len(ss), func(i int) [][]wire.Spec { return [][]wire.Spec{{ss[i]}} }, func(specs []wire.Spec) []string {
		if specs[0].BodyLen > 9000 || specs[0].Extra == wire.XMany {
			if c.Thorough() {
				return []string{"whole", "bytewise", "bound-1"}
			}
			return []string{"whole", "bound-1"}
		}
		return []string{"whole", "bytewise", "bound-1"}
	}, "singles")
	// pairs
	rs := reduced()
	c.Extra("reduced_alphabet", len(rs))
	n := len(rs)
	c.Sample(Case{Specs: []wire.Spec{rs[9], rs[22]}, Seg: "bound+1"})
	pairSegs := func(specs []wire.Spec) []string {
		big := 0
		for _, s := range specs {
			big += s.BodyLen
		}
		if big > 20000 {
			return []string{"whole", "bound-1", "bound0", "bound+1"}
		}
		return segsAll
	}
	runCases(n*n, func(i int) [][]wire.Spec { return [][]wire.Spec{{rs[i/n], rs[i%n]}} }, pairSegs, "pairs")
	// triples
	if c.Thorough() {
		runCases(n*n*n, func(i int) [][]wire.Spec { return [][]wire.Spec{{rs[i/(n*n)], rs[(i/n)%n], rs[i%n]}} },
			func(specs []wire.Spec) []string { return []string{"whole", "bound+1"} }, "triples")
		sub := []int{0, 3, 4, 8, 9, 11, 13, 15, 22, 26, 29, 33}
		m := len(sub)
		runCases(m*m*m*m, func(i int) [][]wire.Spec {
			return [][]wire.Spec{{rs[sub[i/(m*m*m)]], rs[sub[(i/(m*m))%m]], rs[sub[(i/m)%m]], rs[sub[i%m]]}}
		}, func(specs []wire.Spec) []string { return []string{"whole", "bytewise"} }, "quadruples_sub12")
	} else {
		// quick: triples over a 12-element sub-alphabet
		sub := []int{0, 3, 4, 8, 9, 11, 13, 15, 22, 26, 29, 33}
		m := len(sub)
		runCases(m*m*m, func(i int) [][]wire.Spec {
			return [][]wire.Spec{{rs[sub[i/(m*m)]], rs[sub[(i/m)%m]], rs[sub[i%m]]}}
		}, func(specs []wire.Spec) []string { return []string{"whole", "bound+1"} }, "triples_sub12")
	}
}

func replay(c *mc.Ctx, raw json.RawMessage) {
	var cs Case
	if json.Unmarshal(raw, &cs) != nil {
		return
	}
	newWorker().exec(c, cs)
}
