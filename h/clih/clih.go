// Package clih drives the real http1.HostClient against a scripted peer.
package clih

import (
	"context"
	"crypto/tls"
	"errors"
	"fmt"
	pclient "github.com/cloudwego/hertz/pkg/protocol/client"
	"io"
	"net"
	"regexp"
	"sort"
	"strings"
	"sync"
	"sync/atomic"
	"time"

	"github.com/cloudwego/hertz/pkg/common/hlog"
	"github.com/cloudwego/hertz/pkg/network"
	"github.com/cloudwego/hertz/pkg/protocol"
	"github.com/cloudwego/hertz/pkg/protocol/http1"

	"verifh/httpref"
	"verifh/netsim"
)

func init() {
	hlog.SetOutput(io.Discard)
	hlog.SetLevel(hlog.LevelFatal)
}

// Dialer hands out scripted connections in order.
type Dialer struct {
	mu    sync.Mutex
	Conns []*netsim.ScriptConn // to be handed out
	Dials int
	Errs  map[int]error // dial #i fails
	made  []network.Conn
	// OnDial, if set, runs at every dial (in the goroutine of the exchange, after the client has reset its response)
	OnDial func()
}

var ErrNoScript = errors.New("netsim: dial beyond the script")

func (d *Dialer) DialConnection(n, address string, timeout time.Duration, tlsConfig *tls.Config) (network.Conn, error) {
	if f := d.OnDial; f != nil {
		f()
	}
	d.mu.Lock()
	defer d.mu.Unlock()
	i := d.Dials
	d.Dials++
	if e := d.Errs[i]; e != nil {
		return nil, e
	}
	if i >= len(d.Conns) {
		return nil, ErrNoScript
	}
	nc := netsim.Wrap(d.Conns[i], 0)
	d.made = append(d.made, nc)
	return nc, nil
}

func (d *Dialer) DialTimeout(n, address string, timeout time.Duration, tlsConfig *tls.Config) (net.Conn, error) {
	return nil, errors.New("not supported")
}

func (d *Dialer) AddTLS(conn network.Conn, tlsConfig *tls.Config) (network.Conn, error) {
	return nil, errors.New("not supported")
}

type Client struct {
	// SkipBodyOnce: the next Do sets Response.SkipBody before the exchange
	SkipBodyOnce bool
	D            *Dialer
	HC           *http1.HostClient
	// Tainted: a panic went through the host client; its bookkeeping (connection count, unclosed body
	// stream) is unknown, so the client is not reused for another execution.
	Tainted bool
}

func New(mod func(o *http1.ClientOptions)) *Client {
	d := &Dialer{}
	o := &http1.ClientOptions{Dialer: d, ReadTimeout: time.Hour, WriteTimeout: time.Hour, MaxConns: 8}
	if mod != nil {
		mod(o)
	}
	hc := http1.NewHostClient(o).(*http1.HostClient)
	hc.Addr = "h:80"
	return &Client{D: d, HC: hc}
}

// Reset prepares the client for the next execution: new script, no pooled connections.
func (c *Client) Reset(conns ...*netsim.ScriptConn) {
	c.HC.CloseIdleConnections()
	c.D.mu.Lock()
	// the connections of the previous execution are closed and no longer referenced by the client:
	// give their buffers back now instead of waiting for finalizers
	for _, nc := range c.D.made {
		netsim.Release(nc)
	}
	c.D.made = c.D.made[:0]
	c.D.Conns = conns
	c.D.Dials = 0
	c.D.Errs = nil
	c.D.mu.Unlock()
}

// RespObs is everything observable about one returned response.
type RespObs struct {
	Err      string           `json:"err,omitempty"`
	Panic    string           `json:"panic,omitempty"`
	Status   int              `json:"status"`
	Headers  []httpref.Header `json:"headers"`
	Body     []byte           `json:"body"`
	BodyErr  string           `json:"body_err,omitempty"`
	Trailers []httpref.Header `json:"trailers,omitempty"`
	CL       int              `json:"cl"`
	Close    bool             `json:"close"`
}

func sortHeaders(h []httpref.Header) {
	sort.SliceStable(h, func(i, j int) bool {
		if h[i].Name != h[j].Name {
			return h[i].Name < h[j].Name
		}
		return false
	})
}

// Do performs one exchange and observes the response completely (stream bodies are read to the end and closed).
func (c *Client) Do(req *protocol.Request) (o RespObs) {
	resp := protocol.AcquireResponse()
	if c.SkipBodyOnce {
		// the caller declares that it does not want the body of this exchange (Response.SkipBody)
		resp.SkipBody = true
		c.SkipBodyOnce = false
	}
	defer func() {
		if r := recover(); r != nil {
			o.Panic = fmt.Sprint(r)
			c.Tainted = true
			func() {
				defer func() { recover() }() //nolint:errcheck
				resp.CloseBodyStream()       //nolint:errcheck
			}()
		}
	}()
	err := c.HC.Do(context.Background(), req, resp)
	if err != nil {
		o.Err = CanonErr(err)
		return
	}
	o.Status = resp.StatusCode()
	if o.Status == 101 {
		// an upgraded connection stays counted by the host client until a finalizer closes it: after MaxConns of them
		// every further exchange of this client fails with "no free connections" - not reusable for another execution
		c.Tainted = true
	}
	o.CL = resp.Header.ContentLength()
	o.Close = resp.ConnectionClose()
	resp.Header.VisitAll(func(k, v []byte) {
		o.Headers = append(o.Headers, httpref.Header{Name: string(k), Value: string(v)})
	})
	// getters that parse peer-controlled data lazily
	resp.Header.VisitAllCookie(func(k, v []byte) {
		var ck protocol.Cookie
		_ = ck.ParseBytes(v)
		_ = ck.Cookie()
	})
	_ = resp.Header.ContentType()
	_ = resp.Header.Server()
	_ = resp.Header.ContentEncoding()
	if resp.IsBodyStream() {
		buf := make([]byte, 4096)
		bs := resp.BodyStream()
		for {
			n, err := bs.Read(buf)
			o.Body = append(o.Body, buf[:n]...)
			if err != nil {
				if err != io.EOF {
					o.BodyErr = err.Error()
				}
				break
			}
			if len(o.Body) > 1<<24 {
				o.BodyErr = "harness: over 16 MiB"
				break
			}
		}
		if err := resp.CloseBodyStream(); err != nil {
			o.BodyErr += "|close:" + err.Error()
		}
	} else {
		o.Body = append([]byte(nil), resp.Body()...)
	}
	resp.Header.Trailer().VisitAll(func(k, v []byte) {
		o.Trailers = append(o.Trailers, httpref.Header{Name: string(k), Value: string(v)})
	})
	protocol.ReleaseResponse(resp)
	return
}

var (
	reQuoted = regexp.MustCompile(`"(\\.|[^"\\])*"`)
	reSize   = regexp.MustCompile(`size=\d+`)
)

// CanonErr is the identity of an error for comparisons: its message without the quoted excerpts of
// the read buffer (and the buffer size) that hertz appends for diagnostics, which necessarily
// show however many bytes happened to be buffered.
func CanonErr(err error) string {
	if err == nil {
		return ""
	}
	s := reQuoted.ReplaceAllString(err.Error(), `""`)
	return reSize.ReplaceAllString(s, "size=N")
}

// ---- response corpus for C02 ----------------------------------------------------

type RespItem struct {
	Name    string
	Stream  []byte
	Bounds  []int    // end offsets of each response (batches)
	Methods []string // request method per exchange
}

var respItems = map[string]*RespItem{}

func ResponseCorpus(thorough bool) []*RespItem {
	var out []*RespItem
	add := func(name string, methods []string, resps ...string) {
		it := &RespItem{Name: name, Methods: methods}
		for _, r := range resps {
			it.Stream = append(it.Stream, r...)
			it.Bounds = append(it.Bounds, len(it.Stream))
		}
		respItems[name] = it
		out = append(out, it)
	}
	g := []string{"GET"}
	gg := []string{"GET", "GET"}
	add("fixed", g, "HTTP/1.1 200 OK\r\nContent-Type: text/plain\r\nX-A: b\r\nContent-Length: 5\r\n\r\nhello")
	add("fixed0", g, "HTTP/1.1 200 OK\r\nContent-Length: 0\r\n\r\n")
	add("chunked", g, "HTTP/1.1 200 OK\r\nTransfer-Encoding: chunked\r\n\r\n3\r\nabc\r\n2\r\nde\r\n0\r\n\r\n")
	add("chunked-trailer", g, "HTTP/1.1 200 OK\r\nTrailer: X-T\r\nTransfer-Encoding: chunked\r\n\r\n1\r\na\r\n0\r\nX-T: tv\r\n\r\n")
	add("chunked-trailer-fold", g, "HTTP/1.1 200 OK\r\nTransfer-Encoding: chunked\r\n\r\n1\r\na\r\n0\r\nX-T: t1\r\n t2\r\n\r\n")
	add("chunked-trailer-fold-announced", g, "HTTP/1.1 200 OK\r\nTrailer: X-T\r\nTransfer-Encoding: chunked\r\n\r\n1\r\na\r\n0\r\nX-T: t1\r\n t2\r\n\r\n")
	add("chunked-trailer-dup-announced", g, "HTTP/1.1 200 OK\r\nTrailer: X-A, X-A, X-B\r\nTransfer-Encoding: chunked\r\n\r\n1\r\na\r\n0\r\nX-A: 1\r\nX-B: b\r\nX-A: 2\r\n\r\n")
	add("until-close", g, "HTTP/1.1 200 OK\r\nConnection: close\r\n\r\nbody until close")
	add("http10", g, "HTTP/1.0 200 OK\r\n\r\nold style body")
	add("continue", g, "HTTP/1.1 100 Continue\r\n\r\nHTTP/1.1 200 OK\r\nContent-Length: 2\r\n\r\nok")
	add("folded", g, "HTTP/1.1 200 OK\r\nX-Fold: p1\r\n p2\r\n\tp3\r\nContent-Length: 3\r\n\r\nabc")
	// framing fields whose value starts on a continuation line (obs-fold), or is spread over two lines
	add("folded-content-length", g, "HTTP/1.1 200 OK\r\nContent-Length:\r\n 5\r\nX-A: b\r\n\r\nhello")
	add("folded-transfer-encoding", g, "HTTP/1.1 200 OK\r\nTransfer-Encoding:\r\n\tchunked\r\n\r\n3\r\nabc\r\n0\r\n\r\n")
	add("folded-connection-two", gg, "HTTP/1.1 200 OK\r\nConnection:\r\n keep-alive\r\nContent-Length: 1\r\n\r\n1", "HTTP/1.1 200 OK\r\nContent-Length: 1\r\n\r\n2")
	add("204", g, "HTTP/1.1 204 No Content\r\nX-A: 1\r\n\r\n")
	add("304", g, "HTTP/1.1 304 Not Modified\r\nContent-Length: 10\r\n\r\n")
	add("head", []string{"HEAD"}, "HTTP/1.1 200 OK\r\nContent-Length: 10\r\n\r\n")
	add("set-cookie", g, "HTTP/1.1 200 OK\r\nSet-Cookie: a=b; Path=/; HttpOnly\r\nSet-Cookie: c=d; Max-Age=10; SameSite=Lax\r\nServer: s\r\nContent-Length: 1\r\n\r\nx")
	add("two-fixed", gg, "HTTP/1.1 200 OK\r\nContent-Length: 3\r\n\r\none", "HTTP/1.1 201 Created\r\nContent-Length: 3\r\n\r\ntwo")
	add("two-chunked-fixed", gg, "HTTP/1.1 200 OK\r\nTransfer-Encoding: chunked\r\n\r\n2\r\nab\r\n0\r\nX-T: v\r\n\r\n", "HTTP/1.1 200 OK\r\nContent-Length: 3\r\n\r\ntwo")
	add("two-folded-fixed", gg, "HTTP/1.1 200 OK\r\nX-F: a\r\n b\r\nContent-Length: 1\r\n\r\n1", "HTTP/1.1 200 OK\r\nContent-Length: 1\r\n\r\n2")
	add("bad-status", g, "HTTP/1.1 abc OK\r\nContent-Length: 1\r\n\r\nx")
	add("bad-chunk", g, "HTTP/1.1 200 OK\r\nTransfer-Encoding: chunked\r\n\r\nzz\r\nab\r\n0\r\n\r\n")
	add("truncated", g, "HTTP/1.1 200 OK\r\nContent-Length: 10\r\n\r\nabc")
	add("bare-lf", g, "HTTP/1.1 200 OK\nContent-Length: 2\n\nok")
	big := strings.Repeat("0123456789abcdef", 512) // 8192
	add("fixed8193", g, "HTTP/1.1 200 OK\r\nContent-Length: 8193\r\n\r\n"+big+"X")
	add("chunked4097", g, fmt.Sprintf("HTTP/1.1 200 OK\r\nTransfer-Encoding: chunked\r\n\r\n1001\r\n%sY\r\n0\r\n\r\n", big[:4096]))
	return out
}

var (
	poolMu sync.Mutex
	pool   = map[bool][]*Client{}
)

func get(streaming bool) *Client {
	poolMu.Lock()
	defer poolMu.Unlock()
	l := pool[streaming]
	if len(l) > 0 {
		c := l[len(l)-1]
		pool[streaming] = l[:len(l)-1]
		return c
	}
	return New(func(o *http1.ClientOptions) { o.ResponseBodyStream = streaming })
}

func put(streaming bool, c *Client) {
	if c.Tainted {
		return
	}
	poolMu.Lock()
	pool[streaming] = append(pool[streaming], c)
	poolMu.Unlock()
}

// ObserveResponse runs the exchanges of the named corpus item with the response bytes delivered
// in the given segments and returns a canonical dump of everything the client returned.
func ObserveResponse(stream []byte, segs [][]byte, streaming bool, name string) string {
	it := respItems[name]
	if it == nil {
		ResponseCorpus(true)
		it = respItems[name]
	}
	// split the segments into per-response batches at the response boundaries
	var batches [][][]byte
	pos, bi := 0, 0
	var cur [][]byte
	for _, sg := range segs {
		for len(sg) > 0 {
			room := it.Bounds[bi] - pos
			if len(sg) <= room {
				cur = append(cur, sg)
				pos += len(sg)
				sg = nil
			} else {
				cur = append(cur, sg[:room])
				pos += room
				sg = sg[room:]
			}
			if pos == it.Bounds[bi] && bi < len(it.Bounds)-1 {
				batches = append(batches, cur)
				cur = nil
				bi++
			}
		}
	}
	batches = append(batches, cur)
	sc := netsim.NewScriptConn(batches[0], netsim.EndEOF)
	sc.Next = batches[1:]
	c := get(streaming)
	defer put(streaming, c)
	c.Reset(sc)
	var sb strings.Builder
	for i, m := range it.Methods {
		req := protocol.AcquireRequest()
		req.SetMethod(m)
		req.SetRequestURI(fmt.Sprintf("http://h/x%d", i))
		o := c.Do(req)
		protocol.ReleaseRequest(req)
		fmt.Fprintf(&sb, "#%d err=%q panic=%q status=%d cl=%d close=%v headers=%q body=%q bodyerr=%q trailers=%q\n", i, o.Err, o.Panic, o.Status, o.CL, o.Close, o.Headers, o.Body, o.BodyErr, o.Trailers)
	}
	fmt.Fprintf(&sb, "dials=%d closed=%v out=%q", c.D.Dials, sc.Closed, sc.Out)
	c.Reset()
	return sb.String()
}

// ObserveRaw performs one GET exchange against a peer that answers with the given raw bytes.
func ObserveRaw(segs [][]byte, streaming bool) RespObs {
	for attempt := 0; ; attempt++ {
		sc := netsim.NewScriptConn(segs, netsim.EndEOF)
		c := get(streaming)
		c.Reset(sc)
		req := protocol.AcquireRequest()
		req.SetMethod("GET")
		req.SetRequestURI("http://h/x")
		o := c.Do(req)
		protocol.ReleaseRequest(req)
		c.Reset()
		if strings.Contains(o.Err, "no free connections") && attempt == 0 {
			// the pooled client was exhausted by earlier executions (never by this one: it has made one call):
			// drop it and observe this input on a fresh client
			atomic.AddInt64(&Exhausted, 1)
			continue
		}
		put(streaming, c)
		return o
	}
}

// Exhausted counts executions that found their pooled host client without a free connection slot (harness
// bookkeeping: such an execution is repeated on a fresh client; the count is reported so that it can be seen to be 0).
var Exhausted int64

// ObserveRedirect lets the redirect-following helper (protocol/client.DoRequestFollowRedirects, what client.Get uses)
// GET http://h/start against a peer whose first answer is the given raw bytes and whose later answers are plain 200s.
// It returns every byte the client wrote: the first request and whatever request it derived from the peer's answer.
func ObserveRedirect(segs [][]byte, streaming bool) (out []byte, res RespObs) {
	sc := netsim.NewScriptConn(segs, netsim.EndEOF)
	ok := []byte("HTTP/1.1 200 OK\r\nContent-Length: 2\r\n\r\nok")
	sc.Next = [][][]byte{{ok}, {ok}}
	c := get(streaming)
	c.Reset(sc)
	defer func() {
		if r := recover(); r != nil {
			res.Panic = fmt.Sprint(r)
			c.Tainted = true
		}
		out = append([]byte(nil), sc.Out...)
		c.Reset()
		put(streaming, c)
	}()
	req, resp := protocol.AcquireRequest(), protocol.AcquireResponse()
	defer protocol.ReleaseRequest(req)
	defer protocol.ReleaseResponse(resp)
	status, _, err := pclient.DoRequestFollowRedirects(context.Background(), req, resp, "http://h/start", 2, c.HC)
	res.Status = status
	if err != nil {
		res.Err = CanonErr(err)
	}
	if resp.IsBodyStream() {
		resp.CloseBodyStream() //nolint:errcheck
	}
	return
}
