// Package mc is the common bookkeeping of every check: counters, state/outcome
// sets, samples, violations with replay files, known findings, evidence output.
//
// The deciding step of every check is an exhaustive enumeration performed by the
// check itself (see DESIGN.md); this package only makes the result observable in
// the form MANIFEST.json/EVIDENCE.schema.json require.
package mc

import (
	"bufio"
	"crypto/sha1"
	"encoding/hex"
	"encoding/json"
	"fmt"
	"os"
	"path/filepath"
	"runtime"
	"sort"
	"strconv"
	"strings"
	"sync"
	"sync/atomic"
	"time"
)

// Root is the /verif directory (evidence, replays, known findings live there).
var Root = func() string {
	if r := os.Getenv("VERIF_ROOT"); r != "" {
		return r
	}
	return "/verif"
}()

type Violation struct {
	Key    string          `json:"key"`
	Msg    string          `json:"msg"`
	Case   json.RawMessage `json:"case"`
	Replay string          `json:"-"`
	// Observed: the failure was the death of a worker process (fatal runtime error); it is reported as observed
	// and not re-executed five times inside this process, which it could take down.
	Observed bool `json:"-"`
}

type Check struct {
	ID    string
	Level string // model_checking | translation_validation ...
	Rule  string // how cases are enumerated and what makes one non-trivial
	// Run enumerates the whole bounded space, calling c.Violate for every failing case.
	Run func(c *Ctx)
	// Replay re-executes one recorded case (without the explorer) and calls c.Violate if it fails.
	Replay      func(c *Ctx, raw json.RawMessage)
	Assumptions []string
	// ReplayID is the property name written into replay files (default ID); a check that is a second part of a
	// property, run by another binary, uses its own name here so that the launcher can dispatch replays.
	ReplayID string
	// MergeInto: instead of overwriting evidence/<ID>.json, add this run's coverage to the existing file under
	// coverage[MergeInto] and add its counts to the totals (used by the schedule part of C09).
	MergeInto string
}

type Ctx struct {
	ID       string
	Tier     string
	Seed     int64
	Start    time.Time
	Deadline time.Time // internal deadline; when passed, enumeration stops and exhaustive=false

	mu         sync.Mutex
	counters   map[string]*int64
	sets       map[string]map[string]struct{}
	samples    []interface{}
	violations map[string]*Violation
	nviol      int64
	extra      map[string]interface{}
	capped     int32
	notes      []string
}

func NewCtx(id, tier string) *Ctx {
	c := &Ctx{ID: id, Tier: tier, Start: time.Now(),
		counters: map[string]*int64{}, sets: map[string]map[string]struct{}{},
		violations: map[string]*Violation{}, extra: map[string]interface{}{}}
	if s := os.Getenv("VERIF_SEED"); s != "" {
		c.Seed, _ = strconv.ParseInt(s, 10, 64)
	}
	budget := 150 * time.Second // quick tier: the schedule checks need about 95 s of it on an idle 16-core machine
	if tier == "thorough" {
		budget = 20 * time.Minute
	}
	if s := os.Getenv("VERIF_BUDGET_S"); s != "" {
		if n, err := strconv.Atoi(s); err == nil {
			budget = time.Duration(n) * time.Second
		}
	}
	c.Deadline = c.Start.Add(budget)
	return c
}

func (c *Ctx) Thorough() bool { return c.Tier == "thorough" }

// Expired reports whether the internal deadline has passed; the first time it
// does the run is marked as capped (exhaustive:false).
func (c *Ctx) Expired() bool {
	if time.Now().After(c.Deadline) {
		atomic.StoreInt32(&c.capped, 1)
		return true
	}
	return false
}

// Cap marks the run as not exhaustive for a stated reason.
func (c *Ctx) Cap(reason string) {
	atomic.StoreInt32(&c.capped, 1)
	c.Note("capped: " + reason)
}

func (c *Ctx) Note(s string) {
	c.mu.Lock()
	for _, n := range c.notes {
		if n == s {
			c.mu.Unlock()
			return
		}
	}
	c.notes = append(c.notes, s)
	c.mu.Unlock()
}

func (c *Ctx) ctr(name string) *int64 {
	c.mu.Lock()
	p := c.counters[name]
	if p == nil {
		p = new(int64)
		c.counters[name] = p
	}
	c.mu.Unlock()
	return p
}

// Counter returns a pointer usable with atomic.AddInt64 in hot loops.
func (c *Ctx) Counter(name string) *int64 { return c.ctr(name) }

func (c *Ctx) Add(name string, n int64) { atomic.AddInt64(c.ctr(name), n) }

func (c *Ctx) Get(name string) int64 { return atomic.LoadInt64(c.ctr(name)) }

// Distinct records a member of a named set (e.g. "states", "outcomes"); the set
// sizes are reported in the evidence. Long members are hashed.
func (c *Ctx) Distinct(set, member string) bool {
	if len(member) > 40 {
		h := sha1.Sum([]byte(member))
		member = hex.EncodeToString(h[:12])
	}
	c.mu.Lock()
	m := c.sets[set]
	if m == nil {
		m = map[string]struct{}{}
		c.sets[set] = m
	}
	_, had := m[member]
	if !had {
		m[member] = struct{}{}
	}
	c.mu.Unlock()
	return !had
}

func (c *Ctx) SetSize(set string) int {
	c.mu.Lock()
	defer c.mu.Unlock()
	return len(c.sets[set])
}

// Sample keeps the first few cases so a reader can see what they look like.
func (c *Ctx) Sample(v interface{}) {
	c.mu.Lock()
	if len(c.samples) < 8 {
		c.samples = append(c.samples, v)
	}
	c.mu.Unlock()
}

func (c *Ctx) SampleCount() int {
	c.mu.Lock()
	defer c.mu.Unlock()
	return len(c.samples)
}

func (c *Ctx) Extra(k string, v interface{}) {
	c.mu.Lock()
	c.extra[k] = v
	c.mu.Unlock()
}

// Violate records a failing case. key is the stable class of the failure (used to
// deduplicate and to match known findings); cas is the replayable case.
func (c *Ctx) Violate(key, msg string, cas interface{}) {
	atomic.AddInt64(&c.nviol, 1)
	c.mu.Lock()
	defer c.mu.Unlock()
	if _, ok := c.violations[key]; ok {
		return
	}
	if len(c.violations) >= 40 {
		return
	}
	raw, err := json.Marshal(cas)
	if err != nil {
		raw, _ = json.Marshal(fmt.Sprintf("%#v", cas))
	}
	c.violations[key] = &Violation{Key: key, Msg: msg, Case: raw}
}

// ViolateObserved records a failure that was observed as the death of a worker process.
func (c *Ctx) ViolateObserved(key, msg string, cas interface{}) {
	c.Violate(key, msg, cas)
	c.mu.Lock()
	if v := c.violations[key]; v != nil {
		v.Observed = true
	}
	c.mu.Unlock()
}

func (c *Ctx) ViolationCount() int64 { return atomic.LoadInt64(&c.nviol) }

// ParallelFor runs f(i) for i in [0,n) on all cores; stops handing out work after the deadline.
func (c *Ctx) ParallelFor(n int, f func(i int)) {
	workers := runtime.GOMAXPROCS(0)
	if w := os.Getenv("VERIF_WORKERS"); w != "" {
		workers, _ = strconv.Atoi(w)
	}
	if workers < 1 {
		workers = 1
	}
	var next int64 = -1
	var wg sync.WaitGroup
	for w := 0; w < workers; w++ {
		wg.Add(1)
		go func() {
			defer wg.Done()
			for {
				i := int(atomic.AddInt64(&next, 1))
				if i >= n {
					return
				}
				if i&63 == 0 && c.Expired() {
					c.Add("skipped_after_deadline", int64(n-i))
					atomic.StoreInt64(&next, int64(n))
					return
				}
				f(i)
			}
		}()
	}
	wg.Wait()
}

// ---- known findings ---------------------------------------------------------

type finding struct {
	prop, key, text string
}

func loadFindings() []finding {
	f, err := os.Open(filepath.Join(Root, "known_findings.txt"))
	if err != nil {
		return nil
	}
	defer f.Close()
	var out []finding
	sc := bufio.NewScanner(f)
	for sc.Scan() {
		line := strings.TrimSpace(sc.Text())
		// finding: property=C09 key=<stable key> :: <what fails>
		if !strings.HasPrefix(line, "finding:") {
			continue // "fixed:" entries and comments suppress nothing
		}
		rest := strings.TrimSpace(strings.TrimPrefix(line, "finding:"))
		var fd finding
		parts := strings.SplitN(rest, " :: ", 2)
		if len(parts) == 2 {
			fd.text = strings.TrimSpace(parts[1])
		}
		for _, tok := range strings.Fields(parts[0]) {
			if strings.HasPrefix(tok, "property=") {
				fd.prop = strings.TrimPrefix(tok, "property=")
			} else if strings.HasPrefix(tok, "key=") {
				fd.key = strings.TrimPrefix(tok, "key=")
			}
		}
		if fd.prop != "" && fd.key != "" {
			out = append(out, fd)
		}
	}
	return out
}

// ---- finishing: replays, evidence, exit code --------------------------------

type replayFile struct {
	Property string          `json:"property"`
	Key      string          `json:"key"`
	Msg      string          `json:"msg"`
	Case     json.RawMessage `json:"case"`
}

// RunCheck runs a check completely and returns the process exit code.
func RunCheck(ch *Check, tier string) int {
	c := NewCtx(ch.ID, tier)
	if os.Getenv("VERIF_MEMTRACE") != "" {
		go func() {
			for {
				time.Sleep(10 * time.Second)
				var m runtime.MemStats
				runtime.ReadMemStats(&m)
				fmt.Fprintf(os.Stderr, "MEM sys=%dMB heapSys=%dMB heapInuse=%dMB heapReleased=%dMB heapIdle=%dMB stack=%dMB goroutines=%d\n", m.Sys>>20, m.HeapSys>>20, m.HeapInuse>>20, m.HeapReleased>>20, m.HeapIdle>>20, m.StackSys>>20, runtime.NumGoroutine())
			}
		}()
	}
	func() {
		defer func() {
			if r := recover(); r != nil {
				buf := make([]byte, 16384)
				buf = buf[:runtime.Stack(buf, false)]
				fmt.Printf("HARNESS-ERROR property=%s panic in check driver: %v\n%s\n", ch.ID, r, buf)
				c.Extra("harness_panic", fmt.Sprint(r))
				os.Exit(2)
			}
		}()
		ch.Run(c)
	}()
	return c.finish(ch)
}

func (c *Ctx) finish(ch *Check) int {
	findings := loadFindings()
	keys := make([]string, 0, len(c.violations))
	for k := range c.violations {
		keys = append(keys, k)
	}
	sort.Strings(keys)
	exit := 0
	known := 0
	os.MkdirAll(filepath.Join(Root, "replays"), 0o755)
	for _, k := range keys {
		v := c.violations[k]
		// re-execute 5x: the same case must fail every time
		if ch.Replay != nil && !v.Observed {
			fails := 0
			for i := 0; i < 5; i++ {
				rc := NewCtx(c.ID, c.Tier)
				func() {
					defer func() {
						if r := recover(); r != nil {
							rc.Violate("replay-panic", fmt.Sprint(r), nil)
						}
					}()
					ch.Replay(rc, v.Case)
				}()
				if rc.ViolationCount() > 0 {
					fails++
				}
			}
			if fails != 5 {
				fmt.Printf("HARNESS-ERROR property=%s nondeterministic verdict for key=%s (%d/5 replays failed): %s\n", c.ID, v.Key, fails, v.Msg)
				if exit == 0 {
					exit = 2
				}
				continue
			}
		}
		matched := false
		for _, fd := range findings {
			if fd.prop == c.ID && fd.key == v.Key {
				fmt.Printf("KNOWN-FINDING: property=%s key=%s %s\n", c.ID, v.Key, fd.text)
				matched = true
				known++
				break
			}
		}
		if matched {
			continue
		}
		h := sha1.Sum([]byte(v.Key))
		path := filepath.Join(Root, "replays", fmt.Sprintf("%s-%s.json", c.ID, hex.EncodeToString(h[:6])))
		rid := ch.ReplayID
		if rid == "" {
			rid = c.ID
		}
		rf, _ := json.MarshalIndent(replayFile{Property: rid, Key: v.Key, Msg: v.Msg, Case: v.Case}, "", " ")
		os.WriteFile(path, rf, 0o644)
		fmt.Printf("VIOLATION property=%s replay=%s\n", c.ID, path)
		fmt.Printf("  key=%s\n  %s\n", v.Key, v.Msg)
		exit = 1
	}
	c.writeEvidence(ch, known)
	return exit
}

func (c *Ctx) writeEvidence(ch *Check, known int) {
	cov := map[string]interface{}{}
	for k, v := range c.extra {
		cov[k] = v
	}
	ctrs := map[string]int64{}
	for k, p := range c.counters {
		ctrs[k] = atomic.LoadInt64(p)
	}
	sets := map[string]int{}
	for k, m := range c.sets {
		sets[k] = len(m)
	}
	cov["counters"] = ctrs
	cov["distinct_sets"] = sets
	ev := ctrs["executions"]
	if ev == 0 {
		ev = ctrs["evaluations"]
	}
	cov["evaluations"] = ev
	states := int64(sets["states"])
	if states == 0 {
		states = ctrs["states"]
	}
	if states == 0 {
		states = ev // stateless exploration: every complete execution is one explored path
	}
	cov["states"] = states
	tr := ctrs["transitions"]
	if tr == 0 {
		tr = ev
	}
	cov["transitions"] = tr
	cov["traces_validated_against_impl"] = ev // every trace IS an execution of the real implementation
	nt := int64(sets["nontrivial"])
	if nt == 0 {
		nt = ctrs["nontrivial"]
	}
	cov["distinct_nontrivial"] = nt
	cov["distinct_outcomes"] = sets["outcomes"]
	cov["rule"] = ch.Rule
	if len(c.samples) == 0 {
		c.samples = append(c.samples, "no case executed")
	}
	cov["samples"] = c.samples
	cov["exhaustive"] = atomic.LoadInt32(&c.capped) == 0
	cov["notes"] = c.notes
	cov["known_findings_reported"] = known
	if ch.Level == "translation_validation" {
		cov["programs"] = ctrs["programs"]
		cov["disagreements_checked"] = ctrs["disagreements_checked"]
	}
	out := map[string]interface{}{
		"property_id": c.ID,
		"tier":        c.Tier,
		"seed":        c.Seed,
		"level":       ch.Level,
		"coverage":    cov,
		"assumptions": ch.Assumptions,
		"wall_s":      time.Since(c.Start).Seconds(),
		"violations":  len(c.violations) - known,
	}
	if ch.MergeInto != "" {
		if prev, err := os.ReadFile(filepath.Join(Root, "evidence", c.ID+".json")); err == nil {
			var old map[string]interface{}
			if json.Unmarshal(prev, &old) == nil {
				if oc, ok := old["coverage"].(map[string]interface{}); ok {
					oc[ch.MergeInto] = cov
					for _, k := range []string{"evaluations", "states", "transitions", "traces_validated_against_impl", "distinct_nontrivial"} {
						a, _ := oc[k].(float64)
						b, _ := cov[k].(int64)
						oc[k] = int64(a) + b
					}
					if ex, _ := cov["exhaustive"].(bool); !ex {
						oc["exhaustive"] = false
					}
					ow, _ := old["wall_s"].(float64)
					old["wall_s"] = ow + time.Since(c.Start).Seconds()
					ov, _ := old["violations"].(float64)
					old["violations"] = int(ov) + len(c.violations) - known
					out = old
				}
			}
		}
	}
	b, _ := json.MarshalIndent(out, "", " ")
	os.MkdirAll(filepath.Join(Root, "evidence"), 0o755)
	os.WriteFile(filepath.Join(Root, "evidence", c.ID+".json"), b, 0o644)
	fmt.Printf("%s tier=%s evaluations=%d states=%d transitions=%d nontrivial=%d outcomes=%d exhaustive=%v violations=%d known=%d wall=%.1fs\n",
		c.ID, c.Tier, ev, states, tr, nt, sets["outcomes"], cov["exhaustive"], len(c.violations)-known, known, time.Since(c.Start).Seconds())
}

// RunReplay replays one file and returns the exit code (1 if it still fails).
func RunReplay(ch *Check, path string) int {
	b, err := os.ReadFile(path)
	if err != nil {
		fmt.Println("cannot read replay:", err)
		return 2
	}
	var rf replayFile
	if err := json.Unmarshal(b, &rf); err != nil {
		fmt.Println("bad replay file:", err)
		return 2
	}
	c := NewCtx(ch.ID, "quick")
	ch.Replay(c, rf.Case)
	if c.ViolationCount() > 0 {
		for _, v := range c.violations {
			fmt.Printf("VIOLATION property=%s replay=%s\n  key=%s\n  %s\n", ch.ID, path, v.Key, v.Msg)
		}
		return 1
	}
	fmt.Printf("replay %s: property %s held\n", path, ch.ID)
	return 0
}
