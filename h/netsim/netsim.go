// Package netsim is the closed, scripted network environment used by the sequential
// explorers: a net.Conn whose every read answer is chosen by the script, wrapped in the
// real buffered standard.Conn through hook H1.
package netsim

import (
	"context"
	"errors"
	"io"
	"net"
	"os"
	"sync/atomic"
	"time"

	"github.com/cloudwego/hertz/pkg/network"
	"github.com/cloudwego/hertz/pkg/network/standard"
)

// End-of-script behaviours.
const (
	EndEOF     = iota // peer closed after the last byte
	EndTimeout        // peer stays silent: the read returns a timeout error (as an expired read deadline would)
	EndReset          // connection reset by peer
)

type addr string

func (a addr) Network() string { return "tcp" }
func (a addr) String() string  { return string(a) }

type timeoutErr struct{}

func (timeoutErr) Error() string   { return "i/o timeout" }
func (timeoutErr) Timeout() bool   { return true }
func (timeoutErr) Temporary() bool { return true }

// ErrTimeout is what a scripted timeout returns: a *net.OpError with Timeout()==true.
var ErrTimeout error = &net.OpError{Op: "read", Net: "tcp", Err: timeoutErr{}}

var ErrReset error = &net.OpError{Op: "read", Net: "tcp", Err: os.NewSyscallError("read", errors.New("connection reset by peer"))}

var ErrClosedWrite error = &net.OpError{Op: "write", Net: "tcp", Err: errors.New("use of closed network connection")}

// ScriptConn implements net.Conn over a list of data segments.
type ScriptConn struct {
	Segs [][]byte // remaining read answers (each Read returns at most the rest of the current segment)
	// Next holds further batches of read answers: a batch becomes readable at the first Write that
	// happens after the previous batch was read completely (the peer answers request k only after request k was sent).
	Next [][][]byte
	End  int // behaviour once Segs is exhausted

	Out           []byte // everything written by the code under test
	WriteFailAt   int    // if >0: the write that would make len(Out) exceed this fails (bytes up to the limit are taken)
	WriteFailOnce bool   // the write fault is transient (an expired write deadline): later writes succeed
	ShortWrite    int    // if >0: each Write accepts at most this many bytes (returns n<len, nil err is illegal for net.Conn, so we loop internally) -- unused
	Closed        bool
	CloseCount    int

	ReadCalls       int
	WriteCalls      int
	Consumed        int   // bytes handed to the reader so far
	EndReads        int   // number of reads answered by the end-of-script behaviour
	EndReadMarks    []int // value of Mark at each end-of-script read
	ReadAfterClose  int
	WriteAfterClose int
	Mark            int // set by the harness (e.g. 1 while a handler runs) to attribute end-of-script reads
	ReadDeadlines   []time.Time
	inUse           int32
	Overlap         bool // two users at once
	OnRead          func(n int)
}

func NewScriptConn(segs [][]byte, end int) *ScriptConn {
	return &ScriptConn{Segs: segs, End: end}
}

func (s *ScriptConn) enter() {
	if !atomic.CompareAndSwapInt32(&s.inUse, 0, 1) {
		s.Overlap = true
	}
}
func (s *ScriptConn) leave() { atomic.StoreInt32(&s.inUse, 0) }

func (s *ScriptConn) Read(p []byte) (int, error) {
	s.enter()
	defer s.leave()
	s.ReadCalls++
	if s.Closed {
		s.ReadAfterClose++
		return 0, ErrClosedWrite
	}
	if len(p) == 0 {
		return 0, nil
	}
	for len(s.Segs) > 0 && len(s.Segs[0]) == 0 {
		s.Segs = s.Segs[1:]
	}
	if len(s.Segs) == 0 {
		s.EndReads++
		s.EndReadMarks = append(s.EndReadMarks, s.Mark)
		switch s.End {
		case EndEOF:
			return 0, io.EOF
		case EndReset:
			return 0, ErrReset
		default:
			return 0, ErrTimeout
		}
	}
	n := copy(p, s.Segs[0])
	s.Segs[0] = s.Segs[0][n:]
	s.Consumed += n
	if s.OnRead != nil {
		s.OnRead(n)
	}
	return n, nil
}

func (s *ScriptConn) Write(p []byte) (int, error) {
	s.enter()
	defer s.leave()
	if s.Closed {
		s.WriteAfterClose++
		return 0, ErrClosedWrite
	}
	if s.Remaining() == 0 && len(s.Next) > 0 {
		s.Segs, s.Next = s.Next[0], s.Next[1:]
	}
	s.WriteCalls++
	if s.WriteFailAt > 0 && len(s.Out)+len(p) > s.WriteFailAt {
		k := s.WriteFailAt - len(s.Out)
		if k < 0 {
			k = 0
		}
		s.Out = append(s.Out, p[:k]...)
		if s.WriteFailOnce {
			s.WriteFailAt = 0
		}
		return k, &net.OpError{Op: "write", Net: "tcp", Err: os.NewSyscallError("write", errors.New("broken pipe"))}
	}
	s.Out = append(s.Out, p...)
	return len(p), nil
}

func (s *ScriptConn) Close() error {
	s.CloseCount++
	s.Closed = true
	return nil
}
func (s *ScriptConn) LocalAddr() net.Addr  { return addr("127.0.0.1:8888") }
func (s *ScriptConn) RemoteAddr() net.Addr { return addr("127.0.0.1:54321") }
func (s *ScriptConn) SetDeadline(t time.Time) error {
	s.ReadDeadlines = append(s.ReadDeadlines, t)
	return nil
}
func (s *ScriptConn) SetReadDeadline(t time.Time) error {
	if len(s.ReadDeadlines) < 64 {
		s.ReadDeadlines = append(s.ReadDeadlines, t)
	}
	return nil
}
func (s *ScriptConn) SetWriteDeadline(t time.Time) error { return nil }

// Remaining returns the number of scripted bytes not yet read.
func (s *ScriptConn) Remaining() int {
	n := 0
	for _, g := range s.Segs {
		n += len(g)
	}
	return n
}

// Wrap puts the scripted conn under the real buffered standard.Conn (hook H1).
func Wrap(c net.Conn, size int) network.Conn { return standard.NewConnForVerif(c, size) }

// Release hands the buffers of a wrapped conn back to their pools (hook H1). Only call it when the code under test
// is completely done with the connection; without it the buffers are only reclaimed by finalizers, which fall
// behind when millions of connections are created.
func Release(c network.Conn) { standard.ReleaseForVerif(c) }

// Segment cuts stream at the given ascending positions (0<p<len).
func Segment(stream []byte, cuts []int) [][]byte {
	var out [][]byte
	prev := 0
	for _, p := range cuts {
		if p <= prev || p >= len(stream) {
			continue
		}
		out = append(out, append([]byte(nil), stream[prev:p]...))
		prev = p
	}
	out = append(out, append([]byte(nil), stream[prev:]...))
	return out
}

// Bytewise delivers one byte per read.
func Bytewise(stream []byte) [][]byte {
	out := make([][]byte, len(stream))
	for i := range stream {
		out[i] = []byte{stream[i]}
	}
	return out
}

// Transport is a network.Transporter WITHOUT a Listener() method, so Engine.IsRunning()
// does not force Connection: close on every response.
type Transport struct{}

func (Transport) Close() error                               { return nil }
func (Transport) Shutdown(ctx context.Context) error         { return nil }
func (Transport) ListenAndServe(onData network.OnData) error { return nil }
