//go:build verifsched

// Package c10: client connections are exclusive, bounded, never leaked and never reused dirty.
// The real http1.HostClient (client.go rewritten by vinstr so that every lock, atomic, channel,
// goroutine and timer operation is a scheduling point of verifrt) is driven by N caller threads x M
// calls against a reactive scripted peer; every schedule with at most `bound` deviations
// (preemptions, early timer fires, non-default select cases) is explored for every fault plan.
package c10

import (
	"bytes"
	"context"
	"crypto/tls"
	"errors"
	"fmt"
	"io"
	"net"
	"os"
	"strconv"
	"strings"
	"time"

	"github.com/cloudwego/hertz/pkg/common/config"
	"github.com/cloudwego/hertz/pkg/common/hlog"
	"github.com/cloudwego/hertz/pkg/network"
	"github.com/cloudwego/hertz/pkg/network/standard"
	"github.com/cloudwego/hertz/pkg/protocol"
	"github.com/cloudwego/hertz/pkg/protocol/client"
	"github.com/cloudwego/hertz/pkg/protocol/http1"
	"github.com/cloudwego/hertz/verifrt"
)

func init() {
	hlog.SetOutput(io.Discard)
	hlog.SetLevel(hlog.LevelFatal)
}

// Answers of the peer to one exchange.
const (
	AOk = iota
	AOkClose
	ASilentClose  // answers, then closes while the connection is idle
	ACloseFirst   // closes before the first response byte
	ACloseHeader  // closes in the middle of the header
	ACloseBody    // closes in the middle of the body
	AStall        // never answers
	ASlow         // answers completely, but only after the caller's request timeout (and before the read timeout)
	AOkCloseCap   // like AOkClose, spelled "Connection: Close" (connection options are case-insensitive tokens)
	AChunkedCut   // chunked response, complete up to and including the last-chunk line "0\r\n", then the peer closes (the final CRLF never arrives)
	AOkCloseSplit // like AOkClose, the option sent on a field line of its own followed by a second Connection line ("Connection: close" CRLF "Connection: X-Hop")
	AEarlyHints   // a 103 Early Hints interim response in front of the (keep-alive) final response
	nAnswers
)

var answerNames = []string{"ok", "ok+close", "silent-close-idle", "close-before-first-byte", "close-mid-header", "close-mid-body", "stall", "slow", "ok+Close", "chunked-cut-before-final-CRLF", "ok+close-on-the-first-of-two-Connection-lines", "103-early-hints-then-ok"}

type Scenario struct {
	Name     string `json:"name"`
	N        int    `json:"n"` // caller threads
	M        int    `json:"m"` // calls per thread
	MaxConns int    `json:"max_conns"`
	Wait     bool   `json:"wait"` // MaxConnWaitTimeout > 0
	ReqTO    bool   `json:"req_timeout,omitempty"`
	// GetURL: the calls are client.GetURLTimeout(url, reqTimeout) - the helper that runs the exchange on a goroutine of
	// its own and hands the result over a channel, abandoning it at the timeout - instead of HostClient.Do
	GetURL bool `json:"get_url,omitempty"`
	// ShortReqTO: the request timeout (1 s) is shorter than MaxConnWaitTimeout (3 s)
	ShortReqTO bool `json:"short_req_timeout,omitempty"`
	// ReuseHead: every caller reuses one Request and one Response object for all its calls, and its first call is a HEAD
	ReuseHead bool `json:"reuse_head,omitempty"`
	// MaxConnDur: MaxConnDuration is 500 ms and every caller pauses 1 s (virtual) between its calls: a pooled connection is
	// older than that when it is taken again, the client announces "Connection: close" on it and must retire it
	// afterwards whatever the peer answers (the peer does not echo the option and keeps the connection open)
	MaxConnDur bool `json:"max_conn_duration,omitempty"`
	// Closer: one more thread calls HostClient.CloseIdleConnections() once, at any moment of the run
	Closer bool `json:"closer,omitempty"`
	// ShortReadTO: ReadTimeout / WriteTimeout are 2.5 s, shorter than the request timeout of 4 s: a call that spent part of
	// its request timeout waiting for a connection must still return at the request timeout, not a full read timeout later
	ShortReadTO bool `json:"short_read_timeout,omitempty"`
}

func (sc Scenario) readTO() time.Duration {
	if sc.ShortReadTO {
		return 2500 * time.Millisecond
	}
	return readTimeout
}

func (sc Scenario) reqTO() time.Duration {
	if sc.ShortReqTO {
		return time.Second
	}
	return reqTimeout
}

// Plan: answer of the peer to the k-th request it receives (arrival order), dial errors, cancelled calls.
type Plan struct {
	Answers []int `json:"answers"`
	DialErr []int `json:"dial_err,omitempty"` // indices of dials that fail
	Cancel  []int `json:"cancel,omitempty"`   // call indices (thread*M+call) whose context is cancelled before the call
}

type Job struct {
	Sc    Scenario `json:"scenario"`
	Plan  Plan     `json:"plan"`
	Bound int      `json:"bound"`
	// replay
	Schedule []int `json:"schedule,omitempty"`
}

const (
	readTimeout = 5 * time.Second
	waitTimeout = 3 * time.Second
	reqTimeout  = 4 * time.Second
)

type timeoutErr struct{}

func (timeoutErr) Error() string   { return "i/o timeout" }
func (timeoutErr) Timeout() bool   { return true }
func (timeoutErr) Temporary() bool { return true }

// ---- the world of one execution -------------------------------------------------------------------

type World struct {
	job      Job
	conns    []*sconn
	dials    int
	arrivals int
	viol     []string
	posts    map[string]int // POST id -> times received by the peer
	hc       *http1.HostClient
	calls    []callRec
}

type callRec struct {
	id         string
	method     string
	start, end time.Duration
	err        error
	status     int
	body       string
	cancelled  bool
}

func (w *World) violate(format string, a ...interface{}) {
	if len(w.viol) < 8 {
		w.viol = append(w.viol, fmt.Sprintf(format, a...))
	}
}

type sconn struct {
	w        *World
	id       int
	in       []byte // written by the client, not yet a complete request
	out      []byte // response bytes the client may read
	eof      bool   // the peer has closed (seen after out is drained)
	closed   bool
	readDL   time.Duration
	hasDL    bool
	writer   string // thread that wrote the request whose response is pending
	pending  bool   // a response is owed / not completely read
	respLeft int    // bytes of the current response not yet read by the client
	sawErr   bool   // the client got an error from this connection
	lastAns  int
	exch     int
	slowAt   time.Duration // ASlow: when the held-back response becomes readable
	slowOut  []byte
	// the client sent a request carrying "Connection: close" on this connection
	announcedClose bool
}

func (c *sconn) Read(p []byte) (int, error) {
	verifrt.Point("conn.Read")
	s := verifrt.S
	me := verifrt.CurrentThread()
	if c.closed {
		c.sawErr = true
		return 0, errors.New("use of closed network connection")
	}
	if c.pending && c.writer != "" && c.writer != me {
		c.w.violate("connection %d: thread %s reads while the response to %s's request is pending (two users at once)", c.id, me, c.writer)
	}
	start := verifrt.VNow()
	if len(c.out) == 0 && !c.eof {
		if !c.hasDL {
			// blocking with no deadline: only legal if no timeout is configured (it always is here)
			c.w.violate("connection %d: blocking read with no read deadline although ReadTimeout is configured", c.id)
		}
	}
	verifrt.BlockUntil(fmt.Sprintf("conn%d.Read", c.id), func() bool {
		if c.slowOut != nil && s.NowLocked() >= c.slowAt {
			c.out, c.slowOut = append(c.out, c.slowOut...), nil
		}
		return len(c.out) > 0 || c.eof || c.closed || (c.hasDL && s.NowLocked() >= c.readDL)
	})
	if waited := verifrt.VNow() - start; waited > c.w.job.Sc.readTO() && verifrt.NoSlack() {
		c.w.violate("connection %d: a read blocked for %v, longer than the read timeout %v", c.id, waited, c.w.job.Sc.readTO())
	}
	switch {
	case c.closed:
		c.sawErr = true
		return 0, errors.New("use of closed network connection")
	case len(c.out) > 0:
		n := copy(p, c.out)
		c.out = c.out[n:]
		c.respLeft -= n
		if c.respLeft <= 0 && !(c.eof && c.lastAns >= ACloseHeader) {
			c.pending = false
		}
		return n, nil
	case c.eof:
		c.sawErr = true
		return 0, io.EOF
	default:
		c.sawErr = true
		return 0, &net.OpError{Op: "read", Net: "tcp", Err: timeoutErr{}}
	}
}

func respBytes(id string, closeHdr bool, capital ...bool) []byte {
	body := "id=" + id
	h := "HTTP/1.1 200 OK\r\nContent-Type: text/plain\r\n"
	if closeHdr {
		if len(capital) > 0 && capital[0] {
			h += "Connection: Close\r\n"
		} else {
			h += "Connection: close\r\n"
		}
	}
	return []byte(fmt.Sprintf("%sContent-Length: %d\r\n\r\n%s", h, len(body), body))
}

func (c *sconn) Write(p []byte) (int, error) {
	verifrt.Point("conn.Write")
	me := verifrt.CurrentThread()
	if c.closed {
		c.sawErr = true
		return 0, errors.New("use of closed network connection")
	}
	if c.pending && c.writer != me {
		c.w.violate("connection %d: thread %s writes a request while the response to %s's request has not been read completely (connection reused dirty / by two users)", c.id, me, c.writer)
	}
	c.in = append(c.in, p...)
	for {
		i := bytes.Index(c.in, []byte("\r\n\r\n"))
		if i < 0 {
			break
		}
		head := string(c.in[:i])
		cl := 0
		for _, ln := range strings.Split(head, "\r\n")[1:] {
			if k := strings.IndexByte(ln, ':'); k > 0 && strings.EqualFold(ln[:k], "Content-Length") {
				cl, _ = strconv.Atoi(strings.TrimSpace(ln[k+1:]))
			}
		}
		if len(c.in) < i+4+cl {
			break
		}
		c.in = c.in[i+4+cl:]
		c.request(head, me)
	}
	return len(p), nil
}

// request: the peer has received one complete request.
func (c *sconn) request(head, from string) {
	w := c.w
	lines := strings.Split(head, "\r\n")
	method := strings.SplitN(lines[0], " ", 2)[0]
	id := ""
	for _, ln := range lines[1:] {
		if strings.HasPrefix(ln, "X-Id: ") {
			id = ln[6:]
		}
	}
	if id == "" { // requests of the GetURL helper carry their identity in the path only
		if f := strings.Fields(lines[0]); len(f) > 1 {
			id = strings.TrimPrefix(f[1], "/")
		}
	}
	if c.announcedClose {
		w.violate("connection %d: request %s is sent on a connection on which the client had announced Connection: close", c.id, id)
	}
	for _, ln := range lines[1:] {
		if k := strings.IndexByte(ln, ':'); k > 0 && strings.EqualFold(ln[:k], "Connection") && strings.EqualFold(strings.TrimSpace(ln[k+1:]), "close") {
			c.announcedClose = true
		}
	}
	if method == "POST" {
		w.posts[id]++
		if w.posts[id] > 1 {
			w.violate("the non-idempotent request POST %s was sent %d times", id, w.posts[id])
		}
	}
	if c.pending {
		w.violate("connection %d: request %s arrives while the previous response is still pending", c.id, id)
	}
	ans := AOk
	if w.arrivals < len(w.job.Plan.Answers) {
		ans = w.job.Plan.Answers[w.arrivals]
	}
	w.arrivals++
	c.exch++
	c.lastAns = ans
	c.writer = from
	c.pending = true
	verifrt.Logf("peer: conn%d got %s %s from %s -> %s", c.id, method, id, from, answerNames[ans])
	full := respBytes(id, ans == AOkClose || ans == AOkCloseCap, ans == AOkCloseCap)
	if method == "HEAD" {
		full = full[:bytes.Index(full, []byte("\r\n\r\n"))+4]
	}
	switch ans {
	case AChunkedCut:
		body := "id=" + id
		cut := []byte(fmt.Sprintf("HTTP/1.1 200 OK\r\nContent-Type: text/plain\r\nTransfer-Encoding: chunked\r\n\r\n%x\r\n%s\r\n0\r\n", len(body), body))
		if method == "HEAD" {
			cut = full
		}
		c.out = append(c.out, cut...)
		c.respLeft = len(cut) + 2
		c.eof = true
	case AOkCloseCap:
		ans = AOkClose
		c.lastAns = AOkClose
		c.out = append(c.out, full...)
		c.respLeft = len(full)
		c.eof = true
	case AOkCloseSplit:
		ans = AOkClose
		c.lastAns = AOkClose
		split := bytes.Replace(respBytes(id, true), []byte("Connection: close\r\n"), []byte("Connection: close\r\nConnection: X-Hop\r\n"), 1)
		if method == "HEAD" {
			split = split[:bytes.Index(split, []byte("\r\n\r\n"))+4]
		}
		c.out = append(c.out, split...)
		c.respLeft = len(split)
		c.eof = true
	case AEarlyHints:
		ans = AOk
		c.lastAns = AOk
		all := append([]byte("HTTP/1.1 103 Early Hints\r\nLink: </s.css>; rel=preload\r\n\r\n"), full...)
		c.out = append(c.out, all...)
		c.respLeft = len(all)
	case AOk:
		c.out = append(c.out, full...)
		c.respLeft = len(full)
	case AOkClose, ASilentClose:
		c.out = append(c.out, full...)
		c.respLeft = len(full)
		c.eof = true
	case ACloseFirst:
		c.eof = true
	case ACloseHeader:
		c.out = append(c.out, full[:20]...)
		c.respLeft = len(full)
		c.eof = true
	case ACloseBody:
		c.out = append(c.out, full[:len(full)-2]...)
		c.respLeft = len(full)
		c.eof = true
	case AStall:
		c.respLeft = len(full)
	case ASlow:
		c.respLeft = len(full)
		c.slowOut = full
		c.slowAt = verifrt.VNow() + reqTimeout + 500*time.Millisecond
		verifrt.TimerAt(c.slowAt, fmt.Sprintf("conn%d-slow-answer", c.id))
	}
}

func (c *sconn) Close() error {
	verifrt.Point("conn.Close")
	c.closed = true
	return nil
}

type addr string

func (a addr) Network() string { return "tcp" }
func (a addr) String() string  { return string(a) }

func (c *sconn) LocalAddr() net.Addr                { return addr("client") }
func (c *sconn) RemoteAddr() net.Addr               { return addr("peer") }
func (c *sconn) SetDeadline(t time.Time) error      { c.SetReadDeadline(t); return nil } //nolint:errcheck
func (c *sconn) SetWriteDeadline(t time.Time) error { return nil }
func (c *sconn) SetReadDeadline(t time.Time) error {
	if t.IsZero() {
		c.hasDL = false
		return nil
	}
	c.hasDL = true
	c.readDL = t.Sub(verifrt.Base)
	verifrt.TimerAt(c.readDL, fmt.Sprintf("conn%d-read-deadline", c.id))
	return nil
}

type dialer struct{ w *World }

func (d dialer) DialConnection(n, address string, timeout time.Duration, tlsConfig *tls.Config) (network.Conn, error) {
	verifrt.Point("dial")
	w := d.w
	k := w.dials
	w.dials++
	for _, e := range w.job.Plan.DialErr {
		if e == k {
			verifrt.Logf("dial %d fails", k)
			return nil, errors.New("dial error (scripted)")
		}
	}
	c := &sconn{w: w, id: len(w.conns)}
	w.conns = append(w.conns, c)
	verifrt.Logf("dial %d -> conn%d", k, c.id)
	return standard.NewConnForVerif(c, 0), nil
}
func (d dialer) DialTimeout(n, address string, timeout time.Duration, tlsConfig *tls.Config) (net.Conn, error) {
	return nil, errors.New("unsupported")
}
func (d dialer) AddTLS(conn network.Conn, tlsConfig *tls.Config) (network.Conn, error) {
	return nil, errors.New("unsupported")
}

// ---- one execution -----------------------------------------------------------------------------------

// Body is the main thread of one execution.
func (w *World) Body() func() {
	return func() {
		job := w.job
		o := &http1.ClientOptions{Dialer: dialer{w}, MaxConns: job.Sc.MaxConns, ReadTimeout: job.Sc.readTO(), WriteTimeout: job.Sc.readTO(), DialTimeout: time.Second, MaxIdleConnDuration: 10 * time.Second}
		if job.Sc.MaxConnDur {
			o.MaxConnDuration = 500 * time.Millisecond
		}
		if job.Sc.Wait {
			o.MaxConnWaitTimeout = waitTimeout
		}
		hc := http1.NewHostClient(o).(*http1.HostClient)
		hc.Addr = "h:80"
		w.hc = hc
		w.calls = make([]callRec, job.Sc.N*job.Sc.M)
		reuseReq, reuseResp := make([]*protocol.Request, job.Sc.N), make([]*protocol.Response, job.Sc.N)
		var wg verifrt.WaitGroup
		wg.Add(job.Sc.N)
		for t := 0; t < job.Sc.N; t++ {
			t := t
			verifrt.Go(fmt.Sprintf("caller%d", t), func() {
				for m := 0; m < job.Sc.M; m++ {
					if job.Sc.MaxConnDur && m > 0 {
						verifrt.Sleep(time.Second)
					}
					k := t*job.Sc.M + m
					rec := &w.calls[k]
					rec.id = fmt.Sprintf("t%dm%d", t, m)
					rec.method = "GET"
					if (t+m)%2 == 1 {
						rec.method = "POST"
					}
					if job.Sc.GetURL {
						rec.method = "GET"
						rec.start = verifrt.VNow()
						var body []byte
						rec.status, body, rec.err = client.GetURLTimeout(context.Background(), nil, "http://h/"+rec.id, reqTimeout, hc)
						rec.end = verifrt.VNow()
						rec.body = string(body)
						continue
					}
					req, resp := &protocol.Request{}, &protocol.Response{}
					if job.Sc.ReuseHead {
						if m == 0 {
							reuseReq[t], reuseResp[t] = req, resp
							rec.method = "HEAD"
						} else {
							req, resp = reuseReq[t], reuseResp[t]
							req.Reset()
							rec.method = "GET"
						}
					}
					req.SetMethod(rec.method)
					req.SetRequestURI("http://h/" + rec.id)
					req.Header.Set("X-Id", rec.id)
					if rec.method == "POST" {
						req.SetBodyString("pb")
					}
					if job.Sc.ReqTO {
						req.SetOptions(config.WithRequestTimeout(job.Sc.reqTO()))
					}
					var ctx context.Context = context.Background()
					for _, c := range job.Plan.Cancel {
						if c == k {
							cctx, cancel := verifrt.WithCancel(context.Background())
							cancel()
							ctx = cctx
							rec.cancelled = true
						}
					}
					rec.start = verifrt.VNow()
					rec.err = hc.Do(ctx, req, resp)
					rec.end = verifrt.VNow()
					if rec.err == nil {
						rec.status = resp.StatusCode()
						rec.body = string(resp.Body())
					}
				}
				wg.Done()
			})
		}
		if job.Sc.Closer {
			wg.Add(1)
			verifrt.Go("closer", func() {
				defer wg.Done()
				hc.CloseIdleConnections()
			})
		}
		wg.Wait()
		verifrt.Settle() // background goroutines of the client (re-dial for a waiter) run to completion
		w.quiescence()
	}
}

// OnPoint is the invariant evaluated at every scheduling point.
func (w *World) OnPoint() {
	if w.hc == nil {
		return
	}
	s := http1.PoolSnapshotForVerif(w.hc)
	if s.ConnsCount > w.job.Sc.MaxConns {
		w.violate("connsCount=%d exceeds MaxConns=%d", s.ConnsCount, w.job.Sc.MaxConns)
	}
	if s.ConnsCount < 0 {
		w.violate("connsCount=%d is negative", s.ConnsCount)
	}
	for _, nc := range s.IdleConns {
		sc := underlying(nc)
		if sc == nil {
			continue
		}
		switch {
		case sc.closed:
			w.violate("connection %d sits in the idle pool although it was closed", sc.id)
		case len(sc.out) > 0 || sc.pending:
			w.violate("connection %d was put back for reuse with an unread / pending response", sc.id)
		case sc.sawErr:
			w.violate("connection %d was put back for reuse after an error or timeout on it", sc.id)
		case sc.announcedClose:
			w.violate("connection %d was put back for reuse although the client had announced Connection: close on it", sc.id)
		case sc.lastAns == AOkClose && sc.exch > 0:
			w.violate("connection %d was put back for reuse although the response said Connection: close", sc.id)
		}
	}
}

func underlying(nc network.Conn) *sconn {
	if nc == nil {
		return nil
	}
	if u, ok := standard.UnderlyingForVerif(nc).(*sconn); ok {
		return u
	}
	return nil
}

func (w *World) quiescence() {
	s := http1.PoolSnapshotForVerif(w.hc)
	open := 0
	for _, c := range w.conns {
		if !c.closed {
			open++
		}
	}
	if open != s.Idle {
		w.violate("after all calls returned %d connections are open but %d are idle in the pool (leaked connection)", open, s.Idle)
	}
	// the idle entries are exactly the open connections: no entry without a live connection, no open connection outside
	inPool := map[*sconn]bool{}
	if len(s.IdleConns) != s.Idle {
		w.violate("after all calls returned the idle pool has %d entries, %d of them nil", s.Idle, s.Idle-len(s.IdleConns))
	}
	for _, nc := range s.IdleConns {
		sc := underlying(nc)
		if sc == nil {
			w.violate("after all calls returned the idle pool holds an entry that has no connection (it was closed and recycled while pooled)")
			continue
		}
		inPool[sc] = true
	}
	for _, c := range w.conns {
		if !c.closed && !inPool[c] {
			w.violate("after all calls returned connection %d is open but is not in the idle pool: nobody owns it", c.id)
		}
	}
	if s.ConnsCount != s.Idle {
		w.violate("after all calls returned connsCount=%d but %d connections are idle in the pool", s.ConnsCount, s.Idle)
	}
	if s.Waiting != 0 {
		w.violate("after all calls returned %d waiters are still queued and waiting", s.Waiting)
	}
	if s.Pending != 0 {
		w.violate("after all calls returned the pending-request gauge is %d", s.Pending)
	}
	for _, c := range w.calls {
		if c.err == nil {
			wantBody := "id=" + c.id
			if c.method == "HEAD" {
				wantBody = ""
			}
			if c.status != 200 || c.body != wantBody {
				w.violate("call %s returned status %d body %q: not the response to its own request", c.id, c.status, c.body)
			}
			if c.cancelled {
				w.violate("call %s succeeded although its context was cancelled before the call", c.id)
			}
		}
		limit := time.Duration(0)
		if w.job.Sc.ReqTO || w.job.Sc.GetURL {
			limit = w.job.Sc.reqTO()
		}
		if limit > 0 && c.end-c.start > limit && verifrt.NoSlack() {
			w.violate("call %s took %v (virtual), request timeout is %v", c.id, c.end-c.start, limit)
		}
	}
}

// RunOne executes the job under one schedule and returns the violations found.
func RunOne(job Job, schedule []int, log bool) (*verifrt.Result, []string) {
	w := NewWorld(job)
	r := verifrt.RunWith(schedule, verifrt.Options{MaxTimeAdvances: 12, Log: log, UnlockPoints: job.Sc.Closer}, w.Body(), w.OnPoint)
	return r, w.Violations(r)
}

func NewWorld(job Job) *World { return &World{job: job, posts: map[string]int{}} }

// Violations returns everything that went wrong in the execution that just ended.
func (w *World) Violations(r *verifrt.Result) []string {
	viol := w.viol
	if r.Deadlock != "" {
		viol = append(viol, "deadlock: "+r.Deadlock)
	}
	if r.Livelock {
		viol = append(viol, "livelock: step limit reached")
	}
	return viol
}

var _ = os.Exit
