//go:build verifsched

// Package c18: graceful shutdown lets in-flight requests finish and bounds the wait.
// The real Engine.Run / Engine.Shutdown / standard transport (engine.go and transport.go rewritten by
// vinstr) run under the controlled scheduler with virtual time against scripted client threads; every
// schedule with at most `bound` deviations is explored for every scenario.
package c18

import (
	"bytes"
	"context"
	"errors"
	"fmt"
	"github.com/cloudwego/hertz/pkg/protocol/http1/resp"
	"io"
	"net"
	"strconv"
	"strings"
	"time"

	"github.com/cloudwego/hertz/pkg/app"
	"github.com/cloudwego/hertz/pkg/common/config"
	"github.com/cloudwego/hertz/pkg/common/hlog"
	"github.com/cloudwego/hertz/pkg/network"
	"github.com/cloudwego/hertz/pkg/network/standard"
	"github.com/cloudwego/hertz/pkg/route"
	"github.com/cloudwego/hertz/verifrt"

	"verifh/httpref"
)

func init() {
	hlog.SetOutput(io.Discard)
	hlog.SetLevel(hlog.LevelFatal)
	standard.SetShutdownTickerForVerif(300 * time.Millisecond) // not a divisor of the exit wait times: a poll that oversleeps the deadline is visible
}

// Client shapes.
const (
	Busy    = "busy"    // one request, handler takes HandlerDelay
	Idle    = "idle"    // one request, then idle keep-alive, second request after Gap
	MidReq  = "midreq"  // header + half of the body, rest after Gap
	Late    = "late"    // connects after Gap
	IdleEnd = "idleend" // one request, then stays idle and closes after Gap without a second request
)

type Client struct {
	Shape        string        `json:"shape"`
	HandlerDelay time.Duration `json:"handler_delay"`
	Gap          time.Duration `json:"gap"`
}

type Scenario struct {
	Name          string          `json:"name"`
	Clients       []Client        `json:"clients"`
	ExitWait      time.Duration   `json:"exit_wait"`
	Hooks         []time.Duration `json:"hooks"`                  // duration each OnShutdown hook blocks
	ShutdownDelay time.Duration   `json:"shutdown_delay"`         // after the engine is running
	Shutdowns     int             `json:"shutdowns"`              // concurrent Shutdown callers (1 or 2)
	Again         bool            `json:"again"`                  // a further Shutdown after the first returned
	BeforeRun     bool            `json:"before_run"`             // Shutdown on an engine that was never started
	ConnectHook   time.Duration   `json:"connect_hook,omitempty"` // the OnAccept and OnConnect hooks block this long each
	// Poll: the period at which transport.Shutdown looks at the connection count (0: 300 ms); long scenarios use a coarser one
	Poll time.Duration `json:"poll,omitempty"`
	// Stream: the handler answers through the chunked body writer (the response head goes out inside the handler)
	Stream bool `json:"stream,omitempty"`
	// ShutdownEarly: the Shutdown caller only waits for the engine to report "running" - which Run does before the
	// transport has created its listener - not for the listener
	ShutdownEarly bool `json:"shutdown_early,omitempty"`
	// SecondRun: Run is called a second time while the engine serves (a retry loop, Spin from two places): that call is
	// refused, and the serving engine goes on serving - the Shutdown that follows does its whole job
	SecondRun bool `json:"second_run,omitempty"`
}

type Job struct {
	Sc       Scenario `json:"scenario"`
	Bound    int      `json:"bound"`
	Schedule []int    `json:"schedule,omitempty"`
}

type timeoutErr struct{}

func (timeoutErr) Error() string   { return "i/o timeout" }
func (timeoutErr) Timeout() bool   { return true }
func (timeoutErr) Temporary() bool { return true }

type pconn struct {
	w         *World
	id        int
	in        []byte
	inEOF     bool
	out       []byte
	srvClosed bool
	hasDL     bool
	readDL    time.Duration
	consumed  int
	reqEnds   []int // stream offsets at which each request sent so far ends
	reqTimes  []time.Duration
	sent      int
	accepted  bool
	acceptAt  time.Duration
}

func (c *pconn) Read(p []byte) (int, error) {
	verifrt.Point("conn.Read")
	s := verifrt.S
	if c.srvClosed {
		return 0, errors.New("use of closed network connection")
	}
	verifrt.BlockUntil(fmt.Sprintf("conn%d.Read", c.id), func() bool {
		return len(c.in) > 0 || c.inEOF || c.srvClosed || (c.hasDL && s.NowLocked() >= c.readDL)
	})
	switch {
	case c.srvClosed:
		return 0, errors.New("use of closed network connection")
	case len(c.in) > 0:
		n := copy(p, c.in)
		c.in = c.in[n:]
		c.consumed += n
		return n, nil
	case c.inEOF:
		return 0, io.EOF
	default:
		return 0, &net.OpError{Op: "read", Net: "tcp", Err: timeoutErr{}}
	}
}

func (c *pconn) Write(p []byte) (int, error) {
	verifrt.Point("conn.Write")
	if c.srvClosed {
		return 0, errors.New("use of closed network connection")
	}
	c.out = append(c.out, p...)
	return len(p), nil
}

func (c *pconn) Close() error {
	verifrt.Point("conn.Close")
	c.srvClosed = true
	return nil
}

type addr string

func (a addr) Network() string { return "tcp" }
func (a addr) String() string  { return string(a) }

func (c *pconn) LocalAddr() net.Addr                { return addr("server") }
func (c *pconn) RemoteAddr() net.Addr               { return addr(fmt.Sprintf("client%d", c.id)) }
func (c *pconn) SetDeadline(t time.Time) error      { return c.SetReadDeadline(t) }
func (c *pconn) SetWriteDeadline(t time.Time) error { return nil }
func (c *pconn) SetReadDeadline(t time.Time) error {
	if t.IsZero() {
		c.hasDL = false
		return nil
	}
	c.hasDL = true
	c.readDL = t.Sub(verifrt.Base)
	verifrt.TimerAt(c.readDL, fmt.Sprintf("conn%d-read-deadline", c.id))
	return nil
}

// client side
func (c *pconn) send(b []byte, endsRequest bool) {
	verifrt.Point("client.send")
	c.in = append(c.in, b...)
	c.sent += len(b)
	if endsRequest {
		c.reqEnds = append(c.reqEnds, c.sent)
		c.reqTimes = append(c.reqTimes, verifrt.VNow())
	}
}

// ---- world ------------------------------------------------------------------------------------------

type shutdownRec struct {
	called, returned bool
	start, end       time.Duration
	err              error
	acceptsAtReturn  int
	slackFree        bool
	// notRunning: the call was made on an engine that no longer served, or while another call was in progress / had succeeded
	notRunning bool
}

type handled struct {
	conn      int
	afterFlip bool // the engine status had left "running" when the handler returned
}

type World struct {
	job       Job
	viol      []string
	e         *route.Engine
	conns     []*pconn
	hookRuns  []int
	// runReturned: the first Run call has returned (the engine no longer serves)
	runReturned bool
	shutdowns []*shutdownRec
	handled   map[string]handled // request id -> info
	refused   int
}

func NewWorld(job Job) *World {
	poll := job.Sc.Poll
	if poll == 0 {
		poll = 300 * time.Millisecond
	}
	standard.SetShutdownTickerForVerif(poll)
	return &World{job: job, handled: map[string]handled{}}
}

func (w *World) violate(format string, a ...interface{}) {
	if len(w.viol) < 8 {
		w.viol = append(w.viol, fmt.Sprintf(format, a...))
	}
}

const listenAddr = "127.0.0.1:18888"

func (w *World) waitRunning() {
	verifrt.BlockUntil("engine running", func() bool { return w.e.StatusForVerif() >= 2 && verifrt.HasListener(listenAddr) })
}

func request(id string, delay time.Duration, body string) []byte {
	if body == "" {
		return []byte(fmt.Sprintf("GET /h?id=%s&d=%d HTTP/1.1\r\nHost: h\r\n\r\n", id, int64(delay)))
	}
	return []byte(fmt.Sprintf("POST /h?id=%s&d=%d HTTP/1.1\r\nHost: h\r\nContent-Length: %d\r\n\r\n%s", id, int64(delay), len(body), body))
}

// responses parses what the server wrote on the connection so far.
func (c *pconn) responses() ([]*httpref.Message, error) {
	return httpref.ParseResponses(c.out, []string{"GET", "GET", "GET"}, c.srvClosed)
}

func (c *pconn) complete(n int) bool {
	ms, _ := c.responses()
	return len(httpref.Finals(ms)) >= n
}

func (w *World) clientThread(i int, cl Client) func() {
	return func() {
		// a client needs the listener; if the server ends without ever listening there is nothing to connect to
		verifrt.BlockUntil("listener or server end", func() bool {
			return (w.e.StatusForVerif() >= 2 && verifrt.HasListener(listenAddr)) || w.e.StatusForVerif() >= 4
		})
		if !verifrt.HasListener(listenAddr) {
			w.refused++
			return
		}
		if cl.Shape == Late {
			verifrt.Sleep(cl.Gap)
		}
		l := verifrt.ListenerFor(listenAddr)
		c := &pconn{w: w, id: i}
		w.conns[i] = c
		if err := l.Inject(c); err != nil {
			w.refused++
			return
		}
		id := fmt.Sprintf("c%dr0", i)
		wait := func(n int) {
			// wait for the n-th response, or for the server closing the connection, or give up after a long time
			give := verifrt.VNow() + 120*time.Second
			verifrt.TimerAtQuiet(give, "client-gives-up")
			s := verifrt.S
			verifrt.BlockUntil(fmt.Sprintf("client%d waits for response", i), func() bool {
				return c.complete(n) || c.srvClosed || s.NowLocked() >= give
			})
		}
		switch cl.Shape {
		case MidReq:
			full := request(id, cl.HandlerDelay, "0123456789")
			cut := len(full) - 5
			c.send(full[:cut], false)
			verifrt.Sleep(cl.Gap)
			c.send(full[cut:], true)
			wait(1)
		default:
			c.send(request(id, cl.HandlerDelay, ""), true)
			wait(1)
		}
		switch cl.Shape {
		case Idle:
			verifrt.Sleep(cl.Gap)
			if !c.srvClosed {
				c.send(request(fmt.Sprintf("c%dr1", i), 0, ""), true)
				wait(2)
			}
		case IdleEnd:
			verifrt.Sleep(cl.Gap)
		}
		verifrt.Point("client.close")
		c.inEOF = true
	}
}

func (w *World) Body() func() {
	return func() {
		verifrt.ResetListeners()
		sc := w.job.Sc
		opt := config.NewOptions(nil)
		opt.Addr = listenAddr
		opt.ExitWaitTimeout = sc.ExitWait
		opt.IdleTimeout = 60 * time.Second
		opt.ReadTimeout = 60 * time.Second
		opt.DisablePrintRoute = true
		opt.NoDefaultDate = true
		opt.TransporterNewer = standard.NewTransporter
		// the accept hook records when the server took the connection (it runs right after Accept returned)
		opt.OnAccept = func(conn net.Conn) context.Context {
			if pc, ok := conn.(*pconn); ok {
				pc.accepted, pc.acceptAt = true, verifrt.VNow()
			}
			if sc.ConnectHook > 0 {
				verifrt.Sleep(sc.ConnectHook)
			}
			return context.Background()
		}
		if sc.ConnectHook > 0 {
			opt.OnConnect = func(ctx context.Context, conn network.Conn) context.Context {
				verifrt.Sleep(sc.ConnectHook)
				return ctx
			}
		}
		e := route.NewEngine(opt)
		w.e = e
		e.GET("/h", w.handler)
		e.POST("/h", w.handler)
		w.hookRuns = make([]int, len(sc.Hooks))
		for i, d := range sc.Hooks {
			i, d := i, d
			e.OnShutdown = append(e.OnShutdown, func(ctx context.Context) {
				w.hookRuns[i]++
				if d > 0 {
					verifrt.Sleep(d)
				}
			})
		}
		w.conns = make([]*pconn, len(sc.Clients))
		var wg verifrt.WaitGroup
		if sc.BeforeRun {
			// shutdown of a server that is not running must report an error and not hang
			r := &shutdownRec{called: true}
			w.shutdowns = append(w.shutdowns, r)
			r.err = e.Shutdown(context.Background())
			r.returned = true
			if r.err == nil {
				w.violate("Shutdown of an engine that is not running returned nil instead of an error")
			}
			return
		}
		verifrt.Go("run", func() { e.Run(); w.runReturned = true }) //nolint:errcheck
		for i, cl := range sc.Clients {
			wg.Add(1)
			f := w.clientThread(i, cl)
			verifrt.Go(fmt.Sprintf("client%d", i), func() { f(); wg.Done() })
		}
		n := sc.Shutdowns
		if n == 0 {
			n = 1
		}
		for k := 0; k < n; k++ {
			r := &shutdownRec{}
			w.shutdowns = append(w.shutdowns, r)
			wg.Add(1)
			verifrt.Go(fmt.Sprintf("shutdown%d", k), func() {
				if sc.ShutdownEarly {
					verifrt.BlockUntil("engine status running", func() bool { return w.e.StatusForVerif() >= 2 })
				} else {
					w.waitRunning()
				}
				if sc.ShutdownDelay > 0 {
					verifrt.Sleep(sc.ShutdownDelay)
				}
				if sc.SecondRun {
					if err := w.e.Run(); err == nil {
						w.violate("a second Run on a serving engine returned nil")
					}
				}
				w.callShutdown(r)
				if sc.Again && r.err == nil {
					r2 := &shutdownRec{}
					w.shutdowns = append(w.shutdowns, r2)
					w.callShutdown(r2)
				}
				wg.Done()
			})
		}
		wg.Wait()
		verifrt.SettleAll() // handlers still running, hooks beyond the deadline, the accept loop: everything ends
		w.final()
	}
}

func (w *World) callShutdown(r *shutdownRec) {
	r.called = true
	r.start = verifrt.VNow()
	// (the harness's own knowledge: the run thread has been started, the engine reported "running", Run has not returned)
	servingAtCall := !w.runReturned
	r.err = w.e.Shutdown(context.Background())
	r.end = verifrt.VNow()
	r.returned = true
	r.slackFree = verifrt.NoSlack()
	if l := verifrt.ListenerFor(listenAddr); l != nil {
		r.acceptsAtReturn = l.Accepts
	}
	// A nil return before the exit wait time has elapsed says the server has drained: a request that was completely sent, on a connection the server had
	// accepted, before Shutdown was called has its complete response by now. (Judged only in executions without early
	// timer firings: the accept loop counts a connection a few instructions after taking it, which the first ticker
	// period of Shutdown is there to cover - scheduling slack, not a defect.)
	// The same holds for a return with an error other than "engine is not running" (a second caller): the server gave up
	// waiting although the configured exit wait time was not over.
	// (Which call that is is told from the situation, not from the error's text: the engine was not running when the call
	// began, or another Shutdown call is in progress or has succeeded.)
	notRunning := false
	if r.err != nil {
		notRunning = !servingAtCall
		for _, o := range w.shutdowns {
			if o != r && o.called && (!o.returned || o.err == nil) {
				notRunning = true
			}
		}
	}
	r.notRunning = notRunning
	if !notRunning && r.slackFree && r.end-r.start < w.job.Sc.ExitWait {
		for i, c := range w.conns {
			if c == nil || !c.accepted || c.acceptAt >= r.start {
				continue
			}
			for k, t := range c.reqTimes {
				if t < r.start && !c.complete(k+1) && !c.srvClosed {
					w.violate("Shutdown returned ("+fmt.Sprint(r.err)+") after %v although request %d of client %d - sent at %v on a connection accepted at %v, both before the call at %v - had not been answered yet", r.end-r.start, k, i, t, c.acceptAt, r.start)
				}
			}
		}
	}
}

func (w *World) handler(c context.Context, ctx *app.RequestContext) {
	id := string(ctx.QueryArgs().Peek("id"))
	d, _ := strconv.ParseInt(string(ctx.QueryArgs().Peek("d")), 10, 64)
	entered := w.e.StatusForVerif() != 2
	if d > 0 {
		verifrt.Sleep(time.Duration(d))
	}
	ctx.SetStatusCode(200)
	if w.job.Sc.Stream {
		ctx.Response.HijackWriter(resp.NewChunkedBodyWriter(&ctx.Response, ctx.GetWriter()))
		ctx.Write([]byte("ok:" + id)) //nolint:errcheck
		ctx.Flush()                   //nolint:errcheck
		verifrt.Point("handler-return")
		// the head went out inside the handler: only a request that arrived after shutdown had begun can be told (one that
		// is dispatched while Shutdown flips the status may or may not see it: not demanded)
		late := false
		var ci, ri int
		if _, err := fmt.Sscanf(id, "c%dr%d", &ci, &ri); err == nil && ci < len(w.conns) && w.conns[ci] != nil && ri < len(w.conns[ci].reqTimes) {
			for _, r := range w.shutdowns {
				// (without early timer firings only: the virtual clock then moves past the call's start only once the
				// Shutdown thread has blocked, i.e. after it flipped the status)
				if r.called && r.start < w.conns[ci].reqTimes[ri] && verifrt.NoSlack() {
					late = true
				}
			}
		}
		_ = entered
		w.handled[id] = handled{afterFlip: late}
		return
	}
	ctx.Response.SetBodyString("ok:" + id)
	verifrt.Point("handler-return")
	h := handled{afterFlip: w.e.StatusForVerif() != 2}
	w.handled[id] = h
}

func (w *World) final() {
	sc := w.job.Sc
	// every request whose last byte the server consumed has one complete response
	for i, c := range w.conns {
		if c == nil {
			continue
		}
		received := 0
		for _, end := range c.reqEnds {
			if c.consumed >= end {
				received++
			}
		}
		ms, err := c.responses()
		fin := httpref.Finals(ms)
		if err != nil {
			if _, inc := err.(httpref.ErrIncomplete); inc {
				w.violate("client %d: the server closed the connection in the middle of a response (truncated): %q", i, clip(c.out))
			} else {
				w.violate("client %d: server output is not well-formed: %v: %q", i, err, clip(c.out))
			}
			continue
		}
		// a request that was completely sent, on a connection the server had accepted, before the first Shutdown call is in
		// flight: it is answered - the connection is not dropped unread (judged without early timer firings only)
		if len(w.shutdowns) > 0 && w.shutdowns[0].called && w.shutdowns[0].slackFree && c.accepted && c.acceptAt < w.shutdowns[0].start && c.srvClosed {
			for k, t := range c.reqTimes {
				if t < w.shutdowns[0].start && k < len(c.reqEnds) && c.consumed < c.reqEnds[k] && len(fin) <= k {
					w.violate("client %d: request %d was sent at %v on a connection accepted at %v, both before Shutdown was called at %v, but the server closed the connection without reading it", i, k, t, c.acceptAt, w.shutdowns[0].start)
				}
			}
		}
		if len(fin) < received {
			w.violate("client %d: the server consumed %d complete requests but wrote %d complete responses (closed=%v): %q", i, received, len(fin), c.srvClosed, clip(c.out))
			continue
		}
		for k, m := range fin {
			id := fmt.Sprintf("c%dr%d", i, k)
			if m.Status != 200 || string(m.Body) != "ok:"+id {
				w.violate("client %d: response %d is %d %q, expected 200 ok:%s", i, k, m.Status, m.Body, id)
			}
			if h, ok := w.handled[id]; ok && h.afterFlip && !m.HasToken("Connection", "close") {
				w.violate("client %d: the handler of request %s returned after shutdown had begun, but the response does not carry Connection: close", i, id)
			}
		}
	}
	for i, n := range w.hookRuns {
		if len(w.shutdowns) > 0 && w.shutdowns[0].called && anySucceeded(w.shutdowns) && n != 1 {
			w.violate("shutdown hook %d ran %d times", i, n)
		}
	}
	winners := 0
	for k, r := range w.shutdowns {
		if !r.called {
			continue
		}
		if !r.returned {
			w.violate("Shutdown call %d never returned", k)
			continue
		}
		// whatever it returns (nil, a time-out error, "not running"), the call is over when the exit wait time is
		if r.slackFree && r.end-r.start > sc.ExitWait {
			w.violate("Shutdown call %d took %v of virtual time, ExitWaitTimeout is %v", k, r.end-r.start, sc.ExitWait)
		}
		// the one call made on a serving engine does the job: it does not come back with an error while there is time left
		if r.err != nil && !r.notRunning && r.slackFree && r.end-r.start < sc.ExitWait {
			w.violate("Shutdown call %d on a serving engine (no other call in progress) returned an error after %v, before the exit wait time %v was over: %v", k, r.end-r.start, sc.ExitWait, r.err)
		}
		if r.err == nil {
			winners++
			if l := verifrt.ListenerFor(listenAddr); l != nil && l.Accepts > r.acceptsAtReturn {
				w.violate("a connection was accepted after Shutdown had returned")
			}
		}
	}
	if winners > 1 {
		w.violate("%d Shutdown calls returned nil: a second (concurrent or repeated) shutdown must report an error", winners)
	}
}

func anySucceeded(rs []*shutdownRec) bool {
	for _, r := range rs {
		if r.returned && r.err == nil {
			return true
		}
	}
	return false
}

func clip(b []byte) string {
	if len(b) > 200 {
		return string(b[:200]) + "..."
	}
	return string(b)
}

func (w *World) OnPoint() {}

// Violations returns everything that went wrong in the execution that just ended.
func (w *World) Violations(r *verifrt.Result) []string {
	viol := w.viol
	if r.Deadlock != "" {
		viol = append(viol, "deadlock: "+r.Deadlock)
	}
	if r.Livelock {
		viol = append(viol, "livelock: step limit reached")
	}
	return viol
}

var Opts = verifrt.Options{MaxTimeAdvances: 400, MaxSteps: 400000, SwitchCost: 1}

func RunOne(job Job, schedule []int, log bool) (*verifrt.Result, []string) {
	w := NewWorld(job)
	o := Opts
	o.Log = log
	r := verifrt.RunWith(schedule, o, w.Body(), w.OnPoint)
	return r, w.Violations(r)
}

var _ = bytes.Equal
var _ = strings.Contains
