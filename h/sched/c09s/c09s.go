//go:build verifsched

// Package c09s is the schedule part of C09: several connections are served concurrently by one engine
// (one pool of request contexts) under the controlled scheduler. Scheduling points are every connection read
// and write and a point inside every handler, so pooled contexts migrate between connection threads in every
// order allowed by the deviation bound. Invariants: a *RequestContext is never held by two in-flight handlers,
// and every probe request observes what a fresh context shows (same reflective dump as the sequential part).
package c09s

import (
	"context"
	"errors"
	"fmt"
	"io"
	"net"
	"strings"
	"time"

	"github.com/cloudwego/hertz/pkg/app"
	"github.com/cloudwego/hertz/pkg/app/middlewares/server/recovery"
	"github.com/cloudwego/hertz/pkg/common/config"
	"github.com/cloudwego/hertz/pkg/common/hlog"
	"github.com/cloudwego/hertz/pkg/common/tracer/stats"
	"github.com/cloudwego/hertz/pkg/network"
	"github.com/cloudwego/hertz/pkg/network/standard"
	"github.com/cloudwego/hertz/pkg/route"
	"github.com/cloudwego/hertz/verifrt"

	"verifh/checks/c09"
)

func init() {
	hlog.SetOutput(io.Discard)
	hlog.SetLevel(hlog.LevelFatal)
}

// ConnScript: what one connection sends. Each element is one request kind.
//
//	"d:<op>"  dirty request whose handler applies the mutator <op> (keep-alive)
//	"D:<op>"  the same with Connection: close
//	"p"       probe request
type Scenario struct {
	Name  string     `json:"name"`
	Conns [][]string `json:"conns"`
}

type Job struct {
	Sc       Scenario `json:"scenario"`
	Bound    int      `json:"bound"`
	Schedule []int    `json:"schedule,omitempty"`
}

type sconn struct {
	id     int
	in     []byte
	out    []byte
	closed bool
}

func (c *sconn) Read(p []byte) (int, error) {
	verifrt.Point(fmt.Sprintf("conn%d.Read", c.id))
	if c.closed {
		return 0, errors.New("use of closed network connection")
	}
	if len(c.in) == 0 {
		return 0, io.EOF
	}
	n := copy(p, c.in)
	c.in = c.in[n:]
	return n, nil
}
func (c *sconn) Write(p []byte) (int, error) {
	verifrt.Point(fmt.Sprintf("conn%d.Write", c.id))
	c.out = append(c.out, p...)
	return len(p), nil
}
func (c *sconn) Close() error { c.closed = true; return nil }

type addr string

func (a addr) Network() string { return "tcp" }
func (a addr) String() string  { return string(a) }

func (c *sconn) LocalAddr() net.Addr                { return addr("server") }
func (c *sconn) RemoteAddr() net.Addr               { return addr("client") }
func (c *sconn) SetDeadline(t time.Time) error      { return nil }
func (c *sconn) SetReadDeadline(t time.Time) error  { return nil }
func (c *sconn) SetWriteDeadline(t time.Time) error { return nil }

type noListenTransport struct{}

func (noListenTransport) Close() error                               { return nil }
func (noListenTransport) Shutdown(ctx context.Context) error         { return nil }
func (noListenTransport) ListenAndServe(onData network.OnData) error { return nil }

type spanTracer struct{ w *World }

func (t *spanTracer) Start(ctx context.Context, c *app.RequestContext) context.Context { return ctx }

func (t *spanTracer) Finish(ctx context.Context, c *app.RequestContext) {
	ti := c.GetTraceInfo()
	if ti == nil || ti.Stats() == nil {
		t.w.violate("tracer Finish: the request context carries no trace info")
		return
	}
	var missing []string
	for _, ev := range []struct {
		n string
		e stats.Event
	}{{"HTTPStart", stats.HTTPStart}, {"ReadHeaderStart", stats.ReadHeaderStart}, {"ReadHeaderFinish", stats.ReadHeaderFinish}, {"ServerHandleStart", stats.ServerHandleStart}, {"ServerHandleFinish", stats.ServerHandleFinish}} {
		if ti.Stats().GetEvent(ev.e) == nil {
			missing = append(missing, ev.n)
		}
	}
	if len(missing) > 0 && len(c.Request.Header.RequestURI()) > 1 {
		t.w.violate("tracer Finish of %s: the stage events %v of this exchange are missing from its trace info (another connection's exchange reset them)", c.Request.Header.RequestURI(), missing)
	}
}

type World struct {
	job      Job
	viol     []string
	inflight map[*app.RequestContext]string
	ops      map[string]string // request id -> mutator
	ref      []string
	probes   int
	onProbe  func(d []string)
}

var refDump []string

// reference: the probe on a fresh engine and connection (computed once per process, outside the scheduler)
func reference() []string {
	if refDump != nil {
		return refDump
	}
	w := &World{inflight: map[*app.RequestContext]string{}}
	e := w.engine()
	c := &sconn{in: []byte(c09.ProbeReq)}
	var got []string
	w.onProbe = func(d []string) { got = d }
	e.Serve(context.Background(), standard.NewConnForVerif(c, 0)) //nolint:errcheck
	refDump = got
	return got
}

func (w *World) violate(format string, a ...interface{}) {
	if len(w.viol) < 6 {
		w.viol = append(w.viol, fmt.Sprintf(format, a...))
	}
}

func (w *World) enter(ctx *app.RequestContext, who string) {
	if other, busy := w.inflight[ctx]; busy {
		w.violate("the same *RequestContext is held by two in-flight handlers at once (%s and %s)", other, who)
	}
	w.inflight[ctx] = who
}

func (w *World) leave(ctx *app.RequestContext) { delete(w.inflight, ctx) }

func (w *World) engine() *route.Engine {
	opt := config.NewOptions(nil)
	opt.TransporterNewer = func(*config.Options) network.Transporter { return noListenTransport{} }
	opt.DisablePrintRoute = true
	opt.NoDefaultDate = true
	// a tracer: every Finish must see the stage events of its own exchange (C19), also while other connections are
	// being served - the trace info belongs to the request context, not to the engine
	opt.Tracers = append(opt.Tracers, &spanTracer{w})
	opt.TraceLevel = stats.LevelDetailed
	e := route.NewEngine(opt)
	e.Use(recovery.Recovery())
	e.POST("/dirty/:id", func(c context.Context, ctx *app.RequestContext) {
		who := string(ctx.Request.Header.Peek("X-Who"))
		w.enter(ctx, who)
		verifrt.Point("dirty-handler")
		if op := string(ctx.Request.Header.Peek("X-Op")); op != "" {
			c09.ApplyOp(ctx, op)
		}
		verifrt.Point("dirty-handler-end")
		w.leave(ctx)
	})
	e.POST("/probe/*rest", func(c context.Context, ctx *app.RequestContext) {
		who := "probe"
		w.enter(ctx, who)
		verifrt.Point("probe-handler")
		d := c09.Dump(ctx)
		w.leave(ctx)
		w.probes++
		if w.onProbe != nil {
			w.onProbe(d)
			return
		}
		if df := c09.Diff(w.ref, d); len(df) > 0 {
			if len(df) > 4 {
				df = df[:4]
			}
			w.violate("a probe request served while other connections were in flight observes state a fresh context does not show:\n  %s", strings.Join(df, "\n  "))
		}
	})
	if err := e.Init(); err != nil {
		panic(err)
	}
	e.MarkAsRunning() //nolint:errcheck
	return e
}

func NewWorld(job Job) *World {
	return &World{job: job, inflight: map[*app.RequestContext]string{}, ref: reference()}
}

func withHeaders(req, extra string) string {
	i := strings.Index(req, "\r\n")
	return req[:i+2] + extra + req[i+2:]
}

func (w *World) Body() func() {
	return func() {
		e := w.engine()
		var wg verifrt.WaitGroup
		for ci, script := range w.job.Sc.Conns {
			var in strings.Builder
			for ri, r := range script {
				switch {
				case r == "p":
					in.WriteString(c09.ProbeReq)
				case strings.HasPrefix(r, "d:"), strings.HasPrefix(r, "D:"):
					base := c09.DirtyReq
					if r[0] == 'D' {
						base = c09.DirtyReqClose
					}
					in.WriteString(withHeaders(base, fmt.Sprintf("X-Who: c%dr%d\r\nX-Op: %s\r\n", ci, ri, r[2:])))
				}
			}
			c := &sconn{id: ci, in: []byte(in.String())}
			wg.Add(1)
			verifrt.Go(fmt.Sprintf("conn%d", ci), func() {
				e.Serve(context.Background(), standard.NewConnForVerif(c, 0)) //nolint:errcheck
				wg.Done()
			})
		}
		wg.Wait()
		want := 0
		for _, s := range w.job.Sc.Conns {
			for _, r := range s {
				if r == "p" {
					want++
				}
			}
		}
		_ = want
	}
}

func (w *World) OnPoint() {}

func (w *World) Violations(r *verifrt.Result) []string {
	viol := w.viol
	if r.Deadlock != "" {
		viol = append(viol, "deadlock: "+r.Deadlock)
	}
	return viol
}

var Opts = verifrt.Options{MaxTimeAdvances: 8, MaxSteps: 100000}

func RunOne(job Job, schedule []int, log bool) (*verifrt.Result, []string) {
	w := NewWorld(job)
	o := Opts
	o.Log = log
	r := verifrt.RunWith(schedule, o, w.Body(), w.OnPoint)
	return r, w.Violations(r)
}

// Scenarios enumerates the connection scripts: every ordered pair (thorough: triple) of connection kinds
// {probe only, dirty(op) then probe on the same connection, dirty(op) with close} for every op of the reduced alphabet.
func Scenarios(thorough bool) []Scenario {
	ops := c09.ReducedOps()
	var out []Scenario
	for _, op := range ops {
		if op == "RequestContext.Exile" {
			continue // its effect on the same keep-alive connection is the known finding of the sequential part
		}
		if op == "RequestContext.SetTraceInfo(own)" {
			continue // the handler replaces the trace info of its OWN exchange: the tracer of this part would (rightly) miss the stage events
		}
		out = append(out,
			Scenario{Name: "close+probe|" + op, Conns: [][]string{{"D:" + op}, {"p"}}},
			Scenario{Name: "keepalive-probe+probe|" + op, Conns: [][]string{{"d:" + op, "p"}, {"p"}}},
			Scenario{Name: "two-dirty+probe|" + op, Conns: [][]string{{"D:" + op}, {"D:" + op}, {"p"}}},
		)
		if thorough {
			out = append(out, Scenario{Name: "three-way|" + op, Conns: [][]string{{"d:" + op, "p"}, {"D:" + op}, {"p", "p"}}})
		}
	}
	return out
}
