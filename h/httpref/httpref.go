// Package httpref is a small, strict, independent RFC 7230 message reader used as the
// judge of "what the wire says". It shares no code with hertz.
package httpref

import (
	"bytes"
	"fmt"
	"strconv"
	"strings"
)

type Header struct{ Name, Value string }

type Message struct {
	// request
	Method, Target string
	// response
	Status int
	Reason string

	Proto    string
	Headers  []Header
	Body     []byte
	Trailers []Header
	Chunked  bool
	CL       int // -1 when absent
	ToClose  bool
	Start    int // offset of first byte
	End      int // offset after last byte
	ChunkExt bool
}

func (m *Message) Get(name string) (string, bool) {
	for _, h := range m.Headers {
		if strings.EqualFold(h.Name, name) {
			return h.Value, true
		}
	}
	return "", false
}

func (m *Message) GetAll(name string) []string {
	var out []string
	for _, h := range m.Headers {
		if strings.EqualFold(h.Name, name) {
			out = append(out, h.Value)
		}
	}
	return out
}

// HasToken reports whether a comma-separated header contains token (case-insensitive).
func (m *Message) HasToken(name, token string) bool {
	for _, v := range m.GetAll(name) {
		for _, t := range strings.Split(v, ",") {
			if strings.EqualFold(strings.TrimSpace(t), token) {
				return true
			}
		}
	}
	return false
}

type ErrIncomplete struct{ At int }

func (e ErrIncomplete) Error() string { return fmt.Sprintf("incomplete message at offset %d", e.At) }

type ErrMalformed struct {
	At  int
	Why string
}

func (e ErrMalformed) Error() string { return fmt.Sprintf("malformed at offset %d: %s", e.At, e.Why) }

func isTchar(c byte) bool {
	if c >= '0' && c <= '9' || c >= 'a' && c <= 'z' || c >= 'A' && c <= 'Z' {
		return true
	}
	return strings.IndexByte("!#$%&'*+-.^_`|~", c) >= 0
}

func isToken(s string) bool {
	if s == "" {
		return false
	}
	for i := 0; i < len(s); i++ {
		if !isTchar(s[i]) {
			return false
		}
	}
	return true
}

// field-value octets: VCHAR, SP, HTAB, obs-text
func validValue(s string) bool {
	for i := 0; i < len(s); i++ {
		c := s[i]
		if c == '\t' {
			continue
		}
		if c < 0x20 || c == 0x7f {
			return false
		}
	}
	return true
}

type rd struct {
	b   []byte
	pos int
}

// line reads up to CRLF (strict). Returns the line without CRLF.
func (r *rd) line() (string, error) {
	i := bytes.IndexByte(r.b[r.pos:], '\n')
	if i < 0 {
		// a bare CR or other junk still counts as incomplete until LF shows up
		return "", ErrIncomplete{len(r.b)}
	}
	ln := r.b[r.pos : r.pos+i]
	if len(ln) == 0 || ln[len(ln)-1] != '\r' {
		return "", ErrMalformed{r.pos + i, "line terminated by bare LF"}
	}
	ln = ln[:len(ln)-1]
	if bytes.IndexByte(ln, '\r') >= 0 {
		return "", ErrMalformed{r.pos, "bare CR inside line"}
	}
	r.pos += i + 1
	return string(ln), nil
}

func (r *rd) headers(allowFold bool) ([]Header, error) {
	var hs []Header
	for {
		at := r.pos
		ln, err := r.line()
		if err != nil {
			return nil, err
		}
		if ln == "" {
			return hs, nil
		}
		if ln[0] == ' ' || ln[0] == '\t' {
			if !allowFold || len(hs) == 0 {
				return nil, ErrMalformed{at, "unexpected continuation line"}
			}
			v := strings.Trim(ln, " \t")
			if !validValue(v) {
				return nil, ErrMalformed{at, "invalid octet in folded header value"}
			}
			h := &hs[len(hs)-1]
			if h.Value == "" {
				h.Value = v
			} else if v != "" {
				h.Value += " " + v
			}
			continue
		}
		c := strings.IndexByte(ln, ':')
		if c <= 0 {
			return nil, ErrMalformed{at, fmt.Sprintf("header line without name/colon: %q", ln)}
		}
		name := ln[:c]
		if !isToken(name) {
			return nil, ErrMalformed{at, fmt.Sprintf("invalid header field name %q", name)}
		}
		v := strings.Trim(ln[c+1:], " \t")
		if !validValue(v) {
			return nil, ErrMalformed{at, fmt.Sprintf("invalid octet in value of %q: %q", name, v)}
		}
		hs = append(hs, Header{name, v})
	}
}

func (r *rd) take(n int) ([]byte, error) {
	if len(r.b)-r.pos < n {
		return nil, ErrIncomplete{len(r.b)}
	}
	p := r.b[r.pos : r.pos+n]
	r.pos += n
	return p, nil
}

func (r *rd) chunked(m *Message) error {
	for {
		at := r.pos
		ln, err := r.line()
		if err != nil {
			return err
		}
		szs := ln
		if i := strings.IndexByte(ln, ';'); i >= 0 {
			szs = ln[:i]
			m.ChunkExt = true
		}
		szs = strings.TrimRight(szs, " \t")
		if szs == "" || len(szs) > 15 {
			return ErrMalformed{at, fmt.Sprintf("bad chunk size line %q", ln)}
		}
		for i := 0; i < len(szs); i++ {
			c := szs[i]
			if !(c >= '0' && c <= '9' || c >= 'a' && c <= 'f' || c >= 'A' && c <= 'F') {
				return ErrMalformed{at, fmt.Sprintf("bad chunk size line %q", ln)}
			}
		}
		sz, _ := strconv.ParseInt(szs, 16, 64)
		if sz == 0 {
			tr, err := r.headers(true)
			if err != nil {
				return err
			}
			m.Trailers = tr
			return nil
		}
		d, err := r.take(int(sz))
		if err != nil {
			return err
		}
		m.Body = append(m.Body, d...)
		crlf, err := r.take(2)
		if err != nil {
			return err
		}
		if crlf[0] != '\r' || crlf[1] != '\n' {
			return ErrMalformed{r.pos - 2, "chunk data not followed by CRLF"}
		}
	}
}

// framing decides CL / chunked from the header list.
func framing(m *Message, at int) error {
	m.CL = -1
	cls := m.GetAll("Content-Length")
	for i, v := range cls {
		if v == "" || len(v) > 18 {
			return ErrMalformed{at, "bad Content-Length " + v}
		}
		for j := 0; j < len(v); j++ {
			if v[j] < '0' || v[j] > '9' {
				return ErrMalformed{at, "bad Content-Length " + v}
			}
		}
		if i > 0 && v != cls[0] {
			return ErrMalformed{at, "conflicting Content-Length"}
		}
		n, _ := strconv.Atoi(v)
		m.CL = n
	}
	tes := m.GetAll("Transfer-Encoding")
	if len(tes) > 0 {
		if len(tes) != 1 || !strings.EqualFold(tes[0], "chunked") {
			return ErrMalformed{at, "unsupported Transfer-Encoding " + strings.Join(tes, ",")}
		}
		if m.CL >= 0 {
			return ErrMalformed{at, "both Transfer-Encoding and Content-Length"}
		}
		m.Chunked = true
	}
	return nil
}

// ParseRequest reads one request starting at off. err is ErrIncomplete / ErrMalformed.
func ParseRequest(b []byte, off int) (*Message, error) {
	r := &rd{b: b, pos: off}
	m := &Message{Start: off}
	at := r.pos
	ln, err := r.line()
	if err != nil {
		return nil, err
	}
	parts := strings.Split(ln, " ")
	if len(parts) != 3 || !isToken(parts[0]) || parts[1] == "" || (parts[2] != "HTTP/1.1" && parts[2] != "HTTP/1.0") {
		return nil, ErrMalformed{at, fmt.Sprintf("bad request line %q", ln)}
	}
	if !validValue(parts[1]) || strings.ContainsAny(parts[1], "\t") {
		return nil, ErrMalformed{at, "invalid octet in request target"}
	}
	m.Method, m.Target, m.Proto = parts[0], parts[1], parts[2]
	if m.Headers, err = r.headers(true); err != nil {
		return nil, err
	}
	if err = framing(m, at); err != nil {
		return nil, err
	}
	if m.Chunked {
		if m.Proto == "HTTP/1.0" {
			return nil, ErrMalformed{at, "chunked in HTTP/1.0 request"}
		}
		if err = r.chunked(m); err != nil {
			return nil, err
		}
	} else if m.CL > 0 {
		d, err := r.take(m.CL)
		if err != nil {
			return nil, err
		}
		m.Body = append([]byte(nil), d...)
	}
	m.End = r.pos
	if m.Proto == "HTTP/1.1" {
		m.ToClose = m.HasToken("Connection", "close")
	} else {
		m.ToClose = !m.HasToken("Connection", "keep-alive")
	}
	return m, nil
}

// ParseRequests reads back-to-back requests; stops at the first one that asks to close.
// rest is nil when the stream ended cleanly, otherwise the error for the remainder.
func ParseRequests(b []byte) (ms []*Message, rest error) {
	off := 0
	for off < len(b) {
		m, err := ParseRequest(b, off)
		if err != nil {
			return ms, err
		}
		ms = append(ms, m)
		off = m.End
		if m.ToClose {
			break
		}
	}
	return ms, nil
}

func bodiless(status int) bool {
	return status/100 == 1 || status == 204 || status == 304
}

// ParseResponse reads one response starting at off; method is the request method it answers.
// If the response is delimited by connection close, everything to the end of b is its body
// (closed tells whether the peer has closed, otherwise such a body is incomplete).
func ParseResponse(b []byte, off int, method string, closed bool) (*Message, error) {
	r := &rd{b: b, pos: off}
	m := &Message{Start: off}
	at := r.pos
	ln, err := r.line()
	if err != nil {
		return nil, err
	}
	// status-line = HTTP-version SP 3DIGIT SP reason-phrase
	if len(ln) < 12 || (ln[:9] != "HTTP/1.1 " && ln[:9] != "HTTP/1.0 ") || (len(ln) > 12 && ln[12] != ' ') {
		return nil, ErrMalformed{at, fmt.Sprintf("bad status line %q", ln)}
	}
	for i := 9; i < 12; i++ {
		if ln[i] < '0' || ln[i] > '9' {
			return nil, ErrMalformed{at, fmt.Sprintf("bad status code in %q", ln)}
		}
	}
	code, _ := strconv.Atoi(ln[9:12])
	if code < 100 {
		return nil, ErrMalformed{at, fmt.Sprintf("bad status code in %q", ln)}
	}
	m.Proto, m.Status = ln[:8], code
	if len(ln) > 13 {
		m.Reason = ln[13:]
	}
	if !validValue(m.Reason) {
		return nil, ErrMalformed{at, "invalid octet in reason phrase"}
	}
	if m.Headers, err = r.headers(false); err != nil {
		return nil, err
	}
	if err = framing(m, at); err != nil {
		return nil, err
	}
	switch {
	case method == "HEAD" || bodiless(code):
		// no body whatever the headers say
	case m.Chunked:
		if err = r.chunked(m); err != nil {
			return nil, err
		}
	case m.CL >= 0:
		d, err := r.take(m.CL)
		if err != nil {
			return nil, err
		}
		m.Body = append([]byte(nil), d...)
	default:
		if !closed {
			return nil, ErrIncomplete{len(b)}
		}
		m.Body = append([]byte(nil), b[r.pos:]...)
		r.pos = len(b)
		m.ToClose = true
	}
	m.End = r.pos
	if m.HasToken("Connection", "close") || (m.Proto == "HTTP/1.0" && !m.HasToken("Connection", "keep-alive")) {
		m.ToClose = true
	}
	return m, nil
}

// ParseResponses splits the whole server output into responses. methods[i] is the method of
// the i-th request answered (interim 1xx responses do not consume a method). The returned
// list contains interim responses too. err != nil if the output is not a sequence of
// well-formed complete messages (trailing bytes after a closing response included).
func ParseResponses(out []byte, methods []string, closed bool) ([]*Message, error) {
	var ms []*Message
	off, k := 0, 0
	for off < len(out) {
		method := "GET"
		if k < len(methods) {
			method = methods[k]
		}
		m, err := ParseResponse(out, off, method, closed)
		if err != nil {
			return ms, err
		}
		ms = append(ms, m)
		off = m.End
		if m.Status/100 == 1 && m.Status != 101 {
			continue
		}
		k++
	}
	return ms, nil
}

// Finals filters out interim (1xx except 101) responses.
func Finals(ms []*Message) []*Message {
	var out []*Message
	for _, m := range ms {
		if m.Status/100 == 1 && m.Status != 101 {
			continue
		}
		out = append(out, m)
	}
	return out
}
