// Package racepass holds the free-running side pass of the schedule checks: the same kind of harness bodies
// (many goroutines sharing one HostClient / one Engine) run under the Go race detector without the cooperative
// scheduler, whose hand-offs would hide unsynchronised accesses. It is a sampled side condition recorded in the
// evidence (coverage.race_pass), never the deciding step of a property.
package racepass

import (
	"context"
	"fmt"
	"sync"
	"testing"

	"github.com/cloudwego/hertz/pkg/app"
	"github.com/cloudwego/hertz/pkg/protocol"
	"github.com/cloudwego/hertz/pkg/protocol/http1"

	"verifh/clih"
	"verifh/netsim"
	"verifh/srvh"
)

func resp(i int) []byte {
	b := fmt.Sprintf("id=%d", i)
	return []byte(fmt.Sprintf("HTTP/1.1 200 OK\r\nContent-Length: %d\r\n\r\n%s", len(b), b))
}

// TestClientPool: 8 goroutines x 200 calls through one HostClient (MaxConns 4, waiting enabled).
func TestClientPool(t *testing.T) {
	c := clih.New(func(o *http1.ClientOptions) { o.MaxConns = 4; o.MaxConnWaitTimeout = 2e9 })
	// every dialled connection answers any number of requests with a fixed response
	var conns []*netsim.ScriptConn
	for i := 0; i < 64; i++ {
		sc := netsim.NewScriptConn(nil, netsim.EndTimeout)
		for k := 0; k < 400; k++ {
			sc.Next = append(sc.Next, [][]byte{resp(0)})
		}
		conns = append(conns, sc)
	}
	c.Reset(conns...)
	var wg sync.WaitGroup
	for g := 0; g < 8; g++ {
		wg.Add(1)
		go func() {
			defer wg.Done()
			for k := 0; k < 200; k++ {
				req, rsp := protocol.AcquireRequest(), protocol.AcquireResponse()
				req.SetRequestURI("http://h/x")
				if err := c.HC.Do(context.Background(), req, rsp); err == nil && string(rsp.Body()) != "id=0" {
					t.Errorf("wrong body %q", rsp.Body())
				}
				protocol.ReleaseRequest(req)
				protocol.ReleaseResponse(rsp)
			}
		}()
	}
	wg.Wait()
	c.HC.CloseIdleConnections()
}

// TestServerContexts: 8 goroutines each serving 200 connections of two requests on one engine (shared context pool).
func TestServerContexts(t *testing.T) {
	s := srvh.New(srvh.Opts{})
	// a handler without harness-side shared state: reads and writes through the context only
	h := func(c context.Context, ctx *app.RequestContext) {
		n := 0
		ctx.Request.Header.VisitAll(func(k, v []byte) { n += len(k) + len(v) })
		ctx.QueryArgs().VisitAll(func(k, v []byte) { n += len(v) })
		ctx.SetCookie("k", "v", 1, "/", "", protocol.CookieSameSiteLaxMode, false, false)
		ctx.Set("key", n)
		ctx.Response.Header.Set("X-N", fmt.Sprint(n))
		ctx.SetStatusCode(200)
		ctx.Response.SetBodyString(string(ctx.Path()) + string(ctx.Request.Body()))
	}
	s.E.NoRoute(h)
	s.Start()
	in := []byte("POST /a?x=1 HTTP/1.1\r\nHost: h\r\nX-Id: 1\r\nCookie: a=b\r\nContent-Length: 3\r\n\r\nabcGET /b HTTP/1.1\r\nHost: h\r\nX-Id: 2\r\n\r\n")
	var wg sync.WaitGroup
	for g := 0; g < 8; g++ {
		wg.Add(1)
		go func() {
			defer wg.Done()
			for k := 0; k < 200; k++ {
				sc := netsim.NewScriptConn([][]byte{append([]byte(nil), in...)}, netsim.EndEOF)
				conn := netsim.Wrap(sc, 0)
				s.E.Serve(context.Background(), conn) //nolint:errcheck
			}
		}()
	}
	wg.Wait()
}
