MC = "model_checking"
CHECKS["C07"] = (MC, "bounded-exhaustive input enumeration vs reference model (explicit enumeration of all token strings up to N)",
  "Every request target of <=8 (thorough <=10) tokens over the property's own alphabet, and <=5 (6) over an extended escape alphabet, is run through the real URI.Parse/Path and CleanPath; containment invariant and equality with an independent segment-stack reference are checked on each. Exhaustive within the bound, so any normaliser regression that shows on a short target is found.",
  "Trusts the reference (decode once, stack) and that longer targets behave like short ones; unix build only.", "DESIGN.md 4/C07")
