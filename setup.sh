#!/bin/bash
# Run once after a fresh restore, offline: pre-builds the harness so later checks hit the Go build cache.
export GOFLAGS=-mod=mod GOPROXY=off GOSUMDB=off GOTOOLCHAIN=local
cd "$(dirname "$0")/h" || exit 1
mkdir -p ../bin ../evidence ../replays
go build -tags verif -o ../bin/verif.setup ./cmd/verif || exit 1
rm -f ../bin/verif.setup
# warm the build cache for the hz-generator module and for the instrumented (overlay) build of the scheduler checks
(cd ../hhz && go build -tags verif -o ../bin/verifhz.setup ./cmd/verifhz && rm -f ../bin/verifhz.setup) || exit 1
ov=$(mktemp -d)
go build -o "$ov/vinstr" ./cmd/vinstr && "$ov/vinstr" -repo /repo -out "$ov" -verifrt "$PWD/verifrt" \
  -extra pkg/protocol/http1/verif_snapshot.go="$PWD/inject/http1_snapshot.go.txt" \
  -extra pkg/network/standard/verif_underlying.go="$PWD/inject/standard_underlying.go.txt" \
  -extra pkg/network/standard/verif_ticker.go="$PWD/inject/standard_ticker.go.txt" \
  -extra pkg/route/verif_status.go="$PWD/inject/engine_status.go.txt" \
  $(cat inject/instrumented_files.txt) && go build -tags "verif verifsched" -overlay "$ov/overlay.json" -o "$ov/verifsched" ./cmd/verifsched
rc=$?
rm -rf "$ov"
[ $rc = 0 ] || exit 1
echo setup ok
