#!/bin/bash
# Run once after a fresh restore, offline: pre-builds the harness so later checks hit the Go build cache.
export GOFLAGS=-mod=mod GOPROXY=off GOSUMDB=off GOTOOLCHAIN=local
cd "$(dirname "$0")/h" || exit 1
mkdir -p ../bin ../evidence ../replays
go build -tags verif -o ../bin/verif.setup ./cmd/verif || exit 1
rm -f ../bin/verif.setup
echo setup ok
