// Place in pkg/app/ (as pkg/app/c08_compress_fallback_demo_test.go); run: cd pkg/app && go test -vet=off -count=1 -run 'TestC08CompressCopyCannotBeMade' .
package app

import (
	"bytes"
	"compress/gzip"
	"context"
	"io/ioutil"
	"os"
	"path/filepath"
	"strings"
	"testing"

	"github.com/cloudwego/hertz/pkg/protocol/consts"
)

// c08Get runs one GET through the FS handler and returns status, decoded body and Content-Encoding.
func c08Get(t *testing.T, h HandlerFunc, path string, gzipOK bool) (int, []byte, string) {
	t.Helper()
	var ctx RequestContext
	ctx.Request.Header.SetMethod(consts.MethodGet)
	ctx.Request.SetRequestURI("http://foobar.com" + path)
	if gzipOK {
		ctx.Request.Header.Set("Accept-Encoding", "gzip")
	}
	h(context.Background(), &ctx)
	body, err := ctx.Response.BodyE()
	if err != nil {
		t.Fatalf("cannot read the response body: %s", err)
	}
	body = append([]byte(nil), body...)
	ce := string(ctx.Response.Header.ContentEncoding())
	if ce == "gzip" {
		zr, err := gzip.NewReader(bytes.NewReader(body))
		if err != nil {
			t.Fatalf("response says gzip but is not: %s", err)
		}
		if body, err = ioutil.ReadAll(zr); err != nil {
			t.Fatalf("cannot gunzip the response: %s", err)
		}
	}
	return ctx.Response.StatusCode(), body, ce
}

// A file whose name is long enough that "<name>.hertz.gz" (or "<name>.hertz.gz.tmp") exceeds NAME_MAX is a
// perfectly ordinary file under the root, and it is served to clients that do not accept gzip. With
// FS.Compress the same GET from a client that sends "Accept-Encoding: gzip" must get the same bytes
// (compressed or not) - not 404. (The same 404 is produced for EVERY compressible file when the root is on a
// read-only file system, a full disk, ...: any failure to create the compressed copy other than EACCES/EPERM.)
func TestC08CompressCopyCannotBeMade(t *testing.T) {
	root := t.TempDir()
	content := []byte(strings.Repeat("a compressible line of text\n", 40))

	for _, nameLen := range []int{244, 250} { // 244: ".hertz.gz.tmp" does not fit; 250: ".hertz.gz" does not fit
		name := strings.Repeat("n", nameLen-4) + ".txt"
		if err := ioutil.WriteFile(filepath.Join(root, name), content, 0o644); err != nil {
			t.Skipf("the file system does not take a %d byte file name: %s", nameLen, err)
		}
	}
	// a directory whose index file has such a name
	idxName := strings.Repeat("i", 246) + ".htm"
	if err := os.Mkdir(filepath.Join(root, "dir"), 0o755); err != nil {
		t.Fatal(err)
	}
	if err := ioutil.WriteFile(filepath.Join(root, "dir", idxName), content, 0o644); err != nil {
		t.Fatal(err)
	}

	fs := &FS{Root: root, Compress: true, IndexNames: []string{idxName}}
	h := fs.NewRequestHandler()

	for _, path := range []string{
		"/" + strings.Repeat("n", 240) + ".txt",
		"/" + strings.Repeat("n", 246) + ".txt",
		"/dir/" + idxName,
		"/dir/", // the same index file, reached through IndexNames
	} {
		short := path
		if len(short) > 24 {
			short = short[:12] + "..." + short[len(short)-8:]
		}
		// control: without Accept-Encoding the file is served
		if st, body, _ := c08Get(t, h, path, false); st != 200 || !bytes.Equal(body, content) {
			t.Fatalf("GET %s without Accept-Encoding: status %d, %d body bytes; the test setup is broken", short, st, len(body))
		}
		for i := 0; i < 2; i++ { // the second request hits the cache
			st, body, ce := c08Get(t, h, path, true)
			if st != 200 || !bytes.Equal(body, content) {
				t.Errorf("GET %s with 'Accept-Encoding: gzip' (request #%d): status %d, Content-Encoding %q, body %q; "+
					"want 200 and the %d bytes of the file that exists under the root", short, i+1, st, ce, c08Trunc(body), len(content))
			}
		}
	}
}

func c08Trunc(b []byte) string {
	if len(b) > 40 {
		return string(b[:40]) + "..."
	}
	return string(b)
}
