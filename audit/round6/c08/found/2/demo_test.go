// Place in pkg/app/ (as pkg/app/c08_range_overflow_demo_test.go); run: cd pkg/app && go test -vet=off -count=1 -run 'TestC08RangeNumberTooLargeForInt' .
package app

import (
	"bytes"
	"context"
	"fmt"
	"io/ioutil"
	"path/filepath"
	"testing"

	"github.com/cloudwego/hertz/pkg/protocol/consts"
)

// RFC 7233 2.1: "If the last-byte-pos value is absent, or if the value is greater than or equal to the current
// length of the representation data, the byte range is interpreted as the remainder of the representation",
// and "If the selected representation is shorter than the specified suffix-length, the entire representation
// is used". Both hold for every 1*DIGIT value; the handler applies them up to 2^63-1 (2^31-1 on 32-bit
// platforms) and answers 416 for the very same kind of range once the number has one digit more.
func TestC08RangeNumberTooLargeForInt(t *testing.T) {
	root := t.TempDir()
	files := map[string][]byte{}
	for _, n := range []int{1, 5, consts.MaxSmallFileSize, consts.MaxSmallFileSize + 1} {
		b := make([]byte, n)
		for i := range b {
			b[i] = 'a' + byte(i%23)
		}
		name := fmt.Sprintf("/f%d.bin", n)
		files[name] = b
		if err := ioutil.WriteFile(filepath.Join(root, name), b, 0o644); err != nil {
			t.Fatal(err)
		}
	}
	fs := &FS{Root: root, AcceptByteRange: true}
	h := fs.NewRequestHandler()

	type tc struct {
		rng   string
		start func(n int) int // expected first byte; the last one is always n-1
	}
	first := func(k int) func(int) int { return func(int) int { return k } }
	cases := []tc{
		// controls: large values that still fit are handled as the RFC says
		{"bytes=0-9223372036854775807", first(0)},
		{"bytes=-9223372036854775807", first(0)},
		// one more, or one digit more
		{"bytes=0-9223372036854775808", first(0)},
		{"bytes=0-99999999999999999999", first(0)},
		{"bytes=0-18446744073709551616", first(0)},
		{"bytes=-9223372036854775808", first(0)},
		{"bytes=-99999999999999999999", first(0)},
		{"bytes=-100000000000000000000000000000", first(0)},
	}
	for name, content := range files {
		n := len(content)
		for _, c := range cases {
			for _, method := range []string{consts.MethodGet, consts.MethodHead} {
				var ctx RequestContext
				ctx.Request.Header.SetMethod(method)
				ctx.Request.SetRequestURI("http://foobar.com" + name)
				ctx.Request.Header.Set("Range", c.rng)
				h(context.Background(), &ctx)

				s := c.start(n)
				wantCR := fmt.Sprintf("bytes %d-%d/%d", s, n-1, n)
				st := ctx.Response.StatusCode()
				cr := string(ctx.Response.Header.Peek("Content-Range"))
				body, err := ctx.Response.BodyE()
				if err != nil {
					t.Fatalf("%s %s Range: %s: reading the body: %s", method, name, c.rng, err)
				}
				if st != consts.StatusPartialContent || cr != wantCR {
					t.Errorf("%s %s (%d bytes) Range: %s: status %d, Content-Range %q, body %q; want 206 with Content-Range %q",
						method, name, n, c.rng, st, cr, c08Trunc2(body), wantCR)
					continue
				}
				if method == consts.MethodGet && !bytes.Equal(body, content[s:]) {
					t.Errorf("%s %s Range: %s: body has %d bytes, want the %d bytes from offset %d", method, name, c.rng, len(body), n-s, s)
				}
			}
		}
	}
}

func c08Trunc2(b []byte) string {
	if len(b) > 40 {
		return string(b[:40]) + "..."
	}
	return string(b)
}
