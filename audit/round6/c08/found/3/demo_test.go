// Place in pkg/app/ (as pkg/app/c08_range_unit_case_demo_test.go); run: cd pkg/app && go test -vet=off -count=1 -run 'TestC08RangeUnitCase' .
package app

import (
	"bytes"
	"context"
	"fmt"
	"io/ioutil"
	"path/filepath"
	"testing"

	"github.com/cloudwego/hertz/pkg/protocol/consts"
)

// "Range: Bytes=1-3" names the bytes unit (range unit names are case-insensitive: "bytes" is an ABNF literal
// in RFC 7233 2.1, and RFC 9110 14.1 says so in words) and selects bytes 1..3 of a 5 byte file. The range is
// satisfiable, so the answer has to be 206 with those three bytes (or, if the server chose to ignore Range,
// 200 with the whole file) - but never 416.
func TestC08RangeUnitCase(t *testing.T) {
	root := t.TempDir()
	small := []byte("01234")
	big := bytes.Repeat([]byte("0123456789"), 1000) // above the small-file threshold
	for name, b := range map[string][]byte{"small.txt": small, "big.txt": big} {
		if err := ioutil.WriteFile(filepath.Join(root, name), b, 0o644); err != nil {
			t.Fatal(err)
		}
	}
	fs := &FS{Root: root, AcceptByteRange: true}
	h := fs.NewRequestHandler()

	for _, f := range []struct {
		name    string
		content []byte
	}{{"/small.txt", small}, {"/big.txt", big}} {
		for _, unit := range []string{"bytes", "Bytes", "BYTES", "bYtEs"} { // "bytes" is the control
			for _, spec := range []struct {
				s          string
				start, end int
			}{{"1-3", 1, 3}, {"2-", 2, len(f.content) - 1}, {"-2", len(f.content) - 2, len(f.content) - 1}} {
				for _, method := range []string{consts.MethodGet, consts.MethodHead} {
					rng := unit + "=" + spec.s
					var ctx RequestContext
					ctx.Request.Header.SetMethod(method)
					ctx.Request.SetRequestURI("http://foobar.com" + f.name)
					ctx.Request.Header.Set("Range", rng)
					h(context.Background(), &ctx)

					st := ctx.Response.StatusCode()
					cr := string(ctx.Response.Header.Peek("Content-Range"))
					body, err := ctx.Response.BodyE()
					if err != nil {
						t.Fatalf("%s %s Range: %s: reading the body: %s", method, f.name, rng, err)
					}
					wantCR := fmt.Sprintf("bytes %d-%d/%d", spec.start, spec.end, len(f.content))
					if st != consts.StatusPartialContent || cr != wantCR {
						if len(body) > 40 {
							body = body[:40]
						}
						t.Errorf("%s %s Range: %s: status %d, Content-Range %q, body %q; want 206 with Content-Range %q",
							method, f.name, rng, st, cr, body, wantCR)
						continue
					}
					if method == consts.MethodGet && !bytes.Equal(body, f.content[spec.start:spec.end+1]) {
						t.Errorf("%s %s Range: %s: wrong body (%d bytes)", method, f.name, rng, len(body))
					}
				}
			}
		}
	}
}
