// Place in pkg/app/server/binding/ and run (from the repository root): go test -vet=off -count=1 -run 'TestDemoJSONDash' ./pkg/app/server/binding/
package binding

import (
	"fmt"
	"reflect"
	"testing"

	"github.com/cloudwego/hertz/pkg/common/test/mock"
	"github.com/cloudwego/hertz/pkg/protocol"
	"github.com/cloudwego/hertz/pkg/protocol/http1/req"
)

func demoJSONDashRequest(t *testing.T, body string) *protocol.Request {
	raw := fmt.Sprintf("POST /p HTTP/1.1\r\nHost: h\r\nContent-Type: application/json\r\nContent-Length: %d\r\n\r\n%s", len(body), body)
	r := &protocol.Request{}
	if err := req.Read(r, mock.NewZeroCopyReader(raw)); err != nil {
		t.Fatalf("cannot parse the request: %v", err)
	}
	return r
}

func demoJSONDashType(typ interface{}, tag string) reflect.Type {
	return reflect.StructOf([]reflect.StructField{{Name: "Uid", Type: reflect.TypeOf(typ), Tag: reflect.StructTag(tag)}})
}

// `json:"-"` takes the body out of the sources of the field. A required header that is
// missing must be reported, whatever the body contains.
func TestDemoJSONDashRequired(t *testing.T) {
	for _, typ := range []interface{}{int(0), new(int), []int{}, ""} {
		st := demoJSONDashType(typ, `header:"X-Uid,required" json:"-"`)
		for _, body := range []string{`{}`, `{"other":1}`, `{"Uid":1}`, `{"uid":null}`} {
			v := reflect.New(st)
			err := Bind(demoJSONDashRequest(t, body), v.Interface(), nil)
			if err == nil {
				t.Errorf("%v, body %s: the required header X-Uid is missing, but Bind returned nil and %+v", st, body, v.Elem().Interface())
			}
		}
	}
}

// With no value in any source named by the tags the field keeps its declared default.
func TestDemoJSONDashDefault(t *testing.T) {
	st := demoJSONDashType(int(0), `query:"uid" json:"-" default:"5"`)
	for _, body := range []string{`{}`, `{"other":1}`, `{"Uid":9}`, `{"UID":9}`} {
		v := reflect.New(st)
		if err := Bind(demoJSONDashRequest(t, body), v.Interface(), nil); err != nil {
			t.Errorf("body %s: %v", body, err)
			continue
		}
		if got := v.Elem().Field(0).Int(); got != 5 {
			t.Errorf("body %s: Uid = %d, want the declared default 5", body, got)
		}
	}
}
