// Place in pkg/app/server/binding/ and run (from the repository root): go test -vet=off -count=1 -run 'TestDemoDottedJSONName' ./pkg/app/server/binding/
package binding

import (
	"fmt"
	"reflect"
	"testing"

	"github.com/cloudwego/hertz/pkg/common/test/mock"
	"github.com/cloudwego/hertz/pkg/protocol"
	"github.com/cloudwego/hertz/pkg/protocol/http1/req"
)

func demoDottedRequest(t *testing.T, body string) *protocol.Request {
	raw := fmt.Sprintf("POST /p HTTP/1.1\r\nHost: h\r\nContent-Type: application/json\r\nContent-Length: %d\r\n\r\n%s", len(body), body)
	r := &protocol.Request{}
	if err := req.Read(r, mock.NewZeroCopyReader(raw)); err != nil {
		t.Fatalf("cannot parse the request: %v", err)
	}
	return r
}

func demoDottedType(tag string) reflect.Type {
	return reflect.StructOf([]reflect.StructField{{Name: "ID", Type: reflect.TypeOf(0), Tag: reflect.StructTag(tag)}})
}

// A JSON member name may contain '.', and the JSON decoder stores the member "user.id" into a
// field tagged `json:"user.id"`. The presence checks behind 'required' and 'default' have to
// see the same member.
func TestDemoDottedJSONName(t *testing.T) {
	// control: a name without '.' behaves as the property says
	for _, name := range []string{"userid", "user.id"} {
		// 1. the body carries the value, a default is declared: the value wins
		st := demoDottedType(fmt.Sprintf(`json:"%s" default:"7"`, name))
		v := reflect.New(st)
		err := Bind(demoDottedRequest(t, fmt.Sprintf(`{"%s":5}`, name)), v.Interface(), nil)
		if err != nil || v.Elem().Field(0).Int() != 5 {
			t.Errorf("%v, body carries 5: got %+v, err=%v; want 5", st, v.Elem().Interface(), err)
		}

		// 2. required and missing: an error, not a silent zero
		st = demoDottedType(fmt.Sprintf(`json:"%s,required"`, name))
		v = reflect.New(st)
		err = Bind(demoDottedRequest(t, `{"other":1}`), v.Interface(), nil)
		if err == nil {
			t.Errorf("%v, body without the member: Bind returned nil and %+v; want an error", st, v.Elem().Interface())
		}

		// 3. required by the query tag, absent there, present in the body: bound from the body
		st = demoDottedType(fmt.Sprintf(`query:"id,required" json:"%s"`, name))
		v = reflect.New(st)
		err = Bind(demoDottedRequest(t, fmt.Sprintf(`{"%s":5}`, name)), v.Interface(), nil)
		if err != nil || v.Elem().Field(0).Int() != 5 {
			t.Errorf("%v, body carries 5: got %+v, err=%v; want 5", st, v.Elem().Interface(), err)
		}
	}
}
