// Place in pkg/app/server/binding/ and run (from the repository root): go test -vet=off -count=1 -run 'TestDemoEmptyPathParam' ./pkg/app/server/binding/
package binding_test

import (
	"context"
	"fmt"
	"reflect"
	"testing"

	"github.com/cloudwego/hertz/pkg/app"
	"github.com/cloudwego/hertz/pkg/app/server/binding"
	"github.com/cloudwego/hertz/pkg/common/config"
	"github.com/cloudwego/hertz/pkg/common/ut"
	"github.com/cloudwego/hertz/pkg/protocol"
	"github.com/cloudwego/hertz/pkg/route"
	"github.com/cloudwego/hertz/pkg/route/param"
)

func demoPathType(typ interface{}, tag string) reflect.Type {
	return reflect.StructOf([]reflect.StructField{{Name: "Rest", Type: reflect.TypeOf(typ), Tag: reflect.StructTag(tag)}})
}

// A path parameter that is present with an empty value (what the router produces for
// "/files/" on the route "/files/*rest") is a present value: the scalar field is bound to "",
// and every other source (query "?rest=", form, cookie, header) binds a slice field to [""].
func TestDemoEmptyPathParam(t *testing.T) {
	params := param.Params{{Key: "rest", Value: ""}}

	// control 1: scalar field, path source
	v := reflect.New(demoPathType("", `path:"rest,required"`))
	if err := binding.Bind(&protocol.Request{}, v.Interface(), params); err != nil {
		t.Errorf("string field: %v", err)
	}
	// control 2: slice field, query source with an empty value
	r := &protocol.Request{}
	r.SetRequestURI("/files/?rest=")
	v = reflect.New(demoPathType([]string{}, `query:"rest,required"`))
	if err := binding.Bind(r, v.Interface(), nil); err != nil || fmt.Sprintf("%q", v.Elem().Field(0).Interface()) != `[""]` {
		t.Errorf("[]string from the query: %q, %v", v.Elem().Field(0).Interface(), err)
	}

	// slice field, path source: required
	v = reflect.New(demoPathType([]string{}, `path:"rest,required"`))
	if err := binding.Bind(&protocol.Request{}, v.Interface(), params); err != nil {
		t.Errorf("[]string `path:\"rest,required\"`, parameter present with value \"\": %v", err)
	} else if got := fmt.Sprintf("%q", v.Elem().Field(0).Interface()); got != `[""]` {
		t.Errorf("[]string `path:\"rest,required\"`: got %s, want [\"\"]", got)
	}

	// slice field, path source in front of a lower-priority source that carries a value
	r = &protocol.Request{}
	r.SetRequestURI("/files/?rest=fromquery")
	v = reflect.New(demoPathType([]string{}, `path:"rest" query:"rest"`))
	if err := binding.Bind(r, v.Interface(), params); err != nil {
		t.Errorf("[]string `path:\"rest\" query:\"rest\"`: %v", err)
	} else if got := fmt.Sprintf("%q", v.Elem().Field(0).Interface()); got != `[""]` {
		t.Errorf("[]string `path:\"rest\" query:\"rest\"`: got %s, want [\"\"] from the path parameter (the string field gets \"\")", got)
	}
	sv := reflect.New(demoPathType("", `path:"rest" query:"rest"`))
	if err := binding.Bind(r, sv.Interface(), params); err != nil || sv.Elem().Field(0).String() != "" {
		t.Errorf("control, string `path:\"rest\" query:\"rest\"`: %q, %v", sv.Elem().Field(0).String(), err)
	}
}

// The same through the router: GET /files/ on /files/*rest.
func TestDemoEmptyPathParamRouted(t *testing.T) {
	e := route.NewEngine(config.NewOptions(nil))
	e.GET("/files/*rest", func(c context.Context, ctx *app.RequestContext) {
		var scalar struct {
			Rest string `path:"rest,required"`
		}
		var slice struct {
			Rest []string `path:"rest,required"`
		}
		val, present := ctx.Params.Get("rest")
		ctx.String(200, "param=%q present=%v scalarErr=%v sliceErr=%v", val, present, ctx.Bind(&scalar), ctx.Bind(&slice))
	})
	w := ut.PerformRequest(e, "GET", "/files/", nil)
	got := string(w.Result().Body())
	want := `param="" present=true scalarErr=<nil> sliceErr=<nil>`
	if got != want {
		t.Errorf("got  %s\nwant %s", got, want)
	}
}
