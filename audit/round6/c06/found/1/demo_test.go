// Place in pkg/route/ ; run: go test -vet=off -count=1 -run TestDemoRawPathAbsoluteFormWithoutPath ./pkg/route/
package route

import (
	"context"
	"strings"
	"sync/atomic"
	"testing"

	"github.com/cloudwego/hertz/pkg/app"
	"github.com/cloudwego/hertz/pkg/common/config"
	"github.com/cloudwego/hertz/pkg/common/test/mock"
)

// An absolute-form request target whose URI has no path ("http://example.com?lang=en", RFC 3986
// path-abempty, RFC 7230 5.3.2) asks for the path "/": the handler chain of the route "/" has to run.
// It does in the default mode, and with UseRawPath for "http://example.com" - but with UseRawPath and a
// query the request is answered 400 and no handler runs.
func TestDemoRawPathAbsoluteFormWithoutPath(t *testing.T) {
	serveOne := func(useRawPath bool, requestLine string) (status, ran string) {
		opt := config.NewOptions(nil)
		opt.DisablePrintRoute = true
		opt.UseRawPath = useRawPath
		e := NewEngine(opt)
		if err := e.Init(); err != nil {
			t.Fatal(err)
		}
		atomic.StoreUint32(&e.status, statusRunning)
		h := func(c context.Context, ctx *app.RequestContext) {
			ran = ctx.FullPath() + " lang=" + ctx.Query("lang")
			ctx.String(200, "ok")
		}
		e.GET("/", h)
		e.GET("/:page", h)
		e.GET("/static/*filepath", h)
		conn := mock.NewConn(requestLine + " HTTP/1.1\r\nHost: example.com\r\nConnection: close\r\n\r\n")
		_ = e.Serve(context.Background(), conn)
		out, _ := conn.WriterRecorder().ReadBinary(conn.WriterRecorder().WroteLen())
		status = string(out)
		if i := strings.Index(status, "\r\n"); i >= 0 {
			status = status[:i]
		}
		return
	}

	for _, tc := range []struct{ line, wantRan string }{
		{"GET http://example.com/?lang=en", "/ lang=en"}, // control: works in both modes
		{"GET http://example.com", "/ lang="},            // control: works in both modes
		{"GET http://example.com?lang=en", "/ lang=en"},
	} {
		for _, raw := range []bool{false, true} {
			status, ran := serveOne(raw, tc.line)
			if ran != tc.wantRan || !strings.Contains(status, " 200") {
				t.Errorf("UseRawPath=%v %q: status %q, handler ran for %q; want 200 and the chain of route %q",
					raw, tc.line, status, ran, tc.wantRan)
			}
		}
	}
}
