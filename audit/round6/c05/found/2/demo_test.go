// Place in pkg/protocol/ (package protocol) as c05_cookie_name_value_demo_test.go; run: go test -vet=off -count=1 -run TestC05SetCookieNameValueInjection ./pkg/protocol/
package protocol

import (
	"bufio"
	"bytes"
	"net/http"
	"strings"
	"testing"
)

// The application sets ONE response cookie that has a name and a value and no attribute at all.
// Whatever bytes name and value hold, the Set-Cookie line a strict parser reads back must consist of exactly
// one name=value pair: no attribute, and a value that the name did not leak into.
func TestC05SetCookieNameValueInjection(t *testing.T) {
	type tc struct{ name, value string }
	for _, c := range []tc{
		{"sid", "v; Secure"},              // value switches an attribute on
		{"sid", "v; Domain=evil.example"}, // value adds a Domain attribute
		{"sid", "v; Max-Age=0"},           // value expires the cookie
		{"sid", "v;"},                     // plain ';'
		{"sid; HttpOnly", "v"},            // the same through the name
		{"sid; Domain=evil.example; x", "v"},
		{"admin=1; sid", "v"}, // name creates another cookie pair
		{"sid=forged", "v"},   // '=' in the name: the recipient sees the cookie "sid" with value "forged=v"
	} {
		var ck Cookie
		ck.SetKey(c.name)
		ck.SetValue(c.value)
		var h ResponseHeader
		h.SetStatusCode(200)
		h.SetCookie(&ck)
		wire := append([]byte(nil), h.Header()...)

		resp, err := http.ReadResponse(bufio.NewReader(bytes.NewReader(wire)), nil)
		if err != nil {
			t.Errorf("%q=%q: strict parser refuses the response: %v\n%q", c.name, c.value, err, wire)
			continue
		}
		lines := resp.Header["Set-Cookie"]
		if len(lines) != 1 {
			t.Errorf("%q=%q: %d Set-Cookie lines, want 1\n%q", c.name, c.value, len(lines), wire)
			continue
		}
		if n := strings.Count(lines[0], ";"); n != 0 {
			t.Errorf("%q=%q: the application set no attribute, the wire carries %d: %q", c.name, c.value, n, lines[0])
		}

		var back Cookie
		if err := back.Parse(lines[0]); err != nil {
			t.Errorf("%q=%q: Cookie.Parse(%q): %v", c.name, c.value, lines[0], err)
			continue
		}
		if back.Secure() || back.HTTPOnly() || len(back.Domain()) != 0 || back.MaxAge() != 0 || !back.Expire().IsZero() {
			t.Errorf("%q=%q: read back with Secure=%v HttpOnly=%v Domain=%q MaxAge=%d Expire=%v from %q",
				c.name, c.value, back.Secure(), back.HTTPOnly(), back.Domain(), back.MaxAge(), back.Expire(), lines[0])
		}
		if !strings.Contains(c.value, ";") && string(back.Value()) != c.value {
			t.Errorf("%q=%q: the name changed the value: read back %q=%q from %q", c.name, c.value, back.Key(), back.Value(), lines[0])
		}
		if std := resp.Cookies(); len(std) == 1 && (std[0].Secure || std[0].HttpOnly || std[0].Domain != "" || std[0].MaxAge != 0) {
			t.Errorf("%q=%q: net/http reads Secure=%v HttpOnly=%v Domain=%q MaxAge=%d from %q",
				c.name, c.value, std[0].Secure, std[0].HttpOnly, std[0].Domain, std[0].MaxAge, lines[0])
		}
	}
}
