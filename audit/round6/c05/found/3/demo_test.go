// Place in pkg/protocol/http1/req/ (package req) as c05_request_cookie_demo_test.go; run: go test -vet=off -count=1 -run TestC05RequestCookiePairInjection ./pkg/protocol/http1/req/
package req

import (
	"bufio"
	"bytes"
	"net/http"
	"testing"

	"github.com/cloudwego/hertz/pkg/common/test/mock"
	"github.com/cloudwego/hertz/pkg/protocol"
)

// The client application sets ONE request cookie. Whatever bytes its name and value hold, the server that reads
// the request back must find exactly one cookie: no second pair made of the application's bytes.
func TestC05RequestCookiePairInjection(t *testing.T) {
	type tc struct{ name, value string }
	for _, c := range []tc{
		{"theme", "dark; admin=1"},   // value adds the cookie admin=1
		{"theme", "dark;admin=1"},    // the same without the space
		{"theme", "dark; session=x"}, // ... or replaces another cookie for the server
		{"theme", "dark;"},           // plain ';'
		{"admin=1; theme", "dark"},   // the same through the name
		{"theme=light", "dark"},      // '=' in the name: the server sees theme = "light=dark"
	} {
		var r protocol.Request
		r.SetRequestURI("http://example.com/")
		r.SetCookie(c.name, c.value) // Request.SetCookie -> RequestHeader.SetCookie
		conn := mock.NewConn("")
		if err := Write(&r, conn); err != nil {
			t.Errorf("%q=%q: Write: %v", c.name, c.value, err)
			continue
		}
		conn.Flush()
		rec := conn.WriterRecorder()
		wire, _ := rec.ReadBinary(rec.WroteLen())

		// hertz server side
		var back protocol.Request
		if err := Read(&back, mock.NewZeroCopyReader(string(wire))); err != nil {
			t.Errorf("%q=%q: hertz refuses the request: %v\n%q", c.name, c.value, err, wire)
			continue
		}
		n := 0
		back.Header.VisitAllCookie(func(k, v []byte) {
			n++
			if string(k) == "admin" || string(k) == "session" {
				t.Errorf("%q=%q: the server finds the cookie %s=%s that the application did not set\n%q", c.name, c.value, k, v, wire)
			}
			if c.name == "theme=light" && string(k) == "theme" {
				t.Errorf("%q=%q: the server finds the cookie %s=%s\n%q", c.name, c.value, k, v, wire)
			}
		})
		if n != 1 {
			t.Errorf("%q=%q: one cookie set, the hertz server finds %d\n%q", c.name, c.value, n, wire)
		}

		// an independent strict parser
		std, err := http.ReadRequest(bufio.NewReader(bytes.NewReader(wire)))
		if err != nil {
			t.Errorf("%q=%q: net/http refuses the request: %v\n%q", c.name, c.value, err, wire)
			continue
		}
		// (net/http drops a pair whose name is not a token, so it may find none)
		if got := std.Cookies(); len(got) > 1 {
			t.Errorf("%q=%q: one cookie set, net/http finds %d: %v\n%q", c.name, c.value, len(got), got, wire)
		}
	}
}
