// Place in pkg/app/ (package app) as c05_cookie_domain_demo_test.go; run: go test -vet=off -count=1 -run TestC05CookieDomainAttributeInjection ./pkg/app/
package app

import (
	"bufio"
	"bytes"
	"net/http"
	"strings"
	"testing"

	"github.com/cloudwego/hertz/pkg/protocol"
)

// The application sets ONE cookie with name, value, path and domain and with Secure / HttpOnly switched off.
// Whatever bytes the domain argument holds, the Set-Cookie line read back by a strict parser must not carry
// attributes the application did not set.
func TestC05CookieDomainAttributeInjection(t *testing.T) {
	for _, domain := range []string{
		"shop.example; Secure",                    // switches an attribute on
		"shop.example; Domain=evil.example",       // the last Domain attribute wins for the recipient
		"shop.example; Path=/admin; Max-Age=0",    // overrides path, expires the cookie
		"shop.example;",                           // plain ';'
		"shop.example\r\nSet-Cookie: admin=1; x=", // line break (neutralised to SP on the wire) plus ';'
	} {
		ctx := NewContext(0)
		ctx.SetCookie("sid", "v", 0, "/app", domain, protocol.CookieSameSiteDisabled, false, false)
		ctx.Response.SetStatusCode(200)
		wire := append([]byte(nil), ctx.Response.Header.Header()...)

		resp, err := http.ReadResponse(bufio.NewReader(bytes.NewReader(wire)), nil)
		if err != nil {
			t.Errorf("domain %q: strict parser refuses the response: %v\n%q", domain, err, wire)
			continue
		}
		lines := resp.Header["Set-Cookie"]
		if len(lines) != 1 {
			t.Errorf("domain %q: %d Set-Cookie lines, want 1\n%q", domain, len(lines), wire)
			continue
		}

		// 1. count the attributes on the wire: name=value, path and at most one domain were set
		seen := map[string]int{}
		for i, part := range strings.Split(lines[0], ";") {
			if i == 0 {
				continue // name=value
			}
			name := strings.ToLower(strings.TrimSpace(strings.SplitN(part, "=", 2)[0]))
			seen[name]++
		}
		for name, n := range seen {
			if (name != "path" && name != "domain") || n > 1 {
				t.Errorf("domain %q: attribute %q x%d on the wire was not set by the application: %q", domain, name, n, lines[0])
			}
		}

		// 2. what two independent recipients make of it
		std := resp.Cookies()[0]
		if std.Secure || std.HttpOnly || std.MaxAge != 0 || std.Path != "/app" || strings.Contains(std.Domain, "evil") {
			t.Errorf("domain %q: net/http reads Secure=%v HttpOnly=%v MaxAge=%d Path=%q Domain=%q from %q",
				domain, std.Secure, std.HttpOnly, std.MaxAge, std.Path, std.Domain, lines[0])
		}
		var c protocol.Cookie
		if err := c.Parse(lines[0]); err != nil {
			t.Errorf("domain %q: Cookie.Parse: %v", domain, err)
			continue
		}
		if c.Secure() || c.HTTPOnly() || string(c.Path()) != "/app" || bytes.Contains(c.Domain(), []byte("evil")) {
			t.Errorf("domain %q: hertz reads Secure=%v HttpOnly=%v Path=%q Domain=%q from %q",
				domain, c.Secure(), c.HTTPOnly(), c.Path(), c.Domain(), lines[0])
		}
	}
}
