// Place in pkg/protocol/ (package protocol). Run: go test -vet=off -count=1 -run TestDemoNamelessCookieValueWithEqualsSign ./pkg/protocol/
package protocol

import (
	"testing"
	"time"
)

// A response cookie without a name (documented: RequestContext.SetCookie example 3, "Set-Cookie: hertz; max-age=10; ...")
// whose value contains '=' does not survive String() -> Parse(): the part of the value in front of its
// first '=' comes back as the key.
func TestDemoNamelessCookieValueWithEqualsSign(t *testing.T) {
	for _, val := range []string{"a=b", "a=", "=a", "=", "dG9rZW4=", " a=b "} {
		for _, withAttrs := range []bool{false, true} {
			var c Cookie
			c.SetValue(val)
			if withAttrs {
				c.SetPath("/p")
				c.SetDomain("example.com")
				c.SetExpire(time.Unix(1700000000, 0))
				c.SetHTTPOnly(true)
			}
			s := c.String()

			var d Cookie
			if err := d.Parse(s); err != nil {
				t.Errorf("value %q: %q does not parse: %v", val, s, err)
				continue
			}
			if string(d.Key()) != "" || string(d.Value()) != val {
				t.Errorf("value %q: string form %q parses as key=%q value=%q, want key=\"\" value=%q",
					val, s, d.Key(), d.Value(), val)
			}
			if withAttrs && (string(d.Path()) != "/p" || string(d.Domain()) != "example.com" || !d.HTTPOnly() || !d.Expire().Equal(c.Expire())) {
				t.Errorf("value %q: attributes of %q changed", val, s)
			}
			if s2 := d.String(); s2 != s {
				t.Errorf("value %q: %q is formatted as %q after parsing", val, s, s2)
			}
		}
	}

	// the same through the response header table, which is keyed by the cookie name
	var c Cookie
	c.SetValue("a=b")
	var h ResponseHeader
	h.SetCookie(&c)
	var got Cookie
	got.SetKey("")
	if !h.Cookie(&got) || string(got.Key()) != "" || string(got.Value()) != "a=b" {
		t.Errorf("ResponseHeader: nameless cookie a=b read back as key=%q value=%q", got.Key(), got.Value())
	}
}
