// Place in pkg/protocol/ (package protocol). Run: go test -vet=off -count=1 -run TestDemoUpdateQueryOnlyReferenceWithFragment ./pkg/protocol/
package protocol

import (
	"bytes"
	"testing"
)

// URI.Update with a query-only reference that carries a fragment ("?a=1#top", e.g. a Location header)
// stores the fragment inside the query string: the components the URI reports are not the ones its
// own string form parses into, and RequestURI() - the request target the client sends - carries the '#'.
func TestDemoUpdateQueryOnlyReferenceWithFragment(t *testing.T) {
	for _, base := range []string{"http://h.com/dir/p?x=1", "http://h.com/dir/p?x=1#old"} {
		var u URI
		u.Parse(nil, []byte(base))
		u.Update("?a=1#top")

		s := u.String()
		var v URI
		v.Parse(nil, []byte(s))

		if !bytes.Equal(u.QueryString(), v.QueryString()) || !bytes.Equal(u.Hash(), v.Hash()) {
			t.Errorf("base %s: after Update(\"?a=1#top\") the URI reports query=%q fragment=%q, its string form %q parses into query=%q fragment=%q",
				base, u.QueryString(), u.Hash(), s, v.QueryString(), v.Hash())
		}
		if bytes.IndexByte(u.RequestURI(), '#') >= 0 {
			t.Errorf("base %s: request target %q contains the fragment", base, u.RequestURI())
		}
		if string(u.QueryArgs().Peek("a")) != "1" {
			t.Errorf("base %s: query argument a=%q, want \"1\"", base, u.QueryArgs().Peek("a"))
		}

		// the relative-path form of the same reference is split correctly and is the yardstick
		var w URI
		w.Parse(nil, []byte(base))
		w.Update("p?a=1#top")
		if !bytes.Equal(u.QueryString(), w.QueryString()) || !bytes.Equal(u.Hash(), w.Hash()) {
			t.Errorf("base %s: Update(\"?a=1#top\") gives query=%q fragment=%q, Update(\"p?a=1#top\") gives query=%q fragment=%q",
				base, u.QueryString(), u.Hash(), w.QueryString(), w.Hash())
		}
	}
}
