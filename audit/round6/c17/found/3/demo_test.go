// Place in pkg/protocol/ (package protocol). Run: go test -vet=off -count=1 -run TestDemoNamelessCookieKeyInResponseHeader ./pkg/protocol/
package protocol

import (
	"testing"
)

// The name under which a received Set-Cookie value is filed (getCookieKey) is everything in front of the
// first '=' of the WHOLE value. For a cookie without a name that is the value plus the start of the
// attribute list: "hertz; max-age=10; path=/" is filed as "hertz; max-age". The cookie the server stored
// under the key "" cannot be found under that key by the client, and VisitAllCookie reports a key that
// Cookie.ParseBytes does not.
func TestDemoNamelessCookieKeyInResponseHeader(t *testing.T) {
	var c Cookie
	c.SetValue("hertz")
	c.SetMaxAge(10)
	c.SetPath("/")
	s := c.String() // "hertz; max-age=10; path=/" - example 3 in the documentation of RequestContext.SetCookie

	var parsed Cookie
	if err := parsed.Parse(s); err != nil || len(parsed.Key()) != 0 || string(parsed.Value()) != "hertz" {
		t.Fatalf("Cookie.Parse(%q): key=%q value=%q err=%v", s, parsed.Key(), parsed.Value(), err)
	}

	// sending side: filed under the cookie's key, ""
	var sent ResponseHeader
	sent.SetCookie(&c)
	sent.VisitAllCookie(func(k, v []byte) {
		if len(k) != 0 {
			t.Errorf("SetCookie filed %q under %q", v, k)
		}
	})

	// receiving side: the same header value as it arrives from the wire
	var rcvd ResponseHeader
	rcvd.ParseSetCookie([]byte(s))
	rcvd.VisitAllCookie(func(k, v []byte) {
		if string(k) != string(parsed.Key()) {
			t.Errorf("received %q is filed under the key %q, Cookie.Parse reports the key %q", v, k, parsed.Key())
		}
	})
	var got Cookie
	got.SetKey("")
	if !rcvd.Cookie(&got) {
		t.Errorf("the nameless cookie %q is not found under its key \"\"", s)
	} else if string(got.Value()) != "hertz" || got.MaxAge() != 10 || string(got.Path()) != "/" {
		t.Errorf("nameless cookie read back as value=%q max-age=%d path=%q", got.Value(), got.MaxAge(), got.Path())
	}

	// same through the generic header setter
	var viaSet ResponseHeader
	viaSet.Set("Set-Cookie", s)
	got.Reset()
	if !viaSet.Cookie(&got) {
		t.Errorf("Set(\"Set-Cookie\", %q): not found under its key \"\"", s)
	}
}
