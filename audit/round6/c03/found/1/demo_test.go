// Place in pkg/app/server ; run: go test -vet=off -count=1 -run TestC03HeaderInSmallSegmentsMemory ./pkg/app/server/
package server

import (
	"bytes"
	"context"
	"io"
	"net"
	"runtime"
	"strings"
	"testing"
	"time"

	"github.com/cloudwego/hertz/internal/testutils"
	"github.com/cloudwego/hertz/pkg/app"
	"github.com/cloudwego/hertz/pkg/network/standard"
)

// A request header block a little larger than the read buffer (here 16 KiB), delivered in
// one-byte segments, must not make the server hold more than a small multiple of its size.
func TestC03HeaderInSmallSegmentsMemory(t *testing.T) {
	const pad = 16 << 10
	const limit = 8 << 20 // 500 times the size of the header block

	h := New(WithHostPorts("127.0.0.1:0"), WithTransport(standard.NewTransporter))
	h.GET("/", func(c context.Context, ctx *app.RequestContext) {
		ctx.String(200, "ok")
	})
	go h.Run()
	defer h.Close()
	waitEngineRunning(h)

	conn, err := net.Dial("tcp", testutils.GetListenerAddr(h))
	if err != nil {
		t.Fatal(err)
	}
	defer conn.Close()

	var m0, m1 runtime.MemStats
	runtime.GC()
	runtime.ReadMemStats(&m0)

	head := []byte("GET / HTTP/1.1\r\nHost: example.com\r\nX-Pad: " + strings.Repeat("a", pad) + "\r\n")
	for i := range head {
		if _, err = conn.Write(head[i : i+1]); err != nil {
			t.Fatal(err)
		}
		// let the server read this byte before the next one arrives
		runtime.Gosched()
	}
	// the header block is not complete yet: the server is still holding whatever it allocated for it
	time.Sleep(300 * time.Millisecond)
	runtime.GC()
	runtime.ReadMemStats(&m1)

	if _, err = conn.Write([]byte("\r\n")); err != nil {
		t.Fatal(err)
	}
	conn.SetReadDeadline(time.Now().Add(10 * time.Second))
	buf := make([]byte, 4096)
	n, err := io.ReadAtLeast(conn, buf, 12)
	if err != nil || !bytes.HasPrefix(buf[:n], []byte("HTTP/1.1 200")) {
		t.Fatalf("unexpected answer %q, %v", buf[:n], err)
	}

	held := int64(m1.HeapAlloc) - int64(m0.HeapAlloc)
	t.Logf("header block of %d bytes, live heap grew by %d bytes (%d bytes allocated)", len(head)+2, held, m1.TotalAlloc-m0.TotalAlloc)
	if held > limit {
		t.Fatalf("a header block of %d bytes sent byte by byte makes the server hold %d MiB of live memory (quadratic in the size of the block)", len(head)+2, held>>20)
	}
}
