// Place in pkg/app/server/binding/ (as c20_found2_demo_test.go); run: go test -vet=off -count=1 -run TestC20Found2 ./pkg/app/server/binding/
package binding

import (
	"testing"
)

// A struct whose only field is a pointer is "pointer-shaped": when it travels by value (passed to
// Validate, stored in an interface or as a map element) reflect keeps the field's content, not the
// address of a copy of the struct. The engine takes that word for the address of the struct, so
// the pointer field is read from the memory the pointer points to.
func TestC20Found2_PointerShapedStructByValue(t *testing.T) {
	type notNil struct {
		P *int `vd:"$!=nil"`
	}
	type nilOrPositive struct {
		P *int `vd:"$==nil || $>0"`
	}
	type holder struct {
		N int                      `vd:"$==0"`
		M map[string]nilOrPositive // elements are validated too
	}
	zero, seven := 0, 7

	validate := func(obj interface{}) (err error, panicked interface{}) {
		defer func() { panicked = recover() }()
		return Validate(obj), nil
	}

	cases := []struct {
		name string
		obj  interface{}
	}{
		// controls: the same values behind a pointer are accepted today
		{"control: &notNil{P: &zero}", &notNil{P: &zero}},
		{"control: &nilOrPositive{P: &seven}", &nilOrPositive{P: &seven}},
		{"control: &nilOrPositive{}", &nilOrPositive{}},
		// by value
		{"notNil{P: &zero}: P is not nil", notNil{P: &zero}},                                     // the int 0 is read as the pointer P: "nil"
		{"nilOrPositive{}: P is nil", nilOrPositive{}},                                           // "unsupported data: nil"
		{"nilOrPositive{P: &seven}: *P is 7", nilOrPositive{P: &seven}},                          // the int 7 is read as the pointer P and dereferenced
		{"&holder{M: {a: {P: &seven}}}", &holder{M: map[string]nilOrPositive{"a": {P: &seven}}}}, // the same through a map element
		{"[]interface{}{nilOrPositive{P: &seven}}", []interface{}{nilOrPositive{P: &seven}}},
	}
	for _, c := range cases {
		err, p := validate(c.obj)
		if p != nil {
			t.Errorf("%s: validation panicked: %v", c.name, p)
			continue
		}
		if err != nil {
			t.Errorf("%s: the expression is true, but validation returned: %v", c.name, err)
		}
	}
}
