// Place in pkg/app/server/binding/ (as c20_found1_demo_test.go); run: go test -vet=off -count=1 -run TestC20Found1 ./pkg/app/server/binding/
package binding

import (
	"fmt"
	"testing"
)

// A subscript on a field reference, (X)$[i], is documented as "the i-th element of field X".
// An index at or above the length yields nil (no element). An index below zero - a plain negative
// field value, or the NaN of x/0 - must do the same; instead reflect panics out of validation.
func TestC20Found1_NegativeSubscriptPanics(t *testing.T) {
	type sliceReq struct {
		N  int `vd:"(SL)$[$]==nil"` // "there is no element number N"
		SL []int
	}
	type stringReq struct {
		N int `vd:"(S)$[$]==nil"`
		S string
	}
	type arrayReq struct {
		N  int `vd:"(AR)$[$]==nil"`
		AR [2]int
	}
	type nanReq struct {
		N  int `vd:"(SL)$[1/$]==nil"` // N==0: 1/0 is NaN in this engine
		SL []int
	}

	validate := func(obj interface{}) (err error, panicked interface{}) {
		defer func() { panicked = recover() }()
		return Validate(obj), nil
	}

	cases := []struct {
		name string
		obj  interface{}
	}{
		{"slice, index 5 (beyond the end: control)", &sliceReq{N: 5, SL: []int{1}}},
		{"slice, index -1", &sliceReq{N: -1, SL: []int{1}}},
		{"nil slice, index -1", &sliceReq{N: -1}},
		{"string, index -2", &stringReq{N: -2, S: "abc"}},
		{"array, index -1", &arrayReq{N: -1}},
		{"slice, index NaN", &nanReq{N: 0, SL: []int{1}}},
	}
	for _, c := range cases {
		err, p := validate(c.obj)
		if p != nil {
			t.Errorf("%s: validation panicked: %v", c.name, p)
			continue
		}
		if err != nil {
			t.Errorf("%s: there is no such element, the expression is true, but the value was rejected: %v", c.name, err)
		}
	}
	if t.Failed() {
		fmt.Println("evaluation must never panic, whatever the field values are")
	}
}
