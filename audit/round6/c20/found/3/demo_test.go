// Place in pkg/app/server/binding/ (as c20_found3_demo_test.go); run: go test -vet=off -count=1 -run TestC20Found3 ./pkg/app/server/binding/
package binding

import (
	"reflect"
	"strings"
	"testing"
)

// The same expression tree printed with and without blanks around an operator must give the same
// verdict. A bool (or nil) literal that is directly followed by + - * / % < > is not recognised as a literal:
// "false+1" is read as a VARIABLE named "false" (value nil), "false +1" as the literal.
func TestC20Found3_BoolLiteralNeedsABlankBeforeAnOperator(t *testing.T) {
	verdict := func(expr string, s string) string {
		// a fresh type per expression, so the engine compiles it afresh
		st := reflect.StructOf([]reflect.StructField{
			{Name: "F", Type: reflect.TypeOf(0), Tag: reflect.StructTag(`vd:"` + expr + `"`)},
			{Name: "S", Type: reflect.TypeOf("")},
		})
		p := reflect.New(st)
		p.Elem().Field(1).SetString(s)
		err := NewValidator(NewValidateConfig()).ValidateStruct(p.Interface())
		if err == nil {
			return "accepted"
		}
		if strings.Contains(err.Error(), "syntax error") {
			return "does not compile: " + err.Error()
		}
		return "rejected"
	}

	// {spaced print, print without the blank after the bool literal}; S holds "a"
	pairs := [][2]string{
		{"false +1", "false+1"},                                     // bool + number is its left operand: false
		{"!(true +1)", "!(true+1)"},                                 // !(true)
		{"(S)$+false +'!'=='afalse!'", "(S)$+false+'!'=='afalse!'"}, // string splicing: 'a'+false+'!'
		{"(S)$+false >'af'", "(S)$+false>'af'"},                     // 'afalse' > 'af'
		{"'' + true +'' == 'true'", "''+true+''=='true'"},
		{"!(!nil +1)", "!(!nil+1)"}, // the same for '!nil': as a variable the '!' is ignored
		// controls: characters that were already allowed after a bool literal
		{"false ==false", "false==false"},
		{"true &&(S)$=='a'", "true&&(S)$=='a'"},
	}
	for _, p := range pairs {
		spaced, tight := verdict(p[0], "a"), verdict(p[1], "a")
		if spaced != tight {
			t.Errorf("%-28q is %s, but %-26q is %s", p[0], spaced, p[1], tight)
		}
	}
}
