// Place in pkg/app/server/ (package server). Run: cd <repo> && go test -vet=off -count=1 -run TestC14NoResyncAfterChunkFramingError ./pkg/app/server/
package server

import (
	"context"
	"fmt"
	"io"
	"net"
	"strings"
	"sync"
	"testing"
	"time"

	"github.com/cloudwego/hertz/pkg/app"
	"github.com/cloudwego/hertz/pkg/network/standard"
)

// The chunked framing of the streamed request body is broken. Reading the stream reports that to the handler as
// an error; from then on nobody knows where the body ends, so the connection has to be closed (as it is in buffered
// mode - 400 and close - and when the handler does not read the stream at all). Instead the server goes on parsing
// at the byte where the failed attempt happened to stop, finds an "end of body" there and serves what follows.
func TestC14NoResyncAfterChunkFramingError(t *testing.T) {
	var (
		mu   sync.Mutex
		seen []string
	)
	note := func(ctx *app.RequestContext) {
		mu.Lock()
		seen = append(seen, string(ctx.Method())+" "+string(ctx.Request.URI().RequestURI()))
		mu.Unlock()
	}

	ln, err := net.Listen("tcp", "127.0.0.1:0")
	if err != nil {
		t.Fatal(err)
	}
	addr := ln.Addr().String()
	ln.Close()

	h := New(WithStreamBody(true), WithHostPorts(addr), WithTransport(standard.NewTransporter),
		WithReadTimeout(3*time.Second), WithIdleTimeout(3*time.Second))
	h.POST("/upload", func(c context.Context, ctx *app.RequestContext) {
		note(ctx)
		if string(ctx.Query("read")) == "all" {
			b, err := io.ReadAll(ctx.RequestBodyStream())
			if err != nil {
				ctx.SetStatusCode(400)
			}
			ctx.SetBodyString(fmt.Sprintf("upload read %q err=%v;", b, err))
			return
		}
		ctx.SetBodyString("upload not read;")
	})
	h.NoRoute(func(c context.Context, ctx *app.RequestContext) {
		note(ctx)
		ctx.SetBodyString("no route;")
	})
	go h.Spin()
	defer h.Close()
	for i := 0; i < 300 && !h.IsRunning(); i++ {
		time.Sleep(10 * time.Millisecond)
	}
	time.Sleep(50 * time.Millisecond)

	exchange := func(query, body string) (string, []string) {
		mu.Lock()
		seen = nil
		mu.Unlock()
		c, err := net.Dial("tcp", addr)
		if err != nil {
			t.Fatal(err)
		}
		defer c.Close()
		req := "POST /upload" + query + " HTTP/1.1\r\nHost: x\r\nTransfer-Encoding: chunked\r\n\r\n" + body
		if _, err = c.Write([]byte(req)); err != nil {
			t.Fatal(err)
		}
		c.SetReadDeadline(time.Now().Add(5 * time.Second))
		out, _ := io.ReadAll(c)
		mu.Lock()
		defer mu.Unlock()
		return string(out), append([]string(nil), seen...)
	}

	inner := "GET /admin HTTP/1.1\r\nHost: x\r\nConnection: close\r\n\r\n"
	for _, tc := range []struct{ name, body string }{
		// 'g' ends the hex number and is none of SP ';' CR: ParseChunkSize fails after "1g"; parsing resumed behind
		// it finds "0\r\n\r\n" - a last chunk
		{"junk in the chunk-size line", "1g0\r\n\r\n" + inner},
		// a recipient that takes the leading hex digits of the line as the size ("40": 64 bytes, from the CRLF behind
		// "40g0" to the last x) sees one chunk
		// that contains everything up to the final last-chunk
		{"junk in the chunk-size line, body well-formed for a lenient parser", "40g0\r\n\r\n" + inner + strings.Repeat("x", 64-2-len(inner)) + "\r\n0\r\n\r\n"},
		// the chunk data is not followed by CRLF: Read delivers "abc" and errBrokenChunk; parsing resumed at the two
		// bytes that are not CRLF finds "0\r\n\r\n"
		{"chunk data without CRLF", "3\r\nabc0\r\n\r\n" + inner},
	} {
		// the handler does not read: skipping the body fails, connection closed
		out, reqs := exchange("", tc.body)
		if len(reqs) != 1 {
			t.Errorf("%s, handler does not read: requests served %v\n%s", tc.name, reqs, out)
		}
		// the handler reads and is told that the body is broken
		out, reqs = exchange("?read=all", tc.body)
		if !strings.Contains(out, "err=") || strings.Contains(out, "err=<nil>") {
			t.Errorf("%s: the handler was expected to get an error from the stream:\n%s", tc.name, out)
			continue
		}
		if len(reqs) != 1 {
			t.Errorf("%s: the stream reported a framing error to the handler, yet the connection was kept and parsed on: requests served %v\n%s", tc.name, reqs, out)
		}
	}
}
