// Place in pkg/app/server/ (package server). Run: cd <repo> && go test -vet=off -count=1 -run TestC14SkippedTrailerEndsWhereReadTrailerEnds ./pkg/app/server/
package server

import (
	"context"
	"fmt"
	"io"
	"net"
	"strings"
	"sync"
	"testing"
	"time"

	"github.com/cloudwego/hertz/pkg/app"
	"github.com/cloudwego/hertz/pkg/network/standard"
)

// A chunked request body whose (empty) trailer section is closed by a bare LF - "0\r\n\n" - is accepted by every
// reader of the body (buffered mode, bodyStream.Read): the body ends after that LF, the handler gets the data and a
// clean io.EOF, and the next request is parsed from the following byte.
// When the handler leaves the stream unread, the server has to skip to that same byte (or close the connection).
func TestC14SkippedTrailerEndsWhereReadTrailerEnds(t *testing.T) {
	var (
		mu   sync.Mutex
		seen []string
	)
	note := func(ctx *app.RequestContext) {
		mu.Lock()
		seen = append(seen, string(ctx.Method())+" "+string(ctx.Request.URI().RequestURI()))
		mu.Unlock()
	}

	ln, err := net.Listen("tcp", "127.0.0.1:0")
	if err != nil {
		t.Fatal(err)
	}
	addr := ln.Addr().String()
	ln.Close()

	h := New(WithStreamBody(true), WithHostPorts(addr), WithTransport(standard.NewTransporter),
		WithReadTimeout(3*time.Second), WithIdleTimeout(3*time.Second))
	h.POST("/upload", func(c context.Context, ctx *app.RequestContext) {
		note(ctx)
		if string(ctx.Query("read")) == "all" {
			b, err := io.ReadAll(ctx.RequestBodyStream())
			ctx.SetBodyString(fmt.Sprintf("upload read %q err=%v;", b, err))
			return
		}
		ctx.SetBodyString("upload not read;")
	})
	h.POST("/probe", func(c context.Context, ctx *app.RequestContext) {
		note(ctx)
		b, _ := ctx.Request.BodyE()
		ctx.SetBodyString(fmt.Sprintf("probe with %d body bytes;", len(b)))
	})
	h.NoRoute(func(c context.Context, ctx *app.RequestContext) {
		note(ctx)
		ctx.SetBodyString("no route;")
	})
	go h.Spin()
	defer h.Close()
	for i := 0; i < 300 && !h.IsRunning(); i++ {
		time.Sleep(10 * time.Millisecond)
	}
	time.Sleep(50 * time.Millisecond)

	// the body of the probe request: it must never be taken for a request
	inner := "GET /admin HTTP/1.1\r\nHost: x\r\nConnection: close\r\n\r\n"
	probe := fmt.Sprintf("POST /probe HTTP/1.1\r\nHost: x\r\nConnection: close\r\nContent-Length: %d\r\n\r\n%s", len(inner), inner)

	exchange := func(query string) (string, []string) {
		mu.Lock()
		seen = nil
		mu.Unlock()
		c, err := net.Dial("tcp", addr)
		if err != nil {
			t.Fatal(err)
		}
		defer c.Close()
		upload := "POST /upload" + query + " HTTP/1.1\r\nHost: x\r\nTransfer-Encoding: chunked\r\n\r\n" +
			"5\r\nhello\r\n0\r\n\n" // last-chunk, then an empty trailer section ended by LF alone
		if _, err = c.Write([]byte(upload + probe)); err != nil {
			t.Fatal(err)
		}
		c.SetReadDeadline(time.Now().Add(5 * time.Second))
		out, _ := io.ReadAll(c)
		mu.Lock()
		defer mu.Unlock()
		return string(out), append([]string(nil), seen...)
	}

	// reference: the handler reads the stream to its end
	out, reqs := exchange("?read=all")
	if !strings.Contains(out, `upload read "hello" err=<nil>;`) {
		t.Skipf("the server does not accept this body at all (nothing to compare with): %q", out)
	}
	if fmt.Sprint(reqs) != "[POST /upload?read=all POST /probe]" {
		t.Fatalf("reading handler: requests served: %v\n%s", reqs, out)
	}
	t.Logf("handler reads the body: requests served %v", reqs)

	// the handler does not touch the stream
	out, reqs = exchange("")
	t.Logf("handler leaves the body unread: requests served %v", reqs)
	for _, r := range reqs {
		if strings.Contains(r, "/admin") {
			t.Errorf("the body of the request that follows the unread stream was served as a request: %v\n%s", reqs, out)
		}
	}
	if len(reqs) > 1 && reqs[1] != "POST /probe" {
		t.Errorf("after the unread body the connection was neither closed nor continued at the next request: %v", reqs)
	}
	if len(reqs) > 1 && !strings.Contains(out, fmt.Sprintf("probe with %d body bytes;", len(inner))) {
		t.Errorf("the next request was not read with its own body:\n%s", out)
	}
}
