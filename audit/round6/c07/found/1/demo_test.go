// Place in pkg/route/ (as pkg/route/demo_c07_rawpath_test.go); run: go test -vet=off -count=1 -run 'TestC07RawPath' ./pkg/route/
package route_test

import (
	"context"
	"os"
	"path/filepath"
	"strconv"
	"strings"
	"testing"

	"github.com/cloudwego/hertz/pkg/app"
	"github.com/cloudwego/hertz/pkg/common/config"
	"github.com/cloudwego/hertz/pkg/common/test/mock"
	"github.com/cloudwego/hertz/pkg/protocol"
	"github.com/cloudwego/hertz/pkg/protocol/http1/resp"
	"github.com/cloudwego/hertz/pkg/route"
)

// serveWire sends one HTTP/1.1 request with the given request target through the engine
// (real request-line parsing, no helper that pre-digests the URL) and returns "<status> <body>".
func serveWire(t *testing.T, e *route.Engine, target string) string {
	t.Helper()
	conn := mock.NewConn("GET " + target + " HTTP/1.1\r\nHost: example.com\r\nConnection: close\r\n\r\n")
	_ = e.Serve(context.Background(), conn)
	var r protocol.Response
	if err := resp.Read(&r, conn.WriterRecorder()); err != nil {
		return "no response: " + err.Error()
	}
	return strconv.Itoa(r.StatusCode()) + " " + string(r.Body())
}

func newEngine(t *testing.T, opts ...func(o *config.Options)) *route.Engine {
	t.Helper()
	var os []config.Option
	for _, f := range opts {
		os = append(os, config.Option{F: f})
	}
	e := route.NewEngine(config.NewOptions(os))
	if err := e.Init(); err != nil {
		t.Fatal(err)
	}
	if err := e.MarkAsRunning(); err != nil {
		t.Fatal(err)
	}
	return e
}

// hasDotDotSegment reports whether p, cut at '/', has a ".." piece.
func hasDotDotSegment(p string) bool {
	for _, s := range strings.Split(p, "/") {
		if s == ".." {
			return true
		}
	}
	return false
}

// The path the router works on must not contain a ".." segment, whatever the options are.
// With UseRawPath the router is handed URI.PathOriginal(): dot segments are neither resolved
// nor (when written as %2e%2e or hidden behind %2f) even visible to CleanPath, so the request is
// dispatched to the route of a directory it has left again and the handler receives a parameter
// value that climbs out of it.
func TestC07RawPathRoutesOnDotDot(t *testing.T) {
	for _, removeExtraSlash := range []bool{false, true} {
		e := newEngine(t, func(o *config.Options) {
			o.UseRawPath = true
			o.RemoveExtraSlash = removeExtraSlash
		})
		var routed, param string
		e.GET("/static/*filepath", func(c context.Context, ctx *app.RequestContext) {
			routed, param = ctx.FullPath(), ctx.Param("filepath")
		})
		e.GET("/admin/x", func(c context.Context, ctx *app.RequestContext) {
			routed, param = ctx.FullPath(), ""
		})
		for _, target := range []string{
			"/static/../admin/x",
			"/static/%2e%2e/admin/x",
			"/static/%2E%2e/%2e%2E/admin/x",
			"/static/a%2f..%2f..%2fadmin/x",
		} {
			routed, param = "", ""
			answer := serveWire(t, e, target)
			if routed == "/static/*filepath" || hasDotDotSegment(param) {
				t.Errorf("RemoveExtraSlash=%v: target %q was dispatched to %q with filepath=%q (response %q): "+
					"the path routed on contains a '..' segment; resolved left to right it is /admin/x",
					removeExtraSlash, target, routed, param, answer)
			}
		}
	}
}

// What that means for a handler that maps the catch-all parameter into a directory, the way
// the documentation of the catch-all parameter suggests: a file outside of the directory is served.
func TestC07RawPathServesFileOutsideRoot(t *testing.T) {
	tmp := t.TempDir()
	root := filepath.Join(tmp, "www")
	if err := os.MkdirAll(root, 0o755); err != nil {
		t.Fatal(err)
	}
	os.WriteFile(filepath.Join(root, "pub.txt"), []byte("public"), 0o644)
	os.WriteFile(filepath.Join(tmp, "secret.txt"), []byte("TOP-SECRET"), 0o644)

	for _, useRawPath := range []bool{false, true} {
		e := newEngine(t, func(o *config.Options) { o.UseRawPath = useRawPath })
		e.GET("/static/*filepath", func(c context.Context, ctx *app.RequestContext) {
			ctx.File(root + "/" + ctx.Param("filepath"))
		})
		if answer := serveWire(t, e, "/static/pub.txt"); answer != "200 public" {
			t.Fatalf("UseRawPath=%v: sanity: pub.txt not served: %q", useRawPath, answer)
		}
		for _, target := range []string{"/static/../secret.txt", "/static/%2e%2e/secret.txt", "/static/x%2f..%2f..%2fsecret.txt"} {
			if answer := serveWire(t, e, target); strings.Contains(answer, "TOP-SECRET") {
				t.Errorf("UseRawPath=%v: target %q served a file from outside %s: %q", useRawPath, target, root, answer)
			}
		}
	}
}
