// Place in pkg/route/ (as pkg/route/demo_c07_redirect_test.go); run: go test -vet=off -count=1 -run 'TestC07Redirect' ./pkg/route/
package route_test

import (
	"context"
	"testing"

	"github.com/cloudwego/hertz/pkg/app"
	"github.com/cloudwego/hertz/pkg/common/config"
	"github.com/cloudwego/hertz/pkg/common/test/mock"
	"github.com/cloudwego/hertz/pkg/protocol"
	"github.com/cloudwego/hertz/pkg/protocol/http1/resp"
	"github.com/cloudwego/hertz/pkg/route"
)

// get sends one HTTP/1.1 request with the given request target through the engine and returns
// the status code, the Location header and the body of the answer.
func get(t *testing.T, e *route.Engine, target string) (int, string, string) {
	t.Helper()
	conn := mock.NewConn("GET " + target + " HTTP/1.1\r\nHost: example.com\r\nConnection: close\r\n\r\n")
	_ = e.Serve(context.Background(), conn)
	var r protocol.Response
	if err := resp.Read(&r, conn.WriterRecorder()); err != nil {
		t.Fatalf("target %q: no response: %v", target, err)
	}
	return r.StatusCode(), string(r.Header.Peek("Location")), string(r.Body())
}

// decodedPath is the path the server works with for a request target (decoded once, segments resolved).
func decodedPath(target string) string {
	var u protocol.URI
	u.Parse([]byte("example.com"), []byte(target))
	return string(u.Path())
}

// The trailing-slash redirect and the fixed-path redirect compute their target from the path
// the request was routed on - which is decoded already - and store it with SetRequestURI, which
// percent-decodes it and resolves its dot segments a SECOND time (and cuts it at '?' / '#').
// The Location therefore does not name the path of the request plus / minus a slash but another
// resource, which may lie outside the directory of the request: /files/%252e%252e is sent to "/".
func TestC07RedirectDecodesTwice(t *testing.T) {
	e := route.NewEngine(config.NewOptions([]config.Option{{F: func(o *config.Options) {
		o.RedirectTrailingSlash = true // the default
		o.RedirectFixedPath = true
	}}}))
	if err := e.Init(); err != nil {
		t.Fatal(err)
	}
	if err := e.MarkAsRunning(); err != nil {
		t.Fatal(err)
	}
	h := func(c context.Context, ctx *app.RequestContext) { ctx.String(200, "%s", ctx.Param("name")) }
	e.GET("/files/:name/", h) // registered with a trailing slash: /files/x is redirected to /files/x/
	e.GET("/Docs/:name", h)   // /docs/x is redirected to /Docs/x (fixed path)

	for _, c := range []struct{ target, name, want string }{
		// the file name is the literal "%2e%2e" (the request escapes its '%'): it is one segment below /files/
		{"/files/%252e%252e", "%2e%2e", "/files/%2e%2e/"},
		{"/files/%252e%252e%252fetc", "%2e%2e%2fetc", "/files/%2e%2e%2fetc/"},
		{"/files/a%2541", "a%41", "/files/a%41/"},
		{"/files/a%23b", "a#b", "/files/a#b/"},
		{"/files/a%3Fb", "a?b", "/files/a?b/"},
		{"/docs/%252e%252e", "%2e%2e", "/Docs/%2e%2e"},
		{"/docs/a%2541", "a%41", "/Docs/a%41"},
	} {
		// sanity: this is what the server routes the request on
		if p := decodedPath(c.target); p+"/" != c.want && "/Docs"+p[len("/docs"):] != c.want {
			t.Fatalf("test is wrong: %q is routed on %q", c.target, p)
		}
		code, loc, _ := get(t, e, c.target)
		if code != 301 {
			t.Errorf("target %q: status %d, expected a redirect", c.target, code)
			continue
		}
		// the path a client that follows the redirect is routed on
		if got := decodedPath(loc); got != c.want {
			t.Errorf("target %q (routed on %q): Location %q leads to the path %q, want %q",
				c.target, decodedPath(c.target), loc, got, c.want)
			continue
		}
		if code, _, body := get(t, e, loc); code != 200 || body != c.name {
			t.Errorf("target %q: following Location %q gives %d name=%q, want 200 name=%q", c.target, loc, code, body, c.name)
		}
	}
}
