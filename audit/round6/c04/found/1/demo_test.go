// Place in pkg/route/ (package route). Run: go test -vet=off -count=1 -run 'TestC04F1' ./pkg/route/
//
// A response head of more than 4 KiB that is written by the chunked body writer is handed to the
// connection by reference (WriteBinary keeps referring to slices > 4 KiB until the next Flush). The slice
// is the scratch buffer of the ResponseHeader (bufKV.value), which ResponseHeader.Set / Header() /
// SetContentRange overwrite. A header operation between the first Write and the first Flush therefore
// changes the head that goes on the wire.
package route

import (
	"bufio"
	"context"
	"io"
	"net/http"
	"strings"
	"sync/atomic"
	"testing"

	"github.com/cloudwego/hertz/pkg/app"
	"github.com/cloudwego/hertz/pkg/common/config"
	"github.com/cloudwego/hertz/pkg/common/test/mock"
	"github.com/cloudwego/hertz/pkg/protocol/http1/resp"
)

func c04f1Serve(t *testing.T, reg func(e *Engine), raw string) string {
	e := NewEngine(config.NewOptions(nil))
	atomic.StoreUint32(&e.status, statusRunning)
	e.Init()
	atomic.StoreUint32(&e.status, statusRunning)
	reg(e)
	conn := mock.NewConn(raw)
	_ = e.Serve(context.Background(), conn)
	rec := conn.WriterRecorder()
	var wire []byte
	for {
		if _, err := rec.Peek(1); err != nil {
			break
		}
		p, _ := rec.ReadBinary(rec.Len())
		wire = append(wire, p...)
	}
	return string(wire)
}

func TestC04F1BigHeadChunkedWriter(t *testing.T) {
	big := strings.Repeat("b", 5000)
	for _, tc := range []struct {
		name  string
		after func(ctx *app.RequestContext)
	}{
		// e.g. a timing / request-id middleware that sets its header after ctx.Next returned
		{"Header.Set after the first Write", func(ctx *app.RequestContext) {
			ctx.Response.Header.Set("X-Response-Time", strings.Repeat("9", 40))
		}},
		{"ctx.Header after the first Write", func(ctx *app.RequestContext) {
			ctx.Header("X-Late", "late-late-late-late-late-late")
		}},
		{"SetContentRange after the first Write", func(ctx *app.RequestContext) {
			ctx.Response.Header.SetContentRange(1000000, 2000000, 3000000)
		}},
	} {
		wire := c04f1Serve(t, func(e *Engine) {
			e.GET("/a", func(c context.Context, ctx *app.RequestContext) {
				ctx.Response.Header.Set("X-Big", big)
				ctx.Response.HijackWriter(resp.NewChunkedBodyWriter(&ctx.Response, ctx.GetWriter()))
				ctx.Write([]byte("hello")) // the head is handed to the connection here, no Flush yet
				tc.after(ctx)
				ctx.Write([]byte("world"))
			})
		}, "GET /a HTTP/1.1\r\nHost: h\r\n\r\n")

		r, err := http.ReadResponse(bufio.NewReader(strings.NewReader(wire)), &http.Request{Method: "GET"})
		if err != nil {
			t.Errorf("%s: the bytes on the wire are no HTTP response: %v\n  wire starts with %q", tc.name, err, wire[:80])
			continue
		}
		body, err := io.ReadAll(r.Body)
		if err != nil || string(body) != "helloworld" {
			t.Errorf("%s: body %q, err %v", tc.name, body, err)
		}
		if r.StatusCode != 200 || r.Header.Get("X-Big") != big {
			t.Errorf("%s: status %d, X-Big has %d bytes (want 200, %d)", tc.name, r.StatusCode, len(r.Header.Get("X-Big")), len(big))
		}
	}
}
