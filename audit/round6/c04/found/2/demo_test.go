// Place in pkg/route/ (package route). Run: go test -vet=off -count=1 -run 'TestC04F2' ./pkg/route/
//
// A NoRoute / NoMethod handler that sends its page through the chunked body writer gets the engine's
// default text ("404 page not found" / "405 method not allowed") appended to the body it produced:
// serveError decides "the handlers produced no body" by looking at the body buffer and the body stream only,
// and Response.SetBody forwards the default text to the hijacked writer as one more chunk.
package route

import (
	"bufio"
	"context"
	"io"
	"net/http"
	"strings"
	"sync/atomic"
	"testing"

	"github.com/cloudwego/hertz/pkg/app"
	"github.com/cloudwego/hertz/pkg/common/config"
	"github.com/cloudwego/hertz/pkg/common/test/mock"
	"github.com/cloudwego/hertz/pkg/protocol/http1/resp"
)

func c04f2Serve(t *testing.T, reg func(e *Engine), raw string) string {
	opt := config.NewOptions(nil)
	opt.HandleMethodNotAllowed = true
	e := NewEngine(opt)
	atomic.StoreUint32(&e.status, statusRunning)
	e.Init()
	atomic.StoreUint32(&e.status, statusRunning)
	reg(e)
	conn := mock.NewConn(raw)
	_ = e.Serve(context.Background(), conn)
	rec := conn.WriterRecorder()
	var wire []byte
	for {
		if _, err := rec.Peek(1); err != nil {
			break
		}
		p, _ := rec.ReadBinary(rec.Len())
		wire = append(wire, p...)
	}
	return string(wire)
}

func TestC04F2ErrorPageThroughChunkedWriter(t *testing.T) {
	page := func(c context.Context, ctx *app.RequestContext) {
		ctx.Response.HijackWriter(resp.NewChunkedBodyWriter(&ctx.Response, ctx.GetWriter()))
		ctx.Write([]byte("<html>custom "))
		ctx.Flush()
		ctx.Write([]byte("page</html>"))
	}
	reg := func(e *Engine) {
		e.POST("/only-post", func(c context.Context, ctx *app.RequestContext) {})
		e.NoRoute(page)
		e.NoMethod(page)
	}
	for _, tc := range []struct {
		raw    string
		status int
	}{
		{"GET /missing HTTP/1.1\r\nHost: h\r\n\r\n", 404},
		{"GET /only-post HTTP/1.1\r\nHost: h\r\n\r\n", 405},
	} {
		wire := c04f2Serve(t, reg, tc.raw)
		r, err := http.ReadResponse(bufio.NewReader(strings.NewReader(wire)), &http.Request{Method: "GET"})
		if err != nil {
			t.Fatalf("%q: %v", tc.raw, err)
		}
		body, err := io.ReadAll(r.Body)
		if err != nil {
			t.Fatalf("%q: %v", tc.raw, err)
		}
		if r.StatusCode != tc.status {
			t.Errorf("%q: status %d, want %d", tc.raw, r.StatusCode, tc.status)
		}
		if want := "<html>custom page</html>"; string(body) != want {
			t.Errorf("%q: the client decodes the body %q, the handler produced %q", tc.raw, body, want)
		}
	}

	// unchanged behaviour: a handler chain that sends nothing still gets the default text
	wire := c04f2Serve(t, func(e *Engine) {}, "GET /missing HTTP/1.1\r\nHost: h\r\n\r\n")
	if !strings.HasSuffix(wire, "\r\n\r\n404 page not found") {
		t.Errorf("default 404 text missing: %q", wire)
	}
}
