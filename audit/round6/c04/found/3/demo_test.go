// Place in pkg/route/ (package route). Run: go test -vet=off -count=1 -run 'TestC04F3' ./pkg/route/
//
// An HTTP/1.0 request that carries 'Expect: 100-continue' (typically forwarded blindly by an HTTP/1.0
// proxy) is answered with two messages: 'HTTP/1.1 100 Continue' and then the response of the handler.
// HTTP/1.0 has no interim responses: the recipient takes the first message for the response, and the real
// one is read as its (close-delimited) body or as garbage in front of the next response.
// RFC 9110 10.1.1: "A server that receives a 100-continue expectation in an HTTP/1.0 request MUST ignore
// that expectation"; 15.2: "a server MUST NOT send a 1xx response to an HTTP/1.0 client".
package route

import (
	"bufio"
	"context"
	"io"
	"net/http"
	"strings"
	"sync/atomic"
	"testing"

	"github.com/cloudwego/hertz/pkg/app"
	"github.com/cloudwego/hertz/pkg/common/config"
	"github.com/cloudwego/hertz/pkg/common/test/mock"
)

func c04f3Serve(t *testing.T, stream bool, raw string) string {
	opt := config.NewOptions(nil)
	opt.StreamRequestBody = stream
	e := NewEngine(opt)
	atomic.StoreUint32(&e.status, statusRunning)
	e.Init()
	atomic.StoreUint32(&e.status, statusRunning)
	e.Any("/echo", func(c context.Context, ctx *app.RequestContext) {
		b, _ := ctx.Body()
		ctx.Data(200, "text/plain", b)
	})
	conn := mock.NewConn(raw)
	_ = e.Serve(context.Background(), conn)
	rec := conn.WriterRecorder()
	var wire []byte
	for {
		if _, err := rec.Peek(1); err != nil {
			break
		}
		p, _ := rec.ReadBinary(rec.Len())
		wire = append(wire, p...)
	}
	return string(wire)
}

func TestC04F3ExpectContinueHTTP10(t *testing.T) {
	for _, stream := range []bool{false, true} {
		for _, raw := range []string{
			"POST /echo HTTP/1.0\r\nHost: h\r\nExpect: 100-continue\r\nContent-Length: 5\r\n\r\n12345",
			"POST /echo HTTP/1.0\r\nHost: h\r\nConnection: keep-alive\r\nExpect: 100-continue\r\nContent-Length: 5\r\n\r\n12345",
			"HEAD /echo HTTP/1.0\r\nHost: h\r\nExpect: 100-continue\r\n\r\n",
		} {
			method := raw[:4]
			wire := c04f3Serve(t, stream, raw)
			// what an HTTP/1.0 recipient does: the first message on the connection is the response
			r, err := http.ReadResponse(bufio.NewReader(strings.NewReader(wire)), &http.Request{Method: strings.TrimSpace(method)})
			if err != nil {
				t.Fatalf("stream=%v %q: %v", stream, raw, err)
			}
			body, _ := io.ReadAll(r.Body)
			want := "12345"
			if method == "HEAD" {
				want = ""
			}
			if r.StatusCode != 200 || string(body) != want {
				t.Errorf("stream=%v %q:\n  the first message on the wire is status %d, body %q; want 200, %q\n  wire: %q", stream, raw, r.StatusCode, body, want, wire)
			}
			if strings.Contains(wire, "100 Continue") {
				t.Errorf("stream=%v %q: an interim response was sent to an HTTP/1.0 client", stream, raw)
			}
		}
	}

	// unchanged: an HTTP/1.1 request gets its interim response, and the body is read after it
	wire := c04f3Serve(t, false, "POST /echo HTTP/1.1\r\nHost: h\r\nExpect: 100-continue\r\nContent-Length: 5\r\n\r\n12345")
	if !strings.HasPrefix(wire, "HTTP/1.1 100 Continue\r\n\r\nHTTP/1.1 200 OK\r\n") || !strings.HasSuffix(wire, "\r\n\r\n12345") {
		t.Errorf("HTTP/1.1: %q", wire)
	}
}
