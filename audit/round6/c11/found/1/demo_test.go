// Place in pkg/app/client/ (as pkg/app/client/demo_c11_1_test.go); run: cd <repo> && go test -vet=off -count=1 -run 'TestC11LimitedReaderRequestBodyOfUnknownLength' ./pkg/app/client/
package client

import (
	"bufio"
	"context"
	"io"
	"net"
	"net/http"
	"strings"
	"testing"
	"time"

	"github.com/cloudwego/hertz/pkg/protocol"
)

// A request body given as a stream of unknown length (SetBodyStream(r, -1)) where r happens to be an
// *io.LimitedReader ("at most N bytes") that ends before its limit. The request has to arrive at the server
// with exactly the bytes the stream delivered.
func TestC11LimitedReaderRequestBodyOfUnknownLength(t *testing.T) {
	ln, err := net.Listen("tcp", "127.0.0.1:0")
	if err != nil {
		t.Fatal(err)
	}
	defer ln.Close()

	type seen struct {
		cl      int64
		te      string
		body    string
		bodyErr error
		reqErr  error
	}
	got := make(chan seen, 1)
	go func() {
		c, err := ln.Accept()
		if err != nil {
			return
		}
		defer c.Close()
		c.SetDeadline(time.Now().Add(3 * time.Second)) //nolint:errcheck
		// independent HTTP parser
		r, err := http.ReadRequest(bufio.NewReader(c))
		if err != nil {
			got <- seen{reqErr: err}
			return
		}
		b, err := io.ReadAll(r.Body)
		got <- seen{cl: r.ContentLength, te: strings.Join(r.TransferEncoding, ","), body: string(b), bodyErr: err}
		c.Write([]byte("HTTP/1.1 200 OK\r\nContent-Length: 2\r\n\r\nok")) //nolint:errcheck
	}()

	c, _ := NewClient()
	req, resp := protocol.AcquireRequest(), protocol.AcquireResponse()
	req.SetMethod("POST")
	req.SetRequestURI("http://" + ln.Addr().String() + "/upload")
	// 5 bytes, "at most 100"
	req.SetBodyStream(io.LimitReader(strings.NewReader("hello"), 100), -1)

	doErr := c.Do(context.Background(), req, resp)

	select {
	case s := <-got:
		if s.reqErr != nil {
			t.Fatalf("server could not parse the request: %v", s.reqErr)
		}
		if s.bodyErr != nil || s.body != "hello" {
			t.Errorf("server decoded Content-Length=%d Transfer-Encoding=%q body=%q err=%v; want the 5 bytes \"hello\" in a complete message",
				s.cl, s.te, s.body, s.bodyErr)
		}
	case <-time.After(4 * time.Second):
		t.Errorf("server saw no request")
	}
	if doErr != nil {
		t.Errorf("Do: %v", doErr)
	} else if resp.StatusCode() != 200 || string(resp.Body()) != "ok" {
		t.Errorf("response %d %q", resp.StatusCode(), resp.Body())
	}
}
