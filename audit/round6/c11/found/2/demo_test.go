// Place in pkg/app/client/ (as pkg/app/client/demo_c11_2_test.go); run: cd <repo> && go test -vet=off -count=1 -run 'TestC11RetryAfterBodyStreamWasConsumed' ./pkg/app/client/
package client

import (
	"bufio"
	"context"
	"io"
	"net"
	"net/http"
	"strings"
	"testing"
	"time"

	"github.com/cloudwego/hertz/pkg/app/client/retry"
	"github.com/cloudwego/hertz/pkg/protocol"
)

// A PUT whose body is a stream (known length 5, or unknown length) is sent with a retry function installed
// (SetRetryIfFunc, the documented "retry on error" function). The server reads the first attempt completely
// and closes the connection without answering; it answers the next request it gets with 200.
// The stream cannot be rewound, so the only request the server may ever see is the one with the body "hello":
// a second request with another body is not the request the application made.
func TestC11RetryAfterBodyStreamWasConsumed(t *testing.T) {
	for _, tc := range []struct {
		name string
		size int
	}{{"known length", 5}, {"unknown length", -1}} {
		t.Run(tc.name, func(t *testing.T) {
			ln, err := net.Listen("tcp", "127.0.0.1:0")
			if err != nil {
				t.Fatal(err)
			}
			defer ln.Close()

			got := make(chan string, 8)
			go func() {
				for i := 0; ; i++ {
					c, err := ln.Accept()
					if err != nil {
						return
					}
					c.SetDeadline(time.Now().Add(2 * time.Second)) //nolint:errcheck
					// independent HTTP parser
					r, err := http.ReadRequest(bufio.NewReader(c))
					if err != nil {
						c.Close()
						continue
					}
					b, _ := io.ReadAll(r.Body)
					got <- r.Method + " " + r.URL.Path + " body=" + string(b)
					if i > 0 {
						c.Write([]byte("HTTP/1.1 200 OK\r\nContent-Length: 2\r\n\r\nok")) //nolint:errcheck
					}
					c.Close() // first connection: closed without a response
				}
			}()

			c, _ := NewClient(WithRetryConfig(retry.WithMaxAttemptTimes(3), retry.WithInitDelay(time.Millisecond)))
			c.SetRetryIfFunc(func(req *protocol.Request, resp *protocol.Response, err error) bool {
				// what an application can see: after the first attempt req.IsBodyStream() is false
				return err != nil && !req.IsBodyStream()
			})
			req, resp := protocol.AcquireRequest(), protocol.AcquireResponse()
			req.SetMethod("PUT")
			req.SetRequestURI("http://" + ln.Addr().String() + "/doc")
			req.SetBodyStream(strings.NewReader("hello"), tc.size)

			doErr := c.Do(context.Background(), req, resp)

			var seen []string
		collect:
			for {
				select {
				case s := <-got:
					seen = append(seen, s)
				case <-time.After(300 * time.Millisecond):
					break collect
				}
			}
			for i, s := range seen {
				if s != "PUT /doc body=hello" {
					t.Errorf("request %d of %d reached the server as %q; the application sent PUT /doc with body \"hello\" (Do returned %v, status %d)",
						i+1, len(seen), s, doErr, resp.StatusCode())
				}
			}
			if len(seen) == 0 {
				t.Errorf("server saw no request")
			}
		})
	}
}
