// Place in pkg/app/client/ (as pkg/app/client/demo_c11_3_test.go); run: cd <repo> && go test -vet=off -count=1 -run 'TestC11ReadUntilCloseBodyCutByReadTimeout' ./pkg/app/client/
package client

import (
	"bufio"
	"context"
	"net"
	"net/http"
	"testing"
	"time"

	"github.com/cloudwego/hertz/pkg/protocol"
)

// A conforming server sends a read-until-close response (no Content-Length, no Transfer-Encoding,
// "Connection: close") in two pieces with a pause between them that is longer than the client's ReadTimeout.
// The client either has to deliver the whole body or to fail: it must not return a prefix of the body as
// a complete response.
func TestC11ReadUntilCloseBodyCutByReadTimeout(t *testing.T) {
	ln, err := net.Listen("tcp", "127.0.0.1:0")
	if err != nil {
		t.Fatal(err)
	}
	defer ln.Close()

	const part1, part2 = "part1-", "part2"
	go func() {
		for {
			c, err := ln.Accept()
			if err != nil {
				return
			}
			go func() {
				defer c.Close()
				if _, err := http.ReadRequest(bufio.NewReader(c)); err != nil {
					return
				}
				c.Write([]byte("HTTP/1.1 200 OK\r\nContent-Type: text/plain\r\nConnection: close\r\n\r\n" + part1)) //nolint:errcheck
				time.Sleep(900 * time.Millisecond)
				c.Write([]byte(part2)) //nolint:errcheck
			}()
		}
	}()

	for _, tc := range []struct {
		name   string
		stream bool
	}{{"buffered", false}, {"streaming", true}} {
		t.Run(tc.name, func(t *testing.T) {
			c, _ := NewClient(WithClientReadTimeout(300*time.Millisecond), WithResponseBodyStream(tc.stream))
			req, resp := protocol.AcquireRequest(), protocol.AcquireResponse()
			req.SetRequestURI("http://" + ln.Addr().String() + "/slow")

			err := c.Do(context.Background(), req, resp)
			if err != nil {
				t.Logf("Do failed, which is fine: %v", err)
				return
			}
			body, berr := resp.BodyE()
			if berr != nil {
				t.Logf("reading the body failed, which is fine: %v", berr)
				return
			}
			if string(body) != part1+part2 {
				t.Errorf("Do returned nil and status %d with body %q; the server sent %q", resp.StatusCode(), body, part1+part2)
			}
		})
	}
}
