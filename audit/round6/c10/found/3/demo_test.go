// Place in pkg/protocol/http1/ (file name e.g. c10_interim_demo_test.go); run: go test -vet=off -count=1 -run TestC10InterimResponseLeavesFinalResponseOnPooledConn -v ./pkg/protocol/http1/
package http1

import (
	"context"
	"crypto/tls"
	"errors"
	"fmt"
	"io"
	"net"
	"sync/atomic"
	"testing"
	"time"

	"github.com/cloudwego/hertz/pkg/network"
	"github.com/cloudwego/hertz/pkg/protocol"
	"github.com/cloudwego/hertz/pkg/protocol/client"
)

// c10ScriptConn is an in-memory peer: the k-th request flushed to it is answered at once with script[k].
type c10ScriptConn struct {
	in, out  []byte
	script   []string
	requests int
	closed   int32
}

func (m *c10ScriptConn) Peek(n int) ([]byte, error) {
	if len(m.in) < n {
		return nil, io.EOF
	}
	return m.in[:n], nil
}
func (m *c10ScriptConn) Skip(n int) error        { m.in = m.in[n:]; return nil }
func (m *c10ScriptConn) Release() error          { return nil }
func (m *c10ScriptConn) Len() int                { return len(m.in) }
func (m *c10ScriptConn) ReadByte() (byte, error) { b := m.in[0]; m.in = m.in[1:]; return b, nil }
func (m *c10ScriptConn) ReadBinary(n int) ([]byte, error) {
	p := append([]byte(nil), m.in[:n]...)
	m.in = m.in[n:]
	return p, nil
}

func (m *c10ScriptConn) Read(b []byte) (int, error) {
	if len(m.in) == 0 {
		return 0, io.EOF
	}
	n := copy(b, m.in)
	m.in = m.in[n:]
	return n, nil
}

func (m *c10ScriptConn) Malloc(n int) ([]byte, error) {
	l := len(m.out)
	m.out = append(m.out, make([]byte, n)...)
	return m.out[l:], nil
}
func (m *c10ScriptConn) WriteBinary(b []byte) (int, error) {
	m.out = append(m.out, b...)
	return len(b), nil
}
func (m *c10ScriptConn) Write(b []byte) (int, error) { return m.WriteBinary(b) }
func (m *c10ScriptConn) Flush() error {
	m.out = m.out[:0]
	if m.requests < len(m.script) {
		m.in = append(m.in, m.script[m.requests]...)
	}
	m.requests++
	return nil
}
func (m *c10ScriptConn) Close() error                        { atomic.StoreInt32(&m.closed, 1); return nil }
func (m *c10ScriptConn) LocalAddr() net.Addr                 { return &net.TCPAddr{} }
func (m *c10ScriptConn) RemoteAddr() net.Addr                { return &net.TCPAddr{} }
func (m *c10ScriptConn) SetDeadline(time.Time) error         { return nil }
func (m *c10ScriptConn) SetReadDeadline(time.Time) error     { return nil }
func (m *c10ScriptConn) SetWriteDeadline(time.Time) error    { return nil }
func (m *c10ScriptConn) SetReadTimeout(time.Duration) error  { return nil }
func (m *c10ScriptConn) SetWriteTimeout(time.Duration) error { return nil }

type c10ScriptDialer struct {
	script []string
	conns  []*c10ScriptConn
}

func (d *c10ScriptDialer) DialConnection(n, a string, t time.Duration, c *tls.Config) (network.Conn, error) {
	mc := &c10ScriptConn{script: d.script}
	d.conns = append(d.conns, mc)
	return mc, nil
}

func (d *c10ScriptDialer) DialTimeout(n, a string, t time.Duration, c *tls.Config) (net.Conn, error) {
	return nil, errors.New("unused")
}

func (d *c10ScriptDialer) AddTLS(conn network.Conn, c *tls.Config) (network.Conn, error) {
	return conn, nil
}

// "ok keep-alive" exchanges in which the peer sends an interim (1xx) response ahead of the final one,
// as HTTP/1.1 allows it to at any time (RFC 9110 15.2: "A client MUST be able to parse one or more 1xx
// responses received prior to a final response, even if the client does not expect one").
// Every caller must get the final response to its own request.
func TestC10InterimResponseLeavesFinalResponseOnPooledConn(t *testing.T) {
	final := func(k int) string {
		return fmt.Sprintf("HTTP/1.1 200 OK\r\nContent-Length: 9\r\n\r\nanswer-%02d", k)
	}
	for _, interim := range []string{
		"",                              // control
		"HTTP/1.1 100 Continue\r\n\r\n", // control: the one case that is handled
		"HTTP/1.1 103 Early Hints\r\nLink: </style.css>; rel=preload\r\n\r\n",
		"HTTP/1.1 102 Processing\r\n\r\n",
		"HTTP/1.1 100 Continue\r\n\r\nHTTP/1.1 100 Continue\r\n\r\n",
		"HTTP/1.1 100 Continue\r\n\r\nHTTP/1.1 103 Early Hints\r\nLink: </a>\r\n\r\n",
	} {
		d := &c10ScriptDialer{script: []string{interim + final(1), final(2), final(3)}}
		hc := NewHostClient(&ClientOptions{Dialer: d, MaxConns: 1}).(*HostClient)
		hc.SetDynamicConfig(&client.DynamicConfig{Addr: "mem:80"})

		for k := 1; k <= 3; k++ {
			req, resp := protocol.AcquireRequest(), protocol.AcquireResponse()
			req.SetRequestURI(fmt.Sprintf("http://mem/question-%02d", k))
			err := hc.Do(context.Background(), req, resp)
			want := fmt.Sprintf("answer-%02d", k)
			if err != nil || resp.StatusCode() != 200 || string(resp.Body()) != want {
				t.Errorf("interim %q: caller %d got err=%v status=%d body=%q, want status 200 body %q (connections dialed: %d, idle in pool: %d)",
					interim, k, err, resp.StatusCode(), resp.Body(), want, len(d.conns), hc.ConnectionCount())
			}
			protocol.ReleaseRequest(req)
			protocol.ReleaseResponse(resp)
		}
	}
}
