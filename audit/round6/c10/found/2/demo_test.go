// Place in pkg/protocol/http1/ (file name e.g. c10_conn_close_lines_demo_test.go); run: go test -vet=off -count=1 -run TestC10ConnectionCloseOnAnEarlierLine -v ./pkg/protocol/http1/
package http1

import (
	"context"
	"crypto/tls"
	"errors"
	"io"
	"net"
	"sync/atomic"
	"testing"
	"time"

	"github.com/cloudwego/hertz/pkg/network"
	"github.com/cloudwego/hertz/pkg/protocol"
	"github.com/cloudwego/hertz/pkg/protocol/client"
	"github.com/cloudwego/hertz/pkg/protocol/consts"
)

// c10ClosingConn is an in-memory peer that answers the first request with the given response and -
// as the response announces with 'Connection: close' - closes: later requests get no byte back.
type c10ClosingConn struct {
	in, out  []byte
	resp     []byte
	requests int
	closed   int32
}

func (m *c10ClosingConn) Peek(n int) ([]byte, error) {
	if len(m.in) < n {
		return nil, io.EOF
	}
	return m.in[:n], nil
}
func (m *c10ClosingConn) Skip(n int) error        { m.in = m.in[n:]; return nil }
func (m *c10ClosingConn) Release() error          { return nil }
func (m *c10ClosingConn) Len() int                { return len(m.in) }
func (m *c10ClosingConn) ReadByte() (byte, error) { b := m.in[0]; m.in = m.in[1:]; return b, nil }
func (m *c10ClosingConn) ReadBinary(n int) ([]byte, error) {
	p := append([]byte(nil), m.in[:n]...)
	m.in = m.in[n:]
	return p, nil
}
func (m *c10ClosingConn) Read(b []byte) (int, error) {
	if len(m.in) == 0 {
		return 0, io.EOF
	}
	n := copy(b, m.in)
	m.in = m.in[n:]
	return n, nil
}
func (m *c10ClosingConn) Malloc(n int) ([]byte, error) {
	l := len(m.out)
	m.out = append(m.out, make([]byte, n)...)
	return m.out[l:], nil
}
func (m *c10ClosingConn) WriteBinary(b []byte) (int, error) {
	m.out = append(m.out, b...)
	return len(b), nil
}
func (m *c10ClosingConn) Write(b []byte) (int, error) { return m.WriteBinary(b) }
func (m *c10ClosingConn) Flush() error {
	m.out = m.out[:0]
	m.requests++
	if m.requests == 1 {
		m.in = append(m.in, m.resp...)
	}
	return nil
}
func (m *c10ClosingConn) Close() error                        { atomic.StoreInt32(&m.closed, 1); return nil }
func (m *c10ClosingConn) LocalAddr() net.Addr                 { return &net.TCPAddr{} }
func (m *c10ClosingConn) RemoteAddr() net.Addr                { return &net.TCPAddr{} }
func (m *c10ClosingConn) SetDeadline(time.Time) error         { return nil }
func (m *c10ClosingConn) SetReadDeadline(time.Time) error     { return nil }
func (m *c10ClosingConn) SetWriteDeadline(time.Time) error    { return nil }
func (m *c10ClosingConn) SetReadTimeout(time.Duration) error  { return nil }
func (m *c10ClosingConn) SetWriteTimeout(time.Duration) error { return nil }

type c10ClosingDialer struct {
	resp  string
	conns []*c10ClosingConn
}

func (d *c10ClosingDialer) DialConnection(n, a string, t time.Duration, c *tls.Config) (network.Conn, error) {
	mc := &c10ClosingConn{resp: []byte(d.resp)}
	d.conns = append(d.conns, mc)
	return mc, nil
}

func (d *c10ClosingDialer) DialTimeout(n, a string, t time.Duration, c *tls.Config) (net.Conn, error) {
	return nil, errors.New("unused")
}

func (d *c10ClosingDialer) AddTLS(conn network.Conn, c *tls.Config) (network.Conn, error) {
	return conn, nil
}

// "ok + Connection: close" where the peer (or a proxy in front of it) spreads the Connection options
// over two field lines, which RFC 9110 5.3 makes equivalent to one comma separated list:
//
//	Connection: close
//	Connection: X-Hop          (or Keep-Alive, TE, Upgrade ...)
//
// The connection must be closed after the exchange, never put back for reuse.
func TestC10ConnectionCloseOnAnEarlierLine(t *testing.T) {
	for _, head := range []string{
		"HTTP/1.1 200 OK\r\nConnection: close\r\nContent-Length: 2\r\n\r\nr1",                      // control: one line
		"HTTP/1.1 200 OK\r\nConnection: X-Hop, close\r\nContent-Length: 2\r\n\r\nr1",               // control: one list
		"HTTP/1.1 200 OK\r\nConnection: X-Hop\r\nConnection: close\r\nContent-Length: 2\r\n\r\nr1", // control: close on the last line
		"HTTP/1.1 200 OK\r\nConnection: close\r\nConnection: X-Hop\r\nContent-Length: 2\r\n\r\nr1", // close on the first line
		"HTTP/1.1 200 OK\r\nConnection: close\r\nX-Hop: 1\r\nConnection: X-Hop\r\nContent-Length: 2\r\n\r\nr1",
	} {
		d := &c10ClosingDialer{resp: head}
		hc := NewHostClient(&ClientOptions{Dialer: d, MaxConns: 2}).(*HostClient)
		hc.SetDynamicConfig(&client.DynamicConfig{Addr: "mem:80"})

		req, resp := protocol.AcquireRequest(), protocol.AcquireResponse()
		req.SetRequestURI("http://mem/first")
		if err := hc.Do(context.Background(), req, resp); err != nil || string(resp.Body()) != "r1" {
			t.Fatalf("%q: first exchange: err=%v body=%q", head, err, resp.Body())
		}
		if !resp.ConnectionClose() {
			t.Errorf("%q: the response says 'Connection: close' but resp.ConnectionClose() is false", head)
		}
		if st := hc.ConnPoolState(); st.PoolConnNum != 0 || st.TotalConnNum != 0 || atomic.LoadInt32(&d.conns[0].closed) == 0 {
			t.Errorf("%q: after a 'Connection: close' response the connection was put back for reuse: idle in pool %d, counted %d, closed=%v",
				head, st.PoolConnNum, st.TotalConnNum, atomic.LoadInt32(&d.conns[0].closed) != 0)
		}

		// what the caller of the next request sees: a POST (never retried) lands on the connection the peer has closed
		req.Reset()
		req.Header.SetMethod(consts.MethodPost)
		req.SetRequestURI("http://mem/second")
		req.SetBodyString("x=1")
		err := hc.Do(context.Background(), req, resp)
		if err != nil {
			t.Errorf("%q: the following POST failed on the reused connection: %v (requests written to connection 1: %d, connections dialed: %d)",
				head, err, d.conns[0].requests, len(d.conns))
		}
	}
}
