// Place in pkg/protocol/http1/ (file name e.g. c10_lost_wakeup_demo_test.go); run: go test -vet=off -count=1 -run TestC10WaiterQueuedNextToIdleConn -v ./pkg/protocol/http1/
package http1

import (
	"context"
	"crypto/tls"
	"errors"
	"io"
	"net"
	"sync"
	"testing"
	"time"

	"github.com/cloudwego/hertz/pkg/network"
	"github.com/cloudwego/hertz/pkg/protocol"
	"github.com/cloudwego/hertz/pkg/protocol/client"
)

// c10MemConn is an in-memory peer: every flushed request is answered at once with a fixed response.
// A pooled connection is used by one goroutine at a time, so no locking is needed here.
type c10MemConn struct {
	in, out []byte
	resp    []byte
}

func (m *c10MemConn) Peek(n int) ([]byte, error) {
	if len(m.in) < n {
		return nil, io.EOF
	}
	return m.in[:n], nil
}
func (m *c10MemConn) Skip(n int) error        { m.in = m.in[n:]; return nil }
func (m *c10MemConn) Release() error          { return nil }
func (m *c10MemConn) Len() int                { return len(m.in) }
func (m *c10MemConn) ReadByte() (byte, error) { b := m.in[0]; m.in = m.in[1:]; return b, nil }
func (m *c10MemConn) ReadBinary(n int) ([]byte, error) {
	p := append([]byte(nil), m.in[:n]...)
	m.in = m.in[n:]
	return p, nil
}
func (m *c10MemConn) Read(b []byte) (int, error) { n := copy(b, m.in); m.in = m.in[n:]; return n, nil }
func (m *c10MemConn) Malloc(n int) ([]byte, error) {
	l := len(m.out)
	m.out = append(m.out, make([]byte, n)...)
	return m.out[l:], nil
}
func (m *c10MemConn) WriteBinary(b []byte) (int, error) {
	m.out = append(m.out, b...)
	return len(b), nil
}
func (m *c10MemConn) Write(b []byte) (int, error) { return m.WriteBinary(b) }
func (m *c10MemConn) Flush() error {
	m.out = m.out[:0]
	m.in = append(m.in, m.resp...)
	return nil
}
func (m *c10MemConn) Close() error                        { return nil }
func (m *c10MemConn) LocalAddr() net.Addr                 { return &net.TCPAddr{} }
func (m *c10MemConn) RemoteAddr() net.Addr                { return &net.TCPAddr{} }
func (m *c10MemConn) SetDeadline(time.Time) error         { return nil }
func (m *c10MemConn) SetReadDeadline(time.Time) error     { return nil }
func (m *c10MemConn) SetWriteDeadline(time.Time) error    { return nil }
func (m *c10MemConn) SetReadTimeout(time.Duration) error  { return nil }
func (m *c10MemConn) SetWriteTimeout(time.Duration) error { return nil }

type c10MemDialer struct{ resp string }

func (d *c10MemDialer) DialConnection(n, a string, t time.Duration, c *tls.Config) (network.Conn, error) {
	return &c10MemConn{resp: []byte(d.resp)}, nil
}

func (d *c10MemDialer) DialTimeout(n, a string, t time.Duration, c *tls.Config) (net.Conn, error) {
	return nil, errors.New("unused")
}
func (d *c10MemDialer) AddTLS(conn network.Conn, c *tls.Config) (network.Conn, error) {
	return conn, nil
}

// Two goroutines, one request each, MaxConns = 1, waiting for a free connection switched on, a peer
// that answers at once. Whatever the schedule: once both calls have returned no waiter may remain
// queued - and with a peer that answers within microseconds and a wait limit of one second nobody
// should fail with ErrNoFreeConns either.
//
// The schedule that breaks it: B finds the only connection busy (first critical section of
// acquireConn), A puts the connection back (or closes it) before B has entered the wait queue
// (second critical section, queueForIdle). Nothing wakes B any more.
func TestC10WaiterQueuedNextToIdleConn(t *testing.T) {
	const waitLimit = time.Second
	deadline := time.Now().Add(20 * time.Second)
	trials := 0
	for time.Now().Before(deadline) && trials < 400000 {
		trials++
		variant, respText := "ok keep-alive", "HTTP/1.1 200 OK\r\nContent-Length: 2\r\n\r\nok"
		if trials%2 == 0 {
			variant, respText = "ok + Connection: close", "HTTP/1.1 200 OK\r\nConnection: close\r\nContent-Length: 2\r\n\r\nok"
		}
		hc := NewHostClient(&ClientOptions{
			Dialer:             &c10MemDialer{resp: respText},
			MaxConns:           1,
			MaxConnWaitTimeout: waitLimit,
		}).(*HostClient)
		hc.SetDynamicConfig(&client.DynamicConfig{Addr: "mem:80"})

		do := func() error {
			req, resp := protocol.AcquireRequest(), protocol.AcquireResponse()
			defer protocol.ReleaseRequest(req)
			defer protocol.ReleaseResponse(resp)
			req.SetRequestURI("http://mem/x")
			err := hc.Do(context.Background(), req, resp)
			if err == nil && string(resp.Body()) != "ok" {
				err = errors.New("wrong body " + string(resp.Body()))
			}
			return err
		}

		var wg sync.WaitGroup
		var errs [2]error
		var took [2]time.Duration
		spin := (trials / 2) % 300 // random-delay stand-in: shifts B against A by up to a few microseconds
		for g := 0; g < 2; g++ {
			wg.Add(1)
			go func(g int) {
				defer wg.Done()
				if g == 1 {
					x := 0
					for i := 0; i < spin*10; i++ {
						x += i
					}
					_ = x
				}
				begin := time.Now()
				errs[g] = do()
				took[g] = time.Since(begin)
			}(g)
		}
		wg.Wait()

		st := hc.ConnPoolState()
		if st.WaitConnNum != 0 {
			t.Fatalf("trial %d (peer: %s): both calls have returned (errors: %v / %v, durations %v / %v) but %d waiter is still queued; "+
				"idle connections in the pool: %d, connections counted: %d, pending requests: %d",
				trials, variant, errs[0], errs[1], took[0], took[1], st.WaitConnNum, st.PoolConnNum, st.TotalConnNum, hc.PendingRequests())
		}
	}
	t.Logf("%d trials, no waiter left behind", trials)
}
