// Place in: cmd/hz/generator   Run: cd cmd/hz && go test -count=1 -run '^TestSeed6C16K1$' ./generator
//
// C16 (hz update, handler-by-method): a method whose handler file name collides with the one of an older method
// (GetURL / GetUrl -> get_url.go) and that is declared BEFORE it is given the old method's file on the
// second generation: nothing is written for the new method, the old handler is written a second time
// into get_url_2.go ("GetUrl redeclared", "undefined: handler.GetURL").
//
// The test generates a project the way the hz thriftgo/protoc plugin does (HttpPackageGenerator.Generate +
// Persist, one process per hz invocation: the test binary re-executes itself), puts it into a scratch
// directory below the repository root (removed afterwards), builds it against this hertz tree with the go
// tool, registers the generated router on an engine and compares the (verb, path, handler) set.
package generator

import (
	"encoding/json"
	"os"
	"os/exec"
	"path/filepath"
	"sort"
	"strings"
	"testing"
)

type seed6c16k1Spec struct {
	Dir, Proj             string
	Sort, Snake, ByMethod bool
	Routes                [][3]string // verb, path, handler name
}

// one "hz new" / "hz update" run; only does something in the re-executed child process
func TestSeed6C16K1Child(t *testing.T) {
	raw := os.Getenv("SEED6_C16_K1_SPEC")
	if raw == "" {
		t.Skip("helper of TestSeed6C16K1")
	}
	var s seed6c16k1Spec
	if err := json.Unmarshal([]byte(raw), &s); err != nil {
		t.Fatal(err)
	}
	SetDefaultTemplateConfig()
	g := &HttpPackageGenerator{
		HandlerDir: "biz/handler", RouterDir: "biz/router", ModelDir: "biz/model",
		ProjPackage: s.Proj, CmdType: "new",
		HandlerByMethod: s.ByMethod, SnakeStyleMiddleware: s.Snake, SortRouter: s.Sort,
		TemplateGenerator: TemplateGenerator{OutputDir: s.Dir},
	}
	svc := &Service{Name: "HelloService"}
	for _, r := range s.Routes {
		svc.Methods = append(svc.Methods, &HttpMethod{
			Name: r[2], HTTPMethod: r[0], Path: r[1],
			RequestTypeName: "struct{}", ReturnTypeName: "string", GenHandler: true,
		})
	}
	if err := os.Chdir(s.Dir); err != nil { // hz runs in the project directory
		t.Fatal(err)
	}
	if err := g.Generate(&HttpPackage{IdlName: "hello.thrift", Package: "hello/example", Services: []*Service{svc}}); err != nil {
		t.Fatalf("generate: %v", err)
	}
	if err := g.Persist(); err != nil {
		t.Fatalf("persist: %v", err)
	}
}

func seed6c16k1Gen(t *testing.T, s seed6c16k1Spec) {
	raw, _ := json.Marshal(s)
	cmd := exec.Command(os.Args[0], "-test.run=^TestSeed6C16K1Child$", "-test.count=1")
	cmd.Env = append(os.Environ(), "SEED6_C16_K1_SPEC="+string(raw))
	if out, err := cmd.CombinedOutput(); err != nil {
		t.Fatalf("hz run failed: %v\n%s", err, out)
	}
}

const seed6c16k1Main = `package main

import (
	"fmt"
	"strings"

	"github.com/cloudwego/hertz/pkg/app/server"
	router "PROJ/biz/router"
)

func main() {
	h := server.New()
	router.GeneratedRegister(h)
	for _, r := range h.Routes() {
		fmt.Println("ROUTE", r.Method, r.Path, r.Handler[strings.LastIndex(r.Handler, ".")+1:])
	}
}
`

func TestSeed6C16K1(t *testing.T) {
	repoRoot, err := filepath.Abs(filepath.Join("..", "..", ".."))
	if err != nil {
		t.Fatal(err)
	}
	if _, err := os.Stat(filepath.Join(repoRoot, "pkg", "app", "server")); err != nil {
		t.Fatalf("repository root not found: %v", err)
	}
	dir, err := os.MkdirTemp(repoRoot, "zz_seed6c16k1_")
	if err != nil {
		t.Fatal(err)
	}
	defer os.RemoveAll(dir)
	proj := "github.com/cloudwego/hertz/" + filepath.Base(dir)

	first := [][3]string{{"GET", "/short/url", "GetUrl"}}
	declared := [][3]string{{"GET", "/long/url", "GetURL"}, {"GET", "/short/url", "GetUrl"}}
	seed6c16k1Gen(t, seed6c16k1Spec{Dir: dir, Proj: proj, ByMethod: true, Routes: first})    // hz new
	seed6c16k1Gen(t, seed6c16k1Spec{Dir: dir, Proj: proj, ByMethod: true, Routes: declared}) // hz update

	if err := os.MkdirAll(filepath.Join(dir, "cmdmain"), 0o755); err != nil {
		t.Fatal(err)
	}
	if err := os.WriteFile(filepath.Join(dir, "cmdmain", "main.go"), []byte(strings.Replace(seed6c16k1Main, "PROJ", proj, 1)), 0o644); err != nil {
		t.Fatal(err)
	}
	cmd := exec.Command("go", "run", "./"+filepath.Base(dir)+"/cmdmain")
	cmd.Dir = repoRoot
	out, err := cmd.CombinedOutput()
	if err != nil {
		t.Fatalf("the generated project does not build/run: %v\n%s", err, out)
	}
	var got, want []string
	for _, l := range strings.Split(string(out), "\n") {
		if strings.HasPrefix(l, "ROUTE ") {
			got = append(got, strings.TrimPrefix(l, "ROUTE "))
		}
	}
	for _, r := range declared {
		want = append(want, r[0]+" "+r[1]+" "+r[2])
	}
	sort.Strings(got)
	sort.Strings(want)
	if strings.Join(got, "\n") != strings.Join(want, "\n") {
		t.Fatalf("registered routes:\n%s\ndeclared routes:\n%s", strings.Join(got, "\n"), strings.Join(want, "\n"))
	}
}
