// place in pkg/app/server/ ; run: go test -vet=off -count=1 -run 'TestC01TrailerListHTAB' ./pkg/app/server/
package server

import (
	"bufio"
	"context"
	"io"
	"net"
	"net/http"
	"testing"
	"time"

	"github.com/cloudwego/hertz/pkg/app"
	"github.com/cloudwego/hertz/pkg/network/standard"
)

// A chunked request announces its two trailer fields with "Trailer: X-A,<HTAB>X-B" (optional whitespace
// around a list element is SP / HTAB, RFC 7230 sections 3.2.3 and 7) and sends "X-A: 1" and "X-B: 2" after
// the last chunk. The handler must see both trailer fields with their values.
func TestC01TrailerListHTAB(t *testing.T) {
	for _, stream := range []bool{false, true} {
		for _, list := range []string{"X-A, X-B", "X-A,\tX-B", "X-A\t,X-B"} {
			ln, err := net.Listen("tcp", "127.0.0.1:0")
			if err != nil {
				t.Fatal(err)
			}
			addr := ln.Addr().String()
			ln.Close()
			h := New(WithHostPorts(addr), WithTransport(standard.NewTransporter), WithExitWaitTime(10*time.Millisecond), WithStreamBody(stream))
			h.POST("/t", func(c context.Context, ctx *app.RequestContext) {
				body := ctx.Request.Body() // reads the stream to its end, trailers included
				ctx.Response.Header.Set("X-Body", string(body))
				ctx.Response.Header.Set("X-Got-A", ctx.Request.Header.Trailer().Get("X-A"))
				ctx.Response.Header.Set("X-Got-B", ctx.Request.Header.Trailer().Get("X-B"))
			})
			go h.Run() //nolint:errcheck
			var c net.Conn
			for i := 0; i < 300; i++ {
				if c, err = net.Dial("tcp", addr); err == nil {
					break
				}
				time.Sleep(10 * time.Millisecond)
			}
			if err != nil {
				t.Fatal(err)
			}
			c.Write([]byte("POST /t HTTP/1.1\r\nHost: x\r\nTrailer: " + list + "\r\nTransfer-Encoding: chunked\r\n\r\n" + //nolint:errcheck
				"3\r\nabc\r\n0\r\nX-A: 1\r\nX-B: 2\r\n\r\n"))
			c.SetReadDeadline(time.Now().Add(3 * time.Second)) //nolint:errcheck
			resp, err := http.ReadResponse(bufio.NewReader(c), nil)
			if err != nil {
				t.Fatalf("stream=%v %q: no response: %v", stream, list, err)
			}
			io.Copy(io.Discard, resp.Body) //nolint:errcheck
			c.Close()
			h.Shutdown(context.Background()) //nolint:errcheck
			if resp.StatusCode != 200 || resp.Header.Get("X-Body") != "abc" || resp.Header.Get("X-Got-A") != "1" || resp.Header.Get("X-Got-B") != "2" {
				t.Errorf("stream=%v Trailer: %q: status %d body %q, handler saw trailers X-A=%q X-B=%q, want \"1\" and \"2\"",
					stream, list, resp.StatusCode, resp.Header.Get("X-Body"), resp.Header.Get("X-Got-A"), resp.Header.Get("X-Got-B"))
			}
		}
	}
}
