// place in pkg/app/server/ ; run: go test -vet=off -count=1 -run 'TestC01DeclinedExpect' ./pkg/app/server/
package server

import (
	"bufio"
	"context"
	"fmt"
	"io"
	"net"
	"net/http"
	"sync"
	"testing"
	"time"

	"github.com/cloudwego/hertz/pkg/app"
	"github.com/cloudwego/hertz/pkg/network/standard"
	"github.com/cloudwego/hertz/pkg/protocol"
)

// "POST /upload" with "Expect: 100-continue" and Content-Length: 5, body "hello", on a server whose
// ContinueHandler declines the request. The server does not read the body (and rightly closes the
// connection). A handler that runs for this request must see the 5 body bytes the framing assigns to it;
// since they are deliberately not read, the request must be answered 417 without running the handler.
func TestC01DeclinedExpect(t *testing.T) {
	for _, stream := range []bool{false, true} {
		ln, err := net.Listen("tcp", "127.0.0.1:0")
		if err != nil {
			t.Fatal(err)
		}
		addr := ln.Addr().String()
		ln.Close()
		h := New(WithHostPorts(addr), WithTransport(standard.NewTransporter), WithExitWaitTime(10*time.Millisecond), WithStreamBody(stream))
		h.ContinueHandler = func(header *protocol.RequestHeader) bool { return false }
		var mu sync.Mutex
		var seen []string
		h.POST("/upload", func(c context.Context, ctx *app.RequestContext) {
			body := ctx.Request.Body()
			mu.Lock()
			seen = append(seen, fmt.Sprintf("handler ran: Content-Length header %d, body %q", ctx.Request.Header.ContentLength(), body))
			mu.Unlock()
			ctx.String(200, "stored %d bytes", len(body))
		})
		go h.Run() //nolint:errcheck
		var c net.Conn
		for i := 0; i < 300; i++ {
			if c, err = net.Dial("tcp", addr); err == nil {
				break
			}
			time.Sleep(10 * time.Millisecond)
		}
		if err != nil {
			t.Fatal(err)
		}
		c.Write([]byte("POST /upload HTTP/1.1\r\nHost: x\r\nExpect: 100-continue\r\nContent-Length: 5\r\n\r\nhello")) //nolint:errcheck
		c.SetReadDeadline(time.Now().Add(3 * time.Second))                                                          //nolint:errcheck
		resp, err := http.ReadResponse(bufio.NewReader(c), nil)
		if err != nil {
			t.Fatalf("stream=%v: no response: %v", stream, err)
		}
		b, _ := io.ReadAll(resp.Body)
		c.Close()
		h.Shutdown(context.Background()) //nolint:errcheck

		mu.Lock()
		if len(seen) != 0 {
			t.Errorf("stream=%v: %s (the request carries the body \"hello\")", stream, seen[0])
		}
		mu.Unlock()
		if resp.StatusCode != 417 {
			t.Errorf("stream=%v: status %d body %q, want 417", stream, resp.StatusCode, b)
		}
	}
}
