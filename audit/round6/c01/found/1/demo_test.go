// place in pkg/app/server/ ; run: go test -vet=off -count=1 -run 'TestC01StreamNoLimit' ./pkg/app/server/
package server

import (
	"bufio"
	"context"
	"fmt"
	"io"
	"net"
	"net/http"
	"strings"
	"testing"
	"time"

	"github.com/cloudwego/hertz/pkg/app"
	"github.com/cloudwego/hertz/pkg/network/standard"
)

// Three well-formed requests on one keep-alive connection; standard transport, request body streaming on,
// no body size limit (MaxRequestBodySize <= 0). Every handler reads its body with ctx.Request.Body().
//
//	1. POST /1  Content-Length: 100000           (sent first, answered)
//	2. POST /2  Content-Length: 9000   \  sent back-to-back
//	3. GET  /3                         /  in one write
//
// Expected: three handler calls seeing 100000, 9000 and 0 body bytes, three responses in that order.
func TestC01StreamNoLimit(t *testing.T) {
	ln, err := net.Listen("tcp", "127.0.0.1:0")
	if err != nil {
		t.Fatal(err)
	}
	addr := ln.Addr().String()
	ln.Close()
	h := New(WithHostPorts(addr), WithTransport(standard.NewTransporter), WithExitWaitTime(10*time.Millisecond),
		WithStreamBody(true), WithMaxRequestBodySize(0))
	h.Any("/*p", func(c context.Context, ctx *app.RequestContext) {
		body := ctx.Request.Body()
		first := ""
		if len(body) > 0 {
			first = string(body[:1]) + ".." + string(body[len(body)-1:])
		}
		ctx.Response.Header.Set("X-Seen", fmt.Sprintf("%s %s %d %s", ctx.Request.Method(), ctx.Request.Header.RequestURI(), len(body), first))
	})
	go h.Run()                             //nolint:errcheck
	defer h.Shutdown(context.Background()) //nolint:errcheck
	var c net.Conn
	for i := 0; i < 300; i++ {
		if c, err = net.Dial("tcp", addr); err == nil {
			break
		}
		time.Sleep(10 * time.Millisecond)
	}
	if err != nil {
		t.Fatal(err)
	}
	defer c.Close()
	br := bufio.NewReader(c)
	read := func() string {
		c.SetReadDeadline(time.Now().Add(3 * time.Second)) //nolint:errcheck
		resp, err := http.ReadResponse(br, nil)
		if err != nil {
			return "no response: " + err.Error()
		}
		io.Copy(io.Discard, resp.Body) //nolint:errcheck
		return resp.Header.Get("X-Seen")
	}
	r1 := fmt.Sprintf("POST /1 HTTP/1.1\r\nHost: x\r\nContent-Length: %d\r\n\r\n%s", 100000, strings.Repeat("a", 100000))
	r23 := fmt.Sprintf("POST /2 HTTP/1.1\r\nHost: x\r\nContent-Length: %d\r\n\r\n%s", 9000, strings.Repeat("b", 9000)) +
		"GET /3 HTTP/1.1\r\nHost: x\r\n\r\n"

	c.Write([]byte(r1)) //nolint:errcheck
	got := []string{read()}
	c.Write([]byte(r23)) //nolint:errcheck
	got = append(got, read(), read())
	want := []string{"POST /1 100000 a..a", "POST /2 9000 b..b", "GET /3 0"}
	if fmt.Sprintf("%q", got) != fmt.Sprintf("%q", want) {
		t.Fatalf("responses\n got %q\nwant %q", got, want)
	}
}
