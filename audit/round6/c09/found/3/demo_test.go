// Place in pkg/app/client/ (file name e.g. c09_stream_close_demo_test.go); run: go test -vet=off -count=1 -run TestC09ClosedBodyStreamIsPooledTwice ./pkg/app/client/
// On the unrepaired tree the test binary dies with "fatal error: runtime.SetFinalizer: finalizer already set"
// (not a panic: nothing can recover it); go test reports FAIL for the package.
package client_test

import (
	"context"
	"crypto/tls"
	"io"
	"net"
	"testing"
	"time"

	"github.com/cloudwego/hertz/pkg/app/client"
	"github.com/cloudwego/hertz/pkg/common/test/mock"
	"github.com/cloudwego/hertz/pkg/network"
	"github.com/cloudwego/hertz/pkg/protocol"
)

// c09SeqDialer answers the n-th dial with an in-memory connection holding the n-th canned response.
type c09SeqDialer struct {
	answers []string
	n       int
}

func (d *c09SeqDialer) DialConnection(n, address string, timeout time.Duration, tlsConfig *tls.Config) (network.Conn, error) {
	a := d.answers[d.n%len(d.answers)]
	d.n++
	return mock.NewConn(a), nil
}

func (d *c09SeqDialer) DialTimeout(n, address string, timeout time.Duration, tlsConfig *tls.Config) (net.Conn, error) {
	return nil, nil
}

func (d *c09SeqDialer) AddTLS(conn network.Conn, tlsConfig *tls.Config) (network.Conn, error) {
	return conn, nil
}

func TestC09ClosedBodyStreamIsPooledTwice(t *testing.T) {
	d := &c09SeqDialer{answers: []string{
		"HTTP/1.1 200 OK\r\nContent-Length: 5\r\nConnection: close\r\n\r\nfirst",
		"HTTP/1.1 200 OK\r\nContent-Length: 5\r\nConnection: close\r\n\r\nAAAAA",
		"HTTP/1.1 200 OK\r\nContent-Length: 5\r\nConnection: close\r\n\r\nBBBBB",
	}}
	c, err := client.NewClient(client.WithDialer(d), client.WithResponseBodyStream(true))
	if err != nil {
		t.Fatal(err)
	}
	do := func() *protocol.Response {
		req := protocol.AcquireRequest()
		resp := protocol.AcquireResponse()
		req.SetRequestURI("http://example.com/x")
		if err := c.Do(context.Background(), req, resp); err != nil {
			t.Fatal(err)
		}
		protocol.ReleaseRequest(req)
		return resp
	}

	// Exchange 0: read the streamed body, close the stream the way an io.ReadCloser is closed,
	// and give the response back.
	r0 := do()
	bs := r0.BodyStream()
	if b, _ := io.ReadAll(bs); string(b) != "first" {
		t.Fatalf("body 0 = %q", b)
	}
	if err := bs.(io.Closer).Close(); err != nil {
		t.Fatal(err)
	}
	protocol.ReleaseResponse(r0) // Reset -> CloseBodyStream -> Close once more

	// Two later exchanges whose responses are alive at the same time.
	ra := do()
	rb := do() // unrepaired tree: fatal error: runtime.SetFinalizer: finalizer already set
	if ra.BodyStream() == rb.BodyStream() {
		t.Errorf("two live responses share one body stream object")
	}
	a, _ := io.ReadAll(ra.BodyStream())
	b, _ := io.ReadAll(rb.BodyStream())
	if string(a) != "AAAAA" || string(b) != "BBBBB" {
		t.Errorf("bodies of the later responses: %q and %q, want %q and %q", a, b, "AAAAA", "BBBBB")
	}
	protocol.ReleaseResponse(ra)
	protocol.ReleaseResponse(rb)
}
