// Place in pkg/app/client/ (file name e.g. c09_get_dst_demo_test.go); run: go test -vet=off -count=1 -run TestC09GetLendsDstToTheResponseBodyPool ./pkg/app/client/
package client_test

import (
	"context"
	"crypto/tls"
	"net"
	"testing"
	"time"

	"github.com/cloudwego/hertz/pkg/app/client"
	"github.com/cloudwego/hertz/pkg/common/test/mock"
	"github.com/cloudwego/hertz/pkg/network"
	"github.com/cloudwego/hertz/pkg/protocol"
)

// c09Dialer answers every dial with an in-memory connection on which one complete response is
// waiting. onDial runs in the goroutine of Client.Get, after the client has reset its response
// and before it reads the answer: the place where, in a real program, other goroutines (server
// handlers filling ctx.Response, other client calls) take body buffers from the same pool.
type c09Dialer struct {
	onDial func()
}

func (d *c09Dialer) DialConnection(n, address string, timeout time.Duration, tlsConfig *tls.Config) (network.Conn, error) {
	d.onDial()
	return mock.NewConn("HTTP/1.1 200 OK\r\nContent-Length: 5\r\n\r\nhello"), nil
}

func (d *c09Dialer) DialTimeout(n, address string, timeout time.Duration, tlsConfig *tls.Config) (net.Conn, error) {
	return nil, nil
}

func (d *c09Dialer) AddTLS(conn network.Conn, tlsConfig *tls.Config) (network.Conn, error) {
	return conn, nil
}

func TestC09GetLendsDstToTheResponseBodyPool(t *testing.T) {
	// sync.Pool gives no guarantee which object it hands out (and drops objects at random under the
	// race detector), so the scenario is repeated; on an unrepaired tree every round shows the defect.
	for round := 0; round < 20; round++ {
		// An unrelated response: acquired from the public pool while the Get below is in flight,
		// filled, and read after Get has returned.
		var other *protocol.Response
		d := &c09Dialer{onDial: func() {
			other = protocol.AcquireResponse()
			other.SetBodyString("precious")
		}}
		c, err := client.NewClient(client.WithDialer(d))
		if err != nil {
			t.Fatal(err)
		}

		dst := make([]byte, 0, 64) // the caller's own buffer
		status, body, err := c.Get(context.Background(), dst, "http://example.com/x")
		if err != nil || status != 200 || string(body) != "hello" {
			t.Fatalf("Get: status=%d body=%q err=%v", status, body, err)
		}

		// 1. the unrelated response must still have the body it was given
		if got := string(other.Body()); got != "precious" {
			t.Errorf("round %d: a response obtained from AcquireResponse lost its body when an unrelated Client.Get returned: Body() = %q, want %q", round, got, "precious")
		}
		// 2. and it must never have been built inside the caller's dst
		if got := string(dst[:8]); got == "precious" {
			t.Errorf("round %d: the body of the unrelated response was written into the dst buffer of the Get caller (dst[:8] = %q)", round, got)
		}
		protocol.ReleaseResponse(other)
		if t.Failed() {
			return
		}
	}
}
