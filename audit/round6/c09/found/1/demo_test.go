// Place in pkg/route/ (file name e.g. c09_tracelevel_demo_test.go); run: go test -vet=off -count=1 -run TestC09TraceLevelSurvivesRecycling ./pkg/route/
package route_test

import (
	"context"
	"fmt"
	"strings"
	"testing"

	"github.com/cloudwego/hertz/pkg/app"
	"github.com/cloudwego/hertz/pkg/common/config"
	"github.com/cloudwego/hertz/pkg/common/test/mock"
	"github.com/cloudwego/hertz/pkg/common/tracer/stats"
	"github.com/cloudwego/hertz/pkg/network"
	"github.com/cloudwego/hertz/pkg/route"
)

// a transporter without a listener: Engine.IsRunning then only looks at the engine status
type c09StubTransporter struct{}

func (c09StubTransporter) Close() error                                 { return nil }
func (c09StubTransporter) Shutdown(ctx context.Context) error           { return nil }
func (c09StubTransporter) ListenAndServe(onData network.OnData) error   { return nil }

// c09Tracer notes, at Finish, what the trace info of the request that just ended contains.
type c09Tracer struct {
	seen []string
}

func (t *c09Tracer) Start(c context.Context, ctx *app.RequestContext) context.Context { return c }

func (t *c09Tracer) Finish(c context.Context, ctx *app.RequestContext) {
	st := ctx.GetTraceInfo().Stats()
	t.seen = append(t.seen, fmt.Sprintf("%s level=%d httpStart=%v handleStart=%v handleFinish=%v writeFinish=%v",
		ctx.Request.URI().Path(), st.Level(),
		st.GetEvent(stats.HTTPStart) != nil,
		st.GetEvent(stats.ServerHandleStart) != nil,
		st.GetEvent(stats.ServerHandleFinish) != nil,
		st.GetEvent(stats.WriteFinish) != nil))
}

func (t *c09Tracer) probe() string {
	for i := len(t.seen) - 1; i >= 0; i-- {
		if strings.HasPrefix(t.seen[i], "/probe ") {
			return t.seen[i]
		}
	}
	return "<no probe traced>"
}

func TestC09TraceLevelSurvivesRecycling(t *testing.T) {
	const (
		mutate = "GET /mutate HTTP/1.1\r\nHost: h\r\n\r\n"
		probe  = "GET /probe HTTP/1.1\r\nHost: h\r\nConnection: close\r\n\r\n"
	)
	newEngine := func() (*route.Engine, *c09Tracer) {
		tr := &c09Tracer{}
		opt := config.NewOptions(nil)
		opt.TransporterNewer = func(*config.Options) network.Transporter { return c09StubTransporter{} }
		opt.Tracers = append(opt.Tracers, tr)
		e := route.NewEngine(opt)
		e.GET("/mutate", func(c context.Context, ctx *app.RequestContext) {
			// "do not trace this one request": the handler changes the level of its own trace info
			ctx.GetTraceInfo().Stats().SetLevel(stats.LevelDisabled)
		})
		e.GET("/probe", func(c context.Context, ctx *app.RequestContext) {})
		if err := e.Init(); err != nil {
			t.Fatal(err)
		}
		if err := e.MarkAsRunning(); err != nil {
			t.Fatal(err)
		}
		return e, tr
	}

	// reference: the probe request served with newly allocated objects
	e, tr := newEngine()
	e.Serve(context.Background(), mock.NewConn(probe)) //nolint:errcheck
	fresh := tr.probe()

	// the probe request follows the mutating request on the same keep-alive connection
	e, tr = newEngine()
	e.Serve(context.Background(), mock.NewConn(mutate+probe)) //nolint:errcheck
	sameConn := tr.probe()

	// ... and the probe request on another connection, which gets the pooled context
	e.Serve(context.Background(), mock.NewConn(probe)) //nolint:errcheck
	otherConn := tr.probe()

	if sameConn != fresh {
		t.Errorf("probe after /mutate on the same connection:\n  fresh:    %s\n  recycled: %s", fresh, sameConn)
	}
	if otherConn != fresh {
		t.Errorf("probe on another connection (pooled context):\n  fresh:    %s\n  recycled: %s", fresh, otherConn)
	}
}
