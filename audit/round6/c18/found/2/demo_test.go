// Place in pkg/app/server/ ; run: go test -vet=off -count=1 -run 'TestC18StreamedResponseAfterShutdownBegan' ./pkg/app/server/
//
// C18: a request that arrives on a keep-alive connection after shutdown began and is answered through the chunked
// body writer (the documented way to stream a response) gets no "Connection: close", although its handler
// starts and returns after shutdown began and the server closes the connection behind the response.
package server

import (
	"bufio"
	"context"
	"fmt"
	"io"
	"net"
	"strings"
	"testing"
	"time"

	"github.com/cloudwego/hertz/internal/testutils"
	"github.com/cloudwego/hertz/pkg/app"
	"github.com/cloudwego/hertz/pkg/network/standard"
	"github.com/cloudwego/hertz/pkg/protocol/http1/resp"
)

func TestC18StreamedResponseAfterShutdownBegan(t *testing.T) {
	h := New(
		WithHostPorts("127.0.0.1:0"),
		WithTransport(standard.NewTransporter),
		WithExitWaitTime(3*time.Second),
	)
	h.GET("/ping", func(c context.Context, ctx *app.RequestContext) {
		ctx.SetBodyString("pong")
	})
	h.GET("/stream", func(c context.Context, ctx *app.RequestContext) {
		ctx.Response.HijackWriter(resp.NewChunkedBodyWriter(&ctx.Response, ctx.GetWriter()))
		ctx.Write([]byte("hello")) //nolint:errcheck
		ctx.Flush()                //nolint:errcheck
		ctx.Write([]byte("world")) //nolint:errcheck
	})
	h.GET("/plain", func(c context.Context, ctx *app.RequestContext) {
		ctx.SetBodyString("plain")
	})
	go h.Run()
	waitEngineRunning(h)
	addr := testutils.GetListenerAddr(h)

	// two keep-alive connections with one finished exchange each: idle when shutdown begins
	open := func() (net.Conn, *bufio.Reader) {
		conn, err := net.Dial("tcp", addr)
		if err != nil {
			t.Fatal(err)
		}
		fmt.Fprintf(conn, "GET /ping HTTP/1.1\r\nHost: example.com\r\n\r\n")
		br := bufio.NewReader(conn)
		conn.SetReadDeadline(time.Now().Add(2 * time.Second))
		for {
			line, err := br.ReadString('\n')
			if err != nil {
				t.Fatal(err)
			}
			if strings.Contains(line, "Connection: close") {
				t.Fatal("the server is not shutting down yet")
			}
			if line == "\r\n" {
				break
			}
		}
		if _, err := io.ReadFull(br, make([]byte, 4)); err != nil {
			t.Fatal(err)
		}
		return conn, br
	}
	streamConn, streamBr := open()
	defer streamConn.Close()
	plainConn, plainBr := open()
	defer plainConn.Close()

	shutdownDone := make(chan error, 1)
	go func() { shutdownDone <- h.Shutdown(context.Background()) }()
	for i := 0; h.IsRunning() && i < 200; i++ { // shutdown has begun once the engine says so
		time.Sleep(5 * time.Millisecond)
	}
	time.Sleep(50 * time.Millisecond)

	exchange := func(conn net.Conn, br *bufio.Reader, path string) string {
		fmt.Fprintf(conn, "GET %s HTTP/1.1\r\nHost: example.com\r\n\r\n", path)
		conn.SetReadDeadline(time.Now().Add(2 * time.Second))
		raw, err := io.ReadAll(br) // the server closes the connection behind the response
		if err != nil {
			t.Errorf("%s: connection not closed by the server after the response: %v", path, err)
		}
		return string(raw)
	}

	// reference: the same situation with an ordinary response
	plain := exchange(plainConn, plainBr, "/plain")
	if !strings.HasSuffix(plain, "\r\n\r\nplain") || !strings.Contains(plain, "\r\nConnection: close\r\n") {
		t.Errorf("ordinary response after shutdown began: %q", plain)
	}

	streamed := exchange(streamConn, streamBr, "/stream")
	if !strings.HasSuffix(streamed, "\r\n\r\n5\r\nhello\r\n5\r\nworld\r\n0\r\n\r\n") {
		t.Errorf("streamed response is not complete: %q", streamed)
	}
	if !strings.Contains(streamed, "\r\nConnection: close\r\n") {
		t.Errorf("streamed response handled after shutdown began lacks 'Connection: close' "+
			"(the connection was closed by the server behind it): %q", streamed)
	}

	if err := <-shutdownDone; err != nil {
		t.Errorf("Shutdown: %v", err)
	}
}
