// Place in pkg/app/server/ ; run: go test -vet=off -count=1 -timeout 5m -run 'TestC18LongExitWaitTimeIsHonoured' ./pkg/app/server/
//
// C18: WithExitWaitTime above 30 s is silently cut to 30 s by the standard transport: Shutdown gives up with
// "shutdown timeout" while a request is still being handled and the configured wait has not elapsed.
// (The test needs about 32 s.)
package server

import (
	"context"
	"fmt"
	"io"
	"net"
	"strings"
	"sync/atomic"
	"testing"
	"time"

	"github.com/cloudwego/hertz/internal/testutils"
	"github.com/cloudwego/hertz/pkg/app"
	"github.com/cloudwego/hertz/pkg/network/standard"
)

func TestC18LongExitWaitTimeIsHonoured(t *testing.T) {
	const exitWait = 40 * time.Second            // configured by the application
	const handlerTime = 31500 * time.Millisecond // well inside the configured wait

	h := New(
		WithHostPorts("127.0.0.1:0"),
		WithTransport(standard.NewTransporter),
		WithExitWaitTime(exitWait),
	)
	entered := make(chan struct{})
	release := make(chan struct{})
	var handlerDone int32
	h.GET("/slow", func(c context.Context, ctx *app.RequestContext) {
		close(entered)
		<-release
		ctx.SetBodyString("complete")
		atomic.StoreInt32(&handlerDone, 1)
	})
	go h.Run()
	waitEngineRunning(h)

	conn, err := net.Dial("tcp", testutils.GetListenerAddr(h))
	if err != nil {
		t.Fatal(err)
	}
	defer conn.Close()
	fmt.Fprintf(conn, "GET /slow HTTP/1.1\r\nHost: example.com\r\n\r\n")
	<-entered

	time.AfterFunc(handlerTime, func() { close(release) })

	start := time.Now()
	err = h.Shutdown(context.Background())
	took := time.Since(start)
	doneAtReturn := atomic.LoadInt32(&handlerDone) == 1
	t.Logf("Shutdown returned %v after %v; handler finished by then: %v", err, took, doneAtReturn)

	if !doneAtReturn && took < exitWait {
		t.Errorf("Shutdown returned after %v (error: %v) although a request was still in progress and the "+
			"configured exit wait time of %v had not elapsed", took, err, exitWait)
	}
	if err != nil {
		t.Errorf("Shutdown: %v", err)
	}

	// the request itself: complete response, announced as the last one on the connection
	conn.SetReadDeadline(time.Now().Add(5 * time.Second))
	raw, _ := io.ReadAll(conn)
	if !strings.HasSuffix(string(raw), "\r\n\r\ncomplete") || !strings.Contains(string(raw), "Connection: close\r\n") {
		t.Errorf("response: %q", raw)
	}
}
