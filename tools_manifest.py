#!/usr/bin/env python3
"""Regenerates /verif/MANIFEST.json from the table below and validates it (and all evidence files)."""
import json, os, sys, subprocess
ROOT = os.path.dirname(os.path.abspath(__file__))
HOOK_COMMITS = [l.split()[0] for l in subprocess.run(
    ["git", "-C", "/repo", "log", "--format=%H %s"], capture_output=True, text=True).stdout.splitlines()
    if " verif hook" in l]

# id -> (level, technique, text, note, design_ref)
CHECKS = {}
NA = {}
exec(open(os.path.join(ROOT, "manifest_table.py")).read())

props = [json.loads(l)["id"] for l in open(os.path.join(ROOT, "properties.jsonl"))]
checks = []
for pid in props:
    if pid in CHECKS:
        level, technique, text, note, ref = CHECKS[pid]
        checks.append({
            "property_id": pid,
            "quick_cmd": f"./verif check {pid} --tier quick",
            "thorough_cmd": f"./verif check {pid} --tier thorough",
            "evidence_file": f"/verif/evidence/{pid}.json",
            "replay_cmd_template": "./verif replay {path}",
            "engine": "verifh",
            "level_claimed": {"category": level, "text": text, "design_ref": ref},
            "level_note": note,
            "technique": technique,
        })
    elif pid not in NA:
        NA[pid] = "check not built yet (work in progress; see DESIGN.md section 4 for the planned bounded-exhaustive check)"
m = {
    "version": 1,
    "setup_cmd": "./setup.sh",
    "hooks": {
        "guard": "verif",
        "enable": "go build -tags verif (hook files are //go:build verif, add-only); scheduler instrumentation is injected with go build -overlay, /repo untouched",
        "baseline_off_cmd": "for m in . ./cmd/hz; do (cd /repo/$m && go test -mod=mod -json -vet=off -count=1 -timeout 25m ./...); done",
        "source_commits": HOOK_COMMITS,
        "add_only": True,
    },
    "engines": [
        {"name": "verifh", "path": "/verif/h", "serves_properties": sorted(CHECKS),
         "kind_free_text": "hand-written Go bounded-exhaustive explorers (netsim scripted network under the real standard.Conn, seq enumeration, controlled scheduler) driving the real hertz code; reference models in Go"},
    ],
    "checks": checks,
    "not_applicable": [{"property_id": k, "reason": v} for k, v in sorted(NA.items())],
    "notes": "All checks rebuild the harness from /repo's working tree on every invocation (./verif). exit 0 held / 1 VIOLATION / 2 harness error.",
}
json.dump(m, open(os.path.join(ROOT, "MANIFEST.json"), "w"), indent=1)
try:
    sys.path.insert(0, "/opt/veriftools/pyvenv/lib/python3.11/site-packages")
    import jsonschema
    jsonschema.validate(m, json.load(open("/root/.vp/MANIFEST.schema.json")))
    es = json.load(open("/root/.vp/EVIDENCE.schema.json"))
    for c in checks:
        p = c["evidence_file"]
        if os.path.exists(p):
            jsonschema.validate(json.load(open(p)), es)
        else:
            print("missing evidence", p)
    print("MANIFEST ok:", len(checks), "checks,", len(NA), "not_applicable")
except ImportError:
    print("jsonschema not available; wrote MANIFEST without validation")
