package c16

import (
	"bytes"
	"context"
	"fmt"
	"go/ast"
	"go/build"
	"go/importer"
	"go/parser"
	"go/token"
	"go/types"
	"io"
	"os"
	"os/exec"
	"path"
	"path/filepath"
	"regexp"
	"sort"
	"strconv"
	"strings"
	"sync"

	"github.com/cloudwego/hertz/pkg/app"
	"github.com/cloudwego/hertz/pkg/app/server"
	"github.com/cloudwego/hertz/pkg/common/config"
	"github.com/cloudwego/hertz/pkg/route"

	"verifh/mc"
)

// anyMethods: what RouterGroup.Any is documented to register.
var anyMethods = []string{"GET", "POST", "PUT", "PATCH", "HEAD", "OPTIONS", "DELETE", "CONNECT", "TRACE"}

func expand(verb string) []string {
	if strings.EqualFold(verb, "ANY") {
		return anyMethods
	}
	return []string{strings.ToUpper(verb)}
}

// ---------------------------------------------------------------------------------------
// reference: the declared routes registered directly on a real engine
// ---------------------------------------------------------------------------------------

type reference struct {
	invalid  string
	eng      *route.Engine
	log      *[]string
	expected map[string]bool // "METHOD path"
}

func recorder(log *[]string, name string) app.HandlerFunc {
	return func(ctx context.Context, c *app.RequestContext) { *log = append(*log, name) }
}

func newReference(routes []Route) (ref *reference) {
	ref = &reference{expected: map[string]bool{}, log: new([]string)}
	defer func() {
		if r := recover(); r != nil {
			ref.invalid = fmt.Sprint(r)
		}
	}()
	ref.eng = route.NewEngine(config.NewOptions(nil))
	for i, r := range routes {
		for _, m := range expand(r.Verb) {
			k := m + " " + r.Path
			if ref.expected[k] {
				ref.invalid = "declared twice: " + k
				return ref
			}
			ref.expected[k] = true
			ref.eng.Handle(m, r.Path, recorder(ref.log, strconv.Itoa(i)))
		}
	}
	return ref
}

// concrete instantiates :params and *catch-alls with segments that are no static segment of the universe.
func concrete(p string) string {
	segs := strings.Split(p, "/")
	for i, s := range segs {
		switch {
		case strings.HasPrefix(s, ":"):
			segs[i] = "p7x"
		case strings.HasPrefix(s, "*"):
			segs[i] = "q7x/r7x"
		}
	}
	return strings.Join(segs, "/")
}

func probe(e *route.Engine, log *[]string, method, target string) (chain []string, fullPath string, status int) {
	c := e.NewContext()
	c.Request.Header.SetMethod(method)
	c.Request.SetRequestURI(target)
	*log = (*log)[:0]
	e.ServeHTTP(context.Background(), c)
	chain = append([]string(nil), (*log)...)
	return chain, c.FullPath(), c.Response.StatusCode()
}

// ---------------------------------------------------------------------------------------
// export data of the hertz packages the generated code imports
// ---------------------------------------------------------------------------------------

var (
	exportsOnce sync.Once
	exportsErr  error
	exportFiles map[string]string
)

func goEnv() []string {
	return append(os.Environ(), "GOFLAGS=-mod=mod", "GOPROXY=off", "GOSUMDB=off", "GOTOOLCHAIN=local")
}

func moduleDir() string {
	if d := os.Getenv("VERIF_HHZ_DIR"); d != "" {
		return d
	}
	return filepath.Join(mc.Root, "hhz")
}

func loadExports() error {
	exportsOnce.Do(func() {
		cmd := exec.Command("go", "list", "-tags", "verif", "-export", "-deps", "-f", "{{.ImportPath}}={{.Export}}",
			"github.com/cloudwego/hertz/pkg/app/server", "github.com/cloudwego/hertz/pkg/app",
			"github.com/cloudwego/hertz/pkg/protocol/consts", "context")
		cmd.Dir = moduleDir()
		cmd.Env = goEnv()
		out, err := cmd.CombinedOutput()
		if err != nil {
			exportsErr = fmt.Errorf("go list -export in %s failed: %v: %s", cmd.Dir, err, out)
			return
		}
		m := map[string]string{}
		for _, line := range strings.Split(string(out), "\n") {
			if i := strings.IndexByte(line, '='); i > 0 && i+1 < len(line) {
				m[line[:i]] = line[i+1:]
			}
		}
		if m["github.com/cloudwego/hertz/pkg/app/server"] == "" {
			exportsErr = fmt.Errorf("go list -export gave no export data for hertz server: %s", out)
			return
		}
		exportFiles = m
	})
	return exportsErr
}

type validator struct {
	fset *token.FileSet
	imp  types.Importer
}

var (
	poolMu sync.Mutex
	pool   []*validator
)

func getValidator() *validator {
	poolMu.Lock()
	if n := len(pool); n > 0 {
		v := pool[n-1]
		pool = pool[:n-1]
		poolMu.Unlock()
		return v
	}
	poolMu.Unlock()
	v := &validator{fset: token.NewFileSet()}
	v.imp = importer.ForCompiler(v.fset, "gc", func(p string) (io.ReadCloser, error) {
		f := exportFiles[p]
		if f == "" {
			return nil, fmt.Errorf("no export data for %q", p)
		}
		return os.Open(f)
	})
	return v
}

func putValidator(v *validator) {
	poolMu.Lock()
	pool = append(pool, v)
	poolMu.Unlock()
}

type genImporter struct {
	base types.Importer
	gen  map[string]*types.Package
}

func (g *genImporter) Import(p string) (*types.Package, error) {
	if pkg, ok := g.gen[p]; ok {
		return pkg, nil
	}
	return g.base.Import(p)
}

// ---------------------------------------------------------------------------------------
// classification helpers
// ---------------------------------------------------------------------------------------

var (
	reIdent  = regexp.MustCompile(`\b_+[A-Za-z0-9_]*|\b[A-Za-z][A-Za-z0-9_]*\d+\b`)
	reDigits = regexp.MustCompile(`\d+`)
)

// classOf turns a compiler / panic message into a stable class: generated identifiers and numbers are abstracted.
func classOf(msg string) string {
	if i := strings.IndexByte(msg, '\n'); i >= 0 {
		msg = msg[:i]
	}
	msg = reIdent.ReplaceAllString(msg, "ID")
	msg = reDigits.ReplaceAllString(msg, "N")
	msg = strings.Join(strings.Fields(msg), "_")
	if len(msg) > 70 {
		msg = msg[:70]
	}
	return msg
}

func pkgKind(dir string) string {
	switch {
	case dir == "biz/router":
		return "register"
	case strings.HasPrefix(dir, "biz/router/"):
		return "router"
	case strings.HasPrefix(dir, "biz/handler"):
		return "handler"
	}
	return "other"
}

func dumpFiles(res *genResult, kinds ...string) string {
	var sb strings.Builder
	for _, f := range res.Files {
		ok := len(kinds) == 0
		for _, k := range kinds {
			if pkgKind(path.Dir(f.Path)) == k {
				ok = true
			}
		}
		if ok {
			sb.WriteString("\n--- " + f.Path + " ---\n" + strings.TrimSpace(stripComments(f.Content)) + "\n")
		}
	}
	return sb.String()
}

// stripComments shortens a generated file for a message: drops comment lines, the /* */ banner and blank lines.
func stripComments(s string) string {
	var out []string
	inBlock := false
	for _, l := range strings.Split(s, "\n") {
		t := strings.TrimSpace(l)
		if inBlock {
			if strings.Contains(t, "*/") {
				inBlock = false
			}
			continue
		}
		if strings.HasPrefix(t, "/*") {
			inBlock = !strings.Contains(t, "*/")
			continue
		}
		if t == "" || strings.HasPrefix(t, "//") {
			continue
		}
		out = append(out, l)
	}
	return strings.Join(out, "\n")
}

// ---------------------------------------------------------------------------------------
// validation of one generated program
// ---------------------------------------------------------------------------------------

type parsedFile struct {
	gf  genFile
	ast *ast.File
}

func expectedHandlerPkg(cs Case, nameIndex int) string {
	if cs.Opts.ByMethod {
		if cs.Opts.GenPath {
			return projPackage + "/biz/handler/" + handlerDirOf(nameIndex)
		}
		return projPackage + "/biz/handler"
	}
	return projPackage + "/biz/handler/api"
}

func (v *validator) validate(cs Case, ref *reference, res *genResult, st *stats, report func(key, msg string)) error {
	where := caseString(cs)
	if res.Panic != "" {
		outcome("generator-panic")
		report("generator-panic:"+classOf(res.Panic), fmt.Sprintf("%s: the generator panics: %s", where, res.Panic))
		return nil
	}
	if res.Err != "" {
		outcome("generator-error")
		report("generator-error:"+classOf(res.Err), fmt.Sprintf("%s: hertz accepts these routes when registered directly, but the generator fails: %s", where, res.Err))
		return nil
	}
	// (1) parse; a later file with the same path replaces an earlier one, as on disk
	fset := token.NewFileSet()
	byPath := map[string]*parsedFile{}
	var order []string
	bad := false
	for _, gf := range res.Files {
		if !strings.HasSuffix(gf.Path, ".go") {
			continue
		}
		if !goToolIncludes(gf.Path, []byte(gf.Content)) {
			// what `go build` leaves out (x_test.go, x_windows.go, ...) is not part of the program
			continue
		}
		st.add(&st.Files, 1)
		f, err := parser.ParseFile(fset, gf.Path, gf.Content, parser.AllErrors|parser.SkipObjectResolution)
		if err != nil {
			bad = true
			kind := pkgKind(path.Dir(gf.Path))
			outcome("parse-error:" + kind)
			report("parse-error:"+kind+":"+classOf(errMsg(err)), fmt.Sprintf("%s: emitted file %s does not parse: %v%s", where, gf.Path, err, dumpFiles(&genResult{Files: []genFile{gf}})))
			continue
		}
		if _, dup := byPath[gf.Path]; !dup {
			order = append(order, gf.Path)
		}
		byPath[gf.Path] = &parsedFile{gf, f}
	}
	if bad {
		st.add(&st.InvalidGo, 1)
		return nil
	}
	var routerFile *parsedFile
	dirs := map[string][]*parsedFile{}
	for _, p := range order {
		pf := byPath[p]
		d := path.Dir(p)
		dirs[d] = append(dirs[d], pf)
		if pf.gf.Tpl == "router.go" {
			if routerFile != nil {
				return fmt.Errorf("two router files emitted: %s and %s", routerFile.gf.Path, p)
			}
			routerFile = pf
		}
	}
	if routerFile == nil {
		outcome("no-router-file")
		report("no-router-file", fmt.Sprintf("%s: the generator emitted no router file; files: %v", where, order))
		return nil
	}
	// (2) type-check every emitted package, dependencies first
	gi := &genImporter{base: v.imp, gen: map[string]*types.Package{}}
	remaining := map[string]bool{}
	for d := range dirs {
		remaining[d] = true
	}
	importsOf := func(d string) []string {
		var out []string
		for _, pf := range dirs[d] {
			for _, im := range pf.ast.Imports {
				p, _ := strconv.Unquote(im.Path.Value)
				if strings.HasPrefix(p, projPackage+"/") {
					out = append(out, strings.TrimPrefix(p, projPackage+"/"))
				}
			}
		}
		return out
	}
	var typeErrs []string
	firstKind, firstMsg := "", ""
	for len(remaining) > 0 {
		var ready []string
		for d := range remaining {
			ok := true
			for _, dep := range importsOf(d) {
				if remaining[dep] && dep != d {
					ok = false
				}
			}
			if ok {
				ready = append(ready, d)
			}
		}
		if len(ready) == 0 { // import cycle among generated packages: let go/types report it
			for d := range remaining {
				ready = append(ready, d)
			}
		}
		sort.Strings(ready)
		for _, d := range ready {
			delete(remaining, d)
			var files []*ast.File
			for _, pf := range dirs[d] {
				files = append(files, pf.ast)
			}
			conf := types.Config{Importer: gi, Error: func(err error) {
				msg := errMsg(err)
				if strings.HasPrefix(msg, "\t") { // continuation ("other declaration of ...")
					return
				}
				if firstMsg == "" {
					firstKind, firstMsg = pkgKind(d), msg
				}
				if len(typeErrs) < 6 {
					typeErrs = append(typeErrs, err.Error())
				}
			}}
			pkg, _ := conf.Check(projPackage+"/"+d, fset, files, nil)
			st.add(&st.Packages, 1)
			if pkg != nil {
				gi.gen[projPackage+"/"+d] = pkg
			}
		}
	}
	if firstMsg != "" {
		st.add(&st.InvalidGo, 1)
		key := "invalid-go:" + firstKind + ":" + classOf(firstMsg)
		if firstKind == "router" {
			if roles := rolesOf(firstMsg, routerFile.gf.Content); roles != "" {
				key += ":" + roles
			}
		}
		if cs.Opts.Snake {
			key += ":snake-style"
		} else {
			key += ":default-style"
		}
		outcome(key + " {" + cs.Opts.String() + "}")
		report(key, fmt.Sprintf("%s: the emitted %s package is not valid Go: %s%s",
			where, firstKind, strings.Join(typeErrs, " | "), dumpFiles(res, firstKind)))
		return nil
	}
	// (3) execute Register on a real server.Hertz
	ev, err := evaluate(routerFile)
	if err != nil {
		return fmt.Errorf("%v%s", err, dumpFiles(res, "router"))
	}
	routerSrc := dumpFiles(&genResult{Files: []genFile{routerFile.gf}})
	if ev.regPanic != "" {
		outcome("register-panic")
		report("register-panic:"+classOf(ev.regPanic), fmt.Sprintf("%s: hertz accepts these routes when registered directly, but the generated Register panics: %s%s", where, ev.regPanic, routerSrc))
		return nil
	}
	if len(ev.groups) > 1 && len(ev.routes) > 1 {
		st.add(&st.NonTrivial, 1)
	}
	// (4a) Engine.Routes() == declared set
	got := map[string]bool{}
	var dupRoutes []string
	for _, ri := range ev.h.Routes() {
		k := ri.Method + " " + ri.Path
		if got[k] {
			dupRoutes = append(dupRoutes, k)
		}
		got[k] = true
	}
	var missing, extra []string
	for k := range ref.expected {
		st.add(&st.Compared, 1)
		if !got[k] {
			missing = append(missing, k)
		}
	}
	for k := range got {
		if !ref.expected[k] {
			extra = append(extra, k)
		}
	}
	sort.Strings(missing)
	sort.Strings(extra)
	if len(missing)+len(extra)+len(dupRoutes) > 0 {
		key := "routes"
		if len(missing) > 0 {
			key += ":missing"
		}
		if len(extra) > 0 {
			key += ":extra"
		}
		if len(dupRoutes) > 0 {
			key += ":duplicate"
		}
		outcome(key)
		report(key, fmt.Sprintf("%s: Engine.Routes() after the generated Register differs from the declared set: missing %v, not declared %v, twice %v%s", where, missing, extra, dupRoutes, routerSrc))
		return nil
	}
	for _, r := range ev.routes {
		for _, m := range expand(r.verb) {
			if !got[m+" "+r.full] {
				return fmt.Errorf("%s: the harness computes full path %q for %s.%s(%q) but Engine.Routes() has no %s %s", where, r.full, "group", r.verb, r.rel, m, r.full)
			}
		}
	}
	// (4b) one probe per declared (verb, path)
	nameIndex := map[string]int{}
	for _, r := range cs.Routes {
		if _, ok := nameIndex[r.Name]; !ok {
			nameIndex[r.Name] = len(nameIndex)
		}
	}
	sites := map[string][]string{} // middleware function -> where it is attached
	for _, g := range ev.groups {
		sites[g.mw] = append(sites[g.mw], "group "+g.varName+" ("+g.base+")")
	}
	for _, r := range ev.routes {
		sites[r.mw] = append(sites[r.mw], "route "+r.verb+" "+r.full)
	}
	verdict := "ok"
	fail := func(key, msg string) {
		if verdict == "ok" {
			verdict = key
		}
		report(key, msg)
	}
	for _, r := range cs.Routes {
		for _, m := range expand(r.Verb) {
			target := concrete(r.Path)
			refChain, refFull, _ := probe(ref.eng, ref.log, m, target)
			if len(refChain) != 1 {
				return fmt.Errorf("%s: the reference engine (routes registered directly) does not dispatch %s %s: %v", where, m, target, refChain)
			}
			di, _ := strconv.Atoi(refChain[0])
			d := cs.Routes[di] // the declared route hertz selects for this request
			if d != r {
				st.add(&st.Shadowed, 1)
			}
			chain, full, status := probe(ev.h.Engine, ev.log, m, target)
			st.add(&st.Probes, 1)
			st.add(&st.Compared, 1)
			what := fmt.Sprintf("%s: probe %s %s (declared %s %s -> %s)", where, m, target, d.Verb, d.Path, d.Name)
			if len(chain) < 2 {
				fail("probe:not-dispatched", fmt.Sprintf("%s is not dispatched to a generated route: executed %v, status %d%s", what, chain, status, routerSrc))
				continue
			}
			if full != refFull {
				fail("probe:other-route", fmt.Sprintf("%s matches route %q on the generated engine but %q when registered directly%s", what, full, refFull, routerSrc))
				continue
			}
			handler, hmw, gmws := chain[len(chain)-1], chain[len(chain)-2], chain[:len(chain)-2]
			if want := expectedHandlerPkg(cs, nameIndex[d.Name]) + "." + d.Name; handler != want {
				fail("handler-binding", fmt.Sprintf("%s runs handler %s, want %s (chain %v)%s", what, handler, want, chain, routerSrc))
				continue
			}
			// the route's own middleware: attached to this route statement and nowhere else
			wantSite := "route " + routeVerb(d.Verb) + " " + refFull
			if s := sites[hmw]; len(s) != 1 || s[0] != wantSite {
				fail("handler-middleware:shared-or-misplaced", fmt.Sprintf("%s: the middleware executed directly before the handler is %sMw, which is attached to %v; want a middleware attached to %q only (chain %v)%s",
					what, hmw, s, wantSite, chain, routerSrc))
				continue
			}
			// group middleware: every group whose prefix lies on the path, outermost first, nothing else
			var on []*grp
			for _, g := range ev.groups {
				if strings.HasPrefix(refFull, strings.TrimSuffix(g.base, "/")+"/") {
					on = append(on, g)
				}
			}
			sort.SliceStable(on, func(i, j int) bool {
				return len(strings.TrimSuffix(on[i].base, "/")) < len(strings.TrimSuffix(on[j].base, "/"))
			})
			var want []string
			split, splitKey := "", ""
			for i, g := range on {
				want = append(want, g.mw)
				if i > 0 && split == "" && strings.TrimSuffix(on[i-1].base, "/") == strings.TrimSuffix(g.base, "/") {
					// the outermost doubled prefix; class: generator option that selects the tree search, and whether the doubled prefix is itself a declared route
					splitKey = "middleware:split-group:sort-router-off"
					if cs.Opts.Sort {
						splitKey = "middleware:split-group:sort-router-on"
					}
					isRoute := false
					for _, dr := range cs.Routes {
						if dr.Path == strings.TrimSuffix(g.base, "/") {
							isRoute = true
						}
					}
					if isRoute {
						splitKey += ":prefix-is-a-declared-route"
					} else {
						splitKey += ":prefix-is-no-declared-route"
					}
					split = fmt.Sprintf("two groups with the same prefix %q (%s with %sMw and %s with %sMw)", g.base, on[i-1].varName, on[i-1].mw, g.varName, g.mw)
				}
			}
			if strings.Join(gmws, ",") != strings.Join(want, ",") {
				if split != "" {
					fail(splitKey, fmt.Sprintf("%s is wrapped by group middleware %v, but Register creates %s, so the middleware of the groups on its path is %v: a middleware put on one of the two does not wrap all routes below the prefix%s",
						what, gmws, split, want, routerSrc))
				} else {
					fail("middleware:chain-mismatch", fmt.Sprintf("%s is wrapped by group middleware %v, want %v (every group whose prefix is on the path, outermost first)%s", what, gmws, want, routerSrc))
				}
				continue
			}
			for _, f := range gmws {
				if s := sites[f]; len(s) != 1 {
					fail("middleware:shared", fmt.Sprintf("%s: group middleware %sMw is attached at %v%s", what, f, s, routerSrc))
				}
			}
		}
	}
	if verdict == "ok" {
		depth := 0
		for _, g := range ev.groups {
			if d := strings.Count(strings.TrimSuffix(g.base, "/"), "/"); d > depth {
				depth = d
			}
		}
		outcome(fmt.Sprintf("ok:groups=%d,routes=%d,depth=%d", len(ev.groups), len(ev.routes), depth))
	} else {
		outcome(verdict + " {" + cs.Opts.String() + "}")
	}
	return nil
}

var reFirstIdent = regexp.MustCompile(`^[A-Za-z_][A-Za-z0-9_]*`)

// rolesOf refines the class of a compile error about an identifier of the router package: how the identifier is
// used in Register (middleware of a group, middleware of a route, group variable).
func rolesOf(msg, routerSrc string) string {
	id := reFirstIdent.FindString(msg)
	if id == "" {
		return ""
	}
	q := regexp.QuoteMeta(id)
	ng := len(regexp.MustCompile(`\.Group\("[^"]*", `+q+`\(\)`).FindAllString(routerSrc, -1))
	nr := len(regexp.MustCompile(`append\(`+q+`\(\)`).FindAllString(routerSrc, -1))
	nv := len(regexp.MustCompile(`(?m)^\s*`+q+` := `).FindAllString(routerSrc, -1))
	var roles []string
	switch {
	case ng > 0 && nr > 0:
		roles = append(roles, "middleware-of-a-group-and-of-a-route")
	case ng > 1:
		roles = append(roles, "middleware-of-several-groups")
	case nr > 1:
		roles = append(roles, "middleware-of-several-routes")
	case ng+nr > 0:
		roles = append(roles, "middleware")
	}
	if nv > 0 {
		roles = append(roles, "group-variable")
	}
	return strings.Join(roles, "+")
}

func errMsg(err error) string {
	if te, ok := err.(types.Error); ok {
		return te.Msg
	}
	return err.Error()
}

func routeVerb(idlVerb string) string {
	if strings.EqualFold(idlVerb, "ANY") {
		return "Any"
	}
	return strings.ToUpper(idlVerb)
}

// ---------------------------------------------------------------------------------------
// evaluator for the closed statement forms of the router template
// ---------------------------------------------------------------------------------------

type grp struct {
	varName string
	mw      string
	base    string
	g       *route.RouterGroup
}

type rstmt struct {
	verb    string // GET ... Any
	rel     string
	full    string
	mw      string
	handler string // <import path>.<Name>
}

type evalResult struct {
	h        *server.Hertz
	log      *[]string
	groups   []*grp
	routes   []*rstmt
	regPanic string
}

type scope struct {
	parent *scope
	vars   map[string]*grp
}

func (s *scope) lookup(name string) *grp {
	for ; s != nil; s = s.parent {
		if g, ok := s.vars[name]; ok {
			return g
		}
	}
	return nil
}

var verbMethods = map[string]func(g *route.RouterGroup, p string, hs ...app.HandlerFunc) route.IRoutes{
	"GET":     (*route.RouterGroup).GET,
	"POST":    (*route.RouterGroup).POST,
	"PUT":     (*route.RouterGroup).PUT,
	"PATCH":   (*route.RouterGroup).PATCH,
	"DELETE":  (*route.RouterGroup).DELETE,
	"HEAD":    (*route.RouterGroup).HEAD,
	"OPTIONS": (*route.RouterGroup).OPTIONS,
	"Any":     (*route.RouterGroup).Any,
}

type evaluator struct {
	res     *evalResult
	imports map[string]string // alias -> import path
	funcs   map[string]bool   // package-level identifiers of the router file itself
}

func evaluate(rf *parsedFile) (*evalResult, error) {
	f := rf.ast
	ev := &evaluator{res: &evalResult{log: new([]string)}, imports: map[string]string{}, funcs: map[string]bool{}}
	for _, im := range f.Imports {
		p, _ := strconv.Unquote(im.Path.Value)
		alias := path.Base(p)
		if im.Name != nil {
			alias = im.Name.Name
		}
		ev.imports[alias] = p
	}
	var reg *ast.FuncDecl
	for _, d := range f.Decls {
		switch x := d.(type) {
		case *ast.FuncDecl:
			if x.Recv == nil && x.Name.Name == "Register" {
				reg = x
			} else {
				return nil, fmt.Errorf("router file declares func %s: outside the closed forms of the router template", x.Name.Name)
			}
		case *ast.GenDecl:
			if x.Tok != token.IMPORT {
				return nil, fmt.Errorf("router file has a %s declaration: outside the closed forms of the router template", x.Tok)
			}
		}
	}
	if reg == nil || reg.Body == nil {
		return nil, fmt.Errorf("router file has no func Register")
	}
	// func Register(r *server.Hertz)
	ps := reg.Type.Params.List
	if len(ps) != 1 || len(ps[0].Names) != 1 || reg.Type.Results != nil {
		return nil, fmt.Errorf("Register does not have the signature func(r *server.Hertz)")
	}
	star, ok := ps[0].Type.(*ast.StarExpr)
	if !ok {
		return nil, fmt.Errorf("Register parameter is not *server.Hertz")
	}
	sel, ok := star.X.(*ast.SelectorExpr)
	if !ok || sel.Sel.Name != "Hertz" {
		return nil, fmt.Errorf("Register parameter is not *server.Hertz")
	}
	if id, ok := sel.X.(*ast.Ident); !ok || ev.imports[id.Name] != "github.com/cloudwego/hertz/pkg/app/server" {
		return nil, fmt.Errorf("Register parameter is not *server.Hertz of github.com/cloudwego/hertz/pkg/app/server")
	}
	ev.res.h = server.New()
	top := &scope{vars: map[string]*grp{ps[0].Names[0].Name: {varName: ps[0].Names[0].Name, base: "/", g: &ev.res.h.Engine.RouterGroup}}}
	if err := ev.block(reg.Body.List, &scope{parent: top, vars: map[string]*grp{}}); err != nil {
		return nil, err
	}
	return ev.res, nil
}

func (ev *evaluator) block(list []ast.Stmt, sc *scope) error {
	for _, s := range list {
		if ev.res.regPanic != "" {
			return nil
		}
		switch x := s.(type) {
		case *ast.BlockStmt:
			if err := ev.block(x.List, &scope{parent: sc, vars: map[string]*grp{}}); err != nil {
				return err
			}
		case *ast.AssignStmt:
			if err := ev.groupStmt(x, sc); err != nil {
				return err
			}
		case *ast.ExprStmt:
			if err := ev.routeStmt(x, sc); err != nil {
				return err
			}
		default:
			return fmt.Errorf("statement %T in Register: outside the closed forms of the router template", s)
		}
	}
	return nil
}

// mwCall recognises `fMw()` and returns f.
func (ev *evaluator) mwCall(e ast.Expr) (string, error) {
	call, ok := e.(*ast.CallExpr)
	if !ok || len(call.Args) != 0 || call.Ellipsis != token.NoPos {
		return "", fmt.Errorf("expected a middleware call XMw(), found %T", e)
	}
	id, ok := call.Fun.(*ast.Ident)
	if !ok || !strings.HasSuffix(id.Name, "Mw") || len(id.Name) == 2 {
		return "", fmt.Errorf("expected a middleware call XMw(), found call of %T", call.Fun)
	}
	return strings.TrimSuffix(id.Name, "Mw"), nil
}

func strLit(e ast.Expr) (string, error) {
	bl, ok := e.(*ast.BasicLit)
	if !ok || bl.Kind != token.STRING {
		return "", fmt.Errorf("expected a string literal, found %T", e)
	}
	return strconv.Unquote(bl.Value)
}

// receiver recognises `y.M(` with y a variable in scope.
func (ev *evaluator) receiver(call *ast.CallExpr, sc *scope) (*grp, string, error) {
	sel, ok := call.Fun.(*ast.SelectorExpr)
	if !ok {
		return nil, "", fmt.Errorf("call of %T: outside the closed forms", call.Fun)
	}
	id, ok := sel.X.(*ast.Ident)
	if !ok {
		return nil, "", fmt.Errorf("method call on %T: outside the closed forms", sel.X)
	}
	g := sc.lookup(id.Name)
	if g == nil {
		return nil, "", fmt.Errorf("method call on %s, which is no group variable in scope", id.Name)
	}
	return g, sel.Sel.Name, nil
}

func (ev *evaluator) protect(f func()) {
	defer func() {
		if r := recover(); r != nil {
			ev.res.regPanic = fmt.Sprint(r)
		}
	}()
	f()
}

// x := y.Group("p", fMw()...)
func (ev *evaluator) groupStmt(a *ast.AssignStmt, sc *scope) error {
	if a.Tok != token.DEFINE || len(a.Lhs) != 1 || len(a.Rhs) != 1 {
		return fmt.Errorf("assignment with token %s: outside the closed forms", a.Tok)
	}
	lhs, ok := a.Lhs[0].(*ast.Ident)
	if !ok {
		return fmt.Errorf("assignment to %T: outside the closed forms", a.Lhs[0])
	}
	call, ok := a.Rhs[0].(*ast.CallExpr)
	if !ok {
		return fmt.Errorf("assignment of %T: outside the closed forms", a.Rhs[0])
	}
	parent, method, err := ev.receiver(call, sc)
	if err != nil {
		return err
	}
	if method != "Group" || len(call.Args) != 2 || call.Ellipsis == token.NoPos {
		return fmt.Errorf("x := y.%s(...) with %d arguments: outside the closed forms", method, len(call.Args))
	}
	rel, err := strLit(call.Args[0])
	if err != nil {
		return err
	}
	mw, err := ev.mwCall(call.Args[1])
	if err != nil {
		return err
	}
	if lhs.Name == "_" {
		return fmt.Errorf("group assigned to the blank identifier: outside the closed forms")
	}
	g := &grp{varName: lhs.Name, mw: mw}
	ev.protect(func() {
		g.g = parent.g.Group(rel, recorder(ev.res.log, mw))
		g.base = g.g.BasePath()
	})
	if ev.res.regPanic != "" {
		return nil
	}
	sc.vars[lhs.Name] = g
	ev.res.groups = append(ev.res.groups, g)
	return nil
}

// y.VERB("p", append(fMw(), pkg.H)...)
func (ev *evaluator) routeStmt(e *ast.ExprStmt, sc *scope) error {
	call, ok := e.X.(*ast.CallExpr)
	if !ok {
		return fmt.Errorf("expression statement %T: outside the closed forms", e.X)
	}
	g, verb, err := ev.receiver(call, sc)
	if err != nil {
		return err
	}
	reg := verbMethods[verb]
	if reg == nil || len(call.Args) != 2 || call.Ellipsis == token.NoPos {
		return fmt.Errorf("y.%s(...) with %d arguments: outside the closed forms", verb, len(call.Args))
	}
	rel, err := strLit(call.Args[0])
	if err != nil {
		return err
	}
	apnd, ok := call.Args[1].(*ast.CallExpr)
	if !ok || len(apnd.Args) != 2 || apnd.Ellipsis != token.NoPos {
		return fmt.Errorf("second argument of y.%s is not append(XMw(), pkg.H)", verb)
	}
	if id, ok := apnd.Fun.(*ast.Ident); !ok || id.Name != "append" || sc.lookup("append") != nil {
		return fmt.Errorf("second argument of y.%s is not a call of the builtin append", verb)
	}
	mw, err := ev.mwCall(apnd.Args[0])
	if err != nil {
		return err
	}
	hsel, ok := apnd.Args[1].(*ast.SelectorExpr)
	if !ok {
		return fmt.Errorf("handler argument %T is not pkg.H", apnd.Args[1])
	}
	pid, ok := hsel.X.(*ast.Ident)
	if !ok || sc.lookup(pid.Name) != nil || ev.imports[pid.Name] == "" {
		return fmt.Errorf("handler argument is not a function of an imported package")
	}
	r := &rstmt{verb: verb, rel: rel, mw: mw, handler: ev.imports[pid.Name] + "." + hsel.Sel.Name}
	ev.protect(func() {
		reg(g.g, rel, recorder(ev.res.log, mw), recorder(ev.res.log, r.handler))
	})
	if ev.res.regPanic != "" {
		return nil
	}
	r.full = joinFull(g.base, rel)
	ev.res.routes = append(ev.res.routes, r)
	return nil
}

// joinFull mirrors the documented path joining of RouterGroup (base path + relative path, one slash between,
// a trailing slash of the relative path is kept); it is cross-checked against Engine.Routes() by the caller
// because every route site must correspond to a declared, registered full path.
func joinFull(base, rel string) string {
	if rel == "" {
		return base
	}
	p := strings.TrimSuffix(base, "/") + "/" + strings.TrimPrefix(rel, "/")
	return p
}

// goToolIncludes reports whether `go build` for the current platform compiles the file (name suffixes _test, _GOOS,
// _GOARCH and build constraints), asking go/build itself with the generated content served from memory.
func goToolIncludes(p string, content []byte) bool {
	if strings.HasSuffix(p, "_test.go") {
		return false
	}
	ctx := build.Default
	ctx.OpenFile = func(string) (io.ReadCloser, error) { return io.NopCloser(bytes.NewReader(content)), nil }
	ok, err := ctx.MatchFile(path.Dir(p), path.Base(p))
	return err != nil || ok
}
