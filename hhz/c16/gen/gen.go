// Package gen is the worker side of check C16: ONE run of the hz generator per process.
//
// It is kept free of hertz imports so that the dedicated worker binary (cmd/c16gen) starts in a few
// milliseconds; the verifhz binary can also act as worker (slower start, same behaviour).
package gen

import (
	"bufio"
	"encoding/json"
	"fmt"
	"os"
	"path/filepath"
	"sort"
	"strings"

	"github.com/cloudwego/hertz/cmd/hz/generator"
	"github.com/cloudwego/hertz/cmd/hz/meta"
	hzlogs "github.com/cloudwego/hertz/cmd/hz/util/logs"
)

// EnvJob carries the JSON job of a worker process.
const EnvJob = "VERIF_C16_JOB"

// ProjPackage is the go module of the generated project unless a job says otherwise.
const ProjPackage = "example.com/proj"

// Route is one declared method: HTTP verb annotation, path and handler (IDL function) name.
type Route struct {
	Verb string `json:"verb"` // GET, POST, ANY
	Path string `json:"path"`
	Name string `json:"name"`
}

// Opts are the generator options.
type Opts struct {
	Sort     bool `json:"sort_router"`
	Snake    bool `json:"snake_style_middleware"`
	ByMethod bool `json:"handler_by_method"`
	GenPath  bool `json:"handler_path_dirs,omitempty"` // handler-by-method only: methods alternate between handler_path x/api and y/api
}

func (o Opts) String() string {
	b := func(x bool) string {
		if x {
			return "1"
		}
		return "0"
	}
	return "sort=" + b(o.Sort) + ",snake=" + b(o.Snake) + ",by_method=" + b(o.ByMethod) + ",handler_path=" + b(o.GenPath)
}

// Case is a replayable case.
type Case struct {
	Routes []Route `json:"routes"`
	Opts   Opts    `json:"opts"`
	// Before > 0: an update. The project was generated before (hz new, its own process, files written to disk) from the
	// first Before routes; the case is the second run (hz update, its own process, same directory) with all the routes.
	// What is validated is the project directory as it stands after the second run.
	Before int `json:"before,omitempty"`
}

type Job struct {
	Case Case   `json:"case"`
	Proj string `json:"proj,omitempty"`
	// Persist: write the generated files into the working directory (the process was started in the project directory);
	// Collect: answer with every .go file found below the working directory afterwards instead of the files of this run
	Persist bool `json:"persist,omitempty"`
	Collect bool `json:"collect,omitempty"`
}

type File struct {
	Path    string `json:"path"`
	Content string `json:"content"`
	Tpl     string `json:"tpl"`
}

type Result struct {
	Err   string `json:"err,omitempty"`   // Generate / GetFormatAndExcludedFiles returned an error
	Panic string `json:"panic,omitempty"` // the generator panicked
	Files []File `json:"files"`
}

// HandlerDirOf: the handler_path directory of the n-th distinct handler name under the GenPath option.
func HandlerDirOf(nameIndex int) string {
	if nameIndex%2 == 0 {
		return "x/api"
	}
	return "y/api"
}

// Generate drives the generator the way thrift/plugin.go and protobuf/plugin.go do.
func Generate(cs Case, proj string) (res Result) { return generate(cs, proj, false, false) }

func generate(cs Case, proj string, persist, collect bool) (res Result) {
	defer func() {
		if r := recover(); r != nil {
			res.Panic = fmt.Sprint(r)
		}
	}()
	if proj == "" {
		proj = ProjPackage
	}
	hzlogs.SetLevel(hzlogs.LevelError)
	g := generator.HttpPackageGenerator{
		ProjPackage:          proj,
		HandlerDir:           meta.HandlerDir,
		RouterDir:            meta.RouterDir,
		ModelDir:             meta.ModelDir,
		CmdType:              map[bool]string{false: meta.CmdNew, true: meta.CmdUpdate}[collect],
		SortRouter:           cs.Opts.Sort,
		SnakeStyleMiddleware: cs.Opts.Snake,
		HandlerByMethod:      cs.Opts.ByMethod,
	}
	generator.SetDefaultTemplateConfig()
	first := map[string]int{}
	var ms []*generator.HttpMethod
	for _, r := range cs.Routes {
		idx, seen := first[r.Name]
		if !seen {
			idx = len(first)
			first[r.Name] = idx
		}
		m := &generator.HttpMethod{
			Name:            r.Name,
			HTTPMethod:      r.Verb,
			Path:            r.Path,
			RequestTypeName: "struct{}",
			ReturnTypeName:  "struct{}",
			GenHandler:      !seen,
		}
		if cs.Opts.ByMethod && cs.Opts.GenPath {
			m.OutputDir = HandlerDirOf(idx)
		}
		ms = append(ms, m)
	}
	pkg := &generator.HttpPackage{
		IdlName:  "api.thrift",
		Package:  "api",
		Services: []*generator.Service{{Name: "Svc", Methods: ms}},
	}
	if err := g.Generate(pkg); err != nil {
		res.Err = "Generate: " + err.Error()
		return res
	}
	files, err := g.GetFormatAndExcludedFiles()
	if err != nil {
		res.Err = "GetFormatAndExcludedFiles: " + err.Error()
		return res
	}
	tpl := map[string]string{}
	for _, f := range files {
		res.Files = append(res.Files, File{Path: f.Path, Content: f.Content, Tpl: f.FileTplName})
		tpl[filepath.Clean(f.Path)] = f.FileTplName
	}
	if persist {
		if err := g.Persist(); err != nil {
			res.Err = "Persist: " + err.Error()
			return res
		}
	}
	if collect {
		res.Files = nil
		err := filepath.Walk(".", func(p string, info os.FileInfo, err error) error {
			if err != nil || info.IsDir() || !strings.HasSuffix(p, ".go") {
				return err
			}
			b, err := os.ReadFile(p)
			if err != nil {
				return err
			}
			p = filepath.ToSlash(filepath.Clean(p))
			res.Files = append(res.Files, File{Path: p, Content: string(b), Tpl: tpl[p]})
			return nil
		})
		if err != nil {
			res.Err = "collect: " + err.Error()
		}
		sort.Slice(res.Files, func(i, j int) bool { return res.Files[i].Path < res.Files[j].Path })
	}
	return res
}

// WorkerMain runs the job found in the environment, prints the result and returns. The job "batch" (only in a
// binary built with the reset overlay) serves one job per input line, resetting the generator state before each.
func WorkerMain() {
	if os.Getenv(EnvJob) == "batch" {
		batchMain()
		return
	}
	var jb Job
	if err := json.Unmarshal([]byte(os.Getenv(EnvJob)), &jb); err != nil {
		fmt.Fprintln(os.Stderr, "c16 worker: bad job:", err)
		os.Exit(4)
	}
	res := generate(jb.Case, jb.Proj, jb.Persist, jb.Collect)
	b, _ := json.Marshal(res)
	os.Stdout.WriteString("R " + string(b) + "\n")
}

func batchMain() {
	if !resetState() {
		fmt.Fprintln(os.Stderr, "c16 worker: batch mode needs the reset overlay")
		os.Exit(5)
	}
	in := bufio.NewReaderSize(os.Stdin, 1<<16)
	out := bufio.NewWriterSize(os.Stdout, 1<<16)
	for {
		line, err := in.ReadBytes('\n')
		if len(line) > 1 {
			var jb Job
			if e := json.Unmarshal(line, &jb); e != nil {
				fmt.Fprintln(os.Stderr, "c16 worker: bad job:", e)
				os.Exit(4)
			}
			resetState()
			res := Generate(jb.Case, jb.Proj)
			b, _ := json.Marshal(res)
			out.WriteString("R ")
			out.Write(b)
			out.WriteByte('\n')
			out.Flush()
		}
		if err != nil {
			return
		}
	}
}
