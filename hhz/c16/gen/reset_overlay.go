//go:build c16overlay

package gen

import "github.com/cloudwego/hertz/cmd/hz/generator"

// resetState puts the generator's package-level state back to that of a fresh hz process. VerifResetState does
// not exist in /repo: the check injects it when it builds the batch worker (go build -overlay, see c16.buildWorker).
func resetState() bool {
	generator.VerifResetState()
	return true
}
