//go:build !c16overlay

package gen

// resetState: without the overlay there is no way to reset the generator; only one program per process is allowed.
func resetState() bool { return false }
