package c16

import (
	"fmt"
	"strings"
)

// ---------------------------------------------------------------------------------------
// the bounded universe: families of ordered route lists x generator options
// ---------------------------------------------------------------------------------------

// paths over an alphabet: '/' plus all paths of 1..depth segments, catch-all segments only last,
// each (not ending in a catch-all) also with a trailing slash when trailing is set.
func pathsOver(alpha []string, depth int, trailing, root bool) []string {
	var out []string
	if root {
		out = append(out, "/")
	}
	var rec func(prefix string, d int)
	rec = func(prefix string, d int) {
		for _, s := range alpha {
			p := prefix + "/" + s
			out = append(out, p)
			if strings.HasPrefix(s, "*") {
				continue
			}
			if trailing {
				out = append(out, p+"/")
			}
			if d+1 < depth {
				rec(p, d+1)
			}
		}
	}
	rec("", 0)
	return out
}

type pv struct{ verb, path string }

// name schemes
const (
	nDistinct = iota // H1, H2, ...
	nSame            // one IDL function carrying all annotations
	nSegment         // named after the last path segment: handler name = a group name after mangling
	nCase            // Abc, AbC, Abc0, AbC0: equal after lower-casing (but distinct handler file names), explicit digit suffixes
	nFile            // PingTest, ListWindows, GetArm64, PushIos: snake-cased they end in a suffix the go tool gives a meaning (_test, _GOOS, _GOARCH)
	nSameFile        // GetURL, GetUrl, PingTest, PingTestHandler: different handler names whose snake-cased file names coincide
	nArch            // GetPPC, PushSparc64, AdS390, GetRiscv: GOARCH values go/build knows although no current port uses them
)

var schemeName = []string{"distinct", "same", "segment", "case-digit", "file-suffix", "same-file", "old-goarch-suffix"}

func segmentName(p string) string {
	segs := strings.Split(strings.Trim(p, "/"), "/")
	last := segs[len(segs)-1]
	last = strings.TrimLeft(last, ":*")
	if last == "" {
		return "Root"
	}
	last = strings.ReplaceAll(last, "-", "_")
	return strings.ToUpper(last[:1]) + last[1:]
}

func nameFor(scheme, i int, p string) string {
	switch scheme {
	case nSame:
		return "H1"
	case nSegment:
		return segmentName(p)
	case nCase:
		return []string{"Abc", "AbC", "Abc0", "AbC0"}[i%4]
	case nFile:
		return []string{"PingTest", "ListWindows", "GetArm64", "PushIos"}[i%4]
	case nSameFile:
		return []string{"GetURL", "GetUrl", "PingTest", "PingTestHandler"}[i%4]
	case nArch:
		return []string{"GetPPC", "PushSparc64", "AdS390", "GetRiscv"}[i%4]
	}
	return fmt.Sprintf("H%d", i+1)
}

func optionSets(genPath bool) []Opts {
	var out []Opts
	for i := 0; i < 8; i++ {
		out = append(out, Opts{Sort: i&1 != 0, Snake: i&2 != 0, ByMethod: i&4 != 0})
	}
	if genPath {
		for i := 0; i < 4; i++ {
			out = append(out, Opts{Sort: i&1 != 0, Snake: i&2 != 0, ByMethod: true, GenPath: true})
		}
	}
	return out
}

type family struct {
	name  string
	lists [][]pv // ordered lists of distinct (verb, path)
	names []int  // name schemes applied to every list
	opts  []Opts
	// update: every list is generated twice in one project directory - first its first before routes (every
	// 1 <= before < len), then all of them - and the directory is validated after the second run
	update bool
}

func (f *family) size() int {
	n := len(f.lists) * len(f.names) * len(f.opts)
	if f.update {
		n *= len(f.lists[0]) - 1
	}
	return n
}

// at returns the i-th case: lists vary slowest, options fastest.
func (f *family) at(i int) Case {
	before := 0
	if f.update {
		k := len(f.lists[0]) - 1
		before = 1 + i%k
		i /= k
	}
	cs := f.at0(i)
	cs.Before = before
	return cs
}

func (f *family) at0(i int) Case {
	o := f.opts[i%len(f.opts)]
	i /= len(f.opts)
	sch := f.names[i%len(f.names)]
	l := f.lists[i/len(f.names)]
	routes := make([]Route, len(l))
	for j, x := range l {
		routes[j] = Route{Verb: x.verb, Path: x.path, Name: nameFor(sch, j, x.path)}
	}
	return Case{Routes: routes, Opts: o}
}

// sequences: all ordered lists of k distinct elements of items.
func sequences(items []pv, k int) [][]pv {
	var out [][]pv
	cur := make([]pv, 0, k)
	used := make([]bool, len(items))
	var rec func()
	rec = func() {
		if len(cur) == k {
			out = append(out, append([]pv(nil), cur...))
			return
		}
		for i, it := range items {
			if used[i] {
				continue
			}
			used[i] = true
			cur = append(cur, it)
			rec()
			cur = cur[:len(cur)-1]
			used[i] = false
		}
	}
	rec()
	return out
}

func cross(verbs, paths []string) []pv {
	var out []pv
	for _, p := range paths {
		for _, v := range verbs {
			out = append(out, pv{v, p})
		}
	}
	return out
}

func describe(what string, items []pv, k int, schemes []int, opts []Opts) string {
	var sn []string
	for _, s := range schemes {
		sn = append(sn, schemeName[s])
	}
	return fmt.Sprintf("%s: ordered lists of %d distinct routes out of %d (verb,path) pairs; names %s; %d option combinations", what, k, len(items), strings.Join(sn, "/"), len(opts))
}

var (
	alphaStruct    = []string{"a", "b"}
	alphaCollision = []string{"a", "A", "a-b", "a_b", ":id", "id", "v1", "*rest"}
)

func families(thorough bool) []*family {
	var fs []*family
	add := func(what string, items []pv, k int, schemes []int, opts []Opts) {
		fs = append(fs, &family{name: describe(what, items, k, schemes, opts), lists: sequences(items, k), names: schemes, opts: opts})
	}
	all8 := optionSets(false)
	genPath := optionSets(true)[8:]
	get := []string{"GET"}
	getPost := []string{"GET", "POST"}
	allVerbs := []string{"GET", "POST", "ANY"}
	small := cross(getPost, pathsOver(alphaStruct, 2, false, true)) // 7 paths x {GET,POST}
	deep := cross(get, []string{"/a", "/a/b", "/a/b/a", "/a/b/b", "/a/a/a", "/b/b/a", "/a/b/a/"})
	// the empty service (no HTTP-annotated method) and handler names that turn into special file names
	fs = append(fs, &family{name: "the empty route set x 8 option sets", lists: [][]pv{{}}, names: []int{nDistinct}, opts: all8})
	add("pairs, handler names with go-tool file suffixes / coinciding file names, structure alphabet, depth<=2, root", small, 2, []int{nFile, nSameFile, nArch}, all8)
	upd := func(what string, items []pv, k int, schemes []int, opts []Opts) {
		fs = append(fs, &family{name: "UPDATE (hz new with a prefix of the list, then hz update with the whole list, one process each): " + describe(what, items, k, schemes, opts), lists: sequences(items, k), names: schemes, opts: opts, update: true})
	}
	updItems := cross(get, []string{"/", "/a", "/a/b", "/b", "/a-b", "/a_b/c", "/v1/item", "/order-item", "/a_mwz/q"})
	if !thorough {
		upd("pairs", updItems, 2, []int{nDistinct, nSegment}, all8[:4])
		// an update that adds two methods at once (handler-by-service layout: both go into one existing file)
		upd("triples, small", cross(get, []string{"/", "/a", "/a/b", "/b"}), 3, []int{nDistinct}, all8)
	} else {
		upd("pairs", cross(getPost, []string{"/", "/a", "/a/b", "/b", "/a-b", "/a_b/c", "/v1/item", "/order-item", "/a/:id"}), 2, []int{nDistinct, nSegment, nSame}, all8)
		upd("triples", updItems, 3, []int{nDistinct, nSegment}, all8)
	}
	if !thorough {
		add("singles, collision alphabet, depth<=2, trailing-slash variants, root", cross([]string{"GET", "ANY"}, pathsOver(alphaCollision, 2, true, true)), 1, []int{nSegment}, all8)
		add("pairs, structure alphabet, depth<=2, trailing-slash variants, root", cross(allVerbs, pathsOver(alphaStruct, 2, true, true)), 2, []int{nDistinct}, all8)
		add("pairs, name schemes, structure alphabet, depth<=2, root", small, 2, []int{nSame, nSegment, nCase}, all8)
		add("pairs, handler_path directories, structure alphabet, depth<=2, root", small, 2, []int{nDistinct, nSame}, genPath)
		add("pairs, collision alphabet without v1/*rest, depth<=2", cross(get, pathsOver(alphaCollision[:6], 2, false, false)), 2, []int{nSegment}, all8)
		add("triples, structure alphabet, depth<=2, root", small, 3, []int{nDistinct}, all8)
		add("pairs, deep chains", deep, 2, []int{nDistinct}, all8)
		add("triples, deep chains", deep, 3, []int{nDistinct}, all8)
		return fs
	}
	add("singles, collision alphabet, depth<=3, trailing-slash variants, root", cross([]string{"GET", "ANY"}, pathsOver(alphaCollision, 3, true, true)), 1, []int{nSegment, nDistinct}, all8)
	add("pairs, structure alphabet, depth<=3, trailing-slash variants, root", cross(allVerbs, pathsOver(alphaStruct, 3, true, true)), 2, []int{nDistinct}, all8)
	add("pairs, name schemes, structure alphabet, depth<=2, trailing-slash variants, root", cross(getPost, pathsOver(alphaStruct, 2, true, true)), 2, []int{nSame, nSegment, nCase}, all8)
	add("pairs, handler_path directories, structure alphabet, depth<=2, root", small, 2, []int{nDistinct, nSame}, genPath)
	add("triples, handler_path directories, structure alphabet, depth<=2, root", small, 3, []int{nDistinct}, genPath)
	add("pairs, collision alphabet, depth<=2, trailing-slash variants, root", cross(get, pathsOver(alphaCollision, 2, true, true)), 2, []int{nSegment}, all8)
	add("pairs, name schemes, collision alphabet, depth<=2", cross(get, pathsOver(alphaCollision, 2, false, false)), 2, []int{nSame, nCase}, all8)
	add("triples, structure alphabet, depth<=2, trailing-slash variants, root", cross(getPost, pathsOver(alphaStruct, 2, true, true)), 3, []int{nDistinct}, all8)
	add("triples, with ANY, structure alphabet, depth<=2, root", cross(allVerbs, pathsOver(alphaStruct, 2, false, true)), 3, []int{nDistinct}, all8)
	add("triples, name schemes, structure alphabet, depth<=2, root", small, 3, []int{nSame, nSegment, nCase}, all8)
	add("triples, collision alphabet {a,a-b,a_b,:id}, depth<=2", cross(get, pathsOver([]string{"a", "a-b", "a_b", ":id"}, 2, false, false)), 3, []int{nSegment}, all8)
	add("pairs, deep chains", deep, 2, []int{nDistinct}, all8)
	add("triples, deep chains", deep, 3, []int{nDistinct}, all8)
	add("4-lists, deep chains", deep, 4, []int{nDistinct}, all8)
	add("4-lists, structure alphabet, depth<=2, root", small, 4, []int{nDistinct}, all8)
	return fs
}
