package c16

import (
	"fmt"
	"os"
	"os/exec"
	"path/filepath"
	"regexp"
	"sort"
	"strings"
	"sync"

	"verifh/mc"
)

const (
	buildStride    = 1009 // every buildStride-th case of a family goes into the real build ...
	buildSample    = 400  // ... up to this many,
	buildViolating = 80   // plus up to this many cases on which the in-memory validation reported a violation
)

// realBuild (thorough): a sample of programs - including every kind that go/types rejected - is generated once
// more (fresh process each, project package example.com/proj/p<k>), written into ONE scratch module outside /repo
// and /verif, and compiled with the real `go build ./...`. The compiler's verdict per program must agree with
// the go/types verdict of the in-memory validation; a disagreement is a defect of the harness, not of hz.
func realBuild(c *mc.Ctx, cases []Case) error {
	if err := loadExports(); err != nil {
		return err
	}
	dir, err := os.MkdirTemp("", "verif-c16-build-")
	if err != nil {
		return err
	}
	defer os.RemoveAll(dir)
	const mod = "example.com/proj"
	gomod := "module " + mod + "\n\ngo 1.19\n\nrequire github.com/cloudwego/hertz v0.0.0\n\nreplace github.com/cloudwego/hertz => /repo\n"
	if err := os.WriteFile(filepath.Join(dir, "go.mod"), []byte(gomod), 0o644); err != nil {
		return err
	}
	if sum, err := os.ReadFile(filepath.Join(moduleDir(), "go.sum")); err == nil {
		os.WriteFile(filepath.Join(dir, "go.sum"), sum, 0o644)
	}
	// in-memory verdict per program (go/types), and the files on disk
	typesOK := make([]bool, len(cases))
	skipped := make([]bool, len(cases))
	var mu sync.Mutex
	var firstErr error
	c.ParallelFor(len(cases), func(k int) {
		cs := cases[k]
		proj := fmt.Sprintf("%s/p%d", mod, k)
		res, err := spawn(cs, proj)
		if err == nil && (res.Err != "" || res.Panic != "") {
			skipped[k] = true // generator failure: nothing to build
			return
		}
		if err == nil {
			for _, f := range res.Files {
				p := filepath.Join(dir, fmt.Sprintf("p%d", k), filepath.FromSlash(f.Path))
				if err = os.MkdirAll(filepath.Dir(p), 0o755); err != nil {
					break
				}
				if err = os.WriteFile(p, []byte(f.Content), 0o644); err != nil {
					break
				}
			}
		}
		if err == nil {
			// verdict of the in-memory validation on the program with the default project package
			var st stats
			ok := true
			err = runCase(cs, true, &st, func(key, msg string) {
				if strings.HasPrefix(key, "invalid-go") || strings.HasPrefix(key, "parse-error") {
					ok = false
				}
			})
			typesOK[k] = ok
		}
		if err != nil {
			mu.Lock()
			if firstErr == nil {
				firstErr = err
			}
			mu.Unlock()
		}
	})
	if firstErr != nil {
		return firstErr
	}
	cmd := exec.Command("go", "build", "-gcflags=-e", "./...")
	cmd.Dir = dir
	cmd.Env = goEnv()
	out, _ := cmd.CombinedOutput()
	failed := map[int]string{}
	re := regexp.MustCompile(`^(?:\./)?p(\d+)/[^:]+:\d+:\d+: (.*)$`)
	rePkg := regexp.MustCompile(`^# example\.com/proj/p(\d+)/`)
	unparsed := ""
	for _, line := range strings.Split(string(out), "\n") {
		if m := re.FindStringSubmatch(line); m != nil {
			var k int
			fmt.Sscanf(m[1], "%d", &k)
			if failed[k] == "" {
				failed[k] = m[2]
			}
			continue
		}
		if rePkg.MatchString(line) || strings.TrimSpace(line) == "" || strings.HasPrefix(line, "\t") {
			continue
		}
		if unparsed == "" {
			unparsed = line
		}
	}
	if unparsed != "" {
		return fmt.Errorf("unexpected go build output: %s", unparsed)
	}
	var disagree []string
	nOK, nBad := 0, 0
	for k := range cases {
		if skipped[k] {
			continue
		}
		_, bad := failed[k]
		if bad {
			nBad++
		} else {
			nOK++
		}
		if bad == typesOK[k] {
			disagree = append(disagree, fmt.Sprintf("%s: go/types says valid=%v, go build says: %q", caseString(cases[k]), typesOK[k], failed[k]))
		}
	}
	sort.Strings(disagree)
	c.Add("real_go_build_programs", int64(len(cases)))
	c.Add("real_go_build_programs_compiled", int64(nOK))
	c.Add("real_go_build_programs_rejected", int64(nBad))
	if len(disagree) > 0 {
		return fmt.Errorf("%d programs on which go/types and the real compiler disagree, first: %s", len(disagree), disagree[0])
	}
	return nil
}
