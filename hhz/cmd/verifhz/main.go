// Command verifhz runs the checks that need the hz generator module (cmd/hz is a separate Go module):
// verifhz check <id> [--tier quick|thorough] | verifhz replay <file> | verifhz list
package main

import (
	"encoding/json"
	"fmt"
	"os"
	"strings"

	"verifh/mc"
	"verifhhz/c16"
)

var registry = map[string]*mc.Check{
	"C16": c16.Check,
}

func usage() {
	fmt.Println("usage: verifhz check <id> [--tier quick|thorough] | verifhz replay <file> | verifhz list")
	os.Exit(2)
}

func main() {
	if len(os.Args) < 2 {
		usage()
	}
	switch os.Args[1] {
	case "list":
		for id := range registry {
			fmt.Println(id)
		}
	case "check":
		if len(os.Args) < 3 {
			usage()
		}
		id := strings.ToUpper(os.Args[2])
		tier := os.Getenv("VERIF_TIER")
		for i := 3; i < len(os.Args); i++ {
			if os.Args[i] == "--tier" && i+1 < len(os.Args) {
				tier = os.Args[i+1]
			}
		}
		if tier != "thorough" {
			tier = "quick"
		}
		ch := registry[id]
		if ch == nil {
			fmt.Println("unknown check", id)
			os.Exit(2)
		}
		os.Exit(mc.RunCheck(ch, tier))
	case "replay":
		if len(os.Args) < 3 {
			usage()
		}
		b, err := os.ReadFile(os.Args[2])
		if err != nil {
			fmt.Println(err)
			os.Exit(2)
		}
		var rf struct {
			Property string `json:"property"`
		}
		json.Unmarshal(b, &rf)
		ch := registry[rf.Property]
		if ch == nil || ch.Replay == nil {
			fmt.Println("no replay for property", rf.Property)
			os.Exit(2)
		}
		os.Exit(mc.RunReplay(ch, os.Args[2]))
	default:
		usage()
	}
}
