// Command c16gen is the lean worker of check C16: one hz generator run per process (job in VERIF_C16_JOB).
// It is built on demand by the check itself (go build ./cmd/c16gen); verifhz falls back to re-executing itself.
package main

import (
	"fmt"
	"os"

	"verifhhz/c16/gen"
)

func main() {
	if os.Getenv(gen.EnvJob) == "" {
		fmt.Println("c16gen: no job in", gen.EnvJob)
		os.Exit(2)
	}
	gen.WorkerMain()
}
